----------------------------- MODULE Trace_C05 -----------------------------
(***************************************************************************)
(* Basis constructions recorded from the real code on larger inputs.       *)
(*   Build(elems, res)      a basis built from elems (in that order, with  *)
(*                          repetitions) came out as res                   *)
(*   Ident(a, b, same)      two class objects were requested for the       *)
(*                          pattern lists a and b; `same` = they are the   *)
(*                          same Python object                             *)
(*   Canon(a, b, eq, heq)   two bases OF THE SAME KIND were built from the *)
(*                          pattern lists a and b (any container, order,   *)
(*                          repetition); eq / heq = the objects are == /   *)
(*                          have equal hashes: canonical means == exactly  *)
(*                          when the minimal sets coincide                 *)
(*   Class(elems, n, count) Av(elems).count(n)                             *)
(***************************************************************************)
EXTENDS Mesh, Json, IOUtils
Trace == JsonDeserialize(IOEnv.TRACE_FILE)
VARIABLES l, bad
Ev == Trace[l]
Flag(clause) == Append(bad, [i |-> l, clause |-> clause])
ToSetOf(s) == {s[i] : i \in DOMAIN s}
AsMeshSet(s) == {MMesh(s[i].p, ToSetOf(s[i].R)) : i \in DOMAIN s}
Below(a, b) == a # b /\ MOccInMesh(a, b) # {}
Minimal(S) == {a \in S : ~\E b \in S : Below(b, a)}
TInit == l = 1 /\ bad = <<>>
TBuild == /\ Ev.op = "Build"
          /\ bad' = IF AsMeshSet(Ev.res) = Minimal(AsMeshSet(Ev.elems)) /\ Len(Ev.res) = Cardinality(AsMeshSet(Ev.res))
                    THEN bad ELSE Flag("ResultIsMinimal")
TIdent == /\ Ev.op = "Ident"
          /\ bad' = IF Ev.same = (Minimal(AsMeshSet(Ev.a)) = Minimal(AsMeshSet(Ev.b))) THEN bad ELSE Flag("EqualBasesSameObject")
TCanon == /\ Ev.op = "Canon"
          /\ LET same == Minimal(AsMeshSet(Ev.a)) = Minimal(AsMeshSet(Ev.b)) IN
             bad' = IF Ev.eq = same /\ (same => Ev.heq) THEN bad ELSE Flag("OrderIndependent")
TClass == /\ Ev.op = "Class"
          /\ bad' = IF Ev.count = Cardinality(MAvLevel(AsMeshSet(Ev.elems), Ev.n)) THEN bad ELSE Flag("SameClass")
TNext == l <= Len(Trace) /\ l' = l + 1 /\ (TBuild \/ TIdent \/ TCanon \/ TClass)
TraceDone == l = Len(Trace) + 1 => PrintT(ToJson([verdict |-> bad, drift |-> <<>>, n |-> Len(Trace)]))
=============================================================================
