----------------------------- MODULE Trace_C04 -----------------------------
(***************************************************************************)
(* Recorded symmetry operations of the real code on larger objects, judged *)
(* against the plane maps of D4 (the actions of C04_Symmetry).             *)
(*   Sym(op,k,p,R,resp,resR)   image of a permutation / mesh pattern       *)
(*   Equiv(op,k,p,R,q,before,after)  containment before and after applying *)
(*                                   the same symmetry to both sides       *)
(*   Orbit(p,R,res)            all_syms() of a permutation / mesh pattern  *)
(*   SetImage(name,k,S,res)    a *_set helper applied to a collection      *)
(*   SetOrbit(S,strict,res)    all_symmetry_sets(S); strict: each member   *)
(*                             must also be the sorted tuple of its set    *)
(*   LexMin(S,res)             lex_min(S)                                  *)
(* S is the collection as it was handed over (any container, any order).   *)
(***************************************************************************)
EXTENDS C04_Symmetry, IOUtils

Trace == JsonDeserialize(IOEnv.TRACE_FILE)
VARIABLES l, bad
Ev == Trace[l]
Flag(clause) == Append(bad, [i |-> l, clause |-> clause])
ToSetOf(s) == {s[i] : i \in DOMAIN s}
SymOf(op, k) == IF op = "rotate" THEN DRot(k) ELSE OpSym(op)

TInit == l = 1 /\ bad = <<>> /\ perm = <<>> /\ shade = {} /\ pset = {} /\ last = NoOp
TSym == /\ Ev.op = "Sym"
        /\ UNCHANGED vars
        /\ LET g == SymOf(Ev.name, Ev.k) IN
           bad' = IF Ev.resp = DSym(g, Ev.p) /\ ToSetOf(Ev.resR) = DSymCells(g, Len(Ev.p), ToSetOf(Ev.R))
                  THEN bad ELSE Flag("ImageIsPlaneMap")
TEquiv == /\ Ev.op = "Equiv"
          /\ UNCHANGED vars
          /\ LET c == MContains(Ev.q, MMesh(Ev.p, ToSetOf(Ev.R))) IN
             bad' = IF Ev.before = c /\ Ev.after = c THEN bad ELSE Flag("ContainmentEquivariant")
AsM(m) == MMesh(m.p, ToSetOf(m.R))
TOrbit == /\ Ev.op = "Orbit"
          /\ UNCHANGED vars
          /\ bad' = IF /\ {AsM(Ev.res[i]) : i \in DOMAIN Ev.res} = DOrbitMesh(MMesh(Ev.p, ToSetOf(Ev.R)))
                       /\ \A i, j \in DOMAIN Ev.res : i # j => AsM(Ev.res[i]) # AsM(Ev.res[j])
                    THEN bad ELSE Flag("AllSymsIsOrbit")
TSetImage == /\ Ev.op = "SetImage"
             /\ UNCHANGED vars
             /\ bad' = IF ToSetOf(Ev.res) = DSymSet(SymOf(Ev.name, Ev.k), ToSetOf(Ev.S)) THEN bad ELSE Flag("ImageIsPlaneMap")
TSetOrbit == /\ Ev.op = "SetOrbit"
             /\ UNCHANGED vars
             /\ bad' = IF /\ {ToSetOf(Ev.res[i]) : i \in DOMAIN Ev.res} = DOrbitSet(ToSetOf(Ev.S))
                          /\ Ev.strict => (\A a \in DOMAIN Ev.res : Ev.res[a] = DSortedTuple(ToSetOf(Ev.res[a])))
                          /\ Ev.strict => (\A a, b \in DOMAIN Ev.res : a # b => Ev.res[a] # Ev.res[b])
                       THEN bad ELSE Flag("AllSymmetrySetsIsOrbit")
TLexMin == /\ Ev.op = "LexMin"
           /\ UNCHANGED vars
           /\ bad' = IF Ev.res = DLexMin(ToSetOf(Ev.S)) THEN bad ELSE Flag("LexMinIsOrbitMinimum")
TNext == l <= Len(Trace) /\ l' = l + 1 /\ (TSym \/ TEquiv \/ TOrbit \/ TSetImage \/ TSetOrbit \/ TLexMin)
TraceDone == l = Len(Trace) + 1 => PrintT(ToJson([verdict |-> bad, drift |-> <<>>, n |-> Len(Trace)]))
=============================================================================
