----------------------------- MODULE Trace_C04 -----------------------------
(***************************************************************************)
(* Recorded symmetry operations of the real code on larger objects, judged *)
(* against the plane maps of D4 (the actions of C04_Symmetry).             *)
(*   Sym(op,k,p,R,resp,resR)   image of a permutation / mesh pattern       *)
(*   Equiv(op,k,p,R,q,before,after)  containment before and after applying *)
(*                                   the same symmetry to both sides       *)
(***************************************************************************)
EXTENDS C04_Symmetry, IOUtils

Trace == JsonDeserialize(IOEnv.TRACE_FILE)
VARIABLES l, bad
Ev == Trace[l]
Flag(clause) == Append(bad, [i |-> l, clause |-> clause])
ToSetOf(s) == {s[i] : i \in DOMAIN s}
SymOf(op, k) == IF op = "rotate" THEN DRot(k) ELSE OpSym(op)

TInit == l = 1 /\ bad = <<>> /\ perm = <<>> /\ shade = {} /\ pset = {} /\ last = NoOp
TSym == /\ Ev.op = "Sym"
        /\ UNCHANGED vars
        /\ LET g == SymOf(Ev.name, Ev.k) IN
           bad' = IF Ev.resp = DSym(g, Ev.p) /\ ToSetOf(Ev.resR) = DSymCells(g, Len(Ev.p), ToSetOf(Ev.R))
                  THEN bad ELSE Flag("ImageIsPlaneMap")
TEquiv == /\ Ev.op = "Equiv"
          /\ UNCHANGED vars
          /\ LET c == MContains(Ev.q, MMesh(Ev.p, ToSetOf(Ev.R))) IN
             bad' = IF Ev.before = c /\ Ev.after = c THEN bad ELSE Flag("ContainmentEquivariant")
TNext == l <= Len(Trace) /\ l' = l + 1 /\ (TSym \/ TEquiv)
TraceDone == l = Len(Trace) + 1 => PrintT(ToJson([verdict |-> bad, drift |-> <<>>, n |-> Len(Trace)]))
=============================================================================
