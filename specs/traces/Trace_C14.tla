----------------------------- MODULE Trace_C14 -----------------------------
(***************************************************************************)
(* Calls of the real pin-word code on longer words, judged by the pin      *)
(* machine's definitions.                                                  *)
(*   Perm(w, res)          pinword_to_perm                                 *)
(*   Quad(w, i, res)       quadrant                                        *)
(*   Contains(w, s, res)   exists u in perm_to_pinword_mapping[s] with     *)
(*                         pinword_contains(w, u);  truth: s contained in  *)
(*                         PinPerm(w).  A wrong answer that the deviation  *)
(*                         FactorsMayTouch explains is marked "dev".       *)
(* Single-purpose events for words beyond the machine's bound (words are   *)
(* sequences of one-letter strings, indices 0-based as in the code):       *)
(*   Factors(w, res)       factor_pinword of a numeral-led (or empty) word *)
(*   SpToM(w, res)         sp_to_m of a non-empty strict pin word: the     *)
(*                         direction words phi maps to w, without repeats  *)
(*   MToSp(m, res)         m_to_sp of a direction word of length >= 2      *)
(*   Occ(w, u, res, c)     list(pinword_occurrences(w, u)) and             *)
(*                         pinword_contains(w, u); any lengths, u may be   *)
(*                         longer than w, equal to w, or empty             *)
(*   OccSP(w, u, res, c)   pinword_occurrences_sp / pinword_contains_sp    *)
(*                         for a non-empty strict u                        *)
(***************************************************************************)
EXTENDS Pin, Json, IOUtils
CONSTANTS TPattLen
Trace == JsonDeserialize(IOEnv.TRACE_FILE)
VARIABLES l, bad
Ev == Trace[l]
Flag(clause) == Append(bad, [i |-> l, clause |-> clause])
Sigmas == PPermsBetween(0, TPattLen)
WordsOfPerm == [s \in Sigmas |-> {u \in PinWordsOf(Len(s)) : PinPerm(u) = s}]
ToSetOf(s) == {s[i] : i \in DOMAIN s}
ZeroBased(T) == {[j \in DOMAIN t |-> t[j] - 1] : t \in T}

\* the cheap forms used below are the definitions of module Pin (checked on every short word)
ASSUME \A n \in 1..3 : \A w \in {x \in PinWordsOf(n) : PinIsStrict(x)} : PinSPtoMFast(w) = PinSPtoM(w)
ASSUME \A w \in PinWordsOf(2) \cup PinWordsOf(3) : \A u \in PinWordsOf(0) \cup PinWordsOf(1) \cup PinWordsOf(2) :
          \A b \in BOOLEAN : PinOccTuplesQ(w, u, b) = PinOccTuples(w, u, b)

TInit == l = 1 /\ bad = <<>>
TPerm == Ev.op = "Perm" /\ bad' = IF Ev.res = PinPerm(Ev.w) THEN bad ELSE Flag("DecodesToPinPermutation")
TQuad == Ev.op = "Quad" /\ bad' = IF Ev.res = PinQuadrantOf(PinConfig(Ev.w), Ev.i + 1) THEN bad ELSE Flag("QuadrantOfPin")
TContains == /\ Ev.op = "Contains"
             /\ LET truth == PContains(PinPerm(Ev.w), Ev.s) IN
                bad' = IF Ev.res = truth THEN bad
                       ELSE IF Ev.res = (\E u \in WordsOfPerm[Ev.s] : PinContainsWord(Ev.w, u, TRUE)) THEN Flag("dev:FactorsMayTouch")
                       ELSE Flag("ContainmentReflected")
\* a pattern of length 4-5 taken from the points of the pin permutation of a longer word: it is contained, so one of its pin
\* words has to be found (a miss is never the listed deviation, which only over-reports)
TFound == /\ Ev.op = "Found"
          /\ bad' = IF PContains(PinPerm(Ev.w), Ev.s) /\ ~Ev.res THEN Flag("ContainmentReflected") ELSE bad
TFactors == Ev.op = "Factors" /\ bad' = IF Ev.res = PinFactors(Ev.w) THEN bad ELSE Flag("Factors")
TSpToM == /\ Ev.op = "SpToM"
          /\ LET want == PinSPtoMFast(Ev.w) IN
             bad' = IF ToSetOf(Ev.res) = want /\ Len(Ev.res) = Cardinality(want) THEN bad ELSE Flag("TranslationsInverse")
TMToSp == Ev.op = "MToSp" /\ bad' = IF Ev.res = PinMtoSP(Ev.m) THEN bad ELSE Flag("TranslationsInverse")
\* the occurrence list against the ideal factor search; the listed known deviation is named
OccVerdict(res, c, ideal, dev, clause) ==
    IF ToSetOf(res) = ideal /\ Len(res) = Cardinality(ideal) /\ c = (ideal # {}) THEN bad
    ELSE IF ToSetOf(res) = dev /\ Len(res) = Cardinality(dev) /\ c = (dev # {}) THEN Flag("dev:FactorsMayTouch")
    ELSE IF ToSetOf(res) = ideal /\ Len(res) = Cardinality(ideal) THEN Flag("ContainsAgreesWithOccurrences")
    ELSE Flag(clause)
TOcc == /\ Ev.op = "Occ"
        /\ \E ideal \in {ZeroBased(PinOccTuplesQ(Ev.w, Ev.u, FALSE))} : \E dev \in {ZeroBased(PinOccTuplesQ(Ev.w, Ev.u, TRUE))} :
              bad' = OccVerdict(Ev.res, Ev.c, ideal, dev, "FactorOccurrences")
TOccSP == /\ Ev.op = "OccSP"
          /\ \E ideal \in {{t[1] - 1 : t \in PinOccTuplesQ(Ev.w, Ev.u, FALSE)}} :
                bad' = OccVerdict(Ev.res, Ev.c, ideal, ideal, "StrictFactorOccurrences")
TNext == l <= Len(Trace) /\ l' = l + 1 /\ (TPerm \/ TQuad \/ TContains \/ TFound \/ TFactors \/ TSpToM \/ TMToSp \/ TOcc \/ TOccSP)
TraceDone == l = Len(Trace) + 1 => PrintT(ToJson([verdict |-> bad, drift |-> <<>>, n |-> Len(Trace)]))
=============================================================================
