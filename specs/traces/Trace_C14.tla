----------------------------- MODULE Trace_C14 -----------------------------
(***************************************************************************)
(* Calls of the real pin-word code on longer words, judged by the pin      *)
(* machine's definitions.                                                  *)
(*   Perm(w, res)          pinword_to_perm                                 *)
(*   Quad(w, i, res)       quadrant                                        *)
(*   Contains(w, s, res)   exists u in perm_to_pinword_mapping[s] with     *)
(*                         pinword_contains(w, u);  truth: s contained in  *)
(*                         PinPerm(w).  A wrong answer that the deviation  *)
(*                         FactorsMayTouch explains is marked "dev".       *)
(***************************************************************************)
EXTENDS Pin, Json, IOUtils
CONSTANTS TPattLen
Trace == JsonDeserialize(IOEnv.TRACE_FILE)
VARIABLES l, bad
Ev == Trace[l]
Flag(clause) == Append(bad, [i |-> l, clause |-> clause])
Sigmas == PPermsBetween(0, TPattLen)
WordsOfPerm == [s \in Sigmas |-> {u \in PinWordsOf(Len(s)) : PinPerm(u) = s}]
TInit == l = 1 /\ bad = <<>>
TPerm == Ev.op = "Perm" /\ bad' = IF Ev.res = PinPerm(Ev.w) THEN bad ELSE Flag("DecodesToPinPermutation")
TQuad == Ev.op = "Quad" /\ bad' = IF Ev.res = PinQuadrantOf(PinConfig(Ev.w), Ev.i + 1) THEN bad ELSE Flag("QuadrantOfPin")
TContains == /\ Ev.op = "Contains"
             /\ LET truth == PContains(PinPerm(Ev.w), Ev.s) IN
                bad' = IF Ev.res = truth THEN bad
                       ELSE IF Ev.res = (\E u \in WordsOfPerm[Ev.s] : PinContainsWord(Ev.w, u, TRUE)) THEN Flag("dev:FactorsMayTouch")
                       ELSE Flag("ContainmentReflected")
TNext == l <= Len(Trace) /\ l' = l + 1 /\ (TPerm \/ TQuad \/ TContains)
TraceDone == l = Len(Trace) + 1 => PrintT(ToJson([verdict |-> bad, drift |-> <<>>, n |-> Len(Trace)]))
=============================================================================
