----------------------------- MODULE Trace_C12 -----------------------------
(***************************************************************************)
(* Recorded calls of the real code on larger inputs, judged against the    *)
(* definitions of module Devices (the devices are run to completion with   *)
(* the same Push/Pop/PopAll/Swap steps the machine C12_Devices takes).     *)
(*   Pass(dev,p,res)        X_sort                dev in stack/pop/bubble/quick *)
(*   Sortable(dev,p,res)    X_sortable                                     *)
(*   West(k,p,res)          west_k_stack_sortable                          *)
(*   Count(dev,p,res)       count_stack_sorts / count_pop_stack_sorts      *)
(*   SS(inv,p,raised,exc,res)  Bijections.simion_and_schmidt               *)
(*   Family(name,p,res)     permuta.bisc.perm_properties.<name>            *)
(*   Group(n,res)           dihedral_group(n) as a list                    *)
(*   PassChain(dev,p,k,res) k passes, each applied by the real code to the  *)
(*                          object the previous pass returned               *)
(* Verdicts are total: a failing event appends its index and clause.       *)
(***************************************************************************)
EXTENDS Devices, Json, IOUtils

Trace == JsonDeserialize(IOEnv.TRACE_FILE)
VARIABLES l, bad
Ev == Trace[l]
Flag(clause) == Append(bad, [i |-> l, clause |-> clause])
Judge(ok, clause) == bad' = IF ok THEN bad ELSE Flag(clause)

PassOf(dev, p) == IF dev = "quick" THEN DvQuickPass(p) ELSE DvPass(dev, p)

RECURSIVE PassesOf(_, _, _)
PassesOf(dev, p, k) == IF k = 0 THEN p ELSE CHOOSE r \in {PassesOf(dev, q, k - 1) : q \in {PassOf(dev, p)}} : TRUE
TPassChain == Ev.op = "PassChain" /\ Judge(Ev.res = PassesOf(Ev.dev, Ev.p, Ev.k), "PassChainIsKPasses")
TPass == Ev.op = "Pass" /\ Judge(Ev.res = PassOf(Ev.dev, Ev.p), "PassOutput")
TSortable == Ev.op = "Sortable" /\ Judge(Ev.res = DvIsIdentity(PassOf(Ev.dev, Ev.p)), "SortableIffIdentity")
TWest == Ev.op = "West" /\ Judge(Ev.res = DvIsIdentity(DvPasses("stack", Ev.p, Ev.k)), "WestKPasses")
TCount == Ev.op = "Count" /\ Judge(Ev.res = DvCount(Ev.dev, Ev.p), "CountIsPasses")

SSClause == LET p == Ev.p  inv == Ev.inv IN
            IF ~DvSSDomain(p, inv)
            THEN IF Ev.raised /\ Ev.exc = "ValueError" THEN "" ELSE "DomainRejected"
            ELSE IF Ev.raised THEN "NoExceptionInDomain"
            ELSE IF ~(PIsPerm(Ev.res) /\ Len(Ev.res) = Len(p)) THEN "SimionSchmidtImage"
            \* the image lies in the other class and has the same left-to-right minima (this
            \* determines it, LibSanity_Devices), and it is what the paper's procedure gives
            ELSE IF ~(DvSSDomain(Ev.res, ~inv) /\ DvLtrMin(Ev.res) = DvLtrMin(p)) THEN "SimionSchmidtImage"
            ELSE IF Ev.res # DvSSPaper(p, inv) THEN "SimionSchmidtImage"
            ELSE ""
\* inputs of more than a thousand entries that lie outside the domain through an occurrence found early by nested quantifiers
\* (PContainsQ): they must be rejected like short ones
TSSLong == /\ Ev.op = "SSLong"
           /\ Judge(PContainsQ(Ev.p, IF Ev.inv THEN <<0, 2, 1>> ELSE <<0, 1, 2>>) => (Ev.raised /\ Ev.exc = "ValueError"), "DomainRejected")
TSS == Ev.op = "SS" /\ \E c \in {SSClause} : Judge(c = "", c)

FamClause == LET v == DvFamily(Ev.name, Ev.p) IN
             IF Ev.res = v THEN ""
             ELSE IF Ev.name = "in_alternating_group" /\ Len(Ev.p) = 2 /\ Ev.res = DvAlternating_N2Excluded(Ev.p)
                  THEN "Known:Alternating_N2Excluded"
             ELSE "FamilyMembership"
TFamily == Ev.op = "Family" /\ \E c \in {FamClause} : Judge(c = "", c)

\* the dihedral group of the n-gon has 2n elements for n >= 3 (LibSanity_Devices) and none is
\* offered below: the listing is exact iff all its members are symmetries and there are 2n of them
TGroup == Ev.op = "Group" /\
          LET T == DvRangeOf(Ev.res) IN
          Judge(/\ \A q \in T : PIsPerm(q) /\ Len(q) = Ev.n /\ DvDihedral(q)
                /\ Cardinality(T) = (IF Ev.n < 3 THEN 0 ELSE 2 * Ev.n), "DihedralGroupExact")

TInit == l = 1 /\ bad = <<>>
TNext == l <= Len(Trace) /\ l' = l + 1 /\ (TPass \/ TPassChain \/ TSortable \/ TWest \/ TCount \/ TSS \/ TSSLong \/ TFamily \/ TGroup)
TraceDone == l = Len(Trace) + 1 => PrintT(ToJson([verdict |-> bad, drift |-> <<>>, n |-> Len(Trace)]))
=============================================================================
