----------------------------- MODULE Trace_C11 -----------------------------
(***************************************************************************)
(* Recorded calls of the real code (larger / random inputs than the        *)
(* exhaustive universe) judged against the definitions of module Stats.    *)
(* One TLC step per event; verdicts are total: a failing event appends     *)
(* <<index, clause>> to bad and the run goes on.                           *)
(*                                                                         *)
(*   Stats(p, obs)      obs: the canonical observation record the adapter  *)
(*                      built from every count_* / *_list / *_set /        *)
(*                      generator method on Perm(p) and from               *)
(*                      PermutationStatistic.get_by_index(i).func, same    *)
(*                      field names as StObs.  Clause = the field (named   *)
(*                      statistics: "named:<k>").                          *)
(*   Prime(lo, hi, primes)  the integers of lo..hi that                    *)
(*                      permuta.misc.math.is_prime accepts                 *)
(*   Pres(bij, pres, trans) check_all_preservations / check_all_transformed*)
(*                      on a bijection given as the list of its pairs;     *)
(*                      pres: 1-based table indices reported, trans: pairs *)
(*   Dist(basis, n, k, dist)  distribution_for_length(n, Av(basis)) of the *)
(*                      k-th statistic (basis <<>> = all permutations)     *)
(*                                                                         *)
(* A value that differs from the definition but equals a named deviation   *)
(* (known finding) is flagged "KF:<deviation>:<field>" instead: the        *)
(* adapter accepts it only at a call site listed in known_findings.json.   *)
(***************************************************************************)
EXTENDS Stats, Json, IOUtils

Trace == JsonDeserialize(IOEnv.TRACE_FILE)
VARIABLES l, bad
Ev == Trace[l]
ToSetOf(s) == {s[i] : i \in DOMAIN s}
Flags(cs) == bad \o SetToSeq({[i |-> l, clause |-> c] : c \in cs})

TInit == l = 1 /\ bad = <<>>

\* ---- Stats ---------------------------------------------------------------------------
FieldClause(f, obs, both) ==
    IF obs[f] = both.i[f] THEN "ok"
    ELSE IF f \in DOMAIN StDevFields /\ obs[f] = both.d[f] THEN "KF:" \o StDevFields[f] \o ":" \o f
    ELSE f
NamedClause(k, obs, both) ==
    IF obs.named[k] = both.i.named[k] THEN "ok"
    ELSE IF k \in StDeviatingIndices /\ obs.named[k] = both.d.named[k] THEN "KF:" \o StDevOfIndex(k) \o ":named:" \o ToString(k)
    ELSE "named:" \o ToString(k)
StatsClauses(obs, both) ==
    ({FieldClause(f, obs, both) : f \in (DOMAIN obs \cap DOMAIN both.i) \ {"named"}}
     \cup {NamedClause(k, obs, both) : k \in 1..32}) \ {"ok"}
TStats == /\ Ev.op = "Stats"
          /\ \E both \in {StObsBoth(Ev.p)} : bad' = Flags(StatsClauses(Ev.obs, both))

\* ---- Prime ---------------------------------------------------------------------------
TPrime == /\ Ev.op = "Prime"
          /\ \E D \in {SymDiff(ToSetOf(Ev.primes), {k \in Ev.lo..Ev.hi : StIsPrime(k)})} :
                bad' = IF D = {} /\ Len(Ev.primes) = Cardinality(ToSetOf(Ev.primes)) THEN bad
                       ELSE IF D = {} THEN Flags({"IsPrimeByDefinition:listed twice"})
                       ELSE Flags({"IsPrimeByDefinition:" \o ToString(StMinOf(D))})      \* least integer judged wrongly

\* ---- Pres ----------------------------------------------------------------------------
PresClause(k, pres, B, T) ==
    LET obs == k \in pres
        idl == \A kv \in B : T[kv[1]].i[k] = T[kv[2]].i[k]
        dvl == \A kv \in B : T[kv[1]].d[k] = T[kv[2]].d[k]
    IN  IF obs = idl THEN "ok"
        ELSE IF k \in StDeviatingIndices /\ obs = dvl THEN "KF:" \o StDevOfIndex(k) \o ":preserved:" \o ToString(k)
        ELSE "PreservedIff:" \o ToString(k)
TransClause(kl, trans, B, T) ==
    LET obs == kl \in trans
        idl == \A kv \in B : T[kv[1]].i[kl[1]] = T[kv[2]].i[kl[2]]
        dvl == \A kv \in B : T[kv[1]].d[kl[1]] = T[kv[2]].d[kl[2]]
    IN  IF obs = idl THEN "ok"
        ELSE IF (kl[1] \in StDeviatingIndices \/ kl[2] \in StDeviatingIndices) /\ obs = dvl
             THEN "KF:" \o StDevOfIndex(IF kl[1] \in StDeviatingIndices THEN kl[1] ELSE kl[2]) \o ":transformed"
        ELSE "TransformedIff"
TPres == /\ Ev.op = "Pres"
         /\ \E B \in {ToSetOf(Ev.bij)} :
            \E T \in {StTabulate({kv[1] : kv \in B} \cup {kv[2] : kv \in B}, StNamedBoth)} :
               bad' = Flags(({PresClause(k, ToSetOf(Ev.pres), B, T) : k \in 1..32}
                             \cup {TransClause(kl, ToSetOf(Ev.trans), B, T) : kl \in (1..32) \X (1..32)}) \ {"ok"})

\* ---- Dist ----------------------------------------------------------------------------
Strip(s) == IF \E k \in DOMAIN s : s[k] # 0 THEN SubSeq(s, 1, StMaxOf({k \in DOMAIN s : s[k] # 0})) ELSE <<>>
TDist == /\ Ev.op = "Dist"
         /\ \E S \in {PAvLevel(ToSetOf(Ev.basis), Ev.n)} :
            LET idl == StDistribution(StTabulate(S, LAMBDA p : StNamedAt(p, Ev.k)), S)
                dvl == StDistribution(StTabulate(S, LAMBDA p : StNamedDevAt(p, Ev.k)), S)
                sums == StSumOver(DOMAIN Ev.dist, LAMBDA j : Ev.dist[j]) = Cardinality(S)
            IN  bad' = IF ~sums THEN Flags({"DistributionSumsToClassSize"})
                       ELSE IF Strip(Ev.dist) = Strip(idl) THEN bad
                       ELSE IF Ev.k \in StDeviatingIndices /\ Strip(Ev.dist) = Strip(dvl)
                            THEN Flags({"KF:" \o StDevOfIndex(Ev.k) \o ":distribution"})
                       ELSE Flags({"DistributionIsDefinition"})

TNext == l <= Len(Trace) /\ l' = l + 1 /\ (TStats \/ TPrime \/ TPres \/ TDist)
TraceDone == l = Len(Trace) + 1 => PrintT(ToJson([verdict |-> bad, drift |-> <<>>, n |-> Len(Trace)]))
=============================================================================
