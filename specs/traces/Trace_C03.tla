----------------------------- MODULE Trace_C03 -----------------------------
(***************************************************************************)
(* Recorded calls of the real code judged against the Mesh definitions.    *)
(*   Occ(p,R,q,res)         sorted(M.occurrences_in(q)), M built any way   *)
(*   Mixed(kind,q,cl,ms,bs,res) q.contains / q.avoids / q.avoids_set of a  *)
(*                           mixed list of classical (cl), mesh (ms) and   *)
(*                           bivincular-family (bs: p, X, Y) patterns      *)
(*   Biv(p,X,Y,q,res)       sorted(B.occurrences_in(q)), B built from the  *)
(*                           adjacency requirements X (positions) and Y    *)
(*                           (values) by any of the three constructors, the *)
(*                           requirements given in any container and order  *)
(*   Open(id,p,R,q) / Step(id,stop,res)  the lazy iterator protocol: several*)
(*       searches may be open at once (also on the same pattern object) and *)
(*       are consumed in any interleaving; each must yield every occurrence *)
(*       exactly once and then stop.  (The order is not prescribed for mesh *)
(*       patterns, so the model tracks the set yielded so far.)             *)
(***************************************************************************)
EXTENDS Mesh, Json, IOUtils

Trace == JsonDeserialize(IOEnv.TRACE_FILE)
VARIABLES l, bad, its
\* its: id -> [occ |-> all occurrences (0-based) by definition, got |-> yielded so far]
Ev == Trace[l]
Flag(clause) == Append(bad, [i |-> l, clause |-> clause])
ToSetOf(s) == {s[i] : i \in DOMAIN s}
AsMesh(m) == MMesh(m.p, ToSetOf(m.R))

TInit == l = 1 /\ bad = <<>> /\ its = <<>>
Occ0(M, q) == {PZero(t) : t \in MOcc(M, q)}
TOpen == /\ Ev.op = "Open"
         /\ its' = (Ev.id :> [occ |-> Occ0(MMesh(Ev.p, ToSetOf(Ev.R)), Ev.q), got |-> {}]) @@ its
         /\ UNCHANGED bad
TStep == /\ Ev.op = "Step"
         /\ LET it == its[Ev.id] IN
            IF Ev.stop
            THEN /\ bad' = IF it.got = it.occ THEN bad ELSE Flag("IteratorComplete")
                 /\ UNCHANGED its
            ELSE /\ bad' = IF Ev.res \in it.occ \ it.got THEN bad ELSE Flag("IteratorYieldsNewOccurrence")
                 /\ its' = [its EXCEPT ![Ev.id].got = @ \cup {Ev.res}]
TOcc == /\ Ev.op = "Occ"
        /\ bad' = IF Ev.res = MOccSeq0(MMesh(Ev.p, ToSetOf(Ev.R)), Ev.q) THEN bad ELSE Flag("MeshOccurrencesExact")
        /\ UNCHANGED its
AsBiv(b) == MBiv(b.p, ToSetOf(b.X), ToSetOf(b.Y))
\* the bivincular family: the mesh form and the direct statement through adjacency must agree (a disagreement
\* is an error of the specification, reported under its own clause), and the recorded listing must be that set
TBiv == /\ Ev.op = "Biv"
        /\ LET B == AsBiv(Ev) IN
           bad' = IF MOcc(B, Ev.q) # MBivOccDirect(Ev.p, ToSetOf(Ev.X), ToSetOf(Ev.Y), Ev.q) THEN Flag("SPEC-BivMeaning")
                  ELSE IF Ev.res = MOccSeq0(B, Ev.q) THEN bad ELSE Flag("BivincularOccurrencesExact")
        /\ UNCHANGED its
MixedValue(kind, q, cl, ms, bs) ==
    IF kind = "contains"
    THEN /\ \A i \in DOMAIN cl : PContains(q, cl[i])
         /\ \A i \in DOMAIN ms : MContains(q, AsMesh(ms[i]))
         /\ \A i \in DOMAIN bs : MContains(q, AsBiv(bs[i]))
    ELSE /\ \A i \in DOMAIN cl : PAvoids(q, cl[i])
         /\ \A i \in DOMAIN ms : MAvoids(q, AsMesh(ms[i]))
         /\ \A i \in DOMAIN bs : MAvoids(q, AsBiv(bs[i]))
TMixed == /\ Ev.op = "Mixed"
          /\ bad' = IF Ev.res = MixedValue(Ev.kind, Ev.q, Ev.cl, Ev.ms, Ev.bs) THEN bad ELSE Flag("MixedListsAgree")
          /\ UNCHANGED its
TNext == l <= Len(Trace) /\ l' = l + 1 /\ (TOcc \/ TBiv \/ TMixed \/ TOpen \/ TStep)
TraceDone == l = Len(Trace) + 1 => PrintT(ToJson([verdict |-> bad, drift |-> <<>>, n |-> Len(Trace)]))
=============================================================================
