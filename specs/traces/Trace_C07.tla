----------------------------- MODULE Trace_C07 -----------------------------
(***************************************************************************)
(* Abstract event traces of real threads under the deterministic scheduler *)
(* (one event whenever the projection <<len(cache), compacted levels, lock *)
(* owner>> changes, plus call returns), judged against the discipline of   *)
(* C07_AvThreads in mode "as_coded".  Mechanism-level only: a disagreement *)
(* is reported as drift by the harness; verdicts are taken on results.     *)
(*   Run(basis id)            starts a new controlled run                  *)
(*   Acquire/Release(t), AppendLevel(t,k,size), CompactOne(t,k), Return(t) *)
(***************************************************************************)
EXTENDS AvMech, Json, IOUtils

CONSTANTS BasesT       \* sequence of basis descriptors the runs use
Trace == JsonDeserialize(IOEnv.TRACE_FILE)
VARIABLES l, bad, tlock, tlen, tcomp, tb
Ev == Trace[l]
Flag(clause) == Append(bad, [i |-> l, clause |-> clause])
SizeTab == [b \in DOMAIN BasesT |-> [n \in 0..6 |-> Cardinality(ClassLevel(BasesT[b], n))]]

TInit == l = 1 /\ bad = <<>> /\ tlock = 0 /\ tlen = 1 /\ tcomp = {} /\ tb = 1
TRun == /\ Ev.ev = "Run" /\ tlock' = 0 /\ tlen' = 1 /\ tcomp' = {} /\ tb' = Ev.b /\ UNCHANGED bad
TAcquire == /\ Ev.ev = "Acquire" /\ tlock' = Ev.t
            /\ bad' = IF tlock = 0 THEN bad ELSE Flag("MutualExclusion")
            /\ UNCHANGED <<tlen, tcomp, tb>>
TRelease == /\ Ev.ev = "Release" /\ tlock' = 0
            /\ bad' = IF tlock # 0 THEN bad ELSE Flag("LockDiscipline")
            /\ UNCHANGED <<tlen, tcomp, tb>>
\* a level is appended only by the lock holder, at index = current length, and complete
TAppend == /\ Ev.ev = "AppendLevel" /\ tlen' = tlen + 1
           /\ bad' = IF tlock # Ev.t THEN Flag("MutualExclusion")
                     ELSE IF Ev.k # tlen THEN Flag("LevelIndex")
                     ELSE IF Ev.k <= 6 /\ Ev.size # SizeTab[tb][Ev.k] THEN Flag("NoTornLevel") ELSE bad
           /\ UNCHANGED <<tlock, tcomp, tb>>
\* compaction only under the lock and never of the two topmost levels
TCompact == /\ Ev.ev = "CompactOne" /\ tcomp' = tcomp \cup {Ev.k}
            /\ bad' = IF tlock # Ev.t THEN Flag("MutualExclusion")
                      ELSE IF ~BasesT[tb].mesh /\ Ev.k >= tlen - 2 THEN Flag("TopTwoUncompacted") ELSE bad
            /\ UNCHANGED <<tlock, tlen, tb>>
TOther == /\ Ev.ev \in {"Return", "Shrink"}
          /\ bad' = IF Ev.ev = "Shrink" THEN Flag("LevelsOnlyGrow") ELSE bad
          /\ UNCHANGED <<tlock, tlen, tcomp, tb>>
TNext == l <= Len(Trace) /\ l' = l + 1 /\ (TRun \/ TAcquire \/ TRelease \/ TAppend \/ TCompact \/ TOther)
TraceDone == l = Len(Trace) + 1 => PrintT(ToJson([verdict |-> bad, drift |-> <<>>, n |-> Len(Trace)]))
=============================================================================
