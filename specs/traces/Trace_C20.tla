----------------------------- MODULE Trace_C20 -----------------------------
(***************************************************************************)
(* Two kinds of recorded evidence, judged one TLC step per event.          *)
(*                                                                         *)
(* 1. Histories of the real code in a scratch directory (longer, random,   *)
(*    more names / data sets / permutations than the exhaustive universe), *)
(*    replayed through the actions of C20_Files.  Every event carries the  *)
(*    call, the observed result (res) and the projection of the directory  *)
(*    after the call (proj).  The model follows its own state; a result    *)
(*    that differs from the model's reply is flagged with the clause it    *)
(*    breaks, a projection that differs is noted as drift.  "Reset" starts *)
(*    a new history in directory Inits[init] with the memo cleared.        *)
(*    An event the model cannot take (the file it damages does not exist   *)
(*    in the model) is flagged ModelDisabled and skipped: never blocks.    *)
(*                                                                         *)
(* 2. The shipped data files, one event per (file, length n <= 6):         *)
(*      [op |-> "Shipped", name, kind, n, perms |-> the list in the file]  *)
(*    judged against the definition: the list holds exactly, and once      *)
(*    each, the permutations q of length n with  Pred(name, q) = (kind =   *)
(*    "good").  Both files of a name passing at every length is the        *)
(*    partition of S_0..S_n.  A list that is exactly the named deviation   *)
(*    gets the clause Known:<deviation>.                                   *)
(***************************************************************************)
EXTENDS C20_Files, IOUtils

Trace == JsonDeserialize(IOEnv.TRACE_FILE)
VARIABLES l, bad, drift, xdocs
Ev == Trace[l]
Flag(clause, w) == Append(bad, [i |-> l, clause |-> clause, w |-> w])
Some(S) == LET s == SetToSeq(S) IN SubSeq(s, 1, IF Len(s) < 4 THEN Len(s) ELSE 4)

TInit == /\ l = 1 /\ bad = <<>> /\ drift = <<>> /\ xdocs = <<>>
         /\ fs = Inits[1].fs /\ db = Inits[1].db /\ loaded = PsNoMap
         /\ want = [f \in Files |-> PsReadValue(fs, f)] /\ act = NoAct /\ reply = NoReply

\* ---- 1. histories --------------------------------------------------------------------
HistOps == {"WriteBisc", "ReadBisc", "Corrupt", "Delete", "StoreDfa", "LoadDfa", "CreateDb", "MakeFromDb", "DeleteDb"}
CanDo == CASE Ev.op = "WriteBisc" -> Ev.nm \in Names /\ Ev.d \in DataIds
           [] Ev.op = "ReadBisc" -> Ev.f \in Files
           [] Ev.op = "Corrupt" -> Ev.f \in Files /\ CanCorrupt(Ev.f, Ev.ck)
           [] Ev.op = "Delete" -> Ev.f \in Files /\ Ev.f \in DOMAIN fs
           [] Ev.op = "DeleteDb" -> PsKey(Ev.p) \in DOMAIN db
           [] Ev.op = "MakeFromDb" -> Ev.b \in DOMAIN Bases
           [] OTHER -> TRUE
Do == \/ Ev.op = "WriteBisc" /\ WriteBisc(Ev.nm, Ev.d)
      \/ Ev.op = "ReadBisc" /\ ReadBisc(Ev.f)
      \/ Ev.op = "Corrupt" /\ Corrupt(Ev.f, Ev.ck)
      \/ Ev.op = "Delete" /\ Delete(Ev.f)
      \/ Ev.op = "StoreDfa" /\ StoreDfa(Ev.p)
      \/ Ev.op = "LoadDfa" /\ LoadDfa(Ev.p)
      \/ Ev.op = "CreateDb" /\ CreateDb(Ev.n)
      \/ Ev.op = "MakeFromDb" /\ MakeFromDb(Ev.b)
      \/ Ev.op = "DeleteDb" /\ DeleteDb(Ev.p)
\* the clause broken by the observed result, "" if none (evaluated on the primed reply)
ReadClause == IF Ev.res.d = reply'.d THEN ""
              ELSE IF reply'.d = 0 THEN "NeverDifferentData"            \* data reported for a missing / malformed file
              ELSE IF Ev.res.d = 0 THEN "InvalidOnlyWhenInvalid"        \* an intact file reported invalid
              ELSE "ReadYourLastWrite"                                  \* other data than last written
ResultClause == IF Ev.op = "ReadBisc" THEN ReadClause
                ELSE IF Ev.op = "LoadDfa" THEN (IF PsRangeOf(Ev.res.tags) = reply'.tags THEN "" ELSE "LoadFaithful")
                ELSE IF Ev.op = "MakeFromDb" THEN (IF PsRangeOf(Ev.res.tags) = reply'.tags THEN "" ELSE "MakeFromDbFaithful")
                ELSE ""
ProjFsOK == {<<x[1], x[2], x[3]>> : x \in PsRangeOf(Ev.proj.fs)} = {<<f, fs'[f].docs, fs'[f].junk>> : f \in DOMAIN fs'}
ProjDbOK == {<<x[1], x[2]>> : x \in PsRangeOf(Ev.proj.db)} = {<<k, db'[k]>> : k \in DOMAIN db'}
\* (nloaded = -1: the memo is not where the harness can look at it - not observable, no drift)
ProjMemoOK == Ev.proj.nloaded = -1 \/ (Ev.proj.nloaded = Cardinality(DOMAIN loaded') /\ (Ev.op = "LoadDfa" => Ev.res.hit = reply'.hit))
Note(what) == Append(drift, [i |-> l, what |-> what])
THist == /\ Ev.op \in HistOps
         /\ IF CanDo
            THEN /\ Do
                 /\ \E c \in {ResultClause} : bad' = IF c = "" THEN bad ELSE Flag(c, <<>>)
                 /\ drift' = IF ~ProjFsOK THEN Note("fs") ELSE IF ~ProjDbOK THEN Note("db")
                             ELSE IF ~ProjMemoOK THEN Note("memo") ELSE drift
            ELSE /\ UNCHANGED vars /\ bad' = Flag("ModelDisabled", <<>>) /\ drift' = drift
         /\ UNCHANGED xdocs
TReset == /\ Ev.op = "Reset"
          /\ fs' = Inits[Ev.init].fs /\ db' = Inits[Ev.init].db /\ loaded' = PsNoMap
          /\ want' = [f \in Files |-> PsReadValue(Inits[Ev.init].fs, f)]
          /\ act' = A("Reset") /\ reply' = NoReply /\ UNCHANGED <<bad, drift, xdocs>>

\* ---- 2. shipped data -----------------------------------------------------------------
ShippedClause == LET ideal == PsSide(Ev.name, Ev.kind, Ev.n) IN
                 IF PsListsExactly(Ev.perms, ideal) THEN ""
                 ELSE IF PsListsExactly(Ev.perms, PsSideBy(PsPred_AltN2, Ev.name, Ev.kind, Ev.n)) THEN "Known:Alternating_N2Excluded"
                 ELSE "ShippedPartition"
TShipped == /\ Ev.op = "Shipped"
            /\ \E c \in {ShippedClause} :
                  bad' = IF c = "" THEN bad ELSE Flag(c, Some(PsWrong(Ev.perms, PsSide(Ev.name, Ev.kind, Ev.n))))
            /\ UNCHANGED vars /\ drift' = drift /\ UNCHANGED xdocs

\* ---- 3. documents beyond the data sets of the model ------------------------------------
\* write_json_to_file(doc, f) / read_bisc_file(f) on dictionaries the history machine has no name for (long
\* permutations, unusual keys, empty lists): a document is the sequence of its [k, perms] rows in key order, a file
\* holds the document last written to it, and a read returns exactly that document.
XLast(f) == LET idx == {i \in DOMAIN xdocs : xdocs[i].f = f} IN
            IF idx = {} THEN <<>> ELSE xdocs[CHOOSE i \in idx : \A j \in idx : j <= i].doc
XWritten(f) == \E i \in DOMAIN xdocs : xdocs[i].f = f
TWriteDoc == /\ Ev.op = "WriteDoc"
             /\ xdocs' = Append(xdocs, [f |-> Ev.f, doc |-> Ev.doc])
             /\ UNCHANGED <<vars, bad, drift>>
TReadDoc == /\ Ev.op = "ReadDoc"
            /\ bad' = IF ~XWritten(Ev.f) THEN Flag("ModelDisabled", <<>>)
                      ELSE IF Ev.res = XLast(Ev.f) THEN bad ELSE Flag("ReadYourLastWrite", <<>>)
            /\ UNCHANGED <<vars, drift, xdocs>>

TNext == /\ l <= Len(Trace) /\ l' = l + 1
         /\ (THist \/ TReset \/ TShipped \/ TWriteDoc \/ TReadDoc)
TraceDone == l = Len(Trace) + 1 => PrintT(ToJson([verdict |-> bad, drift |-> drift, n |-> Len(Trace)]))
=============================================================================
