----------------------------- MODULE Trace_C15 -----------------------------
(***************************************************************************)
(* accepts_input of the real basis automaton on direction words longer     *)
(* than the exhaustive bound, judged by the pin semantics.                 *)
(***************************************************************************)
EXTENDS Pin, Json, IOUtils
Trace == JsonDeserialize(IOEnv.TRACE_FILE)
VARIABLES l, bad
Ev == Trace[l]
Flag(clause) == Append(bad, [i |-> l, clause |-> clause])
ToSetOf(s) == {s[i] : i \in DOMAIN s}
TInit == l = 1 /\ bad = <<>>
TAcc == /\ Ev.op = "Accepts"
        /\ LET q == IF Len(Ev.m) < 2 THEN <<>> ELSE PinPerm(PinMtoSP(Ev.m)) IN
           bad' = IF Ev.res = (\E b \in ToSetOf(Ev.basis) : PContains(q, b)) THEN bad ELSE Flag("AcceptsIffContains")
TNext == l <= Len(Trace) /\ l' = l + 1 /\ TAcc
TraceDone == l = Len(Trace) + 1 => PrintT(ToJson([verdict |-> bad, drift |-> <<>>, n |-> Len(Trace)]))
=============================================================================
