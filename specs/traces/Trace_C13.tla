----------------------------- MODULE Trace_C13 -----------------------------
(***************************************************************************)
(* Recorded calls of the real code (one process, memo tables accumulating  *)
(* over the whole trace) on larger random bases, judged by the definitions *)
(* of module Growth.  One TLC step per event; verdicts are total.          *)
(*   V    basis as iterated, the six verdicts of the real functions, the   *)
(*        real Av(basis).count(0..N), and the memo entries of the basis    *)
(*        elements after the calls (types / run shapes by name)            *)
(*   Sym  a basis, a symmetry g, the image computed by the real code and   *)
(*        the verdicts of the real functions on both                       *)
(*   Q    one question: a basis (the elements the entry point was given,   *)
(*        in any container / through any entry point: the six functions,   *)
(*        the Av methods, the command line, a cold process), the function  *)
(*        f and the answer res; judged by the structure theorem for the    *)
(*        set of the elements                                              *)
(* Clauses (violations): Verdict<F> - the real verdict is not the one the  *)
(* structure theorem gives; FiniteEmptyBeyondBound, InfiniteNeverEmpty,    *)
(* NonPolynomialAtLeastFibonacci - the real verdict contradicts the real   *)
(* enumeration; SymmetryInvariant.  Drift: MemoExact (a memo entry differs *)
(* from the definition), SymImage (image is not the plane map's).          *)
(***************************************************************************)
EXTENDS Growth, Json, IOUtils

Trace == JsonDeserialize(IOEnv.TRACE_FILE)
VARIABLES l, bad, drift
Ev == Trace[l]
ToSetOf(s) == {s[i] : i \in DOMAIN s}
Names == <<"fin", "poly", "npoly", "ie", "ier", "iem">>
ClauseOf == [fin |-> "VerdictFinite", poly |-> "VerdictPolynomial", npoly |-> "VerdictNonPolynomial",
             ie |-> "VerdictInsertionEncodable", ier |-> "VerdictInsertionEncodableRightmost",
             iem |-> "VerdictInsertionEncodableMaximum"]
MapSeq(s, F(_)) == IF Len(s) = 0 THEN <<>> ELSE [k \in 1..Len(s) |-> F(s[k])]
Flags(clauses) == MapSeq(clauses, LAMBDA c : [i |-> l, clause |-> c])

TInit == l = 1 /\ bad = <<>> /\ drift = <<>>

\* counts[n + 1] = the real count of length n, for the recorded lengths
VClauses(B, ev) ==
    LET want == GVerdicts(B)
        N == Len(ev.counts) - 1
        wrong == SelectSeq(Names, LAMBDA f : ev.v[f] # want[f])
        enum == (IF ev.v.fin /\ want.fin /\ (\E n \in (GESBound(B) + 1)..N : ev.counts[n + 1] # 0)
                 THEN <<"FiniteEmptyBeyondBound">> ELSE <<>>)
                \o (IF ~ev.v.fin /\ ~want.fin /\ (\E n \in 0..N : ev.counts[n + 1] = 0)
                    THEN <<"InfiniteNeverEmpty">> ELSE <<>>)
                \o (IF ev.v.npoly /\ want.npoly /\ (\E n \in 0..N : ev.counts[n + 1] < GFib(n))
                    THEN <<"NonPolynomialAtLeastFibonacci">> ELSE <<>>)
    IN  MapSeq(wrong, LAMBDA f : ClauseOf[f]) \o enum
MemoDrift(ev) == IF (\E k \in DOMAIN ev.pmemo : ToSetOf(ev.pmemo[k].v) # GTypes(ev.pmemo[k].p))
                    \/ (\E k \in DOMAIN ev.imemo : ToSetOf(ev.imemo[k].v) # GProps(ev.imemo[k].p))
                 THEN <<"MemoExact">> ELSE <<>>
TV == /\ Ev.op = "V"
      /\ bad' = bad \o Flags(VClauses(ToSetOf(Ev.basis), Ev))
      /\ drift' = drift \o Flags(MemoDrift(Ev))

SymOK(g, a, b) == /\ a.fin = b.fin /\ a.poly = b.poly /\ a.npoly = b.npoly /\ a.ie = b.ie
                  /\ IF g \in GKeepsColumns THEN a.ier = b.ier /\ a.iem = b.iem
                                            ELSE a.ier = b.iem /\ a.iem = b.ier
TSym == /\ Ev.op = "Sym"
        /\ LET B == ToSetOf(Ev.basis)
               C == ToSetOf(Ev.image)
               imageOK == C = DSymSet(Ev.g, B)
               wrong == SelectSeq(Names, LAMBDA f : Ev.vimg[f] # GVerdicts(C)[f])
           IN  /\ bad' = bad \o Flags(MapSeq(wrong, LAMBDA f : ClauseOf[f])
                                      \o (IF imageOK /\ ~SymOK(Ev.g, Ev.v, Ev.vimg) THEN <<"SymmetryInvariant">> ELSE <<>>))
               /\ drift' = drift \o Flags(IF imageOK THEN <<>> ELSE <<"SymImage">>)
TQ == /\ Ev.op = "Q"
      /\ bad' = bad \o Flags(IF Ev.res = GVerdict(ToSetOf(Ev.basis), Ev.f) THEN <<>> ELSE <<ClauseOf[Ev.f]>>)
      /\ drift' = drift
TNext == l <= Len(Trace) /\ l' = l + 1 /\ (TV \/ TSym \/ TQ)
TraceDone == l = Len(Trace) + 1 => PrintT(ToJson([verdict |-> bad, drift |-> drift, n |-> Len(Trace)]))
=============================================================================
