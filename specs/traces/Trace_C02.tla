----------------------------- MODULE Trace_C02 -----------------------------
(***************************************************************************)
(* Recorded histories of real Av objects (random drivers, with lazy        *)
(* iterators left open across other calls) replayed through the actions of *)
(* C02_AvCache.  One TLC step per recorded call; the machine's invariants  *)
(* are evaluated at every step.  "Reset" starts a new history              *)
(* (Av.clear_cache() and all objects dropped).                             *)
(* The model follows its own mechanism state; an event whose recorded      *)
(* result differs from the model's reply is flagged (clause ReplyCorrect), *)
(* a recorded projection (levels built, compacted levels) that differs     *)
(* from the model's is noted as drift.                                     *)
(***************************************************************************)
EXTENDS C02_AvCache, IOUtils

Trace == JsonDeserialize(IOEnv.TRACE_FILE)
VARIABLES l, bad, drift, loose
Ev == Trace[l]
Flag(clause) == Append(bad, [i |-> l, clause |-> clause])
ToSetOf(s) == {s[i] : i \in DOMAIN s}

TInit == l = 1 /\ bad = <<>> /\ drift = <<>> /\ loose = FALSE /\ Init

ProjOK == \/ Ev.op \in {"Reset"}
          \/ \A i \in DOMAIN insts' : i \in DOMAIN Ev.proj =>
                /\ Ev.proj[i].top = Len(insts'[i].levels) - 1
                /\ loose \/ Ev.op = "Interrupted" \/ ToSetOf(Ev.proj[i].comp) = {k \in 0..(Len(insts'[i].levels) - 1) :
                                                 \E p \in DOMAIN insts'[i].levels[k + 1] : insts'[i].levels[k + 1][p] = Compacted}
\* (loose: an interrupted call may have stopped inside the compaction loop; from then on only the number of levels is compared)
Judge(ok) == /\ bad' = IF ok THEN bad ELSE Flag("ReplyCorrect")
             /\ drift' = IF ProjOK THEN drift ELSE Append(drift, l)
             /\ loose' = (loose \/ Ev.op = "Interrupted")

TReset == /\ Ev.op = "Reset"
          /\ insts' = <<>> /\ cc' = [b \in DOMAIN Bases |-> 0] /\ its' = <<>> /\ fault' = FALSE
          /\ act' = A("Init", 0, 0, <<>>) /\ reply' = NoReply /\ UNCHANGED <<bad, drift>> /\ loose' = FALSE
TNewAv == Ev.op = "NewAv" /\ NewAv(Ev.b) /\ Judge(Ev.res = reply'.n)
TClear == Ev.op = "ClearCache" /\ ClearCache /\ Judge(TRUE)
TCount == Ev.op = "Count" /\ Count(Ev.i, Ev.n) /\ Judge(Ev.res = reply'.n)
TOfLength == Ev.op = "OfLength" /\ OfLength(Ev.i, Ev.n) /\ Judge(ToSetOf(Ev.res) = reply'.set /\ Len(Ev.res) = Cardinality(reply'.set))
TEnum == Ev.op = "Enumeration" /\ Enumeration(Ev.i, Ev.n) /\ Judge(Ev.res = reply'.seq)
TMember == Ev.op = "Member" /\ Member(Ev.i, Ev.q) /\ Judge(Ev.res = reply'.flag)
TSub == Ev.op = "IsSubclass" /\ IsSubclass(Ev.i, Ev.j) /\ Judge(Ev.res = reply'.flag)
\* a call for level Ev.n that was interrupted (KeyboardInterrupt at some line of the class's code) and left levels 0..Ev.top:
\* whole levels of the class, as the following events will find out; leaving fewer levels than before or more than asked for
\* is not an admissible outcome of an interrupted call
TInterrupted == /\ Ev.op = "Interrupted"
                /\ IF Len(insts[Ev.i].levels) - 1 <= Ev.top /\ Ev.top <= IMax(Ev.n, Len(insts[Ev.i].levels) - 1)
                   THEN InterruptedTo(Ev.i, Ev.top) /\ Judge(TRUE)
                   ELSE UNCHANGED vars /\ Judge(FALSE)
\* membership of a permutation far longer than anything enumerated (the class object is fresh: a cold jump of a thousand
\* levels); judged by the definition alone, the mechanism state of that object is not followed
TLongMember == /\ Ev.op = "LongMember"
               /\ UNCHANGED vars
               /\ Judge(~Ev.raised /\ Ev.res = \A b \in Bases[Ev.b].elems : ~PContainsQ(Ev.q, b))
\* Levels too long to enumerate by definition (lengths 8 to 13 of slowly growing classes), checked step by step: a class is
\* closed under deleting the last entry, so level n + 1 is exactly the set of avoiding extensions of the members of level n
\* by a last entry.  LevelStep: every avoiding extension of the listed members of level n is in the listed level n + 1;
\* LevelSound: the listed members of a level are distinct permutations of that length avoiding the basis.  Both for every
\* slice of every level from an exhaustively verified one upwards give equality with the definition, by induction.
\* does the extension q of a member of the class (q without its last entry avoids the basis: LevelSound of the step before)
\* avoid the basis?  An occurrence in q would have to use the last entry.
EndsOccurrence(q, b) == Len(b) >= 1 /\ Len(b) <= Len(q) /\
                        \E t \in PIncTuples(Len(b) - 1, Len(q) - 1) : POrderIso(b, Append(PPick(q, t), q[Len(q)]))
ExtensionAvoids(q, bd) == \A b \in bd.elems : ~EndsOccurrence(q, b)
TLevelStep == /\ Ev.op = "LevelStep"
              /\ UNCHANGED vars
              /\ LET nxt == ToSetOf(Ev.next) IN
                 Judge(\A i \in DOMAIN Ev.prev : \A v \in 0..Ev.n :
                          LET q == InsRight(Ev.prev[i], v) IN ExtensionAvoids(q, Bases[Ev.b]) => q \in nxt)
TLevelSound == /\ Ev.op = "LevelSound"
               /\ UNCHANGED vars
               /\ Judge(/\ Cardinality(ToSetOf(Ev.members)) = Len(Ev.members)
                        /\ \A i \in DOMAIN Ev.members : /\ PIsPerm(Ev.members[i]) /\ Len(Ev.members[i]) = Ev.n
                                                         /\ AvoidsBasis(Ev.members[i], Bases[Ev.b]))
TOpenOf == Ev.op = "OpenOf" /\ OpenOf(Ev.i, Ev.n) /\ Judge(TRUE)
TOpenUpTo == Ev.op = "OpenUpTo" /\ OpenUpTo(Ev.i, Ev.n) /\ Judge(TRUE)
TOpenFirst == Ev.op = "OpenFirst" /\ OpenFirst(Ev.i, Ev.n) /\ Judge(TRUE)
\* next(it): the model says whether the iterator stops; a yielded permutation must be a
\* not-yet-yielded member of the level being walked.  On disagreement the model takes its own
\* step (stop, or some admissible yield) so that the rest of the history is still examined.
TNextIt ==
    /\ Ev.op = "NextIt"
    /\ IF AdvOf(Ev.t)[2].kind = "stop"
       THEN NextItStop(Ev.t) /\ Judge(Ev.stop)
       ELSE IF ~Ev.stop /\ ENABLED NextItYield(Ev.t, Ev.q)
            THEN NextItYield(Ev.t, Ev.q) /\ Judge(TRUE)
            ELSE /\ LET q0 == CHOOSE q \in ProbeSet : ENABLED NextItYield(Ev.t, q) IN NextItYield(Ev.t, q0)
                 /\ Judge(FALSE)

TNext == /\ l <= Len(Trace) /\ l' = l + 1
         /\ (TReset \/ TNewAv \/ TClear \/ TCount \/ TOfLength \/ TEnum \/ TMember \/ TSub
             \/ TOpenOf \/ TOpenUpTo \/ TOpenFirst \/ TNextIt \/ TInterrupted \/ TLongMember \/ TLevelStep \/ TLevelSound)
TraceDone == l = Len(Trace) + 1 => PrintT(ToJson([verdict |-> bad, drift |-> drift, n |-> Len(Trace)]))
=============================================================================
