-------------------------- MODULE Trace_RepoTests --------------------------
(***************************************************************************)
(* Calls made by the repository's own test suite (recorded by              *)
(* harness/recorder.py while pytest runs), judged by the definitions:      *)
(*   Mixed(kind, q, cl, ms, res)   Perm.contains / Perm.avoids             *)
(*   AvCount(basis, n, res)        Av.count                                *)
(*   AvMember(basis, q, res)       perm in Av                              *)
(***************************************************************************)
EXTENDS Mesh, Json, IOUtils
Trace == JsonDeserialize(IOEnv.TRACE_FILE)
VARIABLES l, bad
Ev == Trace[l]
Flag(clause) == Append(bad, [i |-> l, clause |-> clause])
ToSetOf(s) == {s[i] : i \in DOMAIN s}
AsMesh(m) == MMesh(m.p, ToSetOf(m.R))
TInit == l = 1 /\ bad = <<>>
MixedValue(kind, q, cl, ms) ==
    IF kind = "contains"
    THEN (\A i \in DOMAIN cl : PContains(q, cl[i])) /\ (\A i \in DOMAIN ms : MContains(q, AsMesh(ms[i])))
    ELSE (\A i \in DOMAIN cl : PAvoids(q, cl[i])) /\ (\A i \in DOMAIN ms : MAvoids(q, AsMesh(ms[i])))
TMixed == Ev.op = "Mixed" /\ bad' = IF Ev.res = MixedValue(Ev.kind, Ev.q, Ev.cl, Ev.ms) THEN bad ELSE Flag("ContainmentAgreesWithDefinition")
TCount == Ev.op = "AvCount" /\ bad' = IF Ev.res = Cardinality(PAvLevel(ToSetOf(Ev.basis), Ev.n)) THEN bad ELSE Flag("CountIsClassSize")
TMember == Ev.op = "AvMember" /\ bad' = IF Ev.res = PAvoidsAll(Ev.q, ToSetOf(Ev.basis)) THEN bad ELSE Flag("MembershipIsAvoidance")
TNext == l <= Len(Trace) /\ l' = l + 1 /\ (TMixed \/ TCount \/ TMember)
TraceDone == l = Len(Trace) + 1 => PrintT(ToJson([verdict |-> bad, drift |-> <<>>, n |-> Len(Trace)]))
=============================================================================
