----------------------------- MODULE Trace_C18 -----------------------------
(***************************************************************************)
(* Licences and insertions recorded from the real code on larger patterns  *)
(* (length 3, sampled shadings), judged by their meaning over the universe *)
(* U of permutations.                                                      *)
(*   Licence(p,R,cells)     the code licensed shading `cells` (1 or 2)     *)
(*   AddPoint(p,R,c,dir,resp,resR)  result of add_point                    *)
(***************************************************************************)
EXTENDS C18_Shading, IOUtils

Trace == JsonDeserialize(IOEnv.TRACE_FILE)
VARIABLES l, bad
Ev == Trace[l]
Flag(clause) == Append(bad, [i |-> l, clause |-> clause])
ToSetOf(s) == {s[i] : i \in DOMAIN s}
EvM == MMesh(Ev.p, ToSetOf(Ev.R))

TInit == l = 1 /\ bad = <<>> /\ patt = <<>> /\ shade = {}
TLicence == /\ Ev.op = "Licence"
            /\ bad' = IF SemShadable(EvM, ToSetOf(Ev.cells)) THEN bad ELSE Flag("LicenceChangesMeaning")
TAddPoint == /\ Ev.op = "AddPoint"
             /\ LET A == MAddPoint(EvM, Ev.c, Ev.dir) IN
                bad' = IF A.p = Ev.resp /\ A.R = ToSetOf(Ev.resR) THEN bad ELSE Flag("AddPointIsDiagramInsertion")
TNext == l <= Len(Trace) /\ l' = l + 1 /\ UNCHANGED vars /\ (TLicence \/ TAddPoint)
TraceDone == l = Len(Trace) + 1 => PrintT(ToJson([verdict |-> bad, drift |-> <<>>, n |-> Len(Trace)]))
=============================================================================
