----------------------------- MODULE Trace_C18 -----------------------------
(***************************************************************************)
(* Licences and insertions recorded from the real code on larger patterns  *)
(* (length 3, sampled shadings), judged by their meaning over the universe *)
(* U of permutations.                                                      *)
(*   Licence(p,R,cells)     the code licensed shading `cells` (1, 2        *)
(*                          or more; any cells, adjacent or not)           *)
(*   AddPoint(p,R,c,dir,resp,resR)  result of add_point                    *)
(*   AddTwo(p,R,c,kind,resp,resR)   result of add_increase / add_decrease  *)
(*   Shade(p,R,cells,resp,resR)     result of shade called with the cells  *)
(*   Rect(p,R,r,shaded,pointfree)   is_shaded / is_pointfree of the        *)
(*                                  rectangle r = <<left,lower,right,upper>>*)
(*   Ascii(p,R,s,rows)              ascii_plot(cell_size = s) parsed into  *)
(*                                  a matrix of symbols                    *)
(***************************************************************************)
EXTENDS C18_Shading, IOUtils

Trace == JsonDeserialize(IOEnv.TRACE_FILE)
VARIABLES l, bad
Ev == Trace[l]
Flag(clause) == Append(bad, [i |-> l, clause |-> clause])
ToSetOf(s) == {s[i] : i \in DOMAIN s}
EvM == MMesh(Ev.p, ToSetOf(Ev.R))

TInit == l = 1 /\ bad = <<>> /\ patt = <<>> /\ shade = {}
TLicence == /\ Ev.op = "Licence"
            /\ bad' = IF SemShadable(EvM, ToSetOf(Ev.cells)) THEN bad ELSE Flag("LicenceChangesMeaning")
\* A licence on a pattern too long for its meaning to be explored, together with a permutation q offered as a witness that the
\* licensed shading changes the meaning (found by the harness by whatever means): the specification decides whether q is one -
\* it contains the pattern and avoids the pattern with the licensed cells shaded.  A confirmed witness is a violation; an
\* unconfirmed one says nothing (clause "ok").
TRefuted == /\ Ev.op = "Refuted"
            /\ bad' = IF MContains(Ev.q, EvM) /\ ~MContains(Ev.q, MShade(EvM, ToSetOf(Ev.cells))) THEN Flag("LicenceChangesMeaning") ELSE bad
TAddPoint == /\ Ev.op = "AddPoint"
             /\ LET A == MAddPoint(EvM, Ev.c, Ev.dir) IN
                bad' = IF A.p = Ev.resp /\ A.R = ToSetOf(Ev.resR) THEN bad ELSE Flag("AddPointIsDiagramInsertion")
TAddTwo == /\ Ev.op = "AddTwo"
           /\ LET c == Ev.c
                  A == MAddPoint(MAddPoint(EvM, c, "none"), IF Ev.kind = "inc" THEN <<c[1] + 1, c[2] + 1>> ELSE <<c[1] + 1, c[2]>>, "none") IN
              bad' = IF A.p = Ev.resp /\ A.R = ToSetOf(Ev.resR) THEN bad ELSE Flag("AddPointIsDiagramInsertion")
TShade == /\ Ev.op = "Shade"
          /\ LET A == MShade(EvM, ToSetOf(Ev.cells)) IN
             bad' = IF A.p = Ev.resp /\ A.R = ToSetOf(Ev.resR) THEN bad ELSE Flag("ShadeAddsCell")
TRect == /\ Ev.op = "Rect"
         /\ bad' = IF Ev.shaded # RectShadedOf(EvM, Ev.r) THEN Flag("RegionShaded")
                    ELSE IF Ev.pointfree # RectPointFreeOf(EvM, Ev.r) THEN Flag("RegionPointFree") ELSE bad
TAscii == /\ Ev.op = "Ascii"
          /\ bad' = IF Ev.rows = AsciiOf(EvM, Ev.s) THEN bad ELSE Flag("RenderingFaithful")
TNext == l <= Len(Trace) /\ l' = l + 1 /\ UNCHANGED vars /\ (TLicence \/ TRefuted \/ TAddPoint \/ TAddTwo \/ TShade \/ TRect \/ TAscii)
TraceDone == l = Len(Trace) + 1 => PrintT(ToJson([verdict |-> bad, drift |-> <<>>, n |-> Len(Trace)]))
=============================================================================
