----------------------------- MODULE Trace_C06 -----------------------------
(***************************************************************************)
(* Containment reports and induced sub-patterns recorded from the real     *)
(* code on larger patterns (length 3-4), judged by definition and by       *)
(* meaning.                                                                *)
(*   Occ(p1,R1,p2,R2,res)   sorted(M1.occurrences_in(M2))                  *)
(*   Sub(p,R,S,resp,resR)   M.sub_mesh_pattern(S)                          *)
(*   Implies(p1,R1,p2,R2,q,c2,c1)  the code reported M1 inside M2 and the  *)
(*                                 real Perm.contains gave c2, c1 for q    *)
(*   All(ms,p2,R2,contains,avoids) M2.contains / M2.avoids called with all *)
(*                                 patterns of the list ms (maybe empty)   *)
(***************************************************************************)
EXTENDS Mesh, Json, IOUtils
Trace == JsonDeserialize(IOEnv.TRACE_FILE)
VARIABLES l, bad
Ev == Trace[l]
Flag(clause) == Append(bad, [i |-> l, clause |-> clause])
ToSetOf(s) == {s[i] : i \in DOMAIN s}
TInit == l = 1 /\ bad = <<>>
TOcc == /\ Ev.op = "Occ"
        /\ bad' = IF Ev.res = MOccInMeshSeq0(MMesh(Ev.p1, ToSetOf(Ev.R1)), MMesh(Ev.p2, ToSetOf(Ev.R2))) THEN bad ELSE Flag("InMeshOccurrencesExact")
TSub == /\ Ev.op = "Sub"
        /\ LET Sb == MSubMesh(MMesh(Ev.p, ToSetOf(Ev.R)), {i + 1 : i \in ToSetOf(Ev.S)}) IN
           bad' = IF Sb.p = Ev.resp /\ Sb.R = ToSetOf(Ev.resR) THEN bad ELSE Flag("InducedSubPattern")
TImplies == /\ Ev.op = "Implies"
            /\ LET c2 == MContains(Ev.q, MMesh(Ev.p2, ToSetOf(Ev.R2)))
                   c1 == MContains(Ev.q, MMesh(Ev.p1, ToSetOf(Ev.R1))) IN
               bad' = IF (c2 => c1) /\ Ev.c2 = c2 /\ Ev.c1 = c1 THEN bad ELSE Flag("ContainmentImplied")
TAll == /\ Ev.op = "All"
        /\ LET M2 == MMesh(Ev.p2, ToSetOf(Ev.R2))
               In(k) == MOccInMesh(MMesh(Ev.ms[k].p, ToSetOf(Ev.ms[k].R)), M2) # {} IN
           bad' = IF Ev.contains = (\A k \in DOMAIN Ev.ms : In(k)) /\ Ev.avoids = (\A k \in DOMAIN Ev.ms : ~In(k))
                  THEN bad ELSE Flag("ContainsAvoidsAll")
TNext == l <= Len(Trace) /\ l' = l + 1 /\ (TOcc \/ TSub \/ TImplies \/ TAll)
TraceDone == l = Len(Trace) + 1 => PrintT(ToJson([verdict |-> bad, drift |-> <<>>, n |-> Len(Trace)]))
=============================================================================
