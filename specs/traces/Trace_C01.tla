----------------------------- MODULE Trace_C01 -----------------------------
(***************************************************************************)
(* Validates recorded executions of the real code against C01_Search.      *)
(* The trace is a JSON array of events; one TLC step consumes one event.   *)
(*   New(p)            a pattern object is created                         *)
(*   Search(q,res)     list(p.occurrences_in(q)) on the current object     *)
(*   SearchedIn(p2,res) list(p2.occurrences_in(p)): the current object is   *)
(*                     the permutation being searched                      *)
(*   SearchCol(q,cp,cq,res)  the same with colourings                      *)
(*   Pred(kind,q,ps,res)  contains / avoids / avoids_set / in / count_*    *)
(*   Col(p,q,cp,cq,res)   coloured occurrences                             *)
(* Verdicts are total: a step never blocks; a disagreeing event is         *)
(* recorded in `bad` with the name of the failing clause, the machine      *)
(* continues from the specification's state.                               *)
(***************************************************************************)
EXTENDS C01_Search, IOUtils

Trace == JsonDeserialize(IOEnv.TRACE_FILE)

VARIABLES l, bad, drift
tvars == <<vars, l, bad, drift>>

Ev == Trace[l]
Flag(clause) == Append(bad, [i |-> l, clause |-> clause])

TInit == /\ l = 1 /\ bad = <<>> /\ drift = <<>>
         /\ patt = <<>> /\ bound = FALSE /\ searched = FALSE /\ perm = <<>> /\ reply = <<>> /\ cols = <<>> /\ its = <<>> /\ astext = FALSE

TNew == /\ Ev.op = "New"
        /\ patt' = Ev.p /\ bound' = FALSE /\ searched' = FALSE /\ perm' = <<>> /\ reply' = <<>> /\ cols' = <<>> /\ its' = <<>> /\ astext' = FALSE
        /\ bad' = IF PIsPerm(Ev.p) THEN bad ELSE Flag("NewIsPerm")
        /\ UNCHANGED drift

TSearch == /\ Ev.op = "Search"
           /\ Search(Ev.q)                                   \* the machine's action
           /\ bad' = IF reply' = Ev.res THEN bad ELSE Flag("ReplyIsListing")
           /\ drift' = IF Ev.tabok THEN drift ELSE Append(drift, l)   \* table compared by the adapter with Memo

\* the current object is the permutation: Ev.p2 (any object, fresh or long-lived) is searched in it
TSearchedIn == /\ Ev.op = "SearchedIn"
               /\ SearchedIn(Ev.p2)
               /\ bad' = IF reply' = Ev.res THEN bad ELSE Flag("ReplyIsListing")
               /\ UNCHANGED drift

\* a coloured search on the current (possibly already used) object
TSearchCol == /\ Ev.op = "SearchCol"
              /\ SearchCol(Ev.q, Ev.cp, Ev.cq)
              /\ bad' = IF reply' = Ev.res THEN bad ELSE Flag("ColouredOccurrences")
              /\ UNCHANGED drift

\* lazy iterators on the current object, consumed in any interleaving
TOpenIter == /\ Ev.op = "OpenIter"
             /\ its' = Append(its, [q |-> Ev.q, got |-> <<>>, done |-> FALSE])
             /\ UNCHANGED <<patt, bound, searched, perm, reply, cols, astext, bad, drift>>
TStepIter == /\ Ev.op = "StepIter"
             /\ IF Ev.it \notin DOMAIN its \/ its[Ev.it].done
                THEN \* the real iterator goes on after the model's listing is exhausted: flagged, state kept (total verdicts)
                     /\ bad' = Flag("ItersIndependent") /\ UNCHANGED <<vars, drift>>
                ELSE /\ StepIter(Ev.it)
                     /\ bad' = IF Ev.stop = its'[Ev.it].done /\ (Ev.stop \/ Ev.res = its'[Ev.it].got[Len(its'[Ev.it].got)])
                                THEN bad ELSE Flag("ItersIndependent")
                     /\ UNCHANGED drift

AllOcc(q, ps) == [i \in DOMAIN ps |-> POcc(ps[i], q)]
PredValue(kind, q, ps) ==
    CASE kind = "contains" -> \A i \in DOMAIN ps : PContains(q, ps[i])
      [] kind = "avoids"   -> \A i \in DOMAIN ps : PAvoids(q, ps[i])
      [] kind = "count"    -> Cardinality(POcc(ps[1], q))
TPred == /\ Ev.op = "Pred"
         /\ bad' = IF Ev.res = PredValue(Ev.kind, Ev.q, Ev.ps) THEN bad ELSE Flag("PredicatesAgree")
         /\ UNCHANGED <<vars, drift>>

TCol == /\ Ev.op = "Col"
        /\ bad' = IF Ev.res = POccColSeq0(Ev.p, Ev.q, Ev.cp, Ev.cq) THEN bad ELSE Flag("ColouredOccurrences")
        /\ UNCHANGED <<vars, drift>>

\* permutations of more than a thousand entries against patterns of length <= 3: containment decided by the definition with
\* the position tuple found by nested quantifiers (PContainsQ); the call must return (raised = FALSE)
TLongPred == /\ Ev.op = "LongPred"
             /\ bad' = IF ~Ev.raised /\ Ev.res = (IF Ev.kind = "contains" THEN \A i \in DOMAIN Ev.ps : PContainsQ(Ev.q, Ev.ps[i])
                                                                           ELSE \A i \in DOMAIN Ev.ps : ~PContainsQ(Ev.q, Ev.ps[i]))
                       THEN bad ELSE Flag("PredicatesAgree")
             /\ UNCHANGED <<vars, drift>>

TNext == /\ l <= Len(Trace)
         /\ l' = l + 1
         /\ (TNew \/ TSearch \/ TSearchedIn \/ TSearchCol \/ TPred \/ TCol \/ TOpenIter \/ TStepIter \/ TLongPred)

\* every invariant of the machine is evaluated at every step of the real execution
TraceDone == l = Len(Trace) + 1 => PrintT(ToJson([verdict |-> bad, drift |-> drift, n |-> Len(Trace)]))
=============================================================================
