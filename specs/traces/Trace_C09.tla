----------------------------- MODULE Trace_C09 -----------------------------
(***************************************************************************)
(* Calls of the real code on larger / random arguments, one event each,    *)
(* judged against the C09 definitions (verdicts are total: an event never  *)
(* blocks, a failing one appends its index and the clause to `bad`).       *)
(*   Unrank(r, raised, res)        Perm.unrank(r)                          *)
(*   UnrankN(r, n, raised, res)    Perm.unrank(r, n)                       *)
(*   Rank(p, res)                  p.rank()                                *)
(*   Less(a, b, lt)                a < b                                   *)
(*   NextOf(p, q)                  two consecutive outputs of a generator  *)
(*   Std(pat, res)                 Perm.to_standard(values with order      *)
(*                                 pattern pat) (any carrier, any history) *)
(*   Valid(s, accepted, exc)       Perm.from_iterable_validated            *)
(*   Read(kind, data, res)         from_string / one_based / from_integer  *)
(*                                 applied to the digit sequence data      *)
(*   RoundTrip(kind, p, res)       reader(writer(p))                       *)
(*   MeshRank(p, R, rank)          MeshPatt(p, R).rank()                   *)
(*   MeshUnrank(p, r, raised, R)   MeshPatt.unrank(p, r)                   *)
(***************************************************************************)
EXTENDS LexRank, Json, IOUtils
CONSTANTS TMaxLen, TNonInt
Trace == JsonDeserialize(IOEnv.TRACE_FILE)
VARIABLES l, bad
Ev == Trace[l]
Flag(clause) == Append(bad, [i |-> l, clause |-> clause])
Judge(ok, clause) == bad' = IF ok THEN bad ELSE Flag(clause)
ToSetOf(s) == {s[i] : i \in DOMAIN s}

PermsTab == [n \in 0..TMaxLen |-> LAllPerms(n)]
\* number of shorter permutations, counted from the table
CountSeq == [k \in 1..(TMaxLen + 1) |-> Cardinality(PermsTab[k - 1])]
ShorterTab == [n \in 0..(TMaxLen + 1) |-> LShorterFromCounts(CountSeq, n)]
InRange(p) == PIsPerm(p) /\ Len(p) <= TMaxLen
RankOf(p) == ShorterTab[Len(p)] + LRankIn(PermsTab[Len(p)], p)

TInit == l = 1 /\ bad = <<>>
TUnrank == /\ Ev.op = "Unrank"
           /\ IF Ev.r < 0 THEN Judge(Ev.raised, "UnrankRejectsNegative")
              ELSE IF Ev.raised THEN Judge(FALSE, "UnrankTotalOnNaturals")
              ELSE IF ~InRange(Ev.res) THEN Judge(FALSE, "UnrankYieldsPermutation")
              ELSE Judge(RankOf(Ev.res) = Ev.r, "UnrankIsInverseOfRank")
TUnrankN == /\ Ev.op = "UnrankN"
            /\ LET valid == Ev.r >= 0 /\ Ev.r < Cardinality(PermsTab[Ev.n]) IN
               IF ~valid THEN Judge(Ev.raised, "UnrankNRejectsOutOfRange")
               ELSE IF Ev.raised THEN Judge(FALSE, "UnrankNTotalOnRange")
               ELSE IF ~(PIsPerm(Ev.res) /\ Len(Ev.res) = Ev.n) THEN Judge(FALSE, "UnrankNYieldsLength")
               ELSE Judge(LRankIn(PermsTab[Ev.n], Ev.res) = Ev.r, "UnrankNIsRankInLength")
TRank == /\ Ev.op = "Rank"
         /\ Judge(RankOf(Ev.p) = Ev.res, "RankIsNumberOfSmaller")
TLess == /\ Ev.op = "Less"
         /\ Judge(Ev.lt = PPermLess(Ev.a, Ev.b), "LessIsLengthLex")
TNextOf == /\ Ev.op = "NextOf"
           /\ IF ~PPermLess(Ev.p, Ev.q) THEN Judge(FALSE, "GeneratorIncreasing")
              ELSE Judge(~\E r \in PermsTab[Len(Ev.p)] \cup PermsTab[Len(Ev.q)] : PPermLess(Ev.p, r) /\ PPermLess(r, Ev.q),
                         "GeneratorSkipsNothing")
TStd == /\ Ev.op = "Std"
        /\ IF Ev.res # PStd(Ev.pat) THEN Judge(FALSE, "StdIsDefinition")
           ELSE Judge(LIsStdOf(Ev.res, Ev.pat), "StdIsOrderIsomorphic")
HasNonInt(s) == \E i \in DOMAIN s : s[i] = TNonInt
IntPartFine(s) == /\ \A i \in DOMAIN s : s[i] # TNonInt => s[i] \in 0..(Len(s) - 1)
                  /\ \A i, j \in DOMAIN s : (s[i] # TNonInt /\ s[i] = s[j]) => i = j
TValid == /\ Ev.op = "Valid"
          /\ LET s == Ev.s  acc == ~HasNonInt(s) /\ LIsBijection(s) IN
             IF acc # Ev.accepted THEN Judge(FALSE, "ValidatedAcceptsExactlyBijections")
             ELSE IF acc THEN Judge(TRUE, "ok")
             ELSE IF ~HasNonInt(s) THEN Judge(Ev.exc = "ValueError", "ValidatedExceptionClass")
             ELSE IF IntPartFine(s) THEN Judge(Ev.exc = "TypeError", "ValidatedExceptionClass")
             ELSE Judge(Ev.exc \in {"TypeError", "ValueError"}, "ValidatedExceptionClass")
DigitsOK(d) == \A i \in DOMAIN d : d[i] \in 0..9
TRead == /\ Ev.op = "Read"
         /\ LET d == Ev.data  res == Ev.res IN
            IF Ev.kind = "string" THEN Judge(DigitsOK(res) /\ LChars(res) = d, "FromStringReadsDigits")
            ELSE IF Ev.kind = "one" THEN Judge(LOneBased(res) = d, "OneBasedSubtractsOne")
            ELSE \* integer: the digits, standardised; a zero- or one-based numeral of a permutation denotes it
                 IF res # PStd(d) THEN Judge(FALSE, "FromIntegerStandardisesDigits")
                 ELSE IF LIsBijection(d) THEN Judge(res = d, "FromIntegerZeroBased")
                 ELSE IF LIsBijection([i \in DOMAIN d |-> d[i] - 1]) THEN Judge(LOneBased(res) = d, "FromIntegerOneBased")
                 ELSE Judge(TRUE, "ok")
TRoundTrip == /\ Ev.op = "RoundTrip"
              /\ Judge(Ev.res = Ev.p /\ PIsPerm(Ev.p), "RoundTrip")
TMeshRank == /\ Ev.op = "MeshRank"
             /\ Judge(MRank(MMesh(Ev.p, ToSetOf(Ev.R))) = Ev.rank, "MeshRankIsBinaryNumber")
TMeshUnrank == /\ Ev.op = "MeshUnrank"
               /\ LET k == Len(Ev.p)  valid == Ev.r >= 0 /\ Ev.r < MPow2((k + 1) * (k + 1)) IN
                  IF ~valid THEN Judge(Ev.raised, "MeshUnrankRejectsOutOfRange")
                  ELSE IF Ev.raised THEN Judge(FALSE, "MeshUnrankTotalOnRange")
                  ELSE IF ~(ToSetOf(Ev.R) \subseteq MCells(k)) \/ Len(Ev.R) # Cardinality(ToSetOf(Ev.R)) THEN Judge(FALSE, "MeshUnrankYieldsShading")
                  ELSE Judge(MRank(MMesh(Ev.p, ToSetOf(Ev.R))) = Ev.r, "MeshUnrankIsInverseOfRank")
TNext == /\ l <= Len(Trace) /\ l' = l + 1
         /\ (TUnrank \/ TUnrankN \/ TRank \/ TLess \/ TNextOf \/ TStd \/ TValid \/ TRead \/ TRoundTrip \/ TMeshRank \/ TMeshUnrank)
TraceDone == l = Len(Trace) + 1 => PrintT(ToJson([verdict |-> bad, drift |-> <<>>, n |-> Len(Trace)]))
=============================================================================
