----------------------------- MODULE Trace_C09 -----------------------------
(***************************************************************************)
(* Calls of the real code on larger / random arguments, one event each,    *)
(* judged against the C09 definitions (verdicts are total: an event never  *)
(* blocks, a failing one appends its index and the clause to `bad`).       *)
(*   Unrank(r, raised, res)        Perm.unrank(r)                          *)
(*   UnrankN(r, n, raised, res)    Perm.unrank(r, n)                       *)
(*   Rank(p, res)                  p.rank()                                *)
(*   Less(a, b, lt)                a < b                                   *)
(*   NextOf(p, q)                  two consecutive outputs of a generator  *)
(*   Std(pat, res)                 Perm.to_standard(values with order      *)
(*                                 pattern pat) (any carrier, any history) *)
(*   Valid(s, accepted, exc)       Perm.from_iterable_validated            *)
(*   Read(kind, data, res)         from_string / one_based / from_integer  *)
(*                                 applied to the digit sequence data      *)
(*   RoundTrip(kind, p, res)       reader(writer(p))                       *)
(*   MeshRank(p, R, rank)          MeshPatt(p, R).rank()                   *)
(*   MeshUnrank(p, r, raised, R)   MeshPatt.unrank(p, r)                   *)
(*   GenCount(gen, arg, count)     a generator run to its end produced     *)
(*                                 count permutations                      *)
(*   MeshListed(k, idx, haspatt, p, R)  the idx-th output (0-based) of      *)
(*                                 MeshPatt.of_length(k) / of_length(k, p) *)
(*   MeshListedEnd(k, haspatt, count)  such a listing run to its end        *)
(*   BigRank(p, res) / BigUnrank(r, raised, res) / BigUnrankN(r, n, ..)    *)
(*                                 the same calls on permutations of any   *)
(*                                 length, ranks as base-10000 numerals    *)
(* Permutations longer than TMaxLen (up to length 12) are ranked without   *)
(* enumeration (LRankBySplit, cross-checked in LibSanity_LexRank).         *)
(***************************************************************************)
EXTENDS LexRank, Json, IOUtils
CONSTANTS TMaxLen, TNonInt
Trace == JsonDeserialize(IOEnv.TRACE_FILE)
VARIABLES l, bad
Ev == Trace[l]
Flag(clause) == Append(bad, [i |-> l, clause |-> clause])
Judge(ok, clause) == bad' = IF ok THEN bad ELSE Flag(clause)
ToSetOf(s) == {s[i] : i \in DOMAIN s}

PermsTab == [n \in 0..TMaxLen |-> LAllPerms(n)]
\* number of shorter permutations, counted from the table
CountSeq == [k \in 1..(TMaxLen + 1) |-> Cardinality(PermsTab[k - 1])]
ShorterTab == [n \in 0..(TMaxLen + 1) |-> LShorterFromCounts(CountSeq, n)]
TLongMax == 12       \* 12! and the number of permutations shorter than 13 fit TLC's 32-bit integers
InRange(p) == PIsPerm(p) /\ Len(p) <= TLongMax
RankInLength(p) == IF Len(p) <= TMaxLen THEN LRankIn(PermsTab[Len(p)], p) ELSE LRankBySplit(p)
RankOf(p) == IF Len(p) <= TMaxLen THEN ShorterTab[Len(p)] + LRankIn(PermsTab[Len(p)], p) ELSE LOverallRankBySplit(p)
CountOf(n) == IF n <= TMaxLen THEN Cardinality(PermsTab[n]) ELSE PFact(n)

TInit == l = 1 /\ bad = <<>>
TUnrank == /\ Ev.op = "Unrank"
           /\ IF Ev.r < 0 THEN Judge(Ev.raised, "UnrankRejectsNegative")
              ELSE IF Ev.raised THEN Judge(FALSE, "UnrankTotalOnNaturals")
              ELSE IF ~InRange(Ev.res) THEN Judge(FALSE, "UnrankYieldsPermutation")
              ELSE Judge(RankOf(Ev.res) = Ev.r, "UnrankIsInverseOfRank")
TUnrankN == /\ Ev.op = "UnrankN"
            /\ LET valid == Ev.r >= 0 /\ Ev.r < CountOf(Ev.n) IN
               IF ~valid THEN Judge(Ev.raised, "UnrankNRejectsOutOfRange")
               ELSE IF Ev.raised THEN Judge(FALSE, "UnrankNTotalOnRange")
               ELSE IF ~(PIsPerm(Ev.res) /\ Len(Ev.res) = Ev.n) THEN Judge(FALSE, "UnrankNYieldsLength")
               ELSE Judge(RankInLength(Ev.res) = Ev.r, "UnrankNIsRankInLength")
TRank == /\ Ev.op = "Rank"
         /\ Judge(RankOf(Ev.p) = Ev.res, "RankIsNumberOfSmaller")
\* permutations of any length: ranks travel as base-10000 numerals (least significant digit first)
TBigRank == /\ Ev.op = "BigRank"
            /\ Judge(PIsPerm(Ev.p) /\ LBigOverallRank(Ev.p) = Ev.res, "RankIsNumberOfSmaller")
TBigUnrank == /\ Ev.op = "BigUnrank"
              /\ IF Ev.raised THEN Judge(FALSE, "UnrankTotalOnNaturals")
                 ELSE IF ~PIsPerm(Ev.res) THEN Judge(FALSE, "UnrankYieldsPermutation")
                 ELSE Judge(LBigOverallRank(Ev.res) = Ev.r, "UnrankIsInverseOfRank")
TBigUnrankN == /\ Ev.op = "BigUnrankN"
               /\ IF Ev.raised THEN Judge(FALSE, "UnrankNTotalOnRange")
                  ELSE IF ~(PIsPerm(Ev.res) /\ Len(Ev.res) = Ev.n) THEN Judge(FALSE, "UnrankNYieldsLength")
                  ELSE Judge(LBigRankBySplit(Ev.res) = Ev.r, "UnrankNIsRankInLength")
\* grids of more than 31 cells (patterns of length 5 and more): the rank as a numeral
TBigMeshRank == /\ Ev.op = "BigMeshRank"
                /\ Judge(MBigRank(MMesh(Ev.p, ToSetOf(Ev.R))) = Ev.res, "MeshRankIsBinaryNumber")
TBigMeshUnrank == /\ Ev.op = "BigMeshUnrank"
                  /\ IF Ev.raised THEN Judge(FALSE, "MeshUnrankTotalOnRange")
                     ELSE IF ~(ToSetOf(Ev.R) \subseteq MCells(Len(Ev.p))) \/ Len(Ev.R) # Cardinality(ToSetOf(Ev.R)) THEN Judge(FALSE, "MeshUnrankYieldsShading")
                     ELSE Judge(MBigRank(MMesh(Ev.p, ToSetOf(Ev.R))) = Ev.r, "MeshUnrankIsInverseOfRank")
TLess == /\ Ev.op = "Less"
         /\ Judge(Ev.lt = PPermLess(Ev.a, Ev.b), "LessIsLengthLex")
TNextOf == /\ Ev.op = "NextOf"
           /\ IF ~(InRange(Ev.p) /\ InRange(Ev.q)) THEN Judge(FALSE, "GeneratorYieldsPermutations")
              ELSE IF ~PPermLess(Ev.p, Ev.q) THEN Judge(FALSE, "GeneratorIncreasing")
              ELSE IF Len(Ev.q) <= TMaxLen
                   THEN Judge(~\E r \in PermsTab[Len(Ev.p)] \cup PermsTab[Len(Ev.q)] : PPermLess(Ev.p, r) /\ PPermLess(r, Ev.q),
                              "GeneratorSkipsNothing")
              \* too long to enumerate: nothing lies between iff the number of smaller permutations grows by one
              ELSE Judge(RankOf(Ev.q) = RankOf(Ev.p) + 1, "GeneratorSkipsNothing")
TStd == /\ Ev.op = "Std"
        /\ IF Ev.res # PStd(Ev.pat) THEN Judge(FALSE, "StdIsDefinition")
           ELSE Judge(LIsStdOf(Ev.res, Ev.pat), "StdIsOrderIsomorphic")
HasNonInt(s) == \E i \in DOMAIN s : s[i] = TNonInt
IntPartFine(s) == /\ \A i \in DOMAIN s : s[i] # TNonInt => s[i] \in 0..(Len(s) - 1)
                  /\ \A i, j \in DOMAIN s : (s[i] # TNonInt /\ s[i] = s[j]) => i = j
TValid == /\ Ev.op = "Valid"
          /\ LET s == Ev.s  acc == ~HasNonInt(s) /\ LIsBijection(s) IN
             IF acc # Ev.accepted THEN Judge(FALSE, "ValidatedAcceptsExactlyBijections")
             ELSE IF acc THEN Judge(TRUE, "ok")
             ELSE IF ~HasNonInt(s) THEN Judge(Ev.exc = "ValueError", "ValidatedExceptionClass")
             ELSE IF IntPartFine(s) THEN Judge(Ev.exc = "TypeError", "ValidatedExceptionClass")
             ELSE Judge(Ev.exc \in {"TypeError", "ValueError"}, "ValidatedExceptionClass")
DigitsOK(d) == \A i \in DOMAIN d : d[i] \in 0..9
TRead == /\ Ev.op = "Read"
         /\ LET d == Ev.data  res == Ev.res IN
            IF Ev.kind = "string" THEN Judge(DigitsOK(res) /\ LChars(res) = d, "FromStringReadsDigits")
            ELSE IF Ev.kind = "one" THEN Judge(LOneBased(res) = d, "OneBasedSubtractsOne")
            ELSE \* integer: the digits, standardised; a zero- or one-based numeral of a permutation denotes it
                 IF res # PStd(d) THEN Judge(FALSE, "FromIntegerStandardisesDigits")
                 ELSE IF LIsBijection(d) THEN Judge(res = d, "FromIntegerZeroBased")
                 ELSE IF LIsBijection([i \in DOMAIN d |-> d[i] - 1]) THEN Judge(LOneBased(res) = d, "FromIntegerOneBased")
                 ELSE Judge(TRUE, "ok")
TRoundTrip == /\ Ev.op = "RoundTrip"
              /\ Judge(Ev.res = Ev.p /\ PIsPerm(Ev.p), "RoundTrip")
TMeshRank == /\ Ev.op = "MeshRank"
             /\ Judge(MRank(MMesh(Ev.p, ToSetOf(Ev.R))) = Ev.rank, "MeshRankIsBinaryNumber")
TMeshUnrank == /\ Ev.op = "MeshUnrank"
               /\ LET k == Len(Ev.p)  valid == Ev.r >= 0 /\ Ev.r < MPow2((k + 1) * (k + 1)) IN
                  IF ~valid THEN Judge(Ev.raised, "MeshUnrankRejectsOutOfRange")
                  ELSE IF Ev.raised THEN Judge(FALSE, "MeshUnrankTotalOnRange")
                  ELSE IF ~(ToSetOf(Ev.R) \subseteq MCells(k)) \/ Len(Ev.R) # Cardinality(ToSetOf(Ev.R)) THEN Judge(FALSE, "MeshUnrankYieldsShading")
                  ELSE Judge(MRank(MMesh(Ev.p, ToSetOf(Ev.R))) = Ev.r, "MeshUnrankIsInverseOfRank")
\* a listing run to its end: all permutations of the length / of all lengths up to it / the first arg ones
TGenCount == /\ Ev.op = "GenCount"
             /\ Judge(Ev.count = (CASE Ev.gen = "of_length" -> CountOf(Ev.arg)
                                   [] Ev.gen = "up_to_length" -> (IF Ev.arg <= TMaxLen THEN ShorterTab[Ev.arg + 1] ELSE PSumFact(Ev.arg + 1))
                                   [] Ev.gen = "first" -> Ev.arg), "GeneratorYieldsAll")
\* position in the listing = (number of smaller underlying patterns) * (number of shadings) + rank of the shading;
\* with the underlying pattern given, the listing is that of its shadings alone
TMeshListed == /\ Ev.op = "MeshListed"
               /\ LET k == Ev.k  R == ToSetOf(Ev.R) IN
                  IF ~(PIsPerm(Ev.p) /\ Len(Ev.p) = k /\ R \subseteq MCells(k) /\ Len(Ev.R) = Cardinality(R))
                  THEN Judge(FALSE, "MeshOfLengthYieldsMeshPatterns")
                  ELSE IF Ev.haspatt
                  THEN Judge(Ev.p = Ev.patt /\ MRank(MMesh(Ev.p, R)) = Ev.idx, "MeshOfLengthInRankOrder")
                  ELSE Judge(LRankIn(PermsTab[k], Ev.p) * MPow2((k + 1) * (k + 1)) + MRank(MMesh(Ev.p, R)) = Ev.idx,
                             "MeshOfLengthInRankOrder")
\* a listing of mesh patterns run to its end: every shading of every underlying pattern (or of the given one)
TMeshListedEnd == /\ Ev.op = "MeshListedEnd"
                  /\ Judge(Ev.count = (IF Ev.haspatt THEN 1 ELSE Cardinality(PermsTab[Ev.k])) * MPow2((Ev.k + 1) * (Ev.k + 1)),
                           "MeshOfLengthExactlyOnce")
TNext == /\ l <= Len(Trace) /\ l' = l + 1
         /\ (TUnrank \/ TUnrankN \/ TRank \/ TLess \/ TNextOf \/ TStd \/ TValid \/ TRead \/ TRoundTrip \/ TMeshRank \/ TMeshUnrank
             \/ TMeshListed \/ TMeshListedEnd \/ TGenCount \/ TBigRank \/ TBigUnrank \/ TBigUnrankN \/ TBigMeshRank \/ TBigMeshUnrank)
TraceDone == l = Len(Trace) + 1 => PrintT(ToJson([verdict |-> bad, drift |-> <<>>, n |-> Len(Trace)]))
=============================================================================
