----------------------------- MODULE Trace_C11b -----------------------------
(***************************************************************************)
(* Single statistics of the real code on many permutations beyond the      *)
(* exhaustive universe (lengths 7-9), one cheap definition per event - so  *)
(* that a statistic which only goes wrong from some length on is met often *)
(* enough.  One(stat, p, res).                                             *)
(***************************************************************************)
EXTENDS Stats, Json, IOUtils
Trace == JsonDeserialize(IOEnv.TRACE_FILE)
VARIABLES l, bad
Ev == Trace[l]
Flag(clause) == Append(bad, [i |-> l, clause |-> clause])
Value(stat, p) == CASE stat = "holeyness" -> StHoleyness(p) [] stat = "bounces" -> StBounces(p)
                    [] stat = "max_drop_size" -> StMaxDrop(p) [] stat = "column_sum_primes" -> StColumnSumPrimes(p)
                    [] stat = "order" -> StOrder(p) [] stat = "depth" -> StDepth(p) [] stat = "major_index" -> StMajorIndex(p)
                    [] stat = "inversions" -> Cardinality({pr \in (DOMAIN p) \X (DOMAIN p) : pr[1] < pr[2] /\ p[pr[1]] > p[pr[2]]})
                    [] stat = "longest_decreasing_run" -> StLongestDescRun(p)
TInit == l = 1 /\ bad = <<>>
TOne == Ev.op = "One" /\ bad' = IF Ev.res = Value(Ev.stat, Ev.p) THEN bad ELSE Flag(Ev.stat)
TNext == l <= Len(Trace) /\ l' = l + 1 /\ TOne
TraceDone == l = Len(Trace) + 1 => PrintT(ToJson([verdict |-> bad, drift |-> <<>>, n |-> Len(Trace)]))
=============================================================================
