----------------------------- MODULE Trace_C17 -----------------------------
(***************************************************************************)
(* C17 is judged on recorded runs of the real BiSC code: TLC does not run  *)
(* the learning algorithm, it checks what every run returned.              *)
(*   Bisc(A, m, n, SG)          output of bisc(A, m, n)  (SG as [p, R] list)*)
(*   SameOutput(SG1, SG2)       two input representations, same output     *)
(*   Contains(q, SG, res)       the algorithm's own containment test       *)
(*   Suffice(kind, SG, L, S, res)  patterns_suffice_for_good / _bad        *)
(*   CleanUp(SG, Bad)           a basis returned by the clean-up phase and *)
(*                              the bad permutations it was tested on      *)
(*   MaxMesh(q, occ, res)       maximal_mesh_pattern_of_occurrence         *)
(*   Describes(SG, q, prop)     auto_bisc's answer against the property    *)
(*   DescribesAv(SG, q, avoid)  the same for a property defined as avoiding *)
(*                              the mesh patterns `avoid`                  *)
(*   SameAs(SG1, SG2, clause)   two pattern collections that must be equal *)
(*                              as sets of mesh patterns; the clause names *)
(*                              the promise (a helper left its argument    *)
(*                              alone, to_sg_format round trip, the same   *)
(*                              object asked twice)                        *)
(*   SufficeW(kind, SG, L, S, res, wit)  as Suffice, with the permutations *)
(*                              handed back next to the verdict: they must *)
(*                              be checked ones that really offend         *)
(***************************************************************************)
EXTENDS BiscSpec, Json, IOUtils
Trace == JsonDeserialize(IOEnv.TRACE_FILE)
VARIABLES l, bad
Ev == Trace[l]
Flag(clause) == Append(bad, [i |-> l, clause |-> clause])
ToSetOf(s) == {s[i] : i \in DOMAIN s}
AsSG(s) == {MMesh(s[i].p, ToSetOf(s[i].R)) : i \in DOMAIN s}
TInit == l = 1 /\ bad = <<>>
TBisc == /\ Ev.op = "Bisc"
         /\ LET A == ToSetOf(Ev.A)  SG == AsSG(Ev.SG) IN
            bad' = IF ~BSound(A, Ev.n, SG) THEN Flag("SoundUpToN")
                   ELSE IF ~BComplete(A, Ev.m, SG) THEN Flag("CompleteUpToM")
                   ELSE IF ~BIrredundant(A, Ev.n, SG) THEN Flag("Irredundant")
                   ELSE IF \E M \in SG : Len(M.p) > Ev.m THEN Flag("PatternLengthAtMostM")
                   ELSE bad
TSame == Ev.op = "SameOutput" /\ bad' = IF AsSG(Ev.SG1) = AsSG(Ev.SG2) THEN bad ELSE Flag("SameForAllRepresentations")
TContains == Ev.op = "Contains" /\ bad' = IF Ev.res = BContainsAny(Ev.q, AsSG(Ev.SG)) THEN bad ELSE Flag("PrivateContainmentAgrees")
TSuffice == /\ Ev.op = "Suffice"
            /\ LET SG == AsSG(Ev.SG)  S == {q \in ToSetOf(Ev.S) : Len(q) <= Ev.L}
                   want == IF Ev.kind = "good" THEN \A q \in S : ~BContainsAny(q, SG) ELSE \A q \in S : BContainsAny(q, SG) IN
               bad' = IF Ev.res = want THEN bad ELSE Flag("SufficeChecksAgree")
TSameAs == Ev.op = "SameAs" /\ bad' = IF AsSG(Ev.SG1) = AsSG(Ev.SG2) THEN bad ELSE Flag(Ev.clause)
TSufficeW == /\ Ev.op = "SufficeW"
             /\ LET SG == AsSG(Ev.SG)  S == {q \in ToSetOf(Ev.S) : Len(q) <= Ev.L}  W == ToSetOf(Ev.wit) IN
                bad' = IF Ev.res # (BOffenders(Ev.kind, S, SG) = {}) THEN Flag("SufficeChecksAgree")
                       ELSE IF ~BWitnessesOK(Ev.kind, S, SG, Ev.res, W) THEN Flag("SufficeWitnessesOffend")
                       ELSE bad
TCleanUp == Ev.op = "CleanUp" /\ bad' = IF \A q \in ToSetOf(Ev.Bad) : BContainsAny(q, AsSG(Ev.SG)) THEN bad ELSE Flag("CleanUpBasesHitEveryBad")
TMaxMesh == Ev.op = "MaxMesh" /\ bad' = IF ToSetOf(Ev.res) = BMaximalShading(Ev.q, [i \in DOMAIN Ev.occ |-> Ev.occ[i] + 1]) THEN bad ELSE Flag("MaximalShadingOfOccurrence")
TDescribes == Ev.op = "Describes" /\ bad' = IF Ev.prop = ~BContainsAny(Ev.q, AsSG(Ev.SG)) THEN bad ELSE Flag("AutoBiscDescribesProperty")
\* the property is "avoids every mesh pattern of Ev.avoid": the specification evaluates the property itself
TDescribesAv == Ev.op = "DescribesAv" /\ bad' = IF BContainsAny(Ev.q, AsSG(Ev.avoid)) = BContainsAny(Ev.q, AsSG(Ev.SG)) THEN bad ELSE Flag("AutoBiscDescribesProperty")
TNext == l <= Len(Trace) /\ l' = l + 1 /\ (TDescribesAv \/ TBisc \/ TSame \/ TContains \/ TSuffice \/ TCleanUp \/ TMaxMesh \/ TDescribes \/ TSameAs \/ TSufficeW)
TraceDone == l = Len(Trace) + 1 => PrintT(ToJson([verdict |-> bad, drift |-> <<>>, n |-> Len(Trace)]))
=============================================================================
