----------------------------- MODULE Trace_C08 -----------------------------
(***************************************************************************)
(* The relations ==, hash-equality, <, <=, >, >= observed from the real    *)
(* code on a universe of values (one "Rel" event per ordered pair, one     *)
(* "Sorted" event per sorted() call), judged against the laws the property *)
(* states:                                                                 *)
(*   EqIsKeyEq        a == b  iff  Key(a) = Key(b)                          *)
(*   EqualHash        a == b  implies  hash(a) = hash(b)                    *)
(*   Defined          every comparison between two Perms / two mesh-type    *)
(*                    patterns returns a boolean                            *)
(*   Trichotomy       exactly one of a<b, a==b, b<a                         *)
(*   OperatorsAgree   a<=b iff (a<b or a==b); a>b iff b<a; a>=b iff b<=a    *)
(*   Transitive       a<b and b<c imply a<c   (checked at the end)          *)
(*   PermOrder        for permutations: length, then lexicographic          *)
(*   SortedMonotone   sorted() output is non-decreasing and a rearrangement *)
(*                    (non-increasing with reverse=True); min() / max()     *)
(*                    return an element that nothing is below / above       *)
(*   LookupFindsEqual membership of x in a set/dict built from `present`    *)
(*                    holds iff some key equal to x is present              *)
(*   EqualKeysCollapse a set built from a list has one element per Key      *)
(*   HashStable       re-hashing after other work gives the same hash       *)
(***************************************************************************)
EXTENDS Mesh, Json, IOUtils
CONSTANTS TValues       \* sequence of value records (same shape as in C08_HashOrder)
Trace == JsonDeserialize(IOEnv.TRACE_FILE)
VARIABLES l, bad, lt, gts
Ev == Trace[l]
Flag(clause) == Append(bad, [i |-> l, clause |-> clause])
MeshKinds == {"MeshPatt", "BivincularPatt", "VincularPatt", "CovincularPatt"}
RECURSIVE Key(_)
Key(v) == IF v.kind = "Perm" THEN <<"perm", v.p, {}>>
          ELSE IF v.kind \in MeshKinds THEN <<"mesh", v.p, v.R>>
          ELSE <<v.kind, <<>>, {IF v.kind = "MeshBasis" THEN <<"mesh", v.elems[i].p, v.elems[i].R>>   \* a MeshBasis wraps classical patterns
                                ELSE Key(v.elems[i]) : i \in DOMAIN v.elems}>>
V(i) == TValues[i]
Comparable(a, b) == (V(a).kind = "Perm" /\ V(b).kind = "Perm") \/ (V(a).kind \in MeshKinds /\ V(b).kind \in MeshKinds)

TInit == l = 1 /\ bad = <<>> /\ lt = {} /\ gts = {}
FirstBad(e) ==
    LET a == e.a  b == e.b  keq == Key(V(a)) = Key(V(b)) IN
    IF e.eq # keq THEN "EqIsKeyEq"
    ELSE IF e.eq /\ ~e.heq THEN "EqualHash"
    ELSE IF ~Comparable(a, b) THEN "ok"
    ELSE IF ~e.defined THEN "Defined"
    ELSE IF e.lt /\ e.eq THEN "Trichotomy"
    ELSE IF e.le # (e.lt \/ e.eq) THEN "OperatorsAgree"
    ELSE IF e.ge # (e.gt \/ e.eq) THEN "OperatorsAgree"
    ELSE IF V(a).kind = "Perm" /\ e.lt # PPermLess(V(a).p, V(b).p) THEN "PermOrder"
    ELSE "ok"
TRel == /\ Ev.op = "Rel"
        /\ bad' = IF FirstBad(Ev) = "ok" THEN bad ELSE Flag(FirstBad(Ev))
        /\ lt' = IF Ev.defined /\ Ev.lt THEN lt \cup {<<Ev.a, Ev.b>>} ELSE lt
        /\ gts' = IF Ev.defined /\ Ev.gt THEN gts \cup {<<Ev.a, Ev.b>>} ELSE gts
\* after all pairs: a>b iff b<a, trichotomy across the pair, transitivity
TClose == /\ Ev.op = "Close"
          /\ LET N == Len(TValues)
                 cmp == {pr \in (1..N) \X (1..N) : Comparable(pr[1], pr[2])}
                 tri == \A pr \in cmp : LET keq == Key(V(pr[1])) = Key(V(pr[2])) IN
                           IF keq THEN pr \notin lt /\ <<pr[2], pr[1]>> \notin lt
                           ELSE (pr \in lt) # (<<pr[2], pr[1]>> \in lt)
                 trans == \A pr \in lt : \A c \in 1..N : <<pr[2], c>> \in lt => <<pr[1], c>> \in lt
                 conv == \A pr \in cmp : (pr \in gts) = (<<pr[2], pr[1]>> \in lt)        \* a > b iff b < a
             IN bad' = IF ~tri THEN Flag("Trichotomy") ELSE IF ~trans THEN Flag("Transitive")
                       ELSE IF ~conv THEN Flag("OperatorsAgree") ELSE bad
          /\ UNCHANGED <<lt, gts>>
TSorted == /\ Ev.op = "Sorted"
           /\ LET inp == Ev.inp  out == Ev.out IN
              bad' = IF Len(inp) = Len(out)
                        /\ \A k \in 1..Len(TValues) : Cardinality({i \in DOMAIN inp : inp[i] = k}) = Cardinality({i \in DOMAIN out : out[i] = k})
                        /\ \A i \in 1..(Len(out) - 1) : IF Ev.rev THEN <<out[i], out[i + 1]>> \notin lt ELSE <<out[i + 1], out[i]>> \notin lt
                     THEN bad ELSE Flag("SortedMonotone")
           /\ UNCHANGED <<lt, gts>>
TExtreme == /\ Ev.op = "Extreme"
            /\ LET inp == Ev.inp IN
               bad' = IF /\ \E i \in DOMAIN inp : inp[i] = Ev.out
                         /\ \A i \in DOMAIN inp : IF Ev.which = "min" THEN <<inp[i], Ev.out>> \notin lt ELSE <<Ev.out, inp[i]>> \notin lt
                      THEN bad ELSE Flag("SortedMonotone")
            /\ UNCHANGED <<lt, gts>>
TLookup == /\ Ev.op = "Lookup"
           /\ bad' = IF Ev.found = (\E j \in DOMAIN Ev.present : Key(V(Ev.present[j])) = Key(V(Ev.x))) THEN bad ELSE Flag("LookupFindsEqual")
           /\ UNCHANGED <<lt, gts>>
TDistinct == /\ Ev.op = "Distinct"
             /\ bad' = IF Ev.n = Cardinality({Key(V(Ev.inp[i])) : i \in DOMAIN Ev.inp}) THEN bad ELSE Flag("EqualKeysCollapse")
             /\ UNCHANGED <<lt, gts>>
TRehash == /\ Ev.op = "Rehash"
           /\ bad' = IF Ev.same THEN bad ELSE Flag("HashStable")
           /\ UNCHANGED <<lt, gts>>
TNext == l <= Len(Trace) /\ l' = l + 1 /\ (TRel \/ TClose \/ TSorted \/ TExtreme \/ TLookup \/ TDistinct \/ TRehash)
TraceDone == l = Len(Trace) + 1 => PrintT(ToJson([verdict |-> bad, drift |-> <<>>, n |-> Len(Trace)]))
=============================================================================
