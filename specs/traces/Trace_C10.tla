----------------------------- MODULE Trace_C10 -----------------------------
(***************************************************************************)
(* Recorded calls of the real code (larger, random inputs) judged against  *)
(* the definitions of module Algebra.  One TLC step per event; verdicts    *)
(* are total: an event that fails appends <<index, clause>> to bad and the *)
(* trace goes on.  For every operation returning a permutation the clause  *)
(* ReturnsPermutation (a bijection of the documented length) is judged     *)
(* before the value.  Events:                                              *)
(*   Sum(kind, ps, res)             p1.direct_sum(p2, ...) / skew_sum      *)
(*   Compose(ps, res)               p1.compose(p2, ...)                    *)
(*   Inflate(p, cs, res)            cs[i] = [none, c]                      *)
(*   Insert(p, i, v, res)  Remove(p, i, res)  RemoveElement(p, v, res)     *)
(*   Shift(dir, p, t, res)                                                 *)
(*   Decomp(kind, p, res, flag)     sum/skew decomposition + is_*_decomposable *)
(*   Blocks(p, res, pats, maxlen, maxstart, simple, ssimple)               *)
(*   Mono(p, kind, ones, res)       Contract(p, kind, res)                 *)
(*   Shadow(p, res)  Covers(p, res) the listings as sets                   *)
(*   Law(name, ...)                 both sides computed by the real code   *)
(***************************************************************************)
EXTENDS Algebra, Json, IOUtils

Trace == JsonDeserialize(IOEnv.TRACE_FILE)
VARIABLES l, bad
Ev == Trace[l]
Flag(clause) == Append(bad, [i |-> l, clause |-> clause])
ToSetOf(s) == {s[i] : i \in DOMAIN s}
Judge(clause, holds) == bad' = IF holds THEN bad ELSE Flag(clause)
\* "is a bijection of length k" first, then the value by definition
JudgePerm(res, k, clause, expected) ==
    bad' = IF ~(PIsPerm(res) /\ Len(res) = k) THEN Flag("ReturnsPermutation")
           ELSE IF res # expected THEN Flag(clause) ELSE bad
Comps(cs) == [i \in DOMAIN cs |-> [none |-> cs[i].none, c |-> cs[i].c]]
RECURSIVE TotalLen(_)
TotalLen(ps) == IF ps = <<>> THEN 0 ELSE Len(ps[1]) + TotalLen(Tail(ps))
RECURSIVE CompTotalLen(_)
CompTotalLen(cs) == IF cs = <<>> THEN 0 ELSE ACompLen(cs[1]) + CompTotalLen(Tail(cs))
AllPerms(ps) == \A k \in DOMAIN ps : PIsPerm(ps[k])

TInit == l = 1 /\ bad = <<>>

TSum == /\ Ev.op = "Sum"
        /\ JudgePerm(Ev.res, TotalLen(Ev.ps), IF Ev.kind = "direct" THEN "DirectSumIsDiagramSum" ELSE "SkewSumIsDiagramSum",
                     IF Ev.kind = "direct" THEN ADirectSum(Ev.ps) ELSE ASkewSum(Ev.ps))
TCompose == /\ Ev.op = "Compose"
            /\ JudgePerm(Ev.res, Len(Ev.ps[1]), "ComposeIsFunctionComposition", AComposeSeq(Ev.ps))
TInflate == /\ Ev.op = "Inflate"
            /\ JudgePerm(Ev.res, CompTotalLen(Comps(Ev.cs)), "InflateIsSubstitution", AInflate(Ev.p, Comps(Ev.cs)))
\* documented defaults (Ev.form names the arguments that were left out):
\* insert: "The index defaults to the right end and value defaults to len(self)";
\* remove / remove_element: "defaults to the greatest element";  shifts: one step;  with_ones: False
InsIndex == IF Ev.form \in {"noargs", "value_only"} THEN Len(Ev.p) ELSE Ev.i
InsValue == IF Ev.form \in {"noargs", "index_only"} THEN Len(Ev.p) ELSE Ev.v
TInsert == /\ Ev.op = "Insert"
           /\ JudgePerm(Ev.res, Len(Ev.p) + 1, "InsertPlacesPoint", AInsert(Ev.p, InsIndex, InsValue))
TRemove == /\ Ev.op = "Remove"
           /\ JudgePerm(Ev.res, Len(Ev.p) - 1, "RemoveDeletesPoint",
                        IF Ev.form = "noargs" THEN ARemoveValue(Ev.p, Len(Ev.p) - 1) ELSE ARemoveAt(Ev.p, Ev.i))
TRemoveElement == /\ Ev.op = "RemoveElement"
                  /\ JudgePerm(Ev.res, Len(Ev.p) - 1, "RemoveDeletesPoint",
                               ARemoveValue(Ev.p, IF Ev.form = "noargs" THEN Len(Ev.p) - 1 ELSE Ev.v))
ShiftValue(dir, x, t) == CASE dir = "right" -> AShiftRight(x, t) [] dir = "left" -> AShiftLeft(x, t)
                           [] dir = "up" -> AShiftUp(x, t) [] dir = "down" -> AShiftDown(x, t)
TShift == /\ Ev.op = "Shift"
          /\ JudgePerm(Ev.res, Len(Ev.p), "ShiftIsCyclicAction", ShiftValue(Ev.dir, Ev.p, IF Ev.form = "noargs" THEN 1 ELSE Ev.t))
TDecomp == /\ Ev.op = "Decomp"
           /\ LET sum == Ev.kind = "sum"
                  want == IF sum THEN ASumDecomposition(Ev.p) ELSE ASkewDecomposition(Ev.p)
                  back == IF sum THEN ADirectSum(Ev.res) ELSE ASkewSum(Ev.res)
                  dec(x) == IF sum THEN AIsSumDecomposable(x) ELSE AIsSkewDecomposable(x)
              IN  bad' = IF ~AllPerms(Ev.res) THEN Flag("ReturnsPermutation")
                         ELSE IF back # Ev.p THEN Flag("DecompositionReassembles")
                         ELSE IF \E k \in DOMAIN Ev.res : Ev.res[k] = <<>> \/ dec(Ev.res[k]) THEN Flag("PartsIndecomposable")
                         ELSE IF Ev.res # want THEN Flag("DecompositionByCuts")
                         ELSE IF Ev.flag # dec(Ev.p) THEN Flag("DecomposableByDefinition")
                         ELSE bad
TBlocks == /\ Ev.op = "Blocks"
           /\ bad' = IF Ev.res # ABlockDecomposition(Ev.p) THEN Flag("BlocksAreAllIntervals")
                     ELSE IF ToSetOf(Ev.pats) # ABlockPatterns(Ev.p) \/ Len(Ev.pats) # Cardinality(ABlockPatterns(Ev.p)) THEN Flag("BlockPatterns")
                     ELSE IF Ev.maxlen # AMaxBlockLen(Ev.p) \/ (Ev.maxlen > 0 /\ Ev.maxstart \notin AMaxBlockStarts(Ev.p))
                             \/ (Ev.maxlen = 0 /\ Ev.maxstart # 0) THEN Flag("MaximumBlock")
                     ELSE IF Ev.simple # AIsSimple(Ev.p) THEN Flag("SimpleByDefinition")
                     ELSE IF Ev.ssimple # AIsStronglySimple(Ev.p) THEN Flag("StronglySimpleByDefinition")
                     ELSE bad
\* the two simplicity predicates alone, for many permutations chosen where the predicates are likely to hold
TSimple == /\ Ev.op = "Simple"
           /\ bad' = IF Ev.simple # AIsSimple(Ev.p) THEN Flag("SimpleByDefinition")
                     ELSE IF Ev.ssimple # AIsStronglySimple(Ev.p) THEN Flag("StronglySimpleByDefinition") ELSE bad
TMono == /\ Ev.op = "Mono"
         /\ Judge("MonotoneBlocksAreMaximalRuns", Ev.res = AMonoBlocks(Ev.p, Ev.kind, IF Ev.form = "noargs" THEN FALSE ELSE Ev.ones))
TContract == /\ Ev.op = "Contract"
             /\ JudgePerm(Ev.res, Len(Ev.p) - Cardinality(ABonds(Ev.p, Ev.kind)), "ContractionIsQuotient", AContract(Ev.p, Ev.kind))
TShadow == /\ Ev.op = "Shadow"
           /\ bad' = IF ~(AllPerms(Ev.res) /\ \A k \in DOMAIN Ev.res : Len(Ev.res[k]) = Len(Ev.p) - 1) THEN Flag("ReturnsPermutation")
                     ELSE IF ToSetOf(Ev.res) # AChildren(Ev.p) THEN Flag("ChildrenIsShadow") ELSE bad
TCovers == /\ Ev.op = "Covers"
           /\ bad' = IF ~(AllPerms(Ev.res) /\ \A k \in DOMAIN Ev.res : Len(Ev.res[k]) = Len(Ev.p) + 1) THEN Flag("ReturnsPermutation")
                     ELSE IF ToSetOf(Ev.res) # ACovers(Ev.p) THEN Flag("CoversAreOnePointExtensions") ELSE bad

\* laws: both sides were computed by the real code; they must agree with each other and with the definition
LawHolds(e) ==
    CASE e.name = "Associative" ->          e.lhs = e.rhs /\ e.lhs = AComposeSeq(<<e.p, e.q, e.r>>)
      [] e.name = "Identity" ->             e.lhs = e.p /\ e.rhs = e.p
      [] e.name = "Inverse" ->              e.lhs = PIdentity(Len(e.p)) /\ e.rhs = PIdentity(Len(e.p))
      [] e.name = "InverseOfProduct" ->     e.lhs = e.rhs /\ e.lhs = AInverse(ACompose2(e.p, e.q))
      [] e.name = "SumAssociative" ->       e.lhs = e.rhs /\ e.lhs = ADirectSum(<<e.p, e.q, e.r>>)
      [] e.name = "SkewAssociative" ->      e.lhs = e.rhs /\ e.lhs = ASkewSum(<<e.p, e.q, e.r>>)
      [] e.name = "RemoveUndoesInsert" ->   e.lhs = e.p /\ e.rhs = e.p
      [] e.name = "InsertUndoesRemove" ->   e.lhs = e.p
      [] e.name = "ShiftsCompose" ->        e.lhs = e.rhs /\ e.lhs = ShiftValue(e.dir, e.p, e.s + e.t)
      [] e.name = "ShiftInverse" ->         e.lhs = e.p /\ e.rhs = e.p
      [] e.name = "CoversChildrenDual" ->   /\ e.incovers = (e.q \in ACovers(e.p)) /\ e.inchildren = (e.p \in AChildren(e.q))
                                            /\ e.incovers = e.inchildren
      [] e.name = "SumOfDecomposition" ->   e.lhs = e.p
      [] e.name = "InflateOfPoints" ->      e.lhs = e.p
      [] e.name = "SumIsInflation" ->       e.lhs = e.rhs
      [] OTHER -> FALSE
TLaw == /\ Ev.op = "Law"
        /\ Judge(Ev.name, LawHolds(Ev))

TNext == /\ l <= Len(Trace) /\ l' = l + 1
         /\ (TSum \/ TCompose \/ TInflate \/ TInsert \/ TRemove \/ TRemoveElement \/ TShift \/ TDecomp \/ TBlocks
             \/ TSimple \/ TMono \/ TContract \/ TShadow \/ TCovers \/ TLaw)
TraceDone == l = Len(Trace) + 1 => PrintT(ToJson([verdict |-> bad, drift |-> <<>>, n |-> Len(Trace)]))
=============================================================================
