------------------------------ MODULE D4_Lemmas ------------------------------
(***************************************************************************)
(* Unbounded lemmas (TLAPS) about the plane maps of module D4: the         *)
(* dihedral relations hold on the square [0, N]^2 for every N.  The maps   *)
(* are restated here one operator per symmetry, on coordinates; module     *)
(* LibSanity checks with TLC that they agree with D4!DMap on a grid.       *)
(***************************************************************************)
EXTENDS Integers, TLAPS

R1x(N, X, Y) == Y          R1y(N, X, Y) == N - X          \* clockwise quarter turn
R3x(N, X, Y) == N - Y      R3y(N, X, Y) == X
R2x(N, X, Y) == N - X      R2y(N, X, Y) == N - Y
Revx(N, X, Y) == N - X     Revy(N, X, Y) == Y
Compx(N, X, Y) == X        Compy(N, X, Y) == N - Y
Invx(N, X, Y) == Y         Invy(N, X, Y) == X
Antix(N, X, Y) == N - Y    Antiy(N, X, Y) == N - X

THEOREM R1FourTimes ==
    \A N \in Nat : \A X, Y \in 0..N :
        LET x1 == R1x(N, X, Y)  y1 == R1y(N, X, Y)
            x2 == R1x(N, x1, y1)  y2 == R1y(N, x1, y1)
            x3 == R1x(N, x2, y2)  y3 == R1y(N, x2, y2)
        IN R1x(N, x3, y3) = X /\ R1y(N, x3, y3) = Y
  BY DEF R1x, R1y

THEOREM RevR1RevIsR3 ==
    \A N \in Nat : \A X, Y \in 0..N :
        LET x1 == Revx(N, X, Y)  y1 == Revy(N, X, Y)
            x2 == R1x(N, x1, y1)  y2 == R1y(N, x1, y1)
        IN Revx(N, x2, y2) = R3x(N, X, Y) /\ Revy(N, x2, y2) = R3y(N, X, Y)
  BY DEF Revx, Revy, R1x, R1y, R3x, R3y

THEOREM RevCompIsR2 ==
    \A N \in Nat : \A X, Y \in 0..N :
        /\ Revx(N, Compx(N, X, Y), Compy(N, X, Y)) = R2x(N, X, Y)
        /\ Revy(N, Compx(N, X, Y), Compy(N, X, Y)) = R2y(N, X, Y)
  BY DEF Revx, Revy, Compx, Compy, R2x, R2y

THEOREM InvRevIsR1 ==
    \A N \in Nat : \A X, Y \in 0..N :
        /\ Invx(N, Revx(N, X, Y), Revy(N, X, Y)) = R1x(N, X, Y)
        /\ Invy(N, Revx(N, X, Y), Revy(N, X, Y)) = R1y(N, X, Y)
  BY DEF Invx, Invy, Revx, Revy, R1x, R1y

THEOREM StaysInSquare ==
    \A N \in Nat : \A X, Y \in 0..N :
        /\ R1x(N, X, Y) \in 0..N /\ R1y(N, X, Y) \in 0..N
        /\ Antix(N, X, Y) \in 0..N /\ Antiy(N, X, Y) \in 0..N
  BY DEF R1x, R1y, Antix, Antiy
=============================================================================
