----------------------------- MODULE C07_LockInd -----------------------------
(***************************************************************************)
(* Unbounded-time lemma about the coded lock discipline of C07_AvThreads,  *)
(* abstracted to what mutual exclusion depends on: N threads, each either  *)
(* outside, waiting for the lock, inside the critical section (where it    *)
(* appends levels: `len` grows) or reading the level after release.        *)
(* IndInv is inductive (checked with Apalache: Init => IndInv at length 0, *)
(* IndInv /\ Next => IndInv' at length 1), so mutual exclusion and "levels *)
(* only grow, and only under the lock" hold in every reachable state, for  *)
(* behaviours of any length.                                               *)
(***************************************************************************)
EXTENDS Integers

N == 4
Threads == 1..N

VARIABLES
    \* @type: Int;
    lock,
    \* @type: Int -> Str;
    pc,
    \* @type: Int;
    len,
    \* @type: Int;
    lastWriter

Init == /\ lock = 0 /\ pc = [t \in Threads |-> "out"] /\ len = 1 /\ lastWriter = 0
Want(t) == pc[t] = "out" /\ pc' = [pc EXCEPT ![t] = "wait"] /\ UNCHANGED <<lock, len, lastWriter>>
Acquire(t) == pc[t] = "wait" /\ lock = 0 /\ lock' = t /\ pc' = [pc EXCEPT ![t] = "cs"] /\ UNCHANGED <<len, lastWriter>>
Append(t) == pc[t] = "cs" /\ len' = len + 1 /\ lastWriter' = t /\ UNCHANGED <<lock, pc>>
Release(t) == pc[t] = "cs" /\ lock' = 0 /\ pc' = [pc EXCEPT ![t] = "read"] /\ UNCHANGED <<len, lastWriter>>
Read(t) == pc[t] = "read" /\ pc' = [pc EXCEPT ![t] = "out"] /\ UNCHANGED <<lock, len, lastWriter>>
Next == \E t \in Threads : Want(t) \/ Acquire(t) \/ Append(t) \/ Release(t) \/ Read(t)

TypeOK == /\ lock \in 0..N /\ pc \in [Threads -> {"out", "wait", "cs", "read"}] /\ len \in Nat /\ lastWriter \in 0..N
MutualExclusion == \A a, b \in Threads : (pc[a] = "cs" /\ pc[b] = "cs") => a = b
IndInv == /\ TypeOK
          /\ \A t \in Threads : pc[t] = "cs" <=> lock = t
          /\ len >= 1
Safety == MutualExclusion
IndImpliesSafety == IndInv => Safety
=============================================================================
