-------------------------- MODULE LibSanity_LexRank --------------------------
(***************************************************************************)
(* Cross-checks of the LexRank definitions (and of the PermCore / Mesh     *)
(* operators C09 relies on) against known theorems and alternative         *)
(* characterisations.  Evaluated by TLC as ASSUMEs once per check run.     *)
(***************************************************************************)
EXTENDS LexRank

T == [n \in 0..6 |-> PPerms(n)]
SeqsOver(V, m) == UNION {[1..k -> V] : k \in 0..m}

\* ---- the set-parameterised operators are the PermCore ones ----------------------
ASSUME \A p \in PPermsUpTo(4) : LNextIn(T[Len(p)], p) = PNextPerm(p)
ASSUME \A p \in PPermsUpTo(5) : LRankIn(T[Len(p)], p) = PRankInLength(p)
ASSUME \A n \in 0..6 : LCountShorter(n) = PSumFact(n)
ASSUME \A n \in 0..6 : Cardinality(T[n]) = PFact(n)
ASSUME \A n \in 0..7 : LAllPerms(n) = PPerms(n)
ASSUME \A n \in 0..6 : LShorterFromCounts([k \in 1..7 |-> Cardinality(T[k - 1])], n) = LCountShorter(n)

\* ---- rank: Lehmer code theorem (rank = sum of c_i (n-i)!, c_i = smaller entries to the right)
LehmerRank(p) == LET n == Len(p) IN
    LSeqSum([i \in 1..n |-> Cardinality({j \in (i + 1)..n : p[j] < p[i]}) * PFact(n - i)])
ASSUME \A p \in PPermsUpTo(6) : LRankIn(T[Len(p)], p) = LehmerRank(p)

\* ---- successor: the classical pivot / swap / reverse-suffix rule -------------------
ClassicalNext(p) ==
    LET n == Len(p)
        piv == {i \in 1..(n - 1) : p[i] < p[i + 1]}
    IN IF piv = {} THEN PIdentity(n + 1)
       ELSE LET i == CHOOSE a \in piv : \A b \in piv : b <= a
                js == {b \in (i + 1)..n : p[b] > p[i]}
                j == CHOOSE a \in js : \A b \in js : b <= a
                sw == [p EXCEPT ![i] = p[j], ![j] = p[i]]
            IN [k \in 1..n |-> IF k <= i THEN sw[k] ELSE sw[n + i + 1 - k]]
ASSUME \A p \in PPermsUpTo(5) : LNextIn(T[Len(p)], p) = ClassicalNext(p)
\* successor raises the overall rank by exactly one, and nothing lies in between
ASSUME \A p \in PPermsUpTo(4) : PRank(PNextPerm(p)) = PRank(p) + 1
ASSUME \A p \in PPermsUpTo(3) : ~\E r \in PPermsUpTo(4) : PPermLess(p, r) /\ PPermLess(r, PNextPerm(p))

\* ---- rank without enumeration (used by Trace_C09 for lengths 9 to 12) -------------------
ShorterT == [n \in 0..6 |-> LCountShorter(n)]
ASSUME \A p \in PPermsUpTo(6) : /\ LRankBySplit(p) = LRankIn(T[Len(p)], p)
                                /\ LOverallRankBySplit(p) = ShorterT[Len(p)] + LRankIn(T[Len(p)], p)
ASSUME \A n \in 0..7 : PFact(n) = Cardinality(LAllPerms(n))
ASSUME \A n \in 0..11 : LRankBySplit(PIdentity(n)) = 0 /\ LRankBySplit(PDecreasing(n)) = PFact(n) - 1
ASSUME LRankBySplit(<<7, 6, 5, 4, 3, 2, 0, 1>>) = Cardinality(LAllPerms(8)) - 2
\* strictly monotone along the classical successor on some long permutations
ASSUME \A p \in {<<8, 0, 7, 1, 6, 2, 5, 3, 4>>, <<0, 9, 8, 7, 6, 5, 4, 3, 2, 1>>, <<3, 1, 4, 0, 5, 9, 2, 6, 8, 7>>} :
          LRankBySplit(ClassicalNext(p)) = LRankBySplit(p) + 1

\* ---- ranks as base-10000 numerals (used by Trace_C09 for lengths 13 and more) --------------
ASSUME \A p \in PPermsUpTo(6) : /\ LBigIsNumeral(LBigRankBySplit(p)) /\ LBigValue(LBigRankBySplit(p)) = LRankBySplit(p)
                                /\ LBigIsNumeral(LBigOverallRank(p)) /\ LBigValue(LBigOverallRank(p)) = LOverallRankBySplit(p)
ASSUME \A n \in 0..12 : LBigValue(LBigFact(n)) = PFact(n) /\ LBigValue(LBigSumFact(n)) = PSumFact(n)
ASSUME \A p \in {<<8, 0, 7, 1, 6, 2, 5, 3, 4>>, <<0, 9, 8, 7, 6, 5, 4, 3, 2, 1>>, <<10, 0, 9, 1, 8, 2, 7, 3, 6, 4, 5>>,
                 <<11, 10, 9, 8, 7, 6, 5, 4, 3, 2, 1, 0>>} :
          LBigValue(LBigOverallRank(p)) = LOverallRankBySplit(p)
\* 20! = 2432902008176640000 and 25! - 1 as numerals; the decreasing permutation is the last of its length
ASSUME LBigFact(20) = <<0, 7664, 81, 2902, 243>>
ASSUME \A n \in {13, 20, 25, 30} : LBigAdd(LBigRankBySplit(PDecreasing(n)), <<1>>, 0) = LBigFact(n)
                                    /\ LBigRankBySplit(PIdentity(n)) = <<>>
ASSUME \A x \in {<<>>, <<9999>>, <<9999, 9999>>, <<1, 2, 3>>} : LBigValue(LBigAdd(x, <<1>>, 0)) = LBigValue(x) + 1
ASSUME \A M \in MAllMesh(1) : LBigIsNumeral(MBigRank(M)) /\ LBigValue(MBigRank(M)) = MRank(M)
ASSUME \A p \in {<<1, 0, 2>>}, R \in {{}, {<<0, 0>>}, {<<3, 3>>}, {<<0, 0>>, <<3, 0>>, <<0, 2>>, <<2, 1>>, <<2, 3>>, <<1, 2>>, <<3, 3>>, <<3, 1>>, <<1, 1>>}, MCells(3)} :
          LBigValue(MBigRank(MMesh(p, R))) = MRank(MMesh(p, R))
ASSUME MBigRank(MMesh(<<1, 0, 2>>, {<<0, 0>>, <<3, 0>>, <<0, 2>>, <<2, 1>>, <<2, 3>>, <<1, 2>>, <<3, 3>>, <<3, 1>>, <<1, 1>>})) = <<7717, 4>>
\* the fully shaded grid of a pattern of length 7 has rank 2^64 - 1 = 18446744073709551615
ASSUME MBigRank(MMesh(PIdentity(7), MCells(7))) = <<1615, 955, 737, 6744, 1844>>

\* ---- the sorted enumeration: strictly increasing, complete, index = rank -----------
ASSUME \A n \in 0..5 : LET s == LSorted(T[n]) IN
          /\ Len(s) = Cardinality(T[n]) /\ {s[i] : i \in DOMAIN s} = T[n]
          /\ \A i \in 1..(Len(s) - 1) : PLexLess(s[i], s[i + 1])
          /\ \A i \in DOMAIN s : LRankIn(T[n], s[i]) = i - 1 /\ LUnrankIn(s, i - 1) = s[i]
          /\ ~LValidRankIn(s, -1) /\ ~LValidRankIn(s, Len(s)) /\ LValidRankIn(s, Len(s) - 1)
\* the order is the rank order; ranks are a bijection onto an initial segment of the naturals
ASSUME \A p, q \in PPermsUpTo(4) : PPermLess(p, q) <=> PRank(p) < PRank(q)
ASSUME {PRank(p) : p \in PPermsUpTo(4)} = 0..(LCountShorter(5) - 1)
ASSUME \A p \in PPermsUpTo(3) : ~PPermLess(p, p)
ASSUME LLengthOfRank(<<0, 1, 2, 4, 10, 34>>, 0) = 0 /\ LLengthOfRank(<<0, 1, 2, 4, 10, 34>>, 3) = 2
       /\ LLengthOfRank(<<0, 1, 2, 4, 10, 34>>, 4) = 3 /\ LLengthOfRank(<<0, 1, 2, 4, 10, 34>>, 33) = 4

\* ---- standardisation ---------------------------------------------------------------
\* PStd(s) is THE permutation order-isomorphic to s with ties increasing left to right
ASSUME \A s \in SeqsOver(0..2, 4) : /\ LIsStdOf(PStd(s), s)
                                    /\ \A r \in T[Len(s)] : LIsStdOf(r, s) => r = PStd(s)
\* invariant under strictly increasing relabelling, idempotent, identity on permutations
ASSUME \A s \in SeqsOver(0..2, 4) : PStd([i \in DOMAIN s |-> 3 * s[i] - 4]) = PStd(s) /\ PStd(PStd(s)) = PStd(s)
ASSUME \A p \in PPermsUpTo(5) : PStd(p) = p
\* a constant sequence standardises to the identity, documented examples
ASSUME \A k \in 0..5 : PStd([i \in 1..k |-> 7]) = PIdentity(k)
ASSUME PStd(<<2, 0, 0, 1, 0>>) = <<4, 0, 1, 3, 2>>          \* "caaba"

\* ---- notations ---------------------------------------------------------------------
RECURSIVE Horner(_)
Horner(d) == IF d = <<>> THEN 0 ELSE 10 * Horner(SubSeq(d, 1, Len(d) - 1)) + d[Len(d)]
ASSUME \A d \in SeqsOver(0..9, 3) : LIntOf(d) = Horner(d)
ASSUME LIntOf(<<2, 0, 1>>) = 201 /\ LIntOf(LOneBased(<<2, 0, 1>>)) = 312 /\ LIntOf(<<9, 8, 7, 6, 5, 4, 3, 2, 1>>) = 987654321
ASSUME LChars(<<2, 0, 1>>) = <<"2", "0", "1">> /\ LOneBased(<<3, 0, 2, 1>>) = <<4, 1, 3, 2>>
\* distinct permutations of one length have distinct integers (the notation is injective)
ASSUME \A p, q \in T[4] : p # q => LIntOf(LOneBased(p)) # LIntOf(LOneBased(q))
ASSUME \A p \in PPermsUpTo(4) : PStd(LOneBased(p)) = p
\* bijections of 0..n-1, two ways
ASSUME \A s \in SeqsOver(-1..3, 3) : LIsBijection(s) <=> PIsPerm(s)
ASSUME \A n \in 0..4 : {s \in [1..n -> -1..4] : LIsBijection(s)} = T[n]

\* ---- mesh ranks --------------------------------------------------------------------
\* the binary-number rank is the position in the order "most significant differing cell"
ASSUME \A k \in 0..1 : \A R \in SUBSET MCells(k) : MRank(MMesh(PIdentity(k), R)) = MRankByCount(k, R)
ASSUME \A R \in {{}, {<<0, 0>>}, {<<2, 2>>}, {<<0, 1>>, <<1, 0>>}, MCells(2), MCells(2) \ {<<2, 2>>},
                 {<<1, 1>>, <<1, 2>>, <<2, 0>>}, {<<0, 2>>, <<1, 0>>}} :
          MRank(MMesh(<<1, 0>>, R)) = MRankByCount(2, R)
\* a strict total order on the shadings
ASSUME \A R1, R2 \in SUBSET MCells(1) : (R1 # R2 => (MShadeLess(R1, R2) # MShadeLess(R2, R1))) /\ ~MShadeLess(R1, R1)
\* ranks are a bijection onto 0 .. 2^((k+1)^2) - 1 and do not depend on the underlying pattern
ASSUME \A k \in 0..2 : {MRank(MMesh(PIdentity(k), R)) : R \in SUBSET MCells(k)} = 0..(MPow2((k + 1) * (k + 1)) - 1)
ASSUME \A R \in SUBSET MCells(1) : [R |-> R, r |-> MRank(MMesh(<<0>>, R))] \in MRankTable(<<0>>) /\ MUnrankIn(MRankTable(<<0>>), MRank(MMesh(<<0>>, R))) = R
ASSUME ~MValidRankIn(MRankTable(<<0>>), 16) /\ ~MValidRankIn(MRankTable(<<0>>), -1) /\ MValidRankIn(MRankTable(<<0>>), 15)
\* documented values
ASSUME MRank(MMesh(<<1, 0, 2>>, {<<0, 0>>, <<3, 0>>, <<0, 2>>, <<2, 1>>, <<2, 3>>, <<1, 2>>, <<3, 3>>, <<3, 1>>, <<1, 1>>})) = 47717
ASSUME MRank(MMesh(<<0, 1, 2>>, {<<0, 1>>, <<1, 3>>, <<2, 0>>})) = 386

VARIABLE dummy
Init == dummy = 0
Next == UNCHANGED dummy
=============================================================================
