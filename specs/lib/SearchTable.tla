----------------------------- MODULE SearchTable -----------------------------
(***************************************************************************)
(* The table Permuta's occurrence search binds to a pattern on first use.  *)
(***************************************************************************)
EXTENDS Pattern

\* The table of the search algorithm (Permuta: _pattern_details): for position k the
\* index of the left floor (largest smaller value to the left) and left ceiling, -1 if
\* absent, and the two value offsets used as bounds.  0-based indices.
PLeftFloor(p, k) == LET S == {j \in 1..(k - 1) : p[j] < p[k]}
                    IN IF S = {} THEN 0 ELSE CHOOSE j \in S : \A i \in S : p[i] <= p[j]
PLeftCeil(p, k) == LET S == {j \in 1..(k - 1) : p[j] > p[k]}
                   IN IF S = {} THEN 0 ELSE CHOOSE j \in S : \A i \in S : p[i] >= p[j]
PDetails(p) == [k \in DOMAIN p |->
                 LET f == PLeftFloor(p, k)  c == PLeftCeil(p, k)
                 IN << f - 1, c - 1,
                       IF f = 0 THEN p[k] ELSE p[k] - p[f],
                       IF c = 0 THEN Len(p) - p[k] ELSE p[c] - p[k] >>]
=============================================================================
