------------------------------- MODULE Stats -------------------------------
(***************************************************************************)
(* Permutation statistics, each by its mathematical definition (set        *)
(* comprehensions and quantifiers over positions / values / subsets), not  *)
(* by the scan that computes it.  A permutation is a sequence over 0..n-1; *)
(* every position reported by an operator of this module is 0-BASED (as    *)
(* Permuta reports them); StAt(p, i) is the value at 0-based position i.   *)
(* All operators carry the prefix St.                                      *)
(*                                                                         *)
(* Provenance of the definitions ("oracle" column of the evidence):        *)
(*   textbook      everything not listed below                             *)
(*   transcribed   StBounces (FindStat St000133), StHoleyness (St001469),  *)
(*                 StColumnSumPrimes (St001285), StMaxDrop (St000141):     *)
(*                 the database entries cannot be consulted offline; the   *)
(*                 formula quoted by the docstring / reference title is    *)
(*                 stated declaratively and pinned to the doctest values   *)
(*                 in LibSanity_Stats.                                     *)
(*   paper         fore/after maxima/minima (arXiv:1908.01084): a double   *)
(*                 ascent (descent) that is also a record; the boundary    *)
(*                 convention is 0-oo for double ascents and oo-0 for      *)
(*                 double descents (the one under which (des, fmax) is     *)
(*                 equidistributed with (exc, fix) - checked in            *)
(*                 LibSanity_Stats).                                       *)
(* Named deviations of the implementation (known findings) are the         *)
(* operators StDev_* at the end of the module.                             *)
(***************************************************************************)
EXTENDS Pattern

StPos(p) == 0..(Len(p) - 1)
StAt(p, i) == p[i + 1]
StAbs(x) == IF x < 0 THEN -x ELSE x
StSorted(S) == SetToSortSeq(S, LAMBDA a, b : a < b)
StSortedTuples(S) == SetToSortSeq(S, PLexLess)
StSumOver(S, f(_)) == IF S = {} THEN 0 ELSE MapThenSumSet(f, S)
\* an EXPLICIT function [x \in S |-> f(x)] (TLC keeps [x \in S |-> e] as a closure and would
\* re-evaluate e at every application; this form is evaluated once)
StTabulate(S, f(_)) == FoldSet(LAMBDA x, acc : (x :> f(x)) @@ acc, <<>>, S)
StMaxOf(S) == CHOOSE x \in S : \A y \in S : x >= y
StMinOf(S) == CHOOSE x \in S : \A y \in S : x <= y
\* position (0-based) of the value v
StPosOf(p, v) == CHOOSE i \in StPos(p) : StAt(p, i) = v
\* plain forms of inverse / reverse / complement (LibSanity_Stats ties them to the plane maps of D4)
StInverse(p) == [k \in 1..Len(p) |-> StPosOf(p, k - 1)]
StReverse(p) == [k \in 1..Len(p) |-> p[Len(p) + 1 - k]]
StComplement(p) == [k \in 1..Len(p) |-> Len(p) - 1 - p[k]]

\* ---- adjacent pairs and triples ---------------------------------------------------
StDescents(p) == {i \in StPos(p) : i + 1 \in StPos(p) /\ StAt(p, i) > StAt(p, i + 1)}
StAscents(p)  == {i \in StPos(p) : i + 1 \in StPos(p) /\ StAt(p, i) < StAt(p, i + 1)}
\* descents / ascents "of size s": the two values differ by exactly s
StDescentsStep(p, s) == {i \in StDescents(p) : StAt(p, i) - StAt(p, i + 1) = s}
StAscentsStep(p, s)  == {i \in StAscents(p) : StAt(p, i + 1) - StAt(p, i) = s}
StInterior(p) == {i \in StPos(p) : i - 1 \in StPos(p) /\ i + 1 \in StPos(p)}
StPeaks(p)   == {i \in StInterior(p) : StAt(p, i - 1) < StAt(p, i) /\ StAt(p, i) > StAt(p, i + 1)}
StValleys(p) == {i \in StInterior(p) : StAt(p, i - 1) > StAt(p, i) /\ StAt(p, i) < StAt(p, i + 1)}
\* pinnacles: the VALUES at the peaks
StPinnacles(p) == {StAt(p, i) : i \in StPeaks(p)}
\* bends: middle positions of the non-monotone consecutive triples
StBends(p) == {i \in StInterior(p) : ~(StAt(p, i - 1) < StAt(p, i) /\ StAt(p, i) < StAt(p, i + 1))
                                  /\ ~(StAt(p, i - 1) > StAt(p, i) /\ StAt(p, i) > StAt(p, i + 1))}
\* bonds: adjacent positions carrying adjacent values
StIncBonds(p) == {i \in StPos(p) : i + 1 \in StPos(p) /\ StAt(p, i + 1) = StAt(p, i) + 1}
StDecBonds(p) == {i \in StPos(p) : i + 1 \in StPos(p) /\ StAt(p, i + 1) = StAt(p, i) - 1}
StAllBonds(p) == {i \in StPos(p) : i + 1 \in StPos(p) /\ StAbs(StAt(p, i + 1) - StAt(p, i)) = 1}

\* ---- records ----------------------------------------------------------------------
StLtrMin(p) == {i \in StPos(p) : \A j \in StPos(p) : j < i => StAt(p, j) > StAt(p, i)}
StLtrMax(p) == {i \in StPos(p) : \A j \in StPos(p) : j < i => StAt(p, j) < StAt(p, i)}
StRtlMin(p) == {i \in StPos(p) : \A j \in StPos(p) : j > i => StAt(p, j) > StAt(p, i)}
StRtlMax(p) == {i \in StPos(p) : \A j \in StPos(p) : j > i => StAt(p, j) < StAt(p, i)}

\* ---- pairs ------------------------------------------------------------------------
StInversions(p)    == {ij \in StPos(p) \X StPos(p) : ij[1] < ij[2] /\ StAt(p, ij[1]) > StAt(p, ij[2])}
StNonInversions(p) == {ij \in StPos(p) \X StPos(p) : ij[1] < ij[2] /\ StAt(p, ij[1]) < StAt(p, ij[2])}
\* rank encoding: at each position, the number of inversions whose left end it is
StRankEncoding(p) == [k \in 1..Len(p) |-> Cardinality({j \in (k + 1)..Len(p) : p[j] < p[k]})]
\* the minimal taxicab distance between two points of the diagram (undefined below two points)
StMinGapDefined(p) == Len(p) >= 2
StMinGap(p) == StMinOf({StAbs(ij[1] - ij[2]) + StAbs(StAt(p, ij[1]) - StAt(p, ij[2])) :
                          ij \in {xy \in StPos(p) \X StPos(p) : xy[1] < xy[2]}})
StMajorIndex(p) == StSumOver(StDescents(p), LAMBDA i : i + 1)      \* sum of the 1-based descent positions

\* ---- the permutation as a map -----------------------------------------------------
StFixedPoints(p) == {i \in StPos(p) : StAt(p, i) = i}
\* strong fixed point: everything to the left is smaller, everything to the right larger
StStrongFixedPoints(p) == {i \in StFixedPoints(p) : \A j \in StPos(p) : (j < i => StAt(p, j) < i) /\ (j > i => StAt(p, j) > i)}
RECURSIVE StIter(_, _, _)
StIter(p, x, k) == IF k = 0 THEN x ELSE StAt(p, StIter(p, x, k - 1))          \* p^k(x)
StOrbit(p, x) == {StIter(p, x, k) : k \in 0..(Len(p) - 1)}
StCycleSets(p) == {StOrbit(p, x) : x \in StPos(p)}
\* a cycle written from its largest element: m, p(m), p(p(m)), ...
StCycleFrom(p, m) == [k \in 1..Cardinality(StOrbit(p, m)) |-> StIter(p, m, k - 1)]
\* canonical listing: every cycle from its maximum, cycles by increasing maximum
StCycleDecomp(p) == SetToSortSeq({StCycleFrom(p, StMaxOf(O)) : O \in StCycleSets(p)}, LAMBDA a, b : a[1] < b[1])
StLcmOfSet(S) == IF S = {} THEN 1
                 ELSE CHOOSE m \in 1..ProductSet(S) : /\ \A s \in S : m % s = 0
                                                      /\ \A k \in 1..(m - 1) : \E s \in S : k % s # 0
StOrder(p) == StLcmOfSet({Cardinality(O) : O \in StCycleSets(p)})
StIsInvolution(p) == \A i \in StPos(p) : StAt(p, StAt(p, i)) = i
\* depth (Petersen-Tenner): the total size of the excedances
StDepth(p) == StSumOver({i \in StPos(p) : StAt(p, i) > i}, LAMBDA i : StAt(p, i) - i)
\* maximum drop size: the largest p(i) - i
StMaxDrop(p) == StMaxOf({StAt(p, i) - i : i \in StPos(p)} \cup {0})
\* cyclic statistics: position i whose value x = p(i) satisfies  i ? x ? p(x)
StCyclicPeaks(p)   == {i \in StPos(p) : i < StAt(p, i) /\ StAt(p, i) > StAt(p, StAt(p, i))}
StCyclicValleys(p) == {i \in StPos(p) : i > StAt(p, i) /\ StAt(p, i) < StAt(p, StAt(p, i))}
StDoubleExcedances(p) == {i \in StPos(p) : i < StAt(p, i) /\ StAt(p, i) < StAt(p, StAt(p, i))}
StDoubleDrops(p)   == {i \in StPos(p) : i > StAt(p, i) /\ StAt(p, i) > StAt(p, StAt(p, i))}

\* ---- primes in the column sums of the two-line notation (1-based: i + p(i)) ---------
StIsPrime(k) == k > 1 /\ \A d \in 2..(k - 1) : k % d # 0
StColumnSumPrimes(p) == Cardinality({i \in StPos(p) : StIsPrime((i + 1) + (StAt(p, i) + 1))})

\* ---- subsequences and runs ----------------------------------------------------------
StIncSubsets(p) == {T \in SUBSET StPos(p) : \A i, j \in T : i < j => StAt(p, i) < StAt(p, j)}
StDecSubsets(p) == {T \in SUBSET StPos(p) : \A i, j \in T : i < j => StAt(p, i) > StAt(p, j)}
StLIS(p) == StMaxOf({Cardinality(T) : T \in StIncSubsets(p)})       \* longest increasing subsequence
StLDS(p) == StMaxOf({Cardinality(T) : T \in StDecSubsets(p)})
\* ascending / descending stretches of consecutive positions a..b
StAscStretches(p)  == {ab \in StPos(p) \X StPos(p) : ab[1] <= ab[2] /\ \A i \in ab[1]..(ab[2] - 1) : StAt(p, i) < StAt(p, i + 1)}
StDescStretches(p) == {ab \in StPos(p) \X StPos(p) : ab[1] <= ab[2] /\ \A i \in ab[1]..(ab[2] - 1) : StAt(p, i) > StAt(p, i + 1)}
StLongest(str) == IF str = {} THEN 0 ELSE StMaxOf({ab[2] - ab[1] + 1 : ab \in str})
StLongestAscRun(p)  == StLongest(StAscStretches(p))
StLongestDescRun(p) == StLongest(StDescStretches(p))
\* start positions of the stretches of maximal length
StLongestStarts(str) == {ab[1] : ab \in {cd \in str : cd[2] - cd[1] + 1 = StLongest(str)}}
StLongestAscRunStarts(p)  == StLongestStarts(StAscStretches(p))
StLongestDescRunStarts(p) == StLongestStarts(StDescStretches(p))
\* the largest k such that the k largest values appear in decreasing order
StMaximalDecreasingRun(p) ==
    StMaxOf({k \in 0..Len(p) : \A a, b \in (Len(p) - k)..(Len(p) - 1) : a > b => StPosOf(p, a) < StPosOf(p, b)})

\* ---- holeyness (St001469): max over position sets S of  delta(p(S)) - delta(S),
\*      delta(X) = number of x in X whose successor is not in X
StDelta(X) == Cardinality({x \in X : x + 1 \notin X})
StHoleyness(p) == StMaxOf({StDelta({StAt(p, s) : s \in T}) - StDelta(T) : T \in SUBSET StPos(p)})

\* ---- bounces (St000133), transcribed: b1 = the (1-based) position of the least value;
\*      b(k+1) = the last (1-based) position holding one of the values 0..b(k); stop at n;
\*      the statistic is the sum of n - b(k)
RECURSIVE StBounceFrom(_, _)
StBounceFrom(p, b0) ==
    CHOOSE r \in { IF b >= Len(p) THEN 0
                   ELSE (Len(p) - b) + StBounceFrom(p, StMaxOf({StPosOf(p, v) + 1 : v \in 0..b})) : b \in {b0} } : TRUE
StBounces(p) == IF Len(p) = 0 THEN 0 ELSE StBounceFrom(p, StPosOf(p, 0) + 1)

\* ---- one pass through a stack / a pop-stack (the devices, as input/stack/output) ----
\* a = <<input, stack (top first), output>>
RECURSIVE StStackRun(_)
StStackRun(a0) ==
    CHOOSE r \in { IF a[1] = <<>> THEN a[3] \o a[2]
                   ELSE IF a[2] # <<>> /\ Head(a[2]) < Head(a[1])
                        THEN StStackRun(<<a[1], Tail(a[2]), Append(a[3], Head(a[2]))>>)       \* pop
                        ELSE StStackRun(<<Tail(a[1]), <<Head(a[1])>> \o a[2], a[3]>>)           \* push
                   : a \in {a0} } : TRUE
StStackSort(p) == StStackRun(<<p, <<>>, <<>>>>)
\* pop-stack: a smaller entry is pushed; a larger one first empties the whole stack
RECURSIVE StPopStackRun(_)
StPopStackRun(a0) ==
    CHOOSE r \in { IF a[1] = <<>> THEN a[3] \o a[2]
                   ELSE IF a[2] # <<>> /\ Head(a[2]) < Head(a[1])
                        THEN StPopStackRun(<<a[1], <<>>, a[3] \o a[2]>>)                        \* pop all
                        ELSE StPopStackRun(<<Tail(a[1]), <<Head(a[1])>> \o a[2], a[3]>>)
                   : a \in {a0} } : TRUE
StPopStackSort(p) == StPopStackRun(<<p, <<>>, <<>>>>)
RECURSIVE StCountStackSorts(_)
StCountStackSorts(p0) == CHOOSE r \in { IF p = PIdentity(Len(p)) THEN 0 ELSE 1 + StCountStackSorts(StStackSort(p)) : p \in {p0} } : TRUE
RECURSIVE StCountPopStackSorts(_)
StCountPopStackSorts(p0) == CHOOSE r \in { IF p = PIdentity(Len(p)) THEN 0 ELSE 1 + StCountPopStackSorts(StPopStackSort(p)) : p \in {p0} } : TRUE

\* ---- fore / after maxima / minima (arXiv:1908.01084) --------------------------------
\* neighbours with a boundary convention: lo / hi stand for "0" (below everything) and "oo"
StPrev(p, i, left) == IF i = 0 THEN left ELSE StAt(p, i - 1)
StNext(p, i, right) == IF i = Len(p) - 1 THEN right ELSE StAt(p, i + 1)
StDoubleAscents(p)  == {i \in StPos(p) : StPrev(p, i, -1) < StAt(p, i) /\ StAt(p, i) < StNext(p, i, Len(p))}          \* 0-oo
StDoubleDescents(p) == {i \in StPos(p) : StPrev(p, i, Len(p)) > StAt(p, i) /\ StAt(p, i) > StNext(p, i, -1)}          \* oo-0
StForemaxima(p)  == StDoubleAscents(p) \cap StLtrMax(p)
StAfterminima(p) == StDoubleAscents(p) \cap StRtlMin(p)
StAftermaxima(p) == StDoubleDescents(p) \cap StRtlMax(p)
StForeminima(p)  == StDoubleDescents(p) \cap StLtrMin(p)

\* ---- layers: the records rtlmax + ltrmin, then the same on what remains --------------
\* the subsequence of s at the (0-based) positions not in L
StWithout(s, L) == LET keep == StSorted(StPos(s) \ L) IN [k \in 1..Len(keep) |-> s[keep[k] + 1]]
RECURSIVE StLayers(_)
StLayers(p0) == CHOOSE r \in { IF p = <<>> THEN <<>>
                               ELSE <<StRtlMax(p) \cup StLtrMin(p)>> \o StLayers(PStd(StWithout(p, StRtlMax(p) \cup StLtrMin(p))))
                               : p \in {p0} } : TRUE

\* ---- pattern counts -----------------------------------------------------------------
\* number of occurrences of every pattern of length k (as a function on PPerms(k))
StPatternCounts(p, k) ==
    CHOOSE r \in { StTabulate(PPerms(k), LAMBDA q : Cardinality({t \in T : POrderIso(q, PPick(p, t))})) : T \in {PIncTuples(k, Len(p))} } : TRUE
\* listing: <<pattern, count>> for the patterns that occur, by increasing pattern
StPatternListing(p, k) == LET c == StPatternCounts(p, k)
                          IN  SetToSortSeq({<<q, c[q]>> : q \in {x \in PPerms(k) : c[x] > 0}}, LAMBDA a, b : PLexLess(a[1], b[1]))

\* ---- the 32 statistics of permuta.permutils.statistics, BY NAME ----------------------
StNames == << "Number of inversions", "Number of non-inversions", "Major index", "Number of descents",
              "Number of ascents", "Number of peaks", "Number of valleys", "Number of cycles",
              "Number of left-to-right minimas", "Number of left-to-right maximas",
              "Number of right-to-left minimas", "Number of right-to-left maximas",
              "Number of fixed points", "Order", "Longest increasing subsequence",
              "Longest decreasing subsequence", "Depth", "Number of bounces", "Maximum drop size",
              "Number of primes in the column sums", "Holeyness of a permutation",
              "Number of stack-sorts needed", "Number of pop-stack-sorts needed", "Number of pinnacles",
              "Number of cyclic peaks", "Number of cyclic valleys", "Number of double excedance",
              "Number of double drops", "Number of foremaxima", "Number of afterminima",
              "Number of aftermaxima", "Number of foreminima" >>
StNamed(p) == << Cardinality(StInversions(p)), Cardinality(StNonInversions(p)), StMajorIndex(p),
                 Cardinality(StDescents(p)), Cardinality(StAscents(p)), Cardinality(StPeaks(p)),
                 Cardinality(StValleys(p)), Cardinality(StCycleSets(p)),
                 Cardinality(StLtrMin(p)), Cardinality(StLtrMax(p)), Cardinality(StRtlMin(p)), Cardinality(StRtlMax(p)),
                 Cardinality(StFixedPoints(p)), StOrder(p), StLIS(p), StLDS(p), StDepth(p), StBounces(p), StMaxDrop(p),
                 StColumnSumPrimes(p), StHoleyness(p), StCountStackSorts(p), StCountPopStackSorts(p),
                 Cardinality(StPinnacles(p)), Cardinality(StCyclicPeaks(p)), Cardinality(StCyclicValleys(p)),
                 Cardinality(StDoubleExcedances(p)), Cardinality(StDoubleDrops(p)),
                 Cardinality(StForemaxima(p)), Cardinality(StAfterminima(p)),
                 Cardinality(StAftermaxima(p)), Cardinality(StForeminima(p)) >>

\* one entry of the table without evaluating the others (k is 1-based)
StNamedAt(p, k) ==
    CASE k = 1 -> Cardinality(StInversions(p)) [] k = 2 -> Cardinality(StNonInversions(p)) [] k = 3 -> StMajorIndex(p)
      [] k = 4 -> Cardinality(StDescents(p)) [] k = 5 -> Cardinality(StAscents(p)) [] k = 6 -> Cardinality(StPeaks(p))
      [] k = 7 -> Cardinality(StValleys(p)) [] k = 8 -> Cardinality(StCycleSets(p))
      [] k = 9 -> Cardinality(StLtrMin(p)) [] k = 10 -> Cardinality(StLtrMax(p))
      [] k = 11 -> Cardinality(StRtlMin(p)) [] k = 12 -> Cardinality(StRtlMax(p))
      [] k = 13 -> Cardinality(StFixedPoints(p)) [] k = 14 -> StOrder(p) [] k = 15 -> StLIS(p) [] k = 16 -> StLDS(p)
      [] k = 17 -> StDepth(p) [] k = 18 -> StBounces(p) [] k = 19 -> StMaxDrop(p) [] k = 20 -> StColumnSumPrimes(p)
      [] k = 21 -> StHoleyness(p) [] k = 22 -> StCountStackSorts(p) [] k = 23 -> StCountPopStackSorts(p)
      [] k = 24 -> Cardinality(StPinnacles(p)) [] k = 25 -> Cardinality(StCyclicPeaks(p))
      [] k = 26 -> Cardinality(StCyclicValleys(p)) [] k = 27 -> Cardinality(StDoubleExcedances(p))
      [] k = 28 -> Cardinality(StDoubleDrops(p)) [] k = 29 -> Cardinality(StForemaxima(p))
      [] k = 30 -> Cardinality(StAfterminima(p)) [] k = 31 -> Cardinality(StAftermaxima(p))
      [] k = 32 -> Cardinality(StForeminima(p))

\* =====================================================================================
\* Named deviations of the implementation (known findings; see known_findings.json)
\* =====================================================================================
\* Stat14_15_LongestRun: the table entries "Longest increasing/decreasing subsequence"
\* (indices 14/15, i.e. 15/16 here) compute the longest ascending / descending RUN.
StDev_Stat14_15_LongestRun(p) == <<StLongestAscRun(p), StLongestDescRun(p)>>

\* Layers_UnstandardisedSeed: the layers are peeled from the un-standardised remainder (a
\* sequence of distinct values, not a permutation) while the left-to-right minima are
\* looked for below a ceiling equal to the remainder's LENGTH: an entry is taken as a
\* left-to-right minimum only if it is a record AND smaller than Len(remainder).
StSeqRtlMax(s) == {i \in StPos(s) : \A j \in StPos(s) : j > i => StAt(s, j) < StAt(s, i)}
StSeqLtrMinBelowLen(s) == {i \in StPos(s) : StAt(s, i) < Len(s) /\ \A j \in StPos(s) : j < i => StAt(s, j) > StAt(s, i)}
RECURSIVE StDev_Layers_UnstandardisedSeed(_)
StDev_Layers_UnstandardisedSeed(s0) ==
    CHOOSE r \in { IF s = <<>> THEN <<>>
                   ELSE <<StSeqRtlMax(s) \cup StSeqLtrMinBelowLen(s)>>
                        \o StDev_Layers_UnstandardisedSeed(StWithout(s, StSeqRtlMax(s) \cup StSeqLtrMinBelowLen(s)))
                   : s \in {s0} } : TRUE

\* ForeAfter_StepTwoAscent: "double ascent/descent" is taken to be an ascent/descent whose two
\* values differ by exactly two (instead of three consecutive entries in monotone order).
StDev_ForeAfter_StepTwoAscent(p) ==
    [fmax |-> StAscentsStep(p, 2) \cap StLtrMax(p), amin |-> StAscentsStep(p, 2) \cap StRtlMin(p),
     amax |-> StDescentsStep(p, 2) \cap StRtlMax(p), fmin |-> StDescentsStep(p, 2) \cap StLtrMin(p)]

\* the table of named statistics as the implementation computes it under the known deviations
\* (nm: the ideal table entry StNamed(p), passed in so that it is evaluated once)
StNamedDevFrom(p, nm) == LET d == StDev_ForeAfter_StepTwoAscent(p)
                         IN  SubSeq(nm, 1, 14) \o StDev_Stat14_15_LongestRun(p) \o SubSeq(nm, 17, 28)
                             \o <<Cardinality(d.fmax), Cardinality(d.amin), Cardinality(d.amax), Cardinality(d.fmin)>>
StNamedDev(p) == CHOOSE r \in {StNamedDevFrom(p, nm) : nm \in {StNamed(p)}} : TRUE
StNamedDevAt(p, k) ==
    CASE k = 15 -> StLongestAscRun(p) [] k = 16 -> StLongestDescRun(p)
      [] k = 29 -> Cardinality(StDev_ForeAfter_StepTwoAscent(p).fmax) [] k = 30 -> Cardinality(StDev_ForeAfter_StepTwoAscent(p).amin)
      [] k = 31 -> Cardinality(StDev_ForeAfter_StepTwoAscent(p).amax) [] k = 32 -> Cardinality(StDev_ForeAfter_StepTwoAscent(p).fmin)
      [] OTHER -> StNamedAt(p, k)
\* both tables at once: [i |-> ideal, d |-> under the deviations]
StNamedBoth(p) == CHOOSE r \in {[i |-> nm, d |-> StNamedDevFrom(p, nm)] : nm \in {StNamed(p)}} : TRUE
StDeviatingIndices == {15, 16, 29, 30, 31, 32}       \* 1-based positions in StNamed

\* =====================================================================================
\* Canonical observation record: every listing as a sorted sequence (what the adapter
\* builds from the real code's generators / lists / sets), used by the machine's Emit
\* and by the trace specification alike.
\* =====================================================================================
StSetSeq(f) == [k \in DOMAIN f |-> StSorted(f[k])]          \* sequence of sets -> sequence of sorted sequences
StObs(p) ==
    [ des |-> StSorted(StDescents(p)), asc |-> StSorted(StAscents(p)),
      desStep |-> [s \in 1..Len(p) |-> StSorted(StDescentsStep(p, s))],
      ascStep |-> [s \in 1..Len(p) |-> StSorted(StAscentsStep(p, s))],
      peaks |-> StSorted(StPeaks(p)), valleys |-> StSorted(StValleys(p)), pinn |-> StSorted(StPinnacles(p)),
      bends |-> StSorted(StBends(p)),
      incb |-> StSorted(StIncBonds(p)), decb |-> StSorted(StDecBonds(p)), bonds |-> StSorted(StAllBonds(p)),
      ltrmin |-> StSorted(StLtrMin(p)), ltrmax |-> StSorted(StLtrMax(p)),
      rtlmin |-> StSorted(StRtlMin(p)), rtlmax |-> StSorted(StRtlMax(p)),
      inv |-> StSortedTuples(StInversions(p)), noninv |-> StSortedTuples(StNonInversions(p)),
      fix |-> StSorted(StFixedPoints(p)), sfix |-> StSorted(StStrongFixedPoints(p)),
      cycles |-> StCycleDecomp(p), order |-> StOrder(p), invol |-> StIsInvolution(p),
      maj |-> StMajorIndex(p), depth |-> StDepth(p), renc |-> StRankEncoding(p),
      lra |-> <<StLongestAscRun(p), StSorted(StLongestAscRunStarts(p))>>,
      lrd |-> <<StLongestDescRun(p), StSorted(StLongestDescRunStarts(p))>>,
      mdr |-> StMaximalDecreasingRun(p), bounces |-> StBounces(p), maxdrop |-> StMaxDrop(p),
      holey |-> StHoleyness(p), colprimes |-> StColumnSumPrimes(p),
      gapdef |-> StMinGapDefined(p), gap |-> IF StMinGapDefined(p) THEN StMinGap(p) ELSE 0,
      cpk |-> StSorted(StCyclicPeaks(p)), cval |-> StSorted(StCyclicValleys(p)),
      cdexc |-> StSorted(StDoubleExcedances(p)), cddrop |-> StSorted(StDoubleDrops(p)),
      fmax |-> StSorted(StForemaxima(p)), amin |-> StSorted(StAfterminima(p)),
      amax |-> StSorted(StAftermaxima(p)), fmin |-> StSorted(StForeminima(p)),
      layers |-> StSetSeq(StLayers(p)),
      pats3 |-> StPatternListing(p, 3), pats4 |-> StPatternListing(p, 4),
      ssorts |-> StCountStackSorts(p), psorts |-> StCountPopStackSorts(p),
      lis |-> StLIS(p), lds |-> StLDS(p),
      named |-> StNamed(p) ]
\* the same fields as the implementation computes them under the known deviations
StObsDevFrom(p, nm) == LET d == StDev_ForeAfter_StepTwoAscent(p) IN
    [ fmax |-> StSorted(d.fmax), amin |-> StSorted(d.amin), amax |-> StSorted(d.amax), fmin |-> StSorted(d.fmin),
      layers |-> StSetSeq(StDev_Layers_UnstandardisedSeed(p)),
      named |-> StNamedDevFrom(p, nm) ]
StObsDev(p) == CHOOSE r \in {StObsDevFrom(p, nm) : nm \in {StNamed(p)}} : TRUE
\* both at once: [i |-> by definition, d |-> the deviating fields as the implementation computes them]
StObsBoth(p) == CHOOSE r \in {[i |-> o, d |-> StObsDevFrom(p, o.named)] : o \in {StObs(p)}} : TRUE
\* the fields for which a named deviation exists, with the deviation's name
StDevFields == [fmax |-> "ForeAfter_StepTwoAscent", amin |-> "ForeAfter_StepTwoAscent",
                amax |-> "ForeAfter_StepTwoAscent", fmin |-> "ForeAfter_StepTwoAscent",
                layers |-> "Layers_UnstandardisedSeed"]
StDevOfIndex(k) == IF k \in {15, 16} THEN "Stat14_15_LongestRun" ELSE "ForeAfter_StepTwoAscent"   \* k in StDeviatingIndices

\* =====================================================================================
\* Distributions, preservation, equidistribution - on classes / bijections given as data.
\* f is a function from permutations to naturals (or to tuples of naturals) whose domain
\* contains the permutations involved.
\* =====================================================================================
\* Distribution(f, S)[k + 1] = #{p in S : f(p) = k}  for k = 0 .. max f   (<<0>> for an empty S)
StDistribution(f, S) == LET top == IF S = {} THEN 0 ELSE StMaxOf({f[p] : p \in S})
                        IN  [k \in 1..(top + 1) |-> Cardinality({p \in S : f[p] = k - 1})]
\* joint distribution as a bag: value -> multiplicity, over the values that occur
StBag(f, S) == StTabulate({f[p] : p \in S}, LAMBDA v : Cardinality({p \in S : f[p] = v}))
\* bij: a set of pairs <<k, v>>
StPreserved(f, bij) == \A kv \in bij : f[kv[1]] = f[kv[2]]
StTransformed(f, g, bij) == \A kv \in bij : f[kv[1]] = g[kv[2]]
=============================================================================
