------------------------------- MODULE Growth -------------------------------
(***************************************************************************)
(* Growth of permutation classes Av(B): the three structure theorems the   *)
(* property C13 refers to, each stated through declaratively defined       *)
(* classes of permutations.  Prefix G.                                     *)
(*                                                                         *)
(*  (1) Erdos-Szekeres: Av(B) is finite iff B has an increasing and a      *)
(*      decreasing element; with an increasing element of length a and a   *)
(*      decreasing one of length b the class is empty beyond (a-1)(b-1).   *)
(*  (2) Kaiser-Klazar / Huczynska-Vatter / Albert-Atkinson-Brignall:       *)
(*      Av(B) has polynomial growth iff it contains none of the ten        *)
(*      minimal non-polynomial classes, i.e. iff B has a member in each of *)
(*           W(e1,e2)      horizontal juxtapositions: there is a vertical  *)
(*                         line with an e1-monotone sequence to its left   *)
(*                         and an e2-monotone sequence to its right        *)
(*           Winv(e1,e2)   vertical juxtapositions: there is a horizontal  *)
(*                         line with an e1-monotone sequence below it and  *)
(*                         an e2-monotone sequence above it (the inverses  *)
(*                         of the members of W(e1,e2))                     *)
(*           L2            direct sums of decreasing blocks of size <= 2   *)
(*                         (the subpermutations of 21 (+) 21 (+) ...)      *)
(*           L2inv         skew sums of increasing blocks of size <= 2     *)
(*      (e1, e2 in {+,-}: 4 + 4 + 2 = 10 classes), and otherwise           *)
(*      |Av_n(B)| >= F_n (Fibonacci, F_0 = F_1 = 1) for every n.           *)
(*  (3) Albert-Linton-Ruskuc (insertion of a new maximum; Vatter for the   *)
(*      other directions): Av(B) has a regular insertion encoding for      *)
(*      insertion of a new rightmost entry iff B has a member in each of   *)
(*      the four classes W(e1,e2); for insertion of a new topmost entry    *)
(*      iff the same holds for the basis turned by a quarter turn          *)
(*      (equivalently: B has a member in each Winv(e1,e2), which are the   *)
(*      four classes of the Albert-Linton-Ruskuc paper - LibSanity_Growth  *)
(*      checks that against their bases).                                  *)
(*                                                                         *)
(* The names of the ten classes are the ones Permuta's docstrings use.     *)
(***************************************************************************)
EXTENDS Algebra, D4

\* ---- monotone sequences ---------------------------------------------------------------
GIsInc(s) == \A i, j \in DOMAIN s : i < j => s[i] < s[j]
GIsDec(s) == \A i, j \in DOMAIN s : i < j => s[i] > s[j]
GSigns == {"+", "-"}
GMono(e, s) == IF e = "+" THEN GIsInc(s) ELSE GIsDec(s)
\* the entries of p at the positions I, read from left to right, form an e-monotone sequence
GMonoOn(e, p, I) == \A i, j \in I : i < j => (IF e = "+" THEN p[i] < p[j] ELSE p[i] > p[j])

\* ---- (1) finiteness -------------------------------------------------------------------
GIncElems(B) == {b \in B : GIsInc(b)}
GDecElems(B) == {b \in B : GIsDec(b)}
GFinite(B) == GIncElems(B) # {} /\ GDecElems(B) # {}
GMinLen(S) == CHOOSE n \in {Len(b) : b \in S} : \A b \in S : n <= Len(b)
\* Erdos-Szekeres bound (meaningful when GFinite(B)): every permutation longer than this
\* contains the shortest increasing or the shortest decreasing element of B
GESBound(B) == (GMinLen(GIncElems(B)) - 1) * (GMinLen(GDecElems(B)) - 1)

\* ---- (2) the ten classes --------------------------------------------------------------
\* horizontal juxtaposition: a vertical line after position k
GJuxt(e1, e2, p) == \E k \in 0..Len(p) : GMono(e1, SubSeq(p, 1, k)) /\ GMono(e2, SubSeq(p, k + 1, Len(p)))
\* vertical juxtaposition: a horizontal line below value k
GVJuxt(e1, e2, p) == \E k \in 0..Len(p) : /\ GMonoOn(e1, p, {i \in DOMAIN p : p[i] < k})
                                          /\ GMonoOn(e2, p, {i \in DOMAIN p : p[i] >= k})
\* sum / skew components (maximal chain of cut points, module Algebra) all monotone and short:
\* p is a direct sum of decreasing blocks exactly when its sum-indecomposable components are decreasing
GLayeredUpTo(m, p) == \A k \in DOMAIN ASumDecomposition(p) :
                         LET c == ASumDecomposition(p)[k] IN GIsDec(c) /\ Len(c) <= m
GColayeredUpTo(m, p) == \A k \in DOMAIN ASkewDecomposition(p) :
                         LET c == ASkewDecomposition(p)[k] IN GIsInc(c) /\ Len(c) <= m

GFourTypes == {"WPP", "WPM", "WMP", "WMM"}
GTenTypes == GFourTypes \cup {"WIPP", "WIPM", "WIMP", "WIMM", "L2", "L2I"}
GInType(t, p) ==
    CASE t = "WPP"  -> GJuxt("+", "+", p)
      [] t = "WPM"  -> GJuxt("+", "-", p)
      [] t = "WMP"  -> GJuxt("-", "+", p)
      [] t = "WMM"  -> GJuxt("-", "-", p)
      [] t = "WIPP" -> GVJuxt("+", "+", p)
      [] t = "WIPM" -> GVJuxt("+", "-", p)
      [] t = "WIMP" -> GVJuxt("-", "+", p)
      [] t = "WIMM" -> GVJuxt("-", "-", p)
      [] t = "L2"   -> GLayeredUpTo(2, p)
      [] t = "L2I"  -> GColayeredUpTo(2, p)
GTypes(p) == {t \in GTenTypes : GInType(t, p)}
GProps(p) == {t \in GFourTypes : GInType(t, p)}
GMeets(B, T) == \A t \in T : \E b \in B : GInType(t, b)

GPoly(B) == GMeets(B, GTenTypes)
\* Fibonacci numbers F_0 = F_1 = 1
RECURSIVE GFib(_)
GFib(n) == IF n < 2 THEN 1 ELSE GFib(n - 1) + GFib(n - 2)

\* ---- (3) regular insertion encodings ----------------------------------------------------
GTurn == "r1"        \* the quarter turn (clockwise; any quarter turn gives the same verdict)
GInsEncRight(B) == GMeets(B, GFourTypes)
GInsEncTop(B) == GInsEncRight(DSymSet(GTurn, B))
GInsEnc(B) == GInsEncRight(B) \/ GInsEncTop(B)

\* all verdicts of a set at once
GVerdicts(B) == [fin |-> GFinite(B), poly |-> GPoly(B), npoly |-> ~GPoly(B),
                 ie |-> GInsEnc(B), ier |-> GInsEncRight(B), iem |-> GInsEncTop(B)]
\* one verdict of a set (for single-question events)
GVerdict(B, f) == CASE f = "fin"   -> GFinite(B)
                    [] f = "poly"  -> GPoly(B)
                    [] f = "npoly" -> ~GPoly(B)
                    [] f = "ie"    -> GInsEnc(B)
                    [] f = "ier"   -> GInsEncRight(B)
                    [] f = "iem"   -> GInsEncTop(B)

\* ---- enumeration and the consistency statements -----------------------------------------
\* the antichain of minimal elements (what Permuta's Basis keeps), as the sorted tuple
GMinimal(B) == {b \in B : \A c \in B : c # b => ~PContains(b, c)}
GBasisSeq(B) == SetToSortSeq(GMinimal(B), PPermLess)
\* Lvl(n) is the class at length n (PAvLevel(B, n) or a tabulated form of it)
GFiniteEmptyBeyond(B, N, Lvl(_)) == GFinite(B) => \A n \in (GESBound(B) + 1)..N : Lvl(n) = {}
GInfiniteNeverEmpty(B, N, Lvl(_)) == ~GFinite(B) => \A n \in 0..N : Lvl(n) # {}
GFibonacciLower(B, N, Lvl(_)) == ~GPoly(B) => \A n \in 0..N : Cardinality(Lvl(n)) >= GFib(n)
\* the eight symmetries: finiteness, polynomial growth and "some insertion encoding" are invariant;
\* the symmetries that keep vertical lines vertical keep rightmost / topmost, the others swap them
GKeepsColumns == {"id", "rev", "comp", "r2"}
GSymInvariant(B) ==
    \A g \in DNames :
       LET C == DSymSet(g, B) IN
       /\ GFinite(C) = GFinite(B) /\ GPoly(C) = GPoly(B) /\ GInsEnc(C) = GInsEnc(B)
       /\ IF g \in GKeepsColumns THEN GInsEncRight(C) = GInsEncRight(B) /\ GInsEncTop(C) = GInsEncTop(B)
                                 ELSE GInsEncRight(C) = GInsEncTop(B) /\ GInsEncTop(C) = GInsEncRight(B)
=============================================================================
