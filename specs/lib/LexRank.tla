------------------------------ MODULE LexRank ------------------------------
(***************************************************************************)
(* Definitions for C09: the (length, lexicographic) enumeration of all     *)
(* permutations, ranks as "number of smaller permutations", unranking as   *)
(* "index in the sorted sequence", notations, the validated constructor's  *)
(* domain, and the order on shadings that mesh pattern ranks count.        *)
(* Prefix L (mesh part: M..).  Nothing here is factoradic arithmetic: the  *)
(* only arithmetic is counting elements of sets.                           *)
(*                                                                         *)
(* The operators taking a set S are meant to be called with S = the set of *)
(* all permutations of a length (PPerms(n) = LAllPerms(n)), tabulated once *)
(* by the calling machine (PPerms is a recursive operator and would        *)
(* otherwise be rebuilt at every call).                                    *)
(***************************************************************************)
EXTENDS Mesh

RECURSIVE LSeqSum(_)
LSeqSum(s) == IF s = <<>> THEN 0 ELSE Head(s) + LSeqSum(Tail(s))

\* ---- order and enumeration ------------------------------------------------------
\* All permutations of length n as "all bijections of 1..n" shifted to values 0..n-1.  The same set
\* as PPerms(n) (LibSanity_LexRank), built by TLC's Permutations and therefore affordable for n = 8.
LAllPerms(n) == {[i \in 1..n |-> f[i] - 1] : f \in Permutations(1..n)}
\* number of permutations shorter than n, given count[k+1] = number of permutations of length k
LShorterFromCounts(count, n) == LSeqSum([k \in 1..n |-> count[k]])
LSmallerIn(S, p) == {q \in S : PLexLess(q, p)}
LGreaterIn(S, p) == {q \in S : PLexLess(p, q)}
\* rank among the permutations of the same length: how many are smaller
LRankIn(S, p) == Cardinality(LSmallerIn(S, p))
\* the least element of a non-empty set of equal-length sequences
LLeastOf(G) == CHOOSE q \in G : \A r \in G : r = q \/ PLexLess(q, r)
\* successor in (length, lex) order: the least permutation greater than p of the same
\* length, and the identity of the next length when there is none
LNextIn(S, p) == CHOOSE res \in { IF G = {} THEN PIdentity(Len(p) + 1) ELSE LLeastOf(G) : G \in {LGreaterIn(S, p)} } : TRUE
\* number of permutations shorter than n (counted, not computed from factorials)
LCountShorter(n) == IF n = 0 THEN 0 ELSE Cardinality(PPermsUpTo(n - 1))
\* the sorted enumeration of a set of equal-length sequences; unranking is indexing it
LSorted(S) == SetToSortSeq(S, PLexLess)
LUnrankIn(sorted, r) == sorted[r + 1]
LValidRankIn(sorted, r) == (r + 1) \in DOMAIN sorted
\* overall: the length whose block contains overall rank r, given the table
\* shorter[n+1] = LCountShorter(n) for n = 0..N+1   (1-based sequence)
LLengthOfRank(shorter, r) == CHOOSE n \in 0..(Len(shorter) - 2) : shorter[n + 1] <= r /\ r < shorter[n + 2]

\* ---- ranks of permutations too long to enumerate (lengths 9 to 12) ---------------------
\* The permutations of length n that are lexicographically smaller than p split by the first
\* position i at which they differ from p: there they carry one of the values below p[i] that p
\* has not used before i, and behind it any arrangement of the n - i values still unused.  Counting
\* the parts gives the rank without enumerating n! permutations.  (LibSanity_LexRank: equal to the
\* counting definition LRankIn on every permutation of length <= 6, and PFact(m) is the number of
\* arrangements of m values for m <= 7.)
LUnusedBelowAt(p, i) == Cardinality({v \in 0..(p[i] - 1) : \A j \in 1..(i - 1) : p[j] # v})
LRankBySplit(p) == LSeqSum([i \in DOMAIN p |-> LUnusedBelowAt(p, i) * PFact(Len(p) - i)])
LOverallRankBySplit(p) == PSumFact(Len(p)) + LRankBySplit(p)

\* ---- ranks of permutations of any length, as numerals in base 10000 ------------------
\* TLC's integers are 32-bit; a rank of a permutation of length 13 or more does not fit.  A natural number is
\* written as the sequence of its base-10000 digits, least significant first, without leading zeros (0 is <<>>).
\* LBigMulAdd(x, m, c) is x * m + c for a numeral x and small naturals m, c (m * 9999 + c stays far below 2^31).
LBigBase == 10000
RECURSIVE LBigMulAdd(_, _, _)
LBigMulAdd(x, m, c) == IF x = <<>> THEN (IF c = 0 THEN <<>> ELSE IF c < LBigBase THEN <<c>> ELSE <<c % LBigBase>> \o LBigMulAdd(<<>>, m, c \div LBigBase))
                       ELSE LET t == Head(x) * m + c IN
                            IF Len(x) = 1 /\ t = 0 THEN <<>> ELSE <<t % LBigBase>> \o LBigMulAdd(Tail(x), m, t \div LBigBase)
RECURSIVE LBigAdd(_, _, _)
LBigAdd(x, y, c) == IF x = <<>> /\ y = <<>> THEN (IF c = 0 THEN <<>> ELSE <<c>>)
                    ELSE LET a == IF x = <<>> THEN 0 ELSE Head(x)
                             b == IF y = <<>> THEN 0 ELSE Head(y)
                             t == a + b + c
                         IN <<t % LBigBase>> \o LBigAdd(IF x = <<>> THEN <<>> ELSE Tail(x), IF y = <<>> THEN <<>> ELSE Tail(y), t \div LBigBase)
RECURSIVE LBigFact(_)
LBigFact(n) == IF n = 0 THEN <<1>> ELSE LBigMulAdd(LBigFact(n - 1), n, 0)
RECURSIVE LBigSumFact(_)      \* number of permutations shorter than n
LBigSumFact(n) == IF n = 0 THEN <<>> ELSE LBigAdd(LBigSumFact(n - 1), LBigFact(n - 1), 0)
\* the split of LRankBySplit in Horner form: ((c_1 (n-1) + c_2)(n-2) + ... ) 1 + c_n  =  sum of c_i (n-i)!
RECURSIVE LBigRankFrom(_, _, _)
LBigRankFrom(p, i, acc) == IF i > Len(p) THEN acc
                           ELSE LBigRankFrom(p, i + 1, LBigMulAdd(acc, Len(p) - i + 1, LUnusedBelowAt(p, i)))
LBigRankBySplit(p) == LBigRankFrom(p, 1, <<>>)
LBigOverallRank(p) == LBigAdd(LBigSumFact(Len(p)), LBigRankBySplit(p), 0)
\* value of a numeral that fits (cross-checks only)
RECURSIVE LBigValue(_)
LBigValue(x) == IF x = <<>> THEN 0 ELSE Head(x) + LBigBase * LBigValue(Tail(x))
LBigIsNumeral(x) == /\ \A i \in DOMAIN x : x[i] \in 0..(LBigBase - 1)
                    /\ (x # <<>> => x[Len(x)] # 0)

\* ---- standardisation, second characterisation -----------------------------------
\* r is order-isomorphic to s with ties of s read as increasing from left to right
LIsStdOf(r, s) == /\ PIsPerm(r) /\ Len(r) = Len(s)
                  /\ \A i, j \in DOMAIN s : i < j => ((r[i] < r[j]) <=> (s[i] <= s[j]))

\* ---- notations ------------------------------------------------------------------
LDigitChar == <<"0", "1", "2", "3", "4", "5", "6", "7", "8", "9">>
\* the string notation of a non-empty permutation of length <= 10, one character per entry
LChars(p) == [i \in DOMAIN p |-> LDigitChar[p[i] + 1]]
LOneBased(p) == [i \in DOMAIN p |-> p[i] + 1]
RECURSIVE LPow10(_)
LPow10(k) == IF k = 0 THEN 1 ELSE 10 * LPow10(k - 1)
\* the integer whose decimal numeral is the digit sequence d
LIntOf(d) == LSeqSum([i \in DOMAIN d |-> d[i] * LPow10(Len(d) - i)])
\* a zero-based digit string denotes an integer with the same digits only without a leading 0
LZeroBasedIntOK(p) == Len(p) = 1 \/ (Len(p) > 1 /\ p[1] # 0)

\* ---- the validated constructor accepts exactly the bijections of 0..n-1 ----------
LIsBijection(s) == {s[i] : i \in DOMAIN s} = 0..(Len(s) - 1)

\* ---- mesh pattern ranks ----------------------------------------------------------
\* significance of cells: <<x, y>> before <<x', y'>> iff x < x', or x = x' and y < y'
MCellBefore(c, d) == c[1] < d[1] \/ (c[1] = d[1] /\ c[2] < d[2])
\* R1 precedes R2 iff the most significant cell in which they differ belongs to R2
MShadeLess(R1, R2) == \E c \in R2 \ R1 : \A d \in (R1 \ R2) \cup (R2 \ R1) : d = c \/ MCellBefore(d, c)
\* rank of a shading = number of shadings of the same grid that precede it
MRankByCount(k, R) == Cardinality({Q \in SUBSET MCells(k) : MShadeLess(Q, R)})
\* table of MRank over all shadings of a pattern (a set of pairs), and unranking as lookup in it
MRankTable(p) == {[R |-> R, r |-> MRank(MMesh(p, R))] : R \in SUBSET MCells(Len(p))}
MUnrankIn(tab, r) == (CHOOSE e \in tab : e.r = r).R
MValidRankIn(tab, r) == \E e \in tab : e.r = r
\* the rank of a shading of a grid with more than 31 cells, as a base-10000 numeral: the binary numeral whose digit
\* number x (k + 1) + y says whether cell <<x, y>> is shaded, read from the most significant digit down
RECURSIVE MBigRankFrom(_, _, _)
MBigRankFrom(M, idx, acc) ==
    IF idx < 0 THEN acc
    ELSE MBigRankFrom(M, idx - 1, LBigMulAdd(acc, 2, IF <<idx \div (Len(M.p) + 1), idx % (Len(M.p) + 1)>> \in M.R THEN 1 ELSE 0))
MBigRank(M) == MBigRankFrom(M, (Len(M.p) + 1) * (Len(M.p) + 1) - 1, <<>>)
=============================================================================
