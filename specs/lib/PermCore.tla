------------------------------ MODULE PermCore ------------------------------
(***************************************************************************)
(* Permutations as Permuta sees them: a permutation of length n is a       *)
(* sequence p with DOMAIN p = 1..n whose values are exactly 0..n-1         *)
(* (positions are 1-based because TLA+ sequences are, values are 0-based   *)
(* like Permuta's).  Everything here is a definition, not an algorithm.    *)
(* All operators carry the prefix P because Contains, Max, Reverse, Last,  *)
(* InsertAt, ... are taken by the CommunityModules.                        *)
(***************************************************************************)
EXTENDS Naturals, Integers, Sequences, FiniteSets, SequencesExt, FiniteSetsExt, TLC

PIsPerm(p) == /\ DOMAIN p = 1..Len(p)
              /\ \A i \in DOMAIN p : p[i] \in 0..(Len(p) - 1)
              /\ \A i, j \in DOMAIN p : p[i] = p[j] => i = j

PSeqIns(s, i, e) == SubSeq(s, 1, i - 1) \o <<e>> \o SubSeq(s, i, Len(s))
PSeqDel(s, i)    == SubSeq(s, 1, i - 1) \o SubSeq(s, i + 1, Len(s))

\* All permutations of length n: every way of placing the new maximum n-1 into a
\* permutation of length n-1.  (LibSanity checks this against "all bijections".)
RECURSIVE PPerms(_)
PPerms(n) == IF n = 0 THEN {<<>>}
             ELSE UNION { { PSeqIns(p, i, n - 1) : i \in 1..n } : p \in PPerms(n - 1) }

PPermsUpTo(n) == UNION { PPerms(k) : k \in 0..n }
PPermsBetween(a, b) == UNION { PPerms(k) : k \in a..b }

PIdentity(n) == [i \in 1..n |-> i - 1]
PDecreasing(n) == [i \in 1..n |-> n - i]

\* Standardisation: the unique permutation order-isomorphic to s, ties broken left to right.
\* less(a,b) is the strict order on the items.
PStdBy(s, less(_, _)) ==
    [i \in DOMAIN s |-> Cardinality({j \in DOMAIN s : less(s[j], s[i]) \/ (~less(s[i], s[j]) /\ ~less(s[j], s[i]) /\ j < i)})]
PStd(s) == PStdBy(s, LAMBDA a, b : a < b)

\* Lexicographic order on equal-length integer sequences, and Permuta's order on
\* permutations: by length, then lexicographically.
PLexLess(a, b) == \E i \in 1..Len(a) : i <= Len(b) /\ a[i] < b[i] /\ \A j \in 1..(i - 1) : a[j] = b[j]
\* general tuples (prefix is smaller)
PTupleLess(a, b) == \/ PLexLess(a, b)
                    \/ (Len(a) < Len(b) /\ \A j \in 1..Len(a) : a[j] = b[j])
PPermLess(a, b) == Len(a) < Len(b) \/ (Len(a) = Len(b) /\ PLexLess(a, b))

\* Rank of p among the permutations of its own length (lexicographic), and among all
\* permutations (length first).  Defined as "how many are smaller".
PRankInLength(p) == Cardinality({q \in PPerms(Len(p)) : PLexLess(q, p)})
RECURSIVE PFact(_)
PFact(n) == IF n = 0 THEN 1 ELSE n * PFact(n - 1)
RECURSIVE PSumFact(_)
PSumFact(n) == IF n = 0 THEN 0 ELSE PFact(n - 1) + PSumFact(n - 1)   \* # perms of length < n
PRank(p) == PSumFact(Len(p)) + PRankInLength(p)
PUnrankInLength(r, n) == CHOOSE p \in PPerms(n) : PRankInLength(p) = r
\* successor in (length, lex) order
PNextPerm(p) == IF \E q \in PPerms(Len(p)) : PLexLess(p, q)
                THEN CHOOSE q \in PPerms(Len(p)) : PLexLess(p, q) /\ \A r \in PPerms(Len(p)) : PLexLess(p, r) => (r = q \/ PLexLess(q, r))
                ELSE PIdentity(Len(p) + 1)

\* The diagram of a permutation: its set of points <<x, y>> (0-based both).
PPoints(p) == {<<i - 1, p[i]>> : i \in DOMAIN p}
\* The permutation whose diagram is order-isomorphic to a finite point set with
\* distinct x and distinct y coordinates.
PFromPoints(S) ==
    LET xs == {pt[1] : pt \in S}
        n  == Cardinality(S)
        xOf(k) == CHOOSE x \in xs : Cardinality({x2 \in xs : x2 < x}) = k - 1
        yAt(x) == (CHOOSE pt \in S : pt[1] = x)[2]
    IN  [k \in 1..n |-> Cardinality({pt \in S : pt[2] < yAt(xOf(k))})]

\* 0-based rendering of a 1-based index tuple (Permuta reports 0-based indices)
PZero(t) == [i \in DOMAIN t |-> t[i] - 1]
=============================================================================
