-------------------------- MODULE LibSanity_Devices --------------------------
(***************************************************************************)
(* Cross-checks of module Devices against known theorems, evaluated by TLC *)
(* as ASSUMEs (run once per check of C12 before the definitions are used   *)
(* as an oracle).  N bounds the lengths.                                   *)
(***************************************************************************)
EXTENDS Devices

N == 6
S == [n \in 0..N |-> PPerms(n)]                 \* tabulated once
All == UNION {S[n] : n \in 0..N}
Small == UNION {S[n] : n \in 0..5}
Card(T) == Cardinality(T)
RECURSIVE Binom(_, _)
Binom(n, k) == IF k = 0 THEN 1 ELSE IF n = 0 THEN 0 ELSE Binom(n - 1, k - 1) + Binom(n - 1, k)
Catalan(n) == Binom(2 * n, n) \div (n + 1)
Pow2(n) == MPow2(n)
CountIn(n, Pred(_)) == Card({p \in S[n] : Pred(p)})
Compose(a, b) == [i \in DOMAIN a |-> a[b[i] + 1]]

\* ---- devices -------------------------------------------------------------------------
\* exactly one action is enabled in every non-final state reachable in a run, none in the final one
RECURSIVE Deterministic(_, _)
Deterministic(dev, d) == IF DvFinal(d) THEN DvEnabledSet(dev, d) = {}
                         ELSE /\ Card(DvEnabledSet(dev, d)) = 1
                              /\ \A e \in {DvStep(dev, d)} : Deterministic(dev, e)
ASSUME \A dev \in DvDevices, p \in Small : Deterministic(dev, DvStart(p))
\* a pass outputs a permutation; the identity is a fixed point; stack and bubble leave the maximum last
ASSUME \A dev \in DvDevices, p \in All : PIsPerm(DvPass(dev, p)) /\ (DvIsIdentity(p) => DvIsIdentity(DvPass(dev, p)))
ASSUME \A dev \in {"stack", "bubble"}, p \in All : Len(p) > 0 => DvPass(dev, p)[Len(p)] = Len(p) - 1
ASSUME DvPass("stack", <<1, 2, 0>>) = <<1, 0, 2>> /\ DvPass("stack", <<2, 1, 0>>) = <<0, 1, 2>>
ASSUME DvPass("pop", <<2, 0, 1>>) = <<0, 2, 1>> /\ DvPass("pop", <<1, 2, 0>>) = <<1, 0, 2>>
ASSUME DvPass("bubble", <<2, 1, 0>>) = <<1, 0, 2>> /\ DvPass("bubble", <<1, 0, 3, 2>>) = <<0, 1, 2, 3>>
\* the recursive descriptions of the operators (L n R with n the maximum):
\*   S(L n R) = S(L) S(R) n          B(L n R) = B(L) R n
\*   pop-stack: every maximal descending run of consecutive entries is reversed
RECURSIVE SRec(_), BRec(_)
PosOfMax(s) == CHOOSE i \in DOMAIN s : \A j \in DOMAIN s : s[j] <= s[i]
SRec(s) == IF Len(s) = 0 THEN <<>>
           ELSE CHOOSE r \in {SRec(SubSeq(s, 1, m - 1)) \o SRec(SubSeq(s, m + 1, Len(s))) \o <<s[m]>> : m \in {PosOfMax(s)}} : TRUE
BRec(s) == IF Len(s) = 0 THEN <<>>
           ELSE CHOOSE r \in {BRec(SubSeq(s, 1, m - 1)) \o SubSeq(s, m + 1, Len(s)) \o <<s[m]>> : m \in {PosOfMax(s)}} : TRUE
RunStart(p, i) == CHOOSE a \in 1..i : (\A j \in a..(i - 1) : p[j] > p[j + 1]) /\ (a = 1 \/ p[a - 1] < p[a])
RunEnd(p, i) == CHOOSE b \in i..Len(p) : (\A j \in i..(b - 1) : p[j] > p[j + 1]) /\ (b = Len(p) \/ p[b] < p[b + 1])
RunsReversed(p) == [i \in DOMAIN p |-> p[RunStart(p, i) + RunEnd(p, i) - i]]
ASSUME \A p \in All : DvPass("stack", p) = SRec(p)
ASSUME \A p \in All : DvPass("bubble", p) = BRec(p)
ASSUME \A p \in All : DvPass("pop", p) = RunsReversed(p)
\* pattern characterisations (Knuth; Avis-Newborn; Albert et al.; West; quicksort pass)
ASSUME \A p \in All : DvSortableBy("stack", p) <=> DvCharStack(p)
ASSUME \A p \in All : DvSortableBy("pop", p) <=> DvCharPop(p)
ASSUME \A p \in All : DvSortableBy("bubble", p) <=> DvCharBubble(p)
ASSUME \A p \in All : DvIsIdentity(DvPasses("stack", p, 2)) <=> DvCharWest2(p)
ASSUME \A p \in All : DvIsIdentity(DvQuickPass(p)) <=> DvCharQuick(p)
\* enumerations: Catalan, 2^(n-1), 2^(n-1), 2(3n)!/((n+1)!(2n+1)!)
ASSUME \A n \in 0..N : CountIn(n, LAMBDA p : DvSortableBy("stack", p)) = Catalan(n)
ASSUME \A n \in 1..N : CountIn(n, LAMBDA p : DvSortableBy("pop", p)) = Pow2(n - 1)
ASSUME \A n \in 1..N : CountIn(n, LAMBDA p : DvSortableBy("bubble", p)) = Pow2(n - 1)
ASSUME \A n \in 0..N : CountIn(n, LAMBDA p : DvCount("stack", p) <= 2) = <<1, 1, 2, 6, 22, 91, 408>>[n + 1]
\* pass counts: at most n-1 passes (West; Ungar), exactly k passes = least k with identity
ASSUME \A dev \in {"stack", "pop"}, p \in All : /\ DvCount(dev, p) <= (IF Len(p) = 0 THEN 0 ELSE Len(p) - 1)
                                              /\ DvIsIdentity(DvPasses(dev, p, DvCount(dev, p)))
                                              /\ \A k \in 0..(DvCount(dev, p) - 1) : ~DvIsIdentity(DvPasses(dev, p, k))
\* the decreasing permutation needs one stack pass and one pop-stack pass; 2 3 .. n 1 needs n-1 stack passes
ASSUME \A n \in 2..N : DvCount("stack", PDecreasing(n)) = 1 /\ DvCount("pop", PDecreasing(n)) = 1
ASSUME \A n \in 2..N : DvCount("stack", [i \in 1..n |-> i % n]) = n - 1
\* quicksort pass: a permutation, strong fixed points kept, entries below / above a pivot keep their order
ASSUME \A p \in All : PIsPerm(DvQuickPass(p)) /\ \A i \in DvStrongFixed(p) : DvQuickPass(p)[i] = p[i]
ASSUME DvQuickPass(<<2, 0, 3, 1>>) = <<0, 1, 2, 3>> /\ DvQuickPass(<<0, 3, 2, 1, 4>>) = <<0, 2, 1, 3, 4>>
ASSUME \A p \in All : DvStrongFixed(p) = {} /\ Len(p) > 0 =>
          LET o == DvQuickPass(p) IN o[p[1] + 1] = p[1]              \* the pivot lands on its own place

\* ---- Simion-Schmidt ------------------------------------------------------------------
Av123 == [n \in 0..N |-> {p \in S[n] : DvAv123(p)}]
Av132 == [n \in 0..N |-> {p \in S[n] : DvAv132(p)}]
ASSUME \A n \in 0..N : Card(Av123[n]) = Catalan(n) /\ Card(Av132[n]) = Catalan(n)
\* a 132-avoider (123-avoider) is determined by its left-to-right minima, and every pattern of
\* minima of a 123-avoider is realised: the declarative map is well defined
ASSUME \A n \in 0..N : \A p \in Av123[n] : Card(DvSameLtrMin(p, Av132[n])) = 1
ASSUME \A n \in 0..N : \A p \in Av132[n] : Card(DvSameLtrMin(p, Av123[n])) = 1
\* the procedure of the paper computes it, both ways; bijection; mutually inverse
ASSUME \A n \in 0..N : \A p \in Av123[n] : DvSSPaper(p, FALSE) = DvSSDecl(p, Av132[n])
ASSUME \A n \in 0..N : \A p \in Av132[n] : DvSSPaper(p, TRUE) = DvSSDecl(p, Av123[n])
ASSUME \A n \in 0..N : {DvSSPaper(p, FALSE) : p \in Av123[n]} = Av132[n]
ASSUME \A n \in 0..N : \A p \in Av123[n] : DvSSPaper(DvSSPaper(p, FALSE), TRUE) = p
ASSUME DvSSPaper(<<2, 1, 0>>, FALSE) = <<2, 1, 0>> /\ DvSSPaper(<<1, 0, 2>>, FALSE) = <<1, 0, 2>>
ASSUME DvSSPaper(<<2, 3, 0, 1>>, FALSE) = <<2, 3, 0, 1>> /\ DvSSPaper(<<1, 3, 0, 2>>, FALSE) = <<1, 2, 0, 3>>

\* ---- families ------------------------------------------------------------------------
\* Baxter: vincular and barred descriptions agree; Baxter numbers
ASSUME \A p \in All : DvBaxter(p) <=> DvBaxterBarred(p)
ASSUME \A n \in 0..N : CountIn(n, DvBaxter) = <<1, 1, 2, 6, 22, 92, 422>>[n + 1]
\* simsun permutations of length n are counted by the Euler numbers E(n+1)
ASSUME \A n \in 0..N : CountIn(n, DvSimsun) = <<1, 1, 2, 5, 16, 61, 272>>[n + 1]
\* smooth (A032351) and forest-like (Bousquet-Melou - Butler) permutations
ASSUME \A n \in 0..N : CountIn(n, DvSmooth) = <<1, 1, 2, 6, 22, 88, 366>>[n + 1]
ASSUME \A n \in 0..N : CountIn(n, DvForestLike) = <<1, 1, 2, 6, 22, 89, 379>>[n + 1]
ASSUME \A p \in All : DvForestLike(p) <=> (PAvoids(p, <<0, 2, 1, 3>>) /\ MAvoids(p, MMesh(<<1, 0, 3, 2>>, {<<2, 2>>})))
\* every forest-like permutation avoiding 2143 is smooth and conversely
ASSUME \A p \in All : DvSmooth(p) => DvForestLike(p)
\* dihedral group: 2n elements, a group, generated by the rotation and the reversal
Dih == [n \in 0..N |-> DvDihedralGroup(n, S[n])]
ASSUME \A n \in 0..2 : Dih[n] = {}
ASSUME \A n \in 3..N : /\ Card(Dih[n]) = 2 * n
                       /\ PIdentity(n) \in Dih[n] /\ PDecreasing(n) \in Dih[n] /\ [i \in 1..n |-> i % n] \in Dih[n]
                       /\ \A a, b \in Dih[n] : Compose(a, b) \in Dih[n]
ASSUME \A n \in 3..N : \A q \in Dih[n] : \E k \in 0..(n - 1) : \/ q = [i \in 1..n |-> (i - 1 + k) % n]
                                                               \/ q = [i \in 1..n |-> (k - (i - 1)) % n]
\* alternating group: inversions and cycle type give the same sign; index 2; closed under composition
ASSUME \A p \in All : DvAlternating(p) <=> DvEvenByCycles(p)
ASSUME \A n \in 2..N : 2 * CountIn(n, DvAlternating) = PFact(n)
ASSUME \A n \in 0..4 : \A a, b \in S[n] : DvAlternating(Compose(a, b)) <=> (DvAlternating(a) <=> DvAlternating(b))
ASSUME DvAlternating(<<0, 1>>) /\ ~DvAlternating(<<1, 0>>) /\ DvAlternating(<<>>) /\ DvAlternating(<<0>>)
ASSUME \A p \in All : DvAlternating_N2Excluded(p) = (IF Len(p) = 2 THEN FALSE ELSE DvAlternating(p))
\* Greene shape: a partition of n; first row = longest increasing, number of rows = longest
\* decreasing subsequence; conjugate shape through decreasing unions; hook-length counts
IsPartitionOf(sh, n) == /\ \A k \in 1..(Len(sh) - 1) : sh[k] >= sh[k + 1]
                        /\ \A k \in DOMAIN sh : sh[k] >= 1 /\ sh[k] <= n
SeqSum(sh) == LET RECURSIVE sm(_)
                  sm(k) == IF k = 0 THEN 0 ELSE sh[k] + sm(k - 1)
              IN sm(Len(sh))
ASSUME \A p \in Small : LET sh == DvShape(p) IN
          /\ IsPartitionOf(sh, Len(p)) /\ SeqSum(sh) = Len(p)
          /\ Len(sh) = DvGreeneDual(p, 1)
          /\ \A k \in 1..Len(p) : DvGreeneDual(p, k) = SeqSum([j \in DOMAIN sh |-> IF sh[j] < k THEN sh[j] ELSE k])
ASSUME \A n \in 0..5 : Card({p \in S[n] : DvRow(p, 1) = n}) = 1
ASSUME Card({p \in S[4] : DvShape(p) = <<2, 2>>}) = 4 /\ Card({p \in S[4] : DvShape(p) = <<3, 1>>}) = 9
ASSUME Card({p \in S[5] : DvShape(p) = <<3, 2>>}) = 25 /\ Card({p \in S[5] : DvShape(p) = <<3, 1, 1>>}) = 36
ASSUME Card({p \in S[5] : DvShape(p) = <<2, 2, 1>>}) = 25 /\ Card({p \in S[5] : DvShape(p) = <<4, 1>>}) = 16
\* shape containment against the full shape
ASSUME \A p \in Small : /\ DvYtAvoids22(p) <=> (Len(DvShape(p)) < 2 \/ DvShape(p)[2] < 2)
                        /\ DvYtAvoids32(p) <=> (Len(DvShape(p)) < 2 \/ DvShape(p)[2] < 2 \/ DvShape(p)[1] < 3)
\* 231-avoiders are counted by Catalan; hard_mesh / av_231_and_mesh are plain mesh avoidance
ASSUME \A p \in All : DvAv231AndMesh(p) => DvCharStack(p)
ASSUME \A p \in All : Len(p) < 6 => (DvAv231AndMesh(p) <=> DvCharStack(p))
ASSUME \A p \in All : Len(p) < 3 => DvHardMesh(p)
ASSUME ~DvHardMesh(<<0, 1, 2>>) /\ DvHardMesh(<<2, 1, 0>>)

VARIABLE dummy
Init == dummy = 0
Next == UNCHANGED dummy
=============================================================================
