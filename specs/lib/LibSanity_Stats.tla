--------------------------- MODULE LibSanity_Stats ---------------------------
(***************************************************************************)
(* Consistency checks of module Stats, evaluated by TLC as ASSUMEs before  *)
(* the C11 check trusts a single definition: known theorems, alternative   *)
(* characterisations, and - for the statistics whose only source is a      *)
(* database entry or a docstring - the documented example values.          *)
(* A wrong definition must fail HERE, not show up as a false alarm.        *)
(***************************************************************************)
EXTENDS Stats, D4, Json

U4 == PPermsUpTo(4)
U5 == PPermsUpTo(5)
Card(S) == Cardinality(S)
Tab(f(_), n) == [p \in PPerms(n) |-> f(p)]
Dist(f(_), n) == StDistribution(Tab(f, n), PPerms(n))
Binom2(n) == (n * (n - 1)) \div 2
Exc(p) == {i \in StPos(p) : StAt(p, i) > i}

\* ---- plain symmetries = the plane maps of D4 -------------------------------------------
ASSUME \A p \in U5 : StInverse(p) = DSym("inv", p) /\ StReverse(p) = DSym("rev", p) /\ StComplement(p) = DSym("comp", p)

\* ---- adjacent pairs / triples ------------------------------------------------------------
ASSUME \A p \in U5 : Len(p) > 0 => Card(StDescents(p)) + Card(StAscents(p)) = Len(p) - 1
ASSUME \A p \in U5 : StDescents(p) = UNION {StDescentsStep(p, s) : s \in 1..Len(p)}
                  /\ StAscents(p) = UNION {StAscentsStep(p, s) : s \in 1..Len(p)}
                  /\ StIncBonds(p) = StAscentsStep(p, 1) /\ StDecBonds(p) = StDescentsStep(p, 1)
                  /\ StAllBonds(p) = StIncBonds(p) \cup StDecBonds(p)
ASSUME \A p \in U5 : StBends(p) = StPeaks(p) \cup StValleys(p)
                  /\ Card(StPeaks(p)) - Card(StValleys(p)) \in {-1, 0, 1}
                  /\ StPeaks(StComplement(p)) = StValleys(p)
                  /\ StDescents(StComplement(p)) = StAscents(p)
\* Eulerian numbers: des is symmetric and equidistributed with the excedances
ASSUME \A n \in 1..5 : Dist(LAMBDA p : Card(StDescents(p)), n) = Dist(LAMBDA p : Card(Exc(p)), n)
                    /\ Dist(LAMBDA p : Card(StDescents(p)), n) = Dist(LAMBDA p : Card(StAscents(p)), n)
ASSUME Dist(LAMBDA p : Card(StDescents(p)), 4) = <<1, 11, 11, 1>>

\* ---- records -------------------------------------------------------------------------------
ASSUME \A p \in U5 : StLtrMax(StComplement(p)) = StLtrMin(p) /\ StRtlMax(StComplement(p)) = StRtlMin(p)
                  /\ Card(StRtlMax(StReverse(p))) = Card(StLtrMax(p))
                  /\ (Len(p) > 0 => 0 \in StLtrMin(p) \cap StLtrMax(p) /\ Len(p) - 1 \in StRtlMin(p) \cap StRtlMax(p))
\* Foata: cycles and left-to-right maxima are equidistributed (unsigned Stirling numbers)
ASSUME \A n \in 0..5 : Dist(LAMBDA p : Card(StCycleSets(p)), n) = Dist(LAMBDA p : Card(StLtrMax(p)), n)
ASSUME Dist(LAMBDA p : Card(StLtrMin(p)), 4) = <<0, 6, 11, 6, 1>>

\* ---- inversions ----------------------------------------------------------------------------
ASSUME \A p \in U5 : /\ Card(StInversions(p)) = Card(StInversions(StInverse(p)))
                     /\ Card(StInversions(p)) + Card(StNonInversions(p)) = Binom2(Len(p))
                     /\ StSumOver(DOMAIN p, LAMBDA k : StRankEncoding(p)[k]) = Card(StInversions(p))
                     /\ Card(StInversions(StReverse(p))) = Card(StNonInversions(p))
                     \* number of inversions through the values: pairs of values in the wrong order
                     /\ Card(StInversions(p)) = Card({ab \in StPos(p) \X StPos(p) : ab[1] > ab[2] /\ StPosOf(p, ab[1]) < StPosOf(p, ab[2])})
\* MacMahon: the major index is Mahonian
ASSUME \A n \in 0..5 : Dist(StMajorIndex, n) = Dist(LAMBDA p : Card(StInversions(p)), n)
ASSUME Dist(StMajorIndex, 4) = <<1, 3, 5, 6, 5, 3, 1>>
ASSUME StMajorIndex(<<3, 1, 2, 4, 0>>) = 5 /\ StRankEncoding(<<0, 2, 4, 3, 1>>) = <<0, 1, 2, 1, 0>>
ASSUME StMinGap(<<2, 0, 3, 1>>) = 3 /\ ~StMinGapDefined(<<>>) /\ ~StMinGapDefined(<<0>>)
ASSUME \A p \in U5 : StMinGapDefined(p) => StMinGap(p) >= 2 /\ (StMinGap(p) = 2 <=> StAllBonds(p) # {})

\* ---- the permutation as a map ----------------------------------------------------------------
PowIsId(p, k) == \A x \in StPos(p) : StIter(p, x, k) = x
ASSUME \A p \in U5 : PowIsId(p, StOrder(p)) /\ \A k \in 1..(StOrder(p) - 1) : ~PowIsId(p, k)
ASSUME StOrder(<<4, 3, 5, 0, 2, 1>>) = 6 /\ StOrder(<<>>) = 1
ASSUME \A p \in U5 : /\ UNION StCycleSets(p) = StPos(p)
                     /\ \A A, B \in StCycleSets(p) : A = B \/ A \cap B = {}
                     /\ \A O \in StCycleSets(p) : \A x \in O : StAt(p, x) \in O
                     /\ Card(StCycleSets(p)) = Card(StCycleSets(StInverse(p)))
                     /\ StFixedPoints(p) = UNION {O \in StCycleSets(p) : Card(O) = 1}
                     /\ (StIsInvolution(p) <=> StInverse(p) = p) /\ (StIsInvolution(p) <=> StOrder(p) <= 2)
                     /\ StStrongFixedPoints(p) = StFixedPoints(p) \cap StLtrMax(p)
ASSUME StCycleDecomp(<<4, 2, 7, 0, 3, 1, 6, 5>>) = <<<<4, 3, 0>>, <<6>>, <<7, 5, 1, 2>>>>
\* depth (Petersen-Tenner): half the total displacement, between (inv + reflection length)/2 and inv
ASSUME \A p \in U5 : /\ 2 * StDepth(p) = StSumOver(StPos(p), LAMBDA i : StAbs(StAt(p, i) - i))
                     /\ 2 * StDepth(p) >= Card(StInversions(p)) + (Len(p) - Card(StCycleSets(p)))
                     /\ StDepth(p) <= Card(StInversions(p))
ASSUME StDepth(<<3, 1, 2, 4, 0>>) = 4
\* maximum drop (St000141; documented examples)
ASSUME StMaxDrop(<<0>>) = 0 /\ StMaxDrop(<<0, 1>>) = 0 /\ StMaxDrop(<<1, 0>>) = 1 /\ StMaxDrop(<<2, 0, 1>>) = 2 /\ StMaxDrop(<<>>) = 0
ASSUME \A p \in U5 : StMaxDrop(p) >= 0 /\ (StMaxDrop(p) = 0 <=> p = PIdentity(Len(p)))
\* cyclic statistics: every non-fixed element is of exactly one of the four cyclic types (through
\* its value x = p(i)), peaks and valleys are equinumerous, excedances = cyclic peaks + double excedances
ASSUME \A p \in U5 : /\ StPos(p) \ StFixedPoints(p) = StCyclicPeaks(p) \cup StCyclicValleys(p) \cup StDoubleExcedances(p) \cup StDoubleDrops(p)
                     /\ Card(StCyclicPeaks(p)) + Card(StCyclicValleys(p)) + Card(StDoubleExcedances(p)) + Card(StDoubleDrops(p))
                           = Len(p) - Card(StFixedPoints(p))
                     /\ Card(StCyclicPeaks(p)) = Card(StCyclicValleys(p))
                     /\ Exc(p) = StCyclicPeaks(p) \cup StDoubleExcedances(p)
                     /\ StCyclicPeaks(StInverse(p)) = {StAt(p, StAt(p, i)) : i \in StCyclicPeaks(p)}

\* ---- primes ----------------------------------------------------------------------------------
ASSUME {k \in -3..60 : StIsPrime(k)} = {2, 3, 5, 7, 11, 13, 17, 19, 23, 29, 31, 37, 41, 43, 47, 53, 59}
ASSUME \A k \in 0..80 : StIsPrime(k) <=> (k > 1 /\ ~\E a, b \in 2..(k - 1) : a * b = k)
ASSUME StColumnSumPrimes(<<0>>) = 1 /\ StColumnSumPrimes(<<0, 1>>) = 1 /\ StColumnSumPrimes(<<1, 0>>) = 2

\* ---- subsequences and runs ----------------------------------------------------------------------
\* LIS through pattern containment, Erdos-Szekeres, Schensted symmetry, Catalan count of LIS <= 2
ASSUME \A p \in U5 : /\ StLIS(p) = StMaxOf({k \in 0..Len(p) : PContains(p, PIdentity(k))})
                     /\ StLDS(p) = StMaxOf({k \in 0..Len(p) : PContains(p, PDecreasing(k))})
                     /\ StLIS(p) * StLDS(p) >= Len(p)
                     /\ StLIS(StInverse(p)) = StLIS(p) /\ StLIS(StReverse(p)) = StLDS(p) /\ StLIS(StComplement(p)) = StLDS(p)
                     /\ StLongestAscRun(p) <= StLIS(p) /\ StLongestDescRun(p) <= StLDS(p)
                     /\ StLongestDescRun(p) = StLongestAscRun(StComplement(p))
                     /\ StLongestDescRunStarts(p) = StLongestAscRunStarts(StComplement(p))
ASSUME \A n \in 0..5 : Card({p \in PPerms(n) : StLIS(p) <= 2}) = <<1, 1, 2, 5, 14, 42>>[n + 1]
\* the longest ascending run has length 1 + the longest block of consecutive ascents
ASSUME \A p \in U5 : Len(p) > 0 =>
          StLongestAscRun(p) = 1 + StMaxOf({k \in 0..Len(p) : \E a \in StPos(p) : \A i \in a..(a + k - 1) : i \in StAscents(p)})
ASSUME <<StLongestAscRun(<<0, 2, 1, 4, 3, 5>>), StLongestAscRunStarts(<<0, 2, 1, 4, 3, 5>>)>> = <<2, {0, 2, 4}>>
    /\ <<StLongestDescRun(<<2, 1, 3, 0>>), StLongestDescRunStarts(<<2, 1, 3, 0>>)>> = <<2, {0, 2}>>
    /\ StLongestAscRun(<<>>) = 0 /\ StLongestAscRunStarts(<<>>) = {}
\* the witness named in DESIGN.md for the known finding on statistics 14/15
ASSUME StLIS(<<0, 2, 1, 3>>) = 3 /\ StDev_Stat14_15_LongestRun(<<0, 2, 1, 3>>) = <<2, 2>>
ASSUME StMaximalDecreasingRun(<<3, 1, 2, 4, 0>>) = 1 /\ StMaximalDecreasingRun(<<0, 2, 1>>) = 2
    /\ StMaximalDecreasingRun(<<5, 0, 4, 1, 2, 3>>) = 3 /\ StMaximalDecreasingRun(<<>>) = 0
ASSUME \A p \in U5 : (StMaximalDecreasingRun(p) = Len(p) <=> p = PDecreasing(Len(p)))

\* ---- holeyness, bounces (documented examples; elementary bounds) ------------------------------------
ASSUME StHoleyness(<<1, 0>>) = 0 /\ StHoleyness(<<0, 1, 2>>) = 0 /\ StHoleyness(<<0, 2, 1>>) = 1 /\ StHoleyness(<<1, 0, 2>>) = 1
ASSUME \A p \in U5 : StHoleyness(p) >= 0 /\ StHoleyness(PIdentity(Len(p))) = 0 /\ 2 * StHoleyness(p) <= Len(p)
                  /\ StHoleyness(StReverse(StComplement(p))) = StHoleyness(p)
ASSUME StBounces(<<0>>) = 0 /\ StBounces(<<0, 1>>) = 1 /\ StBounces(<<1, 0>>) = 0 /\ StBounces(<<>>) = 0
ASSUME \A p \in U5 : StBounces(p) \in 0..Binom2(Len(p)) /\ StBounces(PIdentity(Len(p))) = Binom2(Len(p))

\* ---- the sorting devices --------------------------------------------------------------------------
\* West: S(L n R) = S(L) S(R) n ; Knuth: one pass sorts exactly the 231-avoiders
RECURSIVE WestS(_)
WestS(s0) == CHOOSE r \in { IF s = <<>> THEN <<>>
                            ELSE LET m == CHOOSE i \in DOMAIN s : \A j \in DOMAIN s : s[j] <= s[i]
                                 IN  WestS(SubSeq(s, 1, m - 1)) \o WestS(SubSeq(s, m + 1, Len(s))) \o <<s[m]>>
                            : s \in {s0} } : TRUE
ASSUME \A p \in U5 : StStackSort(p) = WestS(p) /\ PIsPerm(StStackSort(p))
                  /\ (StStackSort(p) = PIdentity(Len(p)) <=> PAvoids(p, <<1, 2, 0>>))
                  /\ (Len(p) > 0 => StCountStackSorts(p) <= Len(p) - 1)
\* pop-stack: every maximal descending stretch is reversed; Avis-Newborn: one pass sorts the layered permutations
MaxDescStretchOf(p, i) == CHOOSE ab \in StDescStretches(p) : /\ ab[1] <= i /\ i <= ab[2]
                              /\ \A cd \in StDescStretches(p) : (cd[1] <= i /\ i <= cd[2]) => (ab[1] <= cd[1] /\ cd[2] <= ab[2])
ASSUME \A p \in U5 : StPopStackSort(p) = [k \in 1..Len(p) |-> LET ab == MaxDescStretchOf(p, k - 1) IN StAt(p, ab[1] + ab[2] - (k - 1))]
                  /\ (StPopStackSort(p) = PIdentity(Len(p)) <=> PAvoidsAll(p, {<<1, 2, 0>>, <<2, 0, 1>>}))
                  /\ (Len(p) > 0 => StCountPopStackSorts(p) <= Len(p) - 1)
ASSUME StCountStackSorts(<<1, 2, 0>>) = 2 /\ StCountStackSorts(<<2, 1, 0>>) = 1 /\ StCountStackSorts(<<>>) = 0
ASSUME StCountPopStackSorts(<<4, 0, 2, 1, 3, 5>>) = 4 /\ StCountPopStackSorts(<<4, 3, 2, 1, 0, 5>>) = 1
    /\ StCountPopStackSorts(<<5, 1, 4, 3, 0, 2>>) = 4

\* ---- fore / after maxima / minima ---------------------------------------------------------------------
\* the four statistics are one orbit under reverse / complement
ASSUME \A p \in U5 : /\ Card(StForeminima(p)) = Card(StForemaxima(StComplement(p)))
                     /\ Card(StAftermaxima(p)) = Card(StForemaxima(StReverse(p)))
                     /\ Card(StAfterminima(p)) = Card(StForemaxima(StReverse(StComplement(p))))
\* the theorem the definition exists for: (des, fmax) is equidistributed with (exc, fix)
ASSUME \A n \in 0..5 : StBag([p \in PPerms(n) |-> <<Card(StDescents(p)), Card(StForemaxima(p))>>], PPerms(n))
                     = StBag([p \in PPerms(n) |-> <<Card(Exc(p)), Card(StFixedPoints(p))>>], PPerms(n))
\* the deviation operator reproduces the documented examples of the implementation
ASSUME LET D(p) == StDev_ForeAfter_StepTwoAscent(p) IN
          /\ D(<<1, 3, 5, 2, 4, 0>>).fmax = {0, 1} /\ D(<<2, 3, 5, 4, 1, 6, 0>>).fmax = {1}
          /\ D(<<3, 1, 4, 6, 5, 0, 2>>).amin = {5} /\ D(<<1, 5, 0, 3, 2, 4, 6>>).amin = {4, 5}
          /\ D(<<5, 4, 3, 1, 2, 0>>).amax = {2, 4} /\ D(<<2, 4, 0, 3, 1>>).amax = {3}
          /\ D(<<6, 4, 2, 3, 5, 1, 0>>).fmin = {0, 1} /\ D(<<3, 1, 4, 0, 2>>).fmin = {0}
\* while the definition gives (1-based 3 4 6 5 2 7 1: double ascents 3, 4; both are records)
ASSUME StForemaxima(<<2, 3, 5, 4, 1, 6, 0>>) = {0, 1}

\* ---- layers -------------------------------------------------------------------------------------------
ASSUME \A p \in U5 : LET L == StLayers(p) IN
          /\ StSumOver(DOMAIN L, LAMBDA k : Card(L[k])) = Len(p)
          /\ (Len(p) > 0 => L[1] = StRtlMax(p) \cup StLtrMin(p))
          /\ \A k \in DOMAIN L : L[k] # {}
\* the documented example: the implementation's value and the definition's (DESIGN.md, C11 note b)
ASSUME StDev_Layers_UnstandardisedSeed(<<2, 7, 3, 1, 4, 8, 6, 0, 5>>) = <<{0, 3, 5, 6, 7, 8}, {0, 2}, {0}>>
    /\ StLayers(<<2, 7, 3, 1, 4, 8, 6, 0, 5>>) = <<{0, 3, 5, 6, 7, 8}, {0, 1, 2}>>
    /\ StDev_Layers_UnstandardisedSeed(<<5, 4, 3, 0, 2, 1>>) = <<{0, 1, 2, 3, 4, 5}>>
    /\ StLayers(<<5, 4, 3, 0, 2, 1>>) = <<{0, 1, 2, 3, 4, 5}>>

\* ---- pattern counts ------------------------------------------------------------------------------------
ASSUME \A p \in U5 : LET c == StPatternCounts(p, 3) IN
          /\ StSumOver(PPerms(3), LAMBDA q : c[q]) = (Len(p) * (Len(p) - 1) * (Len(p) - 2)) \div 6
          /\ \A q \in PPerms(3) : c[q] = Card(POcc(q, p))
ASSUME StPatternCounts(<<2, 1, 0, 3>>, 3)[<<1, 0, 2>>] = 3 /\ StPatternCounts(<<1, 0, 3, 5, 2, 4>>, 4)[<<0, 2, 3, 1>>] = 2

\* ---- distributions ---------------------------------------------------------------------------------------
ASSUME StDistribution([p \in {} |-> 0], {}) = <<0>>
ASSUME \A n \in 0..4 : StSumOver(DOMAIN Dist(StDepth, n), LAMBDA k : Dist(StDepth, n)[k]) = PFact(n)
ASSUME Len(StNames) = 32 /\ \A p \in PPermsUpTo(3) : Len(StNamed(p)) = 32 /\ DOMAIN StNamedDev(p) = 1..32
ASSUME \A p \in U4, k \in 1..32 : StNamedAt(p, k) = StNamed(p)[k] /\ StNamedDevAt(p, k) = StNamedDev(p)[k]
\* the names, for the adapter (which binds the table entries BY NAME)
ASSUME PrintT(ToJson([names |-> StNames, deviating |-> StDeviatingIndices]))

VARIABLE dummy
Init == dummy = 0
Next == UNCHANGED dummy
=============================================================================
