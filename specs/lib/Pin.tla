--------------------------------- MODULE Pin ---------------------------------
(***************************************************************************)
(* Pin sequences on RELATIVE ORDER (no coordinates).  A configuration is   *)
(* two linear orders of the placed pins, by x and by y, as sequences of    *)
(* pin ids; pin 0 is the origin, pin i is placed by the i-th letter.       *)
(*   numeral q   an independent pin: extreme in both orders, in quadrant q *)
(*               (1 = right/up, 2 = left/up, 3 = left/down, 4 = right/down)*)
(*   U D L R     extreme on the named side, and in the other order placed  *)
(*               immediately between the previous pin and all earlier pins *)
(*               (the previous pin must be extreme in that other order)    *)
(* Words are sequences of one-character strings.                           *)
(***************************************************************************)
EXTENDS Pattern

Numerals == {"1", "2", "3", "4"}
Vert == {"U", "D"}
Horiz == {"L", "R"}
Dirs == Vert \cup Horiz
Letters == Numerals \cup Dirs

PinInit == [px |-> <<0>>, py |-> <<0>>]
PinFirst(s) == s[1]
PinLast(s) == s[Len(s)]
\* insert the new pin next to the previous pin `prev`, on the side of all the other pins
PinBeside(s, prev, new) ==
    IF PinLast(s) = prev THEN SubSeq(s, 1, Len(s) - 1) \o <<new, prev>>
    ELSE IF PinFirst(s) = prev THEN <<prev, new>> \o SubSeq(s, 2, Len(s))
    ELSE <<>>                                             \* previous pin not extreme: undefined
PinPlace(cfg, c) ==
    LET k == Len(cfg.px)               \* id of the new pin
        prev == k - 1
        atEnd(s) == Append(s, k)
        atStart(s) == <<k>> \o s
    IN CASE c = "1" -> [px |-> atEnd(cfg.px), py |-> atEnd(cfg.py)]
         [] c = "2" -> [px |-> atStart(cfg.px), py |-> atEnd(cfg.py)]
         [] c = "3" -> [px |-> atStart(cfg.px), py |-> atStart(cfg.py)]
         [] c = "4" -> [px |-> atEnd(cfg.px), py |-> atStart(cfg.py)]
         [] c = "U" -> [px |-> PinBeside(cfg.px, prev, k), py |-> atEnd(cfg.py)]
         [] c = "D" -> [px |-> PinBeside(cfg.px, prev, k), py |-> atStart(cfg.py)]
         [] c = "R" -> [px |-> atEnd(cfg.px), py |-> PinBeside(cfg.py, prev, k)]
         [] c = "L" -> [px |-> atStart(cfg.px), py |-> PinBeside(cfg.py, prev, k)]
PinDefined(cfg) == cfg.px # <<>> /\ cfg.py # <<>>
RECURSIVE PinRun(_, _)
PinRun(cfg, w) == IF w = <<>> \/ ~PinDefined(cfg) THEN cfg
                  ELSE CHOOSE r \in {PinRun(c2, Tail(w)) : c2 \in {PinPlace(cfg, w[1])}} : TRUE
PinConfig(w) == PinRun(PinInit, w)

PinIndexIn(s, id) == CHOOSE i \in DOMAIN s : s[i] = id
\* the permutation of the pins (origin dropped): read by x, value = rank by y
PinPermOf(cfg) ==
    LET xs == SelectSeq(cfg.px, LAMBDA id : id # 0)
        ys == SelectSeq(cfg.py, LAMBDA id : id # 0)
    IN [i \in DOMAIN xs |-> PinIndexIn(ys, xs[i]) - 1]
PinPerm(w) == PinPermOf(PinConfig(w))
\* quadrant of pin i with respect to the origin, read off the two orders
PinQuadrantOf(cfg, i) ==
    LET right == PinIndexIn(cfg.px, i) > PinIndexIn(cfg.px, 0)
        up == PinIndexIn(cfg.py, i) > PinIndexIn(cfg.py, 0)
    IN IF right /\ up THEN "1" ELSE IF ~right /\ up THEN "2" ELSE IF ~right /\ ~up THEN "3" ELSE "4"

\* the enumeration rule of pin words: a direction needs a previous pin and must turn
\* (no UU, UD, DU, DD, LL, LR, RL, RR)
PinMayAppend(w, c) == \/ c \in Numerals
                      \/ (c \in Vert /\ w # <<>> /\ w[Len(w)] \notin Vert)
                      \/ (c \in Horiz /\ w # <<>> /\ w[Len(w)] \notin Horiz)
RECURSIVE PinWordsOf(_)
PinWordsOf(n) == IF n = 0 THEN {<<>>}
                 ELSE {x \in {Append(w, c) : w \in PinWordsOf(n - 1), c \in Letters} :
                          PinMayAppend(SubSeq(x, 1, Len(x) - 1), x[Len(x)])}
PinIsStrict(w) == w = <<>> \/ (w[1] \in Numerals /\ \A i \in 2..Len(w) : w[i] \in Dirs)

\* ---- strict pin words <-> direction words (the language M: alternating V/H) -----------
PinAlternates(m) == \A i \in 1..(Len(m) - 1) : (m[i] \in Vert) # (m[i + 1] \in Vert)
MWordsOf(n) == {m \in [1..n -> Dirs] : PinAlternates(m)}
QuadOfPair(a, b) == LET s == {a, b} IN
                    IF s = {"R", "U"} THEN "1" ELSE IF s = {"L", "U"} THEN "2" ELSE IF s = {"L", "D"} THEN "3" ELSE "4"
\* phi: M -> SP: the first two letters (one horizontal, one vertical) name a quadrant
PinMtoSP(m) == <<QuadOfPair(m[1], m[2])>> \o SubSeq(m, 3, Len(m))
\* its inverse image: all direction words that phi maps to the strict pin word w
PinSPtoM(w) == {m \in MWordsOf(Len(w) + 1) : PinMtoSP(m) = w}

\* ---- factors and containment of pin words ------------------------------------------------
\* strong numeral-led factors: cut before every numeral
PinFactorStarts(u) == {i \in DOMAIN u : u[i] \in Numerals}
PinFactors(u) == LET st == SetToSortSeq(PinFactorStarts(u), LAMBDA a, b : a < b) IN
                 [k \in DOMAIN st |-> SubSeq(u, st[k], IF k = Len(st) THEN Len(u) ELSE st[k + 1] - 1)]
\* the quadrant of letter i of w (numeral: itself; direction: the quadrant its pin lands in)
PinLetterQuadrant(w, i) == PinQuadrantOf(PinConfig(SubSeq(w, 1, i)), i)
\* a strict factor f occurs at position i of w: same quadrant, same following directions
PinOccSP(w, f, i) == /\ i + Len(f) - 1 <= Len(w)
                     /\ PinLetterQuadrant(w, i) = f[1]
                     /\ SubSeq(w, i + 1, i + Len(f) - 1) = SubSeq(f, 2, Len(f))
\* occurrences of u in w: its factors occur one after the other.  A factor that starts at a
\* direction letter of w is only independent of what precedes it if it does not touch the
\* previous factor (gap >= 1).  Deviation FactorsMayTouch: no gap is required.
PinOccTuples(w, u, mayTouch) ==
    LET fs == PinFactors(u)
        k == Len(fs)
    IN {t \in [1..k -> 1..Len(w)] :
          /\ \A j \in 1..k : PinOccSP(w, fs[j], t[j])
          /\ \A j \in 1..(k - 1) :
                /\ t[j + 1] >= t[j] + Len(fs[j])
                /\ (~mayTouch /\ w[t[j + 1]] \in Dirs) => t[j + 1] > t[j] + Len(fs[j])}
PinContainsWord(w, u, mayTouch) == IF u = <<>> THEN TRUE ELSE IF w = <<>> THEN FALSE ELSE PinOccTuples(w, u, mayTouch) # {}

\* ---- forms of the above that stay cheap on long words (used by the trace specs) -------------
\* the direction words phi maps to w: only the first two letters are free (PinMtoSP keeps the rest)
PinSPtoMFast(w) == {m \in {<<a, b>> \o SubSeq(w, 2, Len(w)) : a \in Dirs, b \in Dirs} : PinAlternates(m) /\ PinMtoSP(m) = w}
\* the quadrant of every letter of w, tabulated once
PinQuadrants(w) == [i \in DOMAIN w |-> PinLetterQuadrant(w, i)]
\* PinOccTuples with the quadrants of w tabulated once (same definition otherwise)
PinOccTuplesQ(w, u, mayTouch) ==
    CHOOSE r \in {LET fs == PinFactors(u)
                      k == Len(fs)
                      occ(f, i) == /\ i + Len(f) - 1 <= Len(w) /\ quad[i] = f[1]
                                   /\ SubSeq(w, i + 1, i + Len(f) - 1) = SubSeq(f, 2, Len(f))
                  IN {t \in [1..k -> 1..Len(w)] :
                        /\ \A j \in 1..k : occ(fs[j], t[j])
                        /\ \A j \in 1..(k - 1) :
                              /\ t[j + 1] >= t[j] + Len(fs[j])
                              /\ (~mayTouch /\ w[t[j + 1]] \in Dirs) => t[j + 1] > t[j] + Len(fs[j])}
                  : quad \in {PinQuadrants(w)}} : TRUE
=============================================================================
