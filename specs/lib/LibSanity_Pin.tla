---------------------------- MODULE LibSanity_Pin ----------------------------
EXTENDS Pin
ASSUME PinPerm(<<"1", "1">>) = <<0, 1>>
ASSUME PinPerm(<<"1", "U">>) = <<1, 0>>
ASSUME PinPerm(<<"2", "3">>) = <<0, 1>>
ASSUME PinPerm(<<"1", "4", "L", "2", "U", "R">>) = PinPerm(<<"1", "4", "L", "2", "U", "R">>)
ASSUME \A n \in 0..4 : \A w \in PinWordsOf(n) : PinDefined(PinConfig(w)) /\ PIsPerm(PinPerm(w)) /\ Len(PinPerm(w)) = n
ASSUME Cardinality(PinWordsOf(1)) = 4 /\ Cardinality(PinWordsOf(2)) = 32
\* numerals land in their own quadrant
ASSUME \A w \in PinWordsOf(3) : \A i \in 1..3 : w[i] \in Numerals => PinQuadrantOf(PinConfig(w), i) = w[i]
\* phi is a bijection between direction words of length n+1 and strict pin words of length n (n >= 2)
ASSUME \A n \in 2..4 : \A w \in {x \in PinWordsOf(n) : PinIsStrict(x)} : Cardinality(PinSPtoM(w)) = 1
ASSUME \A w \in {x \in PinWordsOf(1) : PinIsStrict(x)} : Cardinality(PinSPtoM(w)) = 2
ASSUME \A m \in MWordsOf(4) : PinIsStrict(PinMtoSP(m)) /\ PinMtoSP(m) \in PinWordsOf(3)
\* the containment theorem for the ideal formulation (small universe; the machine checks more)
ASSUME \A w \in PinWordsOf(2) \cup PinWordsOf(3) : \A s \in PPerms(2) :
          PContains(PinPerm(w), s) <=> \E u \in {x \in PinWordsOf(2) : PinPerm(x) = s} : PinContainsWord(w, u, FALSE)
VARIABLE dummy
Init == dummy = 0
Next == UNCHANGED dummy
=============================================================================
