--------------------------------- MODULE D4 ---------------------------------
(***************************************************************************)
(* The eight symmetries of the square acting on permutation diagrams and   *)
(* on mesh patterns.  One plane map per symmetry; points and cells are     *)
(* both transported by that same map (points of a length-n permutation     *)
(* sit at odd coordinates (2i+1, 2v+1) of the square [0, 2n]^2, cell       *)
(* <<x, y>> of its mesh grid is centred at the even coordinates (2x, 2y)). *)
(***************************************************************************)
EXTENDS Mesh

DNames == {"id", "r1", "r2", "r3", "rev", "comp", "inv", "anti"}
\* r1 = rotation by 90 degrees clockwise ("to the right"), r3 = counter-clockwise;
\* rev = reflection in the vertical axis, comp = in the horizontal axis,
\* inv = in the main diagonal, anti = in the antidiagonal.
DMap(g, N, pt) ==
    LET X == pt[1]  Y == pt[2] IN
    CASE g = "id"   -> <<X, Y>>
      [] g = "r1"   -> <<Y, N - X>>
      [] g = "r2"   -> <<N - X, N - Y>>
      [] g = "r3"   -> <<N - Y, X>>
      [] g = "rev"  -> <<N - X, Y>>
      [] g = "comp" -> <<X, N - Y>>
      [] g = "inv"  -> <<Y, X>>
      [] g = "anti" -> <<N - Y, N - X>>

DSym(g, p) == LET n == Len(p) IN
              PFromPoints({DMap(g, 2 * n, <<2 * (i - 1) + 1, 2 * p[i] + 1>>) : i \in DOMAIN p})
DSymCells(g, k, R) == {LET m == DMap(g, 2 * k, <<2 * c[1], 2 * c[2]>>) IN <<m[1] \div 2, m[2] \div 2>> : c \in R}
DSymMesh(g, M) == MMesh(DSym(g, M.p), DSymCells(g, Len(M.p), M.R))
DSymSet(g, S) == {DSym(g, p) : p \in S}

\* composition "g after h" as a map of the plane, identified by its action on a 5x5 grid
DCompose(g, h) == CHOOSE k \in DNames : \A X \in 0..4, Y \in 0..4 : DMap(k, 4, <<X, Y>>) = DMap(g, 4, DMap(h, 4, <<X, Y>>))
DInv(g) == CHOOSE k \in DNames : DCompose(k, g) = "id"
\* rotation by an arbitrary integer count (negative = counter-clockwise)
DRot(times) == LET t == times % 4 IN CASE t = 0 -> "id" [] t = 1 -> "r1" [] t = 2 -> "r2" [] t = 3 -> "r3"

DOrbit(p) == {DSym(g, p) : g \in DNames}
DOrbitMesh(M) == {DSymMesh(g, M) : g \in DNames}
DOrbitSet(S) == {DSymSet(g, S) : g \in DNames}

\* a set of permutations as its sorted tuple (length, then lexicographic), and the order
\* on such tuples used for "lexicographically minimal representative"
DSortedTuple(S) == SetToSortSeq(S, PPermLess)
DTupleLess(a, b) == \E i \in 1..Len(a) : i <= Len(b) /\ PPermLess(a[i], b[i]) /\ \A j \in 1..(i - 1) : a[j] = b[j]
DLexMin(S) == LET O == {DSortedTuple(T) : T \in DOrbitSet(S)}
              IN CHOOSE a \in O : \A b \in O : a = b \/ DTupleLess(a, b)

\* dihedral group relations (checked by TLC as ASSUMEs in LibSanity)
DGroupLaws == /\ DCompose("r1", DCompose("r1", DCompose("r1", "r1"))) = "id"
              /\ DCompose("rev", "rev") = "id" /\ DCompose("comp", "comp") = "id"
              /\ DCompose("inv", "inv") = "id" /\ DCompose("anti", "anti") = "id"
              /\ DCompose("rev", DCompose("r1", "rev")) = "r3"
              /\ DCompose("rev", "comp") = "r2"
              /\ DCompose("inv", "rev") = "r1"          \* reverse, then transpose = clockwise quarter turn
              /\ DCompose("anti", "rev") = "r3"
              /\ \A g \in DNames : \E h \in DNames : DCompose(g, h) = "id"
              /\ \A g, h, k \in DNames : DCompose(g, DCompose(h, k)) = DCompose(DCompose(g, h), k)
=============================================================================
