------------------------------ MODULE Strategies ------------------------------
(***************************************************************************)
(* The hypotheses of the core enumeration strategies ("Enumeration of      *)
(* permutation classes and weighted labelled independent sets"), stated on *)
(* classes and shapes.  A strategy applies to a basis B iff for some       *)
(* symmetry g: every pattern of Needed is excluded from Av(gB), and every  *)
(* other element of gB has the prescribed "one plus indecomposable" form.  *)
(* Shapes by definition (lib Algebra): b = 1 (+) r, r = the pattern of b   *)
(* without its first entry; r sum-/skew-indecomposable = no interior cut.  *)
(* The two strategies whose extension condition involves a small mesh      *)
(* pattern and the last sum/skew component (Rd2134, Ru2143) restate the    *)
(* documented condition (oracle: transcribed).                             *)
(***************************************************************************)
EXTENDS Simples

RU == <<1, 2, 0, 3>>   \* 2314
CU == <<2, 0, 1, 3>>   \* 3124
RD == <<1, 3, 0, 2>>   \* 2413
CD == <<2, 0, 3, 1>>   \* 3142

StartsWithMin(b) == Len(b) > 0 /\ b[1] = 0
TailPatt(b) == PStd(SubSeq(b, 2, Len(b)))                         \* b = 1 (+) TailPatt(b) when b starts with its minimum
EndsWithMax(b) == Len(b) > 0 /\ b[Len(b)] = Len(b) - 1
BStrip(b) == IF EndsWithMax(b) THEN SubSeq(b, 1, Len(b) - 1) ELSE b
FStrip(b) == IF StartsWithMin(b) THEN TailPatt(b) ELSE b
OnePlusSkewInd(b) == StartsWithMin(b) /\ ~AIsSkewDecomposable(TailPatt(b))
OnePlusSumInd(b) == StartsWithMin(b) /\ ~AIsSumDecomposable(TailPatt(b))
\* last sum / skew component: the part after the last interior cut
LastPart(p, C) == IF Len(p) = 0 THEN <<>> ELSE LET cs == {c \in C : c < Len(p)} IN PStd(SubSeq(p, Max(cs) + 1, Len(p)))
LastSumComp(p) == LastPart(p, ASumCuts(p))
LastSkewComp(p) == LastPart(p, ASkewCuts(p))
MPattRd == MMesh(<<1, 0>>, {<<0, 1>>, <<0, 2>>, <<1, 0>>, <<1, 1>>, <<1, 2>>, <<2, 1>>, <<2, 2>>})
MPattRu == MMesh(<<0, 1>>, {<<0, 1>>, <<0, 2>>, <<1, 0>>, <<1, 1>>, <<1, 2>>, <<2, 1>>, <<2, 2>>})

StrategyNames == {"RuCu", "RdCd", "RuCuRdCd", "RuCuCd", "RdCdCu", "RdCu", "Rd2134", "Ru2143"}
Needed(s) == CASE s = "RuCu" -> {RU, CU} [] s = "RdCd" -> {RD, CD} [] s = "RuCuRdCd" -> {RD, CD, RU, CU}
               [] s = "RuCuCd" -> {RU, CU, CD} [] s = "RdCdCu" -> {RD, CD, CU} [] s = "RdCu" -> {RD, CU}
               [] s = "Rd2134" -> {RD, <<1, 0, 2, 3>>} [] s = "Ru2143" -> {RU, <<1, 0, 3, 2>>}
\* Ext is only asked for non-empty patterns; the strategies that strip a trailing maximum or a
\* leading minimum and then look at the remainder are undefined when nothing remains
\* (deviation EmptyAfterStrip_Asserts: the code raises AssertionError there).
ExtDefined(s, b) == CASE s = "RdCdCu" -> Len(BStrip(b)) > 0
                      [] s = "RdCu" -> Len(BStrip(b)) > 0
                      [] s = "Rd2134" -> Len(FStrip(b)) > 0
                      [] s = "Ru2143" -> Len(FStrip(b)) > 0
                      [] OTHER -> TRUE
Ext(s, b) == CASE s = "RuCu" -> OnePlusSkewInd(b)
               [] s = "RdCd" -> OnePlusSumInd(b)
               [] s = "RuCuRdCd" -> StartsWithMin(b)
               [] s = "RuCuCd" -> OnePlusSkewInd(b)
               [] s = "RdCdCu" -> OnePlusSumInd(BStrip(b))
               [] s = "RdCu" -> OnePlusSkewInd(b) /\ OnePlusSumInd(BStrip(b))
               [] s = "Rd2134" -> /\ StartsWithMin(b) /\ MAvoids(FStrip(b), MPattRd)
                                  /\ (PContains(LastSumComp(FStrip(b)), <<0, 1>>) \/ Len(LastSumComp(FStrip(b))) = 1)
               [] s = "Ru2143" -> /\ MAvoids(FStrip(b), MPattRu) /\ PContains(LastSkewComp(FStrip(b)), <<1, 0>>)
InClass(p, B) == PAvoidsAll(p, B)
AppliesTo(s, B) == /\ \A p \in Needed(s) : ~InClass(p, B)
                   /\ \A b \in B \ Needed(s) : Ext(s, b)
DefinedOn(s, B) == \A b \in B \ Needed(s) : ExtDefined(s, b)
Applies(s, B) == \E g \in DNames : AppliesTo(s, DSymSet(g, B))
\* the code evaluates the symmetric images in some order and stops at the first that applies;
\* an assertion is hit iff an undefined case is reached before: modelled as "some image undefined"
\* the minimal presentation of the class of B: the elements that contain no other element
MinimalPart(B) == {p \in B : \A q \in B : q # p => ~PContains(p, q)}
SomeImageUndefined(s, B) == \E g \in DNames : ~DefinedOn(s, DSymSet(g, B)) /\ (\A p \in Needed(s) : ~InClass(p, DSymSet(g, B)) \/ TRUE)
=============================================================================
