------------------------------ MODULE LibSanity ------------------------------
(***************************************************************************)
(* Consistency checks of the definitional library itself, evaluated by TLC *)
(* as ASSUMEs (bin/check runs the relevant ones before trusting a module). *)
(***************************************************************************)
EXTENDS D4

\* PPerms(n) really is the set of all bijections
ASSUME \A n \in 0..5 : PPerms(n) = {f \in [1..n -> 0..(n - 1)] : \A i, j \in 1..n : f[i] = f[j] => i = j}
ASSUME \A n \in 0..6 : Cardinality(PPerms(n)) = PFact(n)
ASSUME \A p \in PPermsUpTo(5) : PIsPerm(p) /\ PStd(p) = p /\ PFromPoints(PPoints(p)) = p
ASSUME PStd(<<5, 5, 2, 9>>) = <<1, 2, 0, 3>>
ASSUME \A p \in PPermsUpTo(4) : PUnrankInLength(PRankInLength(p), Len(p)) = p
ASSUME \A p, q \in PPermsUpTo(3) : (p # q) => (PPermLess(p, q) # PPermLess(q, p))
\* containment found by nested quantifiers is containment
ASSUME \A p \in PPermsUpTo(3), q \in PPermsUpTo(5) : PContainsQ(q, p) <=> PContains(q, p)
ASSUME \A p \in PPerms(4), q \in PPerms(5) : PContainsQ(q, p) <=> PContains(q, p)
\* an occurrence in the extension of an avoider uses the new last entry
ASSUME \A b \in PPermsUpTo(3), p \in PPermsUpTo(4) : PAvoids(p, b) =>
          \A v \in 0..Len(p) : LET q == [i \in 1..(Len(p) + 1) |-> IF i = Len(p) + 1 THEN v ELSE IF p[i] >= v THEN p[i] + 1 ELSE p[i]] IN
             PAvoids(q, b) <=> ~(Len(b) >= 1 /\ Len(b) <= Len(q) /\ \E t \in PIncTuples(Len(b) - 1, Len(q) - 1) : POrderIso(b, Append(PPick(q, t), q[Len(q)])))
\* the unshaded mesh pattern is the classical pattern; shading only removes occurrences
ASSUME \A p \in PPermsUpTo(2), q \in PPermsUpTo(4) : MOcc(MUnshaded(p), q) = POcc(p, q)
ASSUME \A M \in MAllMesh(1), q \in PPermsUpTo(4) : \A c \in MCells(1) : MOcc(MShade(M, {c}), q) \subseteq MOcc(M, q)
\* bivincular meaning: full columns/rows = adjacency, anchoring at 0 / k
ASSUME \A p \in PPerms(2), X \in SUBSET (0..2), Y \in SUBSET (0..2), q \in PPermsUpTo(4) :
          MOcc(MBiv(p, X, Y), q) = MBivOccDirect(p, X, Y, q)
\* induced sub-pattern on all points is the pattern itself; mesh-in-mesh containment is
\* sound for permutation containment
ASSUME \A M \in MAllMesh(2) : MSubMesh(M, 1..2) = M
ASSUME \A M1 \in MAllMesh(1), M2 \in MAllMesh(2) :
          MOccInMesh(M1, M2) # {} => \A q \in PPermsUpTo(4) : MContains(q, M2) => MContains(q, M1)
\* dihedral relations and equivariance of containment under the plane maps
ASSUME DGroupLaws
ASSUME \A g \in DNames, p \in PPermsUpTo(4) : PIsPerm(DSym(g, p)) /\ DSym(DInv(g), DSym(g, p)) = p
ASSUME \A g, h \in DNames, p \in PPermsUpTo(3) : DSym(g, DSym(h, p)) = DSym(DCompose(g, h), p)
ASSUME \A g \in DNames, M \in MAllMesh(1), q \in PPermsUpTo(4) : MContains(q, M) <=> MContains(DSym(g, q), DSymMesh(g, M))
ASSUME \A p \in PPermsUpTo(4) : DSym("rev", p) = [i \in DOMAIN p |-> p[Len(p) + 1 - i]]
                             /\ DSym("comp", p) = [i \in DOMAIN p |-> Len(p) - 1 - p[i]]
                             /\ \A i \in DOMAIN p : DSym("inv", p)[p[i] + 1] = i - 1
\* point insertion: the new pattern has the new point at position x+1 with value y
ASSUME \A M \in MAllMesh(1) : \A c \in MCells(1) \ M.R :
          LET A == MAddPoint(M, c, "none") IN MIsMesh(A) /\ A.p[c[1] + 1] = c[2] /\ MSubMesh(A, (1..2) \ {c[1] + 1}).p = M.p
ASSUME \A M \in MAllMesh(1), q \in PPermsUpTo(4) : \A c \in MCells(1) \ M.R : \A d \in {"none", "E", "N", "W", "S"} :
          MContains(q, MAddPoint(M, c, d)) <=> MOccWithPointIn(M, q, c) # {}

\* the coordinate formulas proved for all N in specs/proofs/D4_Lemmas.tla (TLAPS) are the maps of D4
ASSUME \A N \in {3, 4} : \A X \in 0..N, Y \in 0..N :
          /\ DMap("r1", N, <<X, Y>>) = <<Y, N - X>> /\ DMap("r3", N, <<X, Y>>) = <<N - Y, X>>
          /\ DMap("r2", N, <<X, Y>>) = <<N - X, N - Y>> /\ DMap("rev", N, <<X, Y>>) = <<N - X, Y>>
          /\ DMap("comp", N, <<X, Y>>) = <<X, N - Y>> /\ DMap("inv", N, <<X, Y>>) = <<Y, X>>
          /\ DMap("anti", N, <<X, Y>>) = <<N - Y, N - X>>

VARIABLE dummy
Init == dummy = 0
Next == UNCHANGED dummy
=============================================================================
