------------------------------- MODULE BiscSpec -------------------------------
(***************************************************************************)
(* What a BiSC output must satisfy with respect to its input (A, m, n):    *)
(* A is a finite set of permutations ("good" ones), SG the set of learned  *)
(* mesh patterns [p, R] with |p| <= m.                                     *)
(***************************************************************************)
EXTENDS Mesh

BContainsAny(q, SG) == \E M \in SG : MContains(q, M)
\* every member of A of length <= n avoids every learned pattern
BSound(A, n, SG) == \A a \in A : Len(a) <= n => ~BContainsAny(a, SG)
BSoundWitness(A, n, SG) == {a \in A : Len(a) <= n /\ BContainsAny(a, SG)}
\* every permutation of length <= m outside A contains a learned pattern
BComplete(A, m, SG) == \A q \in PPermsUpTo(m) : q \notin A => BContainsAny(q, SG)
\* no learned shading can lose a cell: without it the pattern occurs in a member of A (of length
\* <= n), or is implied by a shorter learned pattern
BCellNeeded(A, n, SG, M, c) ==
    LET W == MMesh(M.p, M.R \ {c}) IN
    \/ \E a \in A : Len(a) <= n /\ MContains(a, W)
    \/ \E S \in SG : Len(S.p) < Len(M.p) /\ MOccInMesh(S, W) # {}
BIrredundant(A, n, SG) == \A M \in SG : \A c \in M.R : BCellNeeded(A, n, SG, M, c)
\* the maximal shading for which the occurrence t (1-based) of its own pattern in q stays an occurrence
BMaximalShading(q, t) == MCells(Len(t)) \ {MCellOf(q, t, j) : j \in (DOMAIN q) \ MRangeOf(t)}
\* a permutation "offends" a sanity check: a good one that contains a learned pattern, a bad one that avoids them all
BOffends(kind, q, SG) == IF kind = "good" THEN BContainsAny(q, SG) ELSE ~BContainsAny(q, SG)
BOffenders(kind, S, SG) == {q \in S : BOffends(kind, q, SG)}
\* what a sanity check may hand back next to its verdict: nothing when it passes, otherwise a non-empty list of
\* members of the checked set, each of which really offends
BWitnessesOK(kind, S, SG, res, wit) == IF res THEN wit = {} ELSE wit # {} /\ wit \subseteq BOffenders(kind, S, SG)
=============================================================================
