------------------------------ MODULE Algebra ------------------------------
(***************************************************************************)
(* Algebraic and structural operations on permutations, by definition.     *)
(* Everything geometric (sums, inflation, insertion, removal, contraction) *)
(* is a statement about the diagram PPoints(p): the new point set is       *)
(* written down in a stretched plane and PFromPoints reads off the         *)
(* permutation order-isomorphic to it, so no index/shift arithmetic of an  *)
(* implementation is repeated here.  Composition, inverse and the cyclic   *)
(* shifts act on the graph {<<x, p(x)>>} of the bijection.                 *)
(* Positions / indices / values in operator ARGUMENTS are 0-based like     *)
(* Permuta's (a TLA+ sequence p has p[i + 1] at 0-based index i).          *)
(* Prefix A.                                                               *)
(***************************************************************************)
EXTENDS Pattern

\* the sequence whose graph is G (x coordinates are exactly 0..n-1)
AFromGraph(G) == [i \in 1..Cardinality(G) |-> (CHOOSE pt \in G : pt[1] = i - 1)[2]]
AIsGraphOfPerm(G, n) == /\ {pt[1] : pt \in G} = 0..(n - 1)
                        /\ {pt[2] : pt \in G} = 0..(n - 1)
                        /\ Cardinality(G) = n

\* ---- group structure -----------------------------------------------------------
AInverse(p) == AFromGraph({<<pt[2], pt[1]>> : pt \in PPoints(p)})
\* p after q:  x |-> p(q(x)) ; the graph is the relational composition
ACompose2(p, q) == AFromGraph({<<pr[1][1], pr[2][2]>> : pr \in {w \in PPoints(q) \X PPoints(p) : w[1][2] = w[2][1]}})
AComposable(ps) == \A k \in DOMAIN ps : Len(ps[k]) = Len(ps[1])
\* ps[1] o ps[2] o ... o ps[m]   (m >= 1)
RECURSIVE AComposeSeq(_)
AComposeSeq(ps) == IF Len(ps) = 1 THEN ps[1] ELSE ACompose2(ps[1], AComposeSeq(Tail(ps)))

\* ---- sums and inflation: diagram substitution --------------------------------------
\* a scale larger than every component, so that boxes of different components are disjoint
AScaleOf(lens) == 2 + (IF lens = {} THEN 0 ELSE Max(lens))
\* k-th summand in the box up and to the right of summand k-1
ADirectSum(ps) ==
    LET K == AScaleOf({Len(ps[k]) : k \in DOMAIN ps})
    IN  PFromPoints(UNION {{<<K * k + pt[1], K * k + pt[2]>> : pt \in PPoints(ps[k])} : k \in DOMAIN ps})
\* k-th summand in the box down and to the right of summand k-1
ASkewSum(ps) ==
    LET K == AScaleOf({Len(ps[k]) : k \in DOMAIN ps})
        m == Len(ps)
    IN  PFromPoints(UNION {{<<K * k + pt[1], K * (m - k) + pt[2]>> : pt \in PPoints(ps[k])} : k \in DOMAIN ps})

\* a component of an inflation: [none |-> TRUE, c |-> <<>>] stands for Permuta's None (the
\* point stays a single point); [none |-> FALSE, c |-> perm] substitutes perm (possibly empty)
ANone == [none |-> TRUE, c |-> <<>>]
AComp(c) == [none |-> FALSE, c |-> c]
ACompPoints(c) == IF c.none THEN {<<0, 0>>} ELSE PPoints(c.c)
ACompLen(c) == IF c.none THEN 1 ELSE Len(c.c)
ACompPerm(c) == IF c.none THEN <<0>> ELSE c.c
\* the point <<i, p(i)>> of p is replaced by a small copy of the diagram of cs[i + 1]
AInflate(p, cs) ==
    LET K == AScaleOf({ACompLen(cs[i]) : i \in DOMAIN cs})
    IN  PFromPoints(UNION {{<<K * (i - 1) + pt[1], K * p[i] + pt[2]>> : pt \in ACompPoints(cs[i])} : i \in DOMAIN p})
AInflateDom(p, cs) == Len(cs) = Len(p)

\* ---- one point more, one point less ----------------------------------------------------
\* new point immediately left of the point at index i and immediately below value v
AInsertDom(p, i, v) == i \in 0..Len(p) /\ v \in 0..Len(p)
AInsert(p, i, v) == PFromPoints({<<2 * pt[1] + 1, 2 * pt[2] + 1>> : pt \in PPoints(p)} \cup {<<2 * i, 2 * v>>})
ARemoveAtDom(p, i) == i \in 0..(Len(p) - 1)
ARemoveAt(p, i) == PFromPoints({pt \in PPoints(p) : pt[1] # i})
ARemoveValueDom(p, v) == v \in 0..(Len(p) - 1)
ARemoveValue(p, v) == PFromPoints({pt \in PPoints(p) : pt[2] # v})
\* the shadow and the one-point extensions
AChildren(p) == {ARemoveAt(p, i) : i \in 0..(Len(p) - 1)}
ACovers(p) == {AInsert(p, i, v) : i \in 0..Len(p), v \in 0..Len(p)}
\* ... and the same two notions through containment (cross-check, LibSanity_Algebra / machine)
AChildrenByContainment(p) == IF Len(p) = 0 THEN {} ELSE {c \in PPerms(Len(p) - 1) : PContains(p, c)}
ACoversByContainment(p) == {q \in PPerms(Len(p) + 1) : PContains(q, p)}

\* ---- cyclic shifts: Z_n acting on columns / rows of the diagram ----------------------------
AShiftRight(p, t) == IF Len(p) = 0 THEN p ELSE AFromGraph({<<(pt[1] + t) % Len(p), pt[2]>> : pt \in PPoints(p)})
AShiftLeft(p, t) == AShiftRight(p, 0 - t)
AShiftUp(p, t) == IF Len(p) = 0 THEN p ELSE AFromGraph({<<pt[1], (pt[2] + t) % Len(p)>> : pt \in PPoints(p)})
AShiftDown(p, t) == AShiftUp(p, 0 - t)

\* ---- sum / skew decomposition: cut points -------------------------------------------------
\* c is a sum cut when everything left of the cut lies below everything right of it
ASumCuts(p) == {c \in 0..Len(p) : \A i \in 1..c, j \in (c + 1)..Len(p) : p[i] < p[j]}
ASkewCuts(p) == {c \in 0..Len(p) : \A i \in 1..c, j \in (c + 1)..Len(p) : p[i] > p[j]}
\* standardised blocks between consecutive cuts (C always contains 0 and Len(p))
ACutParts(p, C) == LET cs == SetToSortSeq(C, LAMBDA a, b : a < b)
                   IN  [k \in 1..(Len(cs) - 1) |-> PStd(SubSeq(p, cs[k] + 1, cs[k + 1]))]
ASumDecomposition(p) == ACutParts(p, ASumCuts(p))
ASkewDecomposition(p) == ACutParts(p, ASkewCuts(p))
AInteriorCut(p, C) == \E c \in C : 0 < c /\ c < Len(p)
AIsSumDecomposable(p) == AInteriorCut(p, ASumCuts(p))
AIsSkewDecomposable(p) == AInteriorCut(p, ASkewCuts(p))
\* "expressible as the sum of two (non-empty) permutations", literally
ASplitPairs(n) == UNION {PPerms(k) \X PPerms(n - k) : k \in 1..(n - 1)}
AIsSumDecomposableDef(p) == \E ab \in ASplitPairs(Len(p)) : ADirectSum(<<ab[1], ab[2]>>) = p
AIsSkewDecomposableDef(p) == \E ab \in ASplitPairs(Len(p)) : ASkewSum(<<ab[1], ab[2]>>) = p

\* ---- intervals (blocks) ---------------------------------------------------------------------
\* L consecutive positions starting at index a whose values are L consecutive integers
AIsInterval(p, a, L) == /\ L >= 1 /\ a >= 0 /\ a + L <= Len(p)
                        /\ \E m \in 0..(Len(p) - L) : {p[i] : i \in (a + 1)..(a + L)} = m..(m + L - 1)
\* the proper ones: <<start index, length>>, length 2..n-1
AIntervals(p) == {al \in (0..Len(p)) \X (2..(Len(p) - 1)) : AIsInterval(p, al[1], al[2])}
\* Permuta's listing: entry L (0-based, here position L + 1) holds the start indices of the
\* intervals of length L; one entry per L in 0..n-1
ABlockDecomposition(p) ==
    [L1 \in 1..Len(p) |-> SetToSortSeq({al[1] : al \in {x \in AIntervals(p) : x[2] = L1 - 1}}, LAMBDA a, b : a < b)]
ABlockPatterns(p) == {PStd(SubSeq(p, al[1] + 1, al[1] + al[2])) : al \in AIntervals(p)}
AIsSimple(p) == AIntervals(p) = {}
AIsStronglySimple(p) == AIsSimple(p) /\ \A c \in AChildren(p) : AIsSimple(c)
AMaxBlockLen(p) == IF AIntervals(p) = {} THEN 0 ELSE Max({al[2] : al \in AIntervals(p)})
AMaxBlockStarts(p) == {al[1] : al \in {x \in AIntervals(p) : x[2] = AMaxBlockLen(p)}}

\* ---- monotone blocks (runs of bonds) and contractions ---------------------------------------------
\* positions a..b (1-based, a <= b) form a run of direction d (+1 / -1): each step moves one
\* column right and one row in direction d
AIsRun(p, a, b, d) == \A i \in a..(b - 1) : p[i + 1] - p[i] = d
ARuns(p, D) == {ab \in (1..Len(p)) \X (1..Len(p)) : ab[1] <= ab[2] /\ \E d \in D : AIsRun(p, ab[1], ab[2], d)}
AMaxRuns(p, D) == LET R == ARuns(p, D)
                  IN  {r \in R : ~\E s \in R : s # r /\ s[1] <= r[1] /\ r[2] <= s[2]}
ADirs(kind) == CASE kind = "inc" -> {1} [] kind = "dec" -> {0 - 1} [] kind = "both" -> {1, 0 - 1}
\* Permuta's listing: <<start index, end index>> 0-based, left to right; singletons only with ones
AMonoBlocks(p, kind, ones) ==
    LET R == {r \in AMaxRuns(p, ADirs(kind)) : ones \/ r[1] < r[2]}
    IN  SetToSortSeq({<<r[1] - 1, r[2] - 1>> : r \in R}, LAMBDA x, y : x[1] < y[1])
\* quotient by the maximal runs: one point per run
AContract(p, kind) == PFromPoints({<<r[1], p[r[1]]>> : r \in AMaxRuns(p, ADirs(kind))})
\* the same with an arbitrary representative per run (must not matter: LibSanity_Algebra)
AContractVia(p, kind, rep(_)) == PFromPoints({<<rep(r), p[rep(r)]>> : r \in AMaxRuns(p, ADirs(kind))})
ABonds(p, kind) == {i \in 1..(Len(p) - 1) : p[i + 1] - p[i] \in ADirs(kind)}

\* ---- helper: all sequences of m non-empty permutations of total length n ----------------------------
RECURSIVE APermSeqs(_, _)
APermSeqs(m, n) == IF m = 0 THEN (IF n = 0 THEN {<<>>} ELSE {})
                   ELSE UNION {{<<a>> \o rest : a \in PPerms(k), rest \in APermSeqs(m - 1, n - k)} : k \in 1..(n - (m - 1))}
=============================================================================
