-------------------------- MODULE LibSanity_Algebra --------------------------
(***************************************************************************)
(* Consistency checks of module Algebra, evaluated by TLC as ASSUMEs:      *)
(* known theorems, counting sequences and alternative characterisations    *)
(* that a wrong definition would contradict.  The C10 adapter runs this    *)
(* module once per check before trusting any expectation.                  *)
(***************************************************************************)
EXTENDS Algebra, D4

ASeqMap(ps, f(_)) == [k \in DOMAIN ps |-> f(ps[k])]
ARevSeq(ps) == [k \in DOMAIN ps |-> ps[Len(ps) + 1 - k]]
AComp1(c) == AComp(c)
ASmall == PPermsUpTo(3)

\* ---- group structure ------------------------------------------------------------------
ASSUME \A p \in PPermsUpTo(5) : AInverse(p) = DSym("inv", p) /\ PIsPerm(AInverse(p))
ASSUME \A n \in 0..4 : \A p, q \in PPerms(n) :
          /\ PIsPerm(ACompose2(p, q))
          /\ \A i \in 1..n : ACompose2(p, q)[i] = p[q[i] + 1]
          /\ ACompose2(p, PIdentity(n)) = p /\ ACompose2(PIdentity(n), p) = p
          /\ ACompose2(p, AInverse(p)) = PIdentity(n) /\ ACompose2(AInverse(p), p) = PIdentity(n)
          /\ AInverse(ACompose2(p, q)) = ACompose2(AInverse(q), AInverse(p))
ASSUME \A n \in 0..3 : \A p, q, r \in PPerms(n) :
          /\ ACompose2(ACompose2(p, q), r) = ACompose2(p, ACompose2(q, r))
          /\ AComposeSeq(<<p, q, r>>) = ACompose2(p, ACompose2(q, r))
          /\ AComposeSeq(<<p>>) = p /\ AComposeSeq(<<p, q>>) = ACompose2(p, q)
\* a concrete non-commutative instance fixes the convention: (p o q)(x) = p(q(x))
ASSUME ACompose2(<<0, 3, 1, 2>>, <<2, 1, 0, 3>>) = <<1, 3, 0, 2>>
ASSUME AComposeSeq(<<<<1, 0, 2>>, <<0, 1, 2>>, <<2, 1, 0>>>>) = <<2, 0, 1>>

\* ---- sums: the unique permutation with the stated point configuration ------------------------
\* r = a (+) b  iff  r restricted to the first |a| positions is a, to the rest is b, and the
\* first part lies entirely below the second
ADirectSumChar(a, b, r) == /\ Len(r) = Len(a) + Len(b)
                           /\ PStd(SubSeq(r, 1, Len(a))) = a
                           /\ PStd(SubSeq(r, Len(a) + 1, Len(r))) = b
                           /\ \A i \in 1..Len(a), j \in (Len(a) + 1)..Len(r) : r[i] < r[j]
ASkewSumChar(a, b, r) == /\ Len(r) = Len(a) + Len(b)
                         /\ PStd(SubSeq(r, 1, Len(a))) = a
                         /\ PStd(SubSeq(r, Len(a) + 1, Len(r))) = b
                         /\ \A i \in 1..Len(a), j \in (Len(a) + 1)..Len(r) : r[i] > r[j]
ASSUME \A a, b \in ASmall :
          /\ {r \in PPerms(Len(a) + Len(b)) : ADirectSumChar(a, b, r)} = {ADirectSum(<<a, b>>)}
          /\ {r \in PPerms(Len(a) + Len(b)) : ASkewSumChar(a, b, r)} = {ASkewSum(<<a, b>>)}
ASSUME ADirectSum(<<<<0>>, <<1, 0>>, <<2, 1, 0>>>>) = <<0, 2, 1, 5, 4, 3>>
ASSUME ASkewSum(<<<<0>>, <<0, 1>>, <<2, 1, 0>>>>) = <<5, 3, 4, 2, 1, 0>>
ASSUME ADirectSum(<<>>) = <<>> /\ ASkewSum(<<>>) = <<>> /\ ADirectSum(<<<<>>, <<>>>>) = <<>>
\* associativity, unit, and the symmetries exchanging the two sums
ASSUME \A a, b, c \in PPermsUpTo(2) :
          /\ ADirectSum(<<a, b, c>>) = ADirectSum(<<ADirectSum(<<a, b>>), c>>)
          /\ ADirectSum(<<a, b, c>>) = ADirectSum(<<a, ADirectSum(<<b, c>>)>>)
          /\ ASkewSum(<<a, b, c>>) = ASkewSum(<<ASkewSum(<<a, b>>), c>>)
          /\ ASkewSum(<<a, b, c>>) = ASkewSum(<<a, ASkewSum(<<b, c>>)>>)
ASSUME \A a, b \in ASmall :
          /\ ADirectSum(<<a>>) = a /\ ADirectSum(<<a, <<>>>>) = a /\ ADirectSum(<<<<>>, a>>) = a
          /\ ASkewSum(<<a>>) = a /\ ASkewSum(<<a, <<>>>>) = a /\ ASkewSum(<<<<>>, a>>) = a
          /\ ASkewSum(<<a, b>>) = DSym("comp", ADirectSum(<<DSym("comp", a), DSym("comp", b)>>))
          /\ ASkewSum(<<a, b>>) = DSym("rev", ADirectSum(<<DSym("rev", b), DSym("rev", a)>>))
          /\ AInverse(ADirectSum(<<a, b>>)) = ADirectSum(<<AInverse(a), AInverse(b)>>)
          /\ AInverse(ASkewSum(<<a, b>>)) = ASkewSum(<<AInverse(b), AInverse(a)>>)

\* ---- inflation: the unique permutation with blocks c_i arranged like p ----------------------------------
\* total length of the first k components
RECURSIVE ALenSum(_, _)
ALenSum(cs, k) == IF k = 0 THEN 0 ELSE ACompLen(cs[k]) + ALenSum(cs, k - 1)
ABlockOf(cs, pos) == CHOOSE i \in DOMAIN cs : ALenSum(cs, i - 1) < pos /\ pos <= ALenSum(cs, i)
AInflateChar(p, cs, r) ==
    /\ Len(r) = ALenSum(cs, Len(cs))
    /\ \A i \in DOMAIN cs : PStd(SubSeq(r, ALenSum(cs, i - 1) + 1, ALenSum(cs, i))) = ACompPerm(cs[i])
    /\ \A x, y \in DOMAIN r : ABlockOf(cs, x) # ABlockOf(cs, y) =>
                                 ((r[x] < r[y]) <=> (p[ABlockOf(cs, x)] < p[ABlockOf(cs, y)]))
ACompU == {ANone} \cup {AComp(c) : c \in PPermsUpTo(2)}
ASSUME \A p \in PPermsUpTo(3) : \A cs \in [1..Len(p) -> ACompU] :
          {r \in PPerms(ALenSum(cs, Len(cs))) : AInflateChar(p, cs, r)} = {AInflate(p, cs)}
ASSUME AInflate(<<0, 1>>, <<AComp(<<1, 0>>), AComp(<<2, 1, 0>>)>>) = <<1, 0, 4, 3, 2>>
ASSUME AInflate(<<1, 0, 2>>, <<ANone, AComp(<<0, 1>>), AComp(<<0, 1>>)>>) = <<2, 0, 1, 3, 4>>
ASSUME AInflate(<<0, 1>>, <<AComp(<<>>), AComp(<<>>)>>) = <<>>
\* sums are inflations of the monotone permutations; inflating by points changes nothing
ASSUME \A ps \in UNION {[1..m -> PPermsUpTo(2)] : m \in 0..3} :
          /\ ADirectSum(ps) = AInflate(PIdentity(Len(ps)), ASeqMap(ps, AComp1))
          /\ ASkewSum(ps) = AInflate(PDecreasing(Len(ps)), ASeqMap(ps, AComp1))
ASSUME \A p \in PPermsUpTo(4) : AInflate(p, [i \in DOMAIN p |-> ANone]) = p
                             /\ AInflate(p, [i \in DOMAIN p |-> AComp(<<0>>)]) = p

\* ---- insertion / removal ------------------------------------------------------------------------------
ABump(p, v) == [i \in DOMAIN p |-> IF p[i] < v THEN p[i] ELSE p[i] + 1]
ASSUME \A p \in PPermsUpTo(4) : \A i, v \in 0..Len(p) :
          /\ PIsPerm(AInsert(p, i, v)) /\ Len(AInsert(p, i, v)) = Len(p) + 1
          /\ AInsert(p, i, v) = PSeqIns(ABump(p, v), i + 1, v)
          /\ ARemoveAt(AInsert(p, i, v), i) = p /\ ARemoveValue(AInsert(p, i, v), v) = p
ASSUME \A p \in PPermsBetween(1, 5) : \A i \in 0..(Len(p) - 1) :
          /\ PIsPerm(ARemoveAt(p, i)) /\ Len(ARemoveAt(p, i)) = Len(p) - 1
          /\ ARemoveAt(p, i) = PStd(PSeqDel(p, i + 1))
          /\ ARemoveValue(p, p[i + 1]) = ARemoveAt(p, i)
          /\ AInsert(ARemoveAt(p, i), i, p[i + 1]) = p
\* shadow = patterns of length n-1 contained; covers = permutations of length n+1 containing;
\* a permutation of length n has exactly n^2 + 1 one-point extensions
ASSUME \A p \in PPermsUpTo(5) : AChildren(p) = AChildrenByContainment(p)
ASSUME \A p \in PPermsUpTo(4) : ACovers(p) = ACoversByContainment(p)
ASSUME \A p \in PPermsUpTo(5) : Cardinality(ACovers(p)) = Len(p) * Len(p) + 1
ASSUME \A p \in PPermsUpTo(3), q \in PPermsUpTo(4) : (q \in ACovers(p)) <=> (p \in AChildren(q))

\* ---- shifts -------------------------------------------------------------------------------------------
ASSUME \A p \in PPermsBetween(1, 5) :
          /\ AShiftRight(p, 1) = <<p[Len(p)]>> \o SubSeq(p, 1, Len(p) - 1)
          /\ AShiftLeft(p, 1) = SubSeq(p, 2, Len(p)) \o <<p[1]>>
          /\ AShiftUp(p, 1) = [i \in DOMAIN p |-> IF p[i] = Len(p) - 1 THEN 0 ELSE p[i] + 1]
          /\ AShiftDown(p, 1) = [i \in DOMAIN p |-> IF p[i] = 0 THEN Len(p) - 1 ELSE p[i] - 1]
ASSUME \A p \in PPermsUpTo(4) : \A s, t \in (0 - 9)..9 :
          /\ PIsPerm(AShiftRight(p, t)) /\ PIsPerm(AShiftUp(p, t))
          /\ AShiftRight(AShiftRight(p, s), t) = AShiftRight(p, s + t)
          /\ AShiftUp(AShiftUp(p, s), t) = AShiftUp(p, s + t)
          /\ AShiftLeft(AShiftRight(p, t), t) = p /\ AShiftDown(AShiftUp(p, t), t) = p
          /\ AShiftUp(p, t) = AInverse(AShiftRight(AInverse(p), t))
          /\ (Len(p) > 0 /\ (s - t) % Len(p) = 0) => AShiftRight(p, s) = AShiftRight(p, t)
ASSUME AShiftRight(<<0, 1, 2>>, 0 - 4) = <<1, 2, 0>> /\ AShiftUp(<<0, 1, 2, 3>>, 0 - 7) = <<1, 2, 3, 0>>

\* ---- decompositions -----------------------------------------------------------------------------------
\* numbers of sum-indecomposable permutations (A003319) and of simple permutations (A111111)
ASSUME [n \in 1..5 |-> Cardinality({p \in PPerms(n) : ~AIsSumDecomposable(p)})] = <<1, 1, 3, 13, 71>>
ASSUME [n \in 1..5 |-> Cardinality({p \in PPerms(n) : ~AIsSkewDecomposable(p)})] = <<1, 1, 3, 13, 71>>
ASSUME [n \in 1..6 |-> Cardinality({p \in PPerms(n) : AIsSimple(p)})] = <<1, 2, 0, 2, 6, 46>>
ASSUME AIsSimple(<<>>) /\ ~AIsSumDecomposable(<<>>) /\ ~AIsSumDecomposable(<<0>>) /\ ASumDecomposition(<<>>) = <<>>
ASSUME \A p \in PPermsUpTo(5) :
          /\ AIsSumDecomposable(p) <=> AIsSumDecomposableDef(p)
          /\ AIsSkewDecomposable(p) <=> AIsSkewDecomposableDef(p)
          /\ ADirectSum(ASumDecomposition(p)) = p /\ ASkewSum(ASkewDecomposition(p)) = p
          /\ \A k \in DOMAIN ASumDecomposition(p) : ASumDecomposition(p)[k] # <<>> /\ ~AIsSumDecomposable(ASumDecomposition(p)[k])
          /\ \A k \in DOMAIN ASkewDecomposition(p) : ASkewDecomposition(p)[k] # <<>> /\ ~AIsSkewDecomposable(ASkewDecomposition(p)[k])
          /\ ASkewDecomposition(p) = ASeqMap(ASumDecomposition(DSym("comp", p)), LAMBDA c : DSym("comp", c))
          /\ (Len(p) >= 2 => ~(AIsSumDecomposable(p) /\ AIsSkewDecomposable(p)))
\* uniqueness: the only sequence of non-empty sum-indecomposable permutations with direct sum p
ASSUME \A n \in 0..4 : \A p \in PPerms(n) :
          {ps \in UNION {APermSeqs(m, n) : m \in 0..n} :
              ADirectSum(ps) = p /\ \A k \in DOMAIN ps : ~AIsSumDecomposable(ps[k])} = {ASumDecomposition(p)}
ASSUME ASumDecomposition(<<1, 2, 0, 4, 3>>) = <<<<1, 2, 0>>, <<1, 0>>>>
ASSUME ASkewDecomposition(<<5, 3, 4, 1, 0, 2>>) = <<<<0>>, <<0, 1>>, <<1, 0, 2>>>>

\* ---- intervals ------------------------------------------------------------------------------------------
\* a permutation is not simple iff it is a proper inflation: of a q with 2 <= |q| < n by non-empty blocks
AProperInflations(n) == UNION {{AInflate(q, ASeqMap(cs, AComp1)) : q \in PPerms(m), cs \in APermSeqs(m, n)} : m \in 2..(n - 1)}
ASSUME \A n \in 0..5 : {p \in PPerms(n) : ~AIsSimple(p)} = AProperInflations(n)
\* interval <=> max - min = length - 1; invariant under the symmetries (positions mirrored by rev)
ASSUME \A p \in PPermsUpTo(5) : \A a \in 0..Len(p), L \in 1..Len(p) : a + L <= Len(p) =>
          LET V == {p[i] : i \in (a + 1)..(a + L)} IN
          /\ AIsInterval(p, a, L) <=> (Max(V) - Min(V) = L - 1)
          /\ AIsInterval(p, a, L) <=> AIsInterval(DSym("comp", p), a, L)
          /\ AIsInterval(p, a, L) <=> AIsInterval(DSym("rev", p), Len(p) - a - L, L)
ASSUME ABlockDecomposition(<<5, 3, 0, 1, 2, 4, 7, 6>>) = <<<<>>, <<>>, <<2, 3, 6>>, <<2>>, <<1>>, <<1>>, <<0>>, <<>>>>
ASSUME ABlockPatterns(<<4, 1, 0, 5, 2, 3>>) = {<<0, 1>>, <<1, 0>>}
ASSUME AMaxBlockLen(<<0, 2, 1, 5, 6, 7, 4, 3>>) = 7 /\ AMaxBlockStarts(<<0, 2, 1, 5, 6, 7, 4, 3>>) = {1}
ASSUME AIsStronglySimple(<<4, 1, 6, 3, 0, 7, 2, 5>>) /\ AIsSimple(<<2, 0, 3, 1>>) /\ ~AIsSimple(<<2, 0, 1>>)
\* components of an inflation by non-empty blocks are intervals of the result
ASSUME \A q \in PPermsBetween(2, 3) : \A cs \in [1..Len(q) -> PPermsBetween(1, 2)] :
          \A i \in DOMAIN cs : AIsInterval(AInflate(q, ASeqMap(cs, AComp1)), ALenSum(ASeqMap(cs, AComp1), i - 1), Len(cs[i]))

\* ---- monotone blocks and contractions ----------------------------------------------------------------------
\* maximal runs partition the positions; a permutation never has an ascending bond next to a descending one
ASSUME \A p \in PPermsUpTo(5) : \A kind \in {"inc", "dec", "both"} :
          LET R == AMaxRuns(p, ADirs(kind)) IN
          /\ UNION {r[1]..r[2] : r \in R} = 1..Len(p)
          /\ \A r, s \in R : r # s => (r[1]..r[2]) \cap (s[1]..s[2]) = {}
          /\ Cardinality(R) = Len(p) - Cardinality(ABonds(p, kind))
          /\ Len(AContract(p, kind)) = Cardinality(R) /\ PIsPerm(AContract(p, kind))
          /\ AContract(p, kind) = AContractVia(p, kind, LAMBDA r : r[2])
          /\ AMaxRuns(p, ADirs("both")) \cap {r \in (1..Len(p)) \X (1..Len(p)) : r[1] < r[2]}
                = (AMaxRuns(p, ADirs("inc")) \cup AMaxRuns(p, ADirs("dec"))) \cap {r \in (1..Len(p)) \X (1..Len(p)) : r[1] < r[2]}
\* contracting ascending (descending) bonds leaves none, so it is idempotent; symmetric under complement
ASSUME \A p \in PPermsUpTo(5) :
          /\ ABonds(AContract(p, "inc"), "inc") = {} /\ ABonds(AContract(p, "dec"), "dec") = {}
          /\ AContract(p, "dec") = DSym("comp", AContract(DSym("comp", p), "inc"))
          /\ AContract(p, "both") = DSym("rev", AContract(DSym("rev", p), "both"))
\* permutations without ascending bonds (A000255) and without any bond (Hertzsprung, A002464)
ASSUME [n \in 1..6 |-> Cardinality({p \in PPerms(n) : ABonds(p, "inc") = {}})] = <<1, 1, 3, 11, 53, 309>>
ASSUME [n \in 1..6 |-> Cardinality({p \in PPerms(n) : AContract(p, "both") = p})] = <<1, 0, 0, 2, 14, 90>>
ASSUME AContract(<<1, 0, 5, 3, 4, 2>>, "inc") = <<1, 0, 4, 3, 2>>
ASSUME AContract(<<1, 0, 5, 3, 4, 2>>, "dec") = <<0, 4, 2, 3, 1>>
ASSUME AContract(<<1, 0, 5, 3, 4, 2>>, "both") = <<0, 3, 2, 1>>
ASSUME AContract(<<0, 2, 1, 5, 6, 4, 3>>, "both") = <<0, 1, 3, 2>>
ASSUME AMonoBlocks(<<2, 6, 3, 7, 4, 5, 1, 0>>, "both", FALSE) = <<<<4, 5>>, <<6, 7>>>>
ASSUME AMonoBlocks(<<2, 6, 3, 4, 5, 1, 0>>, "both", TRUE) = <<<<0, 0>>, <<1, 1>>, <<2, 4>>, <<5, 6>>>>
ASSUME AMonoBlocks(<<1, 0, 2, 3>>, "inc", TRUE) = <<<<0, 0>>, <<1, 1>>, <<2, 3>>>>
ASSUME AMonoBlocks(<<0, 2, 1>>, "dec", FALSE) = <<<<1, 2>>>> /\ AMonoBlocks(<<0, 2, 1>>, "inc", FALSE) = <<>>

VARIABLE dummy
Init == dummy = 0
Next == UNCHANGED dummy
=============================================================================
