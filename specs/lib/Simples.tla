------------------------------- MODULE Simples -------------------------------
(***************************************************************************)
(* The three families of "special" simple permutations of Brignall,        *)
(* Huczynska and Vatter, written out explicitly (one member of each even   *)
(* length 2k; their images under the eight symmetries are obtained with    *)
(* D4), and the resulting criterion for "arbitrarily long members of the   *)
(* family avoid the basis".                                                *)
(*   SParAlt(k)   parallel alternation  2k-2 ... 2 0 2k-1 ... 3 1          *)
(*   SWedge2(k)   1 3 ... 2k-1  2k-4 ... 2 0  2k-2        (13574206)       *)
(*   SWedge1a(k)  k (k-2) k+1 (k-3) ... 2k-1 (k-1)        (42516073)       *)
(*   SWedge1b(k)  (k-1) (k+1) (k-2) (k+2) ... 0 k         (35261704)       *)
(* LibSanity_Simples checks: every member is simple, each family is a      *)
(* chain under containment, and the stabilisation used below.              *)
(***************************************************************************)
EXTENDS D4, Algebra

SParAlt(k) == [i \in 1..(2 * k) |-> IF i <= k THEN 2 * (k - i) ELSE 2 * (2 * k - i) + 1]
SWedge2(k) == [i \in 1..(2 * k) |-> IF i <= k THEN 2 * i - 1 ELSE IF i = 2 * k THEN 2 * k - 2 ELSE 2 * (2 * k - 1 - i)]
SWedge1a(k) == [i \in 1..(2 * k) |-> IF i % 2 = 1 THEN k + (i - 1) \div 2
                                      ELSE IF i = 2 * k THEN k - 1 ELSE k - 1 - i \div 2]
SWedge1b(k) == [i \in 1..(2 * k) |-> IF i % 2 = 1 THEN k - 1 - (i - 1) \div 2
                                      ELSE IF i = 2 * k THEN k ELSE k + i \div 2]
SFamilies == {"paralt", "wedge2", "wedge1a", "wedge1b"}
SMember(f, k) == CASE f = "paralt" -> SParAlt(k) [] f = "wedge2" -> SWedge2(k)
                   [] f = "wedge1a" -> SWedge1a(k) [] f = "wedge1b" -> SWedge1b(k)

\* A pattern of length m that occurs in some member of a family (a chain) occurs in the member of
\* length 2(m+1): the class contains arbitrarily long members of the family (or of one of its
\* symmetric images) iff no basis element occurs in that member.
SLongMemberAvoids(B, f, g) ==
    LET m == Max({Len(b) : b \in B}) IN \A b \in B : ~PContains(DSym(g, SMember(f, Len(b) + 1)), b)
SSpecialInfinite(B) == \E f \in SFamilies : \E g \in DNames : SLongMemberAvoids(B, f, g)
SSpecialFinite(B) == ~SSpecialInfinite(B)

\* simples of the class, by enumeration
SSimplesOfClass(B, n) == {q \in PAvLevel(B, n) : AIsSimple(q)}
=============================================================================
