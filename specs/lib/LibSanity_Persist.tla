-------------------------- MODULE LibSanity_Persist --------------------------
(***************************************************************************)
(* Cross-checks of module Persist, evaluated by TLC as ASSUMEs (run once   *)
(* per check of C20 before the definitions are used as an oracle).         *)
(*  - the name table PsPred: each shipped name counted against the         *)
(*    enumeration known from the literature (Catalan, West, Baxter, Euler, *)
(*    Bousquet-Melou/Butler, Lakshmibai/Sandhya, hook shapes, n!/2, 2n);   *)
(*  - the file model: the honest answer of a reader;                       *)
(*  - the names: injective on the lengths the library uses, and the        *)
(*    documented collision beyond length 10.                               *)
(***************************************************************************)
EXTENDS Persist

N == 6
S == [n \in 0..N |-> PPerms(n)]
Card(T) == Cardinality(T)
Count(name, n) == Card({q \in S[n] : PsPred(name, q)})
Counts(name) == [k \in 1..(N + 1) |-> Count(name, k - 1)]
RECURSIVE Binom(_, _)
Binom(n, k) == IF k = 0 THEN 1 ELSE IF n = 0 THEN 0 ELSE Binom(n - 1, k - 1) + Binom(n - 1, k)
Catalan(n) == Binom(2 * n, n) \div (n + 1)
\* Baxter numbers (Chung-Graham-Hoggatt-Kleiman)
Baxter(n) == IF n = 0 THEN 1
             ELSE LET term(k) == Binom(n + 1, k - 1) * Binom(n + 1, k) * Binom(n + 1, k + 1)
                      sum[k \in 0..n] == IF k = 0 THEN 0 ELSE term(k) + sum[k - 1]
                  IN sum[n] \div (Binom(n + 1, 1) * Binom(n + 1, 2))

\* ---- the name table ------------------------------------------------------------------
ASSUME Counts("stack_sortable") = [k \in 1..(N + 1) |-> Catalan(k - 1)]
ASSUME Counts("Baxter") = [k \in 1..(N + 1) |-> Baxter(k - 1)]
ASSUME Counts("Baxter") = <<1, 1, 2, 6, 22, 92, 422>>
ASSUME Counts("SimSun") = <<1, 1, 2, 5, 16, 61, 272>>                     \* Euler numbers E_(n+1)
ASSUME Counts("West_2_stack_sortable") = <<1, 1, 2, 6, 22, 91, 408>>      \* 2(3n)!/((n+1)!(2n+1)!)
ASSUME Counts("smooth") = <<1, 1, 2, 6, 22, 88, 366>>
ASSUME Counts("forest_like") = <<1, 1, 2, 6, 22, 89, 379>>
ASSUME Counts("dihedral") = <<0, 0, 0, 6, 8, 10, 12>>
ASSUME Counts("in_alternating_group") = <<1, 1, 1, 3, 12, 60, 360>>
ASSUME Counts("even") = Counts("in_alternating_group")
\* shapes without [2,2] are the hooks: sum_k C(n-1,k)^2 = C(2n-2, n-1)
ASSUME \A n \in 1..N : Count("yt_perm_avoids_22", n) = Binom(2 * n - 2, n - 1)
\* shapes containing [3,2]: (3,2) at n = 5 (f = 5); (3,2,1), (3,3), (4,2) at n = 6 (f = 16, 5, 9)
ASSUME Counts("yt_perm_avoids_32") = <<1, 1, 2, 6, 24, 120 - 25, 720 - (256 + 25 + 81)>>
\* one pass of quicksort: a(n) = 3a(n-1) - 2a(n-2) + a(n-3)
ASSUME Counts("quick_sortable")[1] = 1 /\ Counts("quick_sortable")[2] = 1 /\ Counts("quick_sortable")[3] = 2
ASSUME \A n \in 3..N : Count("quick_sortable", n) + 2 * Count("quick_sortable", n - 2)
                          = 3 * Count("quick_sortable", n - 1) + Count("quick_sortable", n - 3)
\* 231-avoiders minus the single one of length 6 that is the mesh pattern itself
ASSUME Counts("av_231_and_mesh") = [k \in 1..(N + 1) |-> Catalan(k - 1) - (IF k = 7 THEN 1 ELSE 0)]
ASSUME \A n \in 1..N : Count("layered", n) = MPow2(n - 1)
\* the two sides partition every level, and the listing is the set
ASSUME \A name \in {"stack_sortable", "even", "dihedral"}, n \in 0..4 :
          /\ PsSide(name, "good", n) \cup PsSide(name, "bad", n) = S[n]
          /\ PsSide(name, "good", n) \cap PsSide(name, "bad", n) = {}
          /\ PsListsExactly(PsListing(PsSide(name, "good", n)), PsSide(name, "good", n))
ASSUME PsListing(PsSide("stack_sortable", "good", 3)) = <<<<0, 1, 2>>, <<0, 2, 1>>, <<1, 0, 2>>, <<2, 0, 1>>, <<2, 1, 0>>>>
ASSUME PsSide("stack_sortable", "bad", 3) = {<<1, 2, 0>>}
ASSUME ~PsListsExactly(<<<<0, 1>>, <<0, 1>>>>, {<<0, 1>>}) /\ ~PsListsExactly(<<>>, {<<0, 1>>})
ASSUME PsWrong(<<<<0, 1>>>>, {<<1, 0>>}) = {<<0, 1>>, <<1, 0>>}
\* the deviation differs from the definition exactly on the identity of length 2
ASSUME \A n \in 0..4 : \A q \in S[n] : (PsPred_AltN2("in_alternating_group", q) # PsPred("in_alternating_group", q)) <=> q = <<0, 1>>
ASSUME \A name \in PsShippedNames \ {"in_alternating_group"}, q \in S[3] : PsPred_AltN2(name, q) = PsPred(name, q)

\* ---- the file model ------------------------------------------------------------------
ASSUME PsWellFormed(PsSingle(2)) /\ ~PsWellFormed(PsJunk) /\ ~PsWellFormed(PsTwice(1))
ASSUME ~PsWellFormed(PsContent(<<1>>, TRUE)) /\ ~PsWellFormed(PsContent(<<1, 2>>, FALSE))
Fs0 == PsPut(PsPut(PsPut(PsNoMap, "x", PsSingle(2)), "y", PsJunk), "z", PsTwice(1))
ASSUME PsReadValue(Fs0, "x") = 2 /\ PsReadValue(Fs0, "y") = 0 /\ PsReadValue(Fs0, "z") = 0 /\ PsReadValue(Fs0, "w") = 0
ASSUME PsReadValue(PsNoMap, "x") = 0 /\ DOMAIN PsNoMap = {}
ASSUME \A f \in {"x", "y", "z", "w"} : (PsReadValue(Fs0, f) = 0) <=> PsMissingOrMalformed(Fs0, f)
ASSUME DOMAIN PsDrop(Fs0, "y") = {"x", "z"} /\ PsDrop(Fs0, "y")["x"] = Fs0["x"] /\ PsDrop(Fs0, "q") = Fs0
ASSUME PsPut(Fs0, "x", PsJunk)["x"] = PsJunk /\ PsPut(Fs0, "x", PsJunk)["z"] = Fs0["z"]

\* ---- names ---------------------------------------------------------------------------
ASSUME PsStem("a", "good", 3) = "a_good_len3" /\ PsStem("West_2_stack_sortable", "bad", 8) = "West_2_stack_sortable_bad_len8"
ASSUME PsKey(<<0, 2, 1>>) = "021" /\ PsKey(<<>>) = "" /\ PsDir(<<0, 2, 1>>) = "S3"
All5 == UNION {S[n] : n \in 0..5}
ASSUME \A p, q \in All5 : PsKey(p) = PsKey(q) => p = q
ASSUME \A nm \in {"a", "b"}, k \in PsKinds, n \in 2..3 : \A nm2 \in {"a", "b"}, k2 \in PsKinds, n2 \in 2..3 :
          PsStem(nm, k, n) = PsStem(nm2, k2, n2) => (nm = nm2 /\ k = k2 /\ n = n2)
\* documented limit of the naming scheme: decimal values are concatenated without a separator,
\* so two permutations of length 11 can share a file name (outside the lengths the library uses)
ASSUME PsKey(<<1, 0, 10, 2, 3, 4, 5, 6, 7, 8, 9>>) = PsKey(<<10, 1, 0, 2, 3, 4, 5, 6, 7, 8, 9>>)

VARIABLE dummy
Init == dummy = 0
Next == UNCHANGED dummy
=============================================================================
