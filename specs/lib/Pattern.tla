------------------------------ MODULE Pattern ------------------------------
(***************************************************************************)
(* Classical pattern containment by its textbook definition.               *)
(***************************************************************************)
EXTENDS PermCore

\* strictly increasing k-tuples of positions of 1..n
PIncTuples(k, n) == IF k > n THEN {}     \* (kSubset's Java override rejects k > |S|)
                    ELSE { SetToSortSeq(S, LAMBDA a, b : a < b) : S \in kSubset(k, 1..n) }

POrderIso(a, b) == /\ Len(a) = Len(b)
                   /\ \A i, j \in DOMAIN a : (a[i] < a[j]) <=> (b[i] < b[j])

PPick(q, t) == [i \in DOMAIN t |-> q[t[i]]]

\* occurrences of p in q: increasing position tuples (1-based) whose entries are
\* order-isomorphic to p
POcc(p, q) == {t \in PIncTuples(Len(p), Len(q)) : POrderIso(p, PPick(q, t))}
POccSeq(p, q) == SetToSortSeq(POcc(p, q), PLexLess)       \* lexicographic listing
POccSeq0(p, q) == LET s == POccSeq(p, q) IN [i \in DOMAIN s |-> PZero(s[i])]
PContains(q, p) == POcc(p, q) # {}
PAvoids(q, p) == POcc(p, q) = {}
PAvoidsAll(q, B) == \A b \in B : PAvoids(q, b)

\* the same definition with the position tuple found by nested quantifiers instead of by filtering the set of all
\* tuples: for long permutations (a thousand entries) and patterns of length <= 3.  LibSanity: equal to PContains.
PContainsQ(q, p) ==
    LET n == Len(q) IN
    CASE Len(p) = 0 -> TRUE
      [] Len(p) = 1 -> n >= 1
      [] Len(p) = 2 -> \E i \in 1..n : \E j \in (i + 1)..n : POrderIso(p, <<q[i], q[j]>>)
      [] Len(p) = 3 -> \E i \in 1..n : \E j \in (i + 1)..n : \E k \in (j + 1)..n : POrderIso(p, <<q[i], q[j], q[k]>>)
      [] OTHER -> PContains(q, p)

\* coloured occurrences: cp colours the pattern's positions, cq the permutation's
POccCol(p, q, cp, cq) == {t \in POcc(p, q) : \A i \in DOMAIN t : cq[t[i]] = cp[i]}
POccColSeq0(p, q, cp, cq) == LET s == SetToSortSeq(POccCol(p, q, cp, cq), PLexLess)
                             IN [i \in DOMAIN s |-> PZero(s[i])]

\* the class Av(B) at length n (classical basis)
PAvLevel(B, n) == {q \in PPerms(n) : PAvoidsAll(q, B)}
=============================================================================
