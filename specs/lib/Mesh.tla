-------------------------------- MODULE Mesh --------------------------------
(***************************************************************************)
(* Mesh patterns by definition.  A mesh pattern is a record                *)
(*   [p |-> permutation of length k, R |-> set of shaded cells <<x, y>>],  *)
(* 0 <= x, y <= k; cell <<x, y>> is the open box between the x-th and      *)
(* (x+1)-th point (by position) and the y-th and (y+1)-th point (by value).*)
(***************************************************************************)
EXTENDS Pattern

MCells(k) == (0..k) \X (0..k)
MMesh(p, R) == [p |-> p, R |-> R]
MIsMesh(M) == PIsPerm(M.p) /\ M.R \subseteq MCells(Len(M.p))
MAllMesh(k) == {MMesh(p, R) : p \in PPerms(k), R \in SUBSET MCells(k)}
MUnshaded(p) == MMesh(p, {})

\* The cell, relative to the occurrence t (1-based positions in q), of the point of q
\* at position j (j not in t): how many chosen points lie to its left / below it.
MCellOf(q, t, j) == << Cardinality({i \in DOMAIN t : t[i] < j}),
                       Cardinality({i \in DOMAIN t : q[t[i]] < q[j]}) >>
MRangeOf(t) == {t[i] : i \in DOMAIN t}

\* occurrences of M in the permutation q: occurrences of the underlying pattern such
\* that no other point of q falls in a shaded cell of the grid drawn through them
MOcc(M, q) == {t \in POcc(M.p, q) : \A j \in (DOMAIN q) \ MRangeOf(t) : MCellOf(q, t, j) \notin M.R}
MOccSeq0(M, q) == LET s == SetToSortSeq(MOcc(M, q), PLexLess) IN [i \in DOMAIN s |-> PZero(s[i])]
MContains(q, M) == MOcc(M, q) # {}
MAvoids(q, M) == MOcc(M, q) = {}

\* occurrences with at least one point of q in cell c (used by AddPoint's meaning)
MOccWithPointIn(M, q, c) == {t \in MOcc(M, q) : \E j \in (DOMAIN q) \ MRangeOf(t) : MCellOf(q, t, j) = c}

\* Bivincular patterns: X = adjacent positions (columns fully shaded), Y = adjacent
\* values (rows fully shaded); vincular: Y = {}, covincular: X = {}.
MBiv(p, X, Y) == MMesh(p, (X \X (0..Len(p))) \cup ((0..Len(p)) \X Y))
MFullCols(M) == {x \in 0..Len(M.p) : \A y \in 0..Len(M.p) : <<x, y>> \in M.R}
MFullRows(M) == {y \in 0..Len(M.p) : \A x \in 0..Len(M.p) : <<x, y>> \in M.R}
MIsBiv(M) == M.R = MBiv(M.p, MFullCols(M), MFullRows(M)).R
\* Direct statement of the bivincular meaning (for cross-checking MBiv): positions t[x],
\* t[x+1] adjacent for x in X (0 = first position, k = last position), values likewise.
MBivOccDirect(p, X, Y, q) ==
    LET k == Len(p)  n == Len(q) IN
    {t \in POcc(p, q) :
        /\ \A x \in X : (IF x = 0 THEN 0 ELSE t[x]) + 1 = (IF x = k THEN n + 1 ELSE t[x + 1])
        /\ \A y \in Y :
             LET vals == {q[t[i]] : i \in DOMAIN t}
                 lo == IF y = 0 THEN -1 ELSE CHOOSE v \in vals : Cardinality({w \in vals : w < v}) = y - 1
                 hi == IF y = k THEN n ELSE CHOOSE v \in vals : Cardinality({w \in vals : w < v}) = y
             IN lo + 1 = hi}

\* ---- sub-pattern induced on a set S of positions (1-based) of M ----------------
\* The region of M's grid covered by cell <<x, y>> of the sub-pattern, and the rule
\* "shaded iff the whole region is shaded and contains no point of M".
MSortedSeq(S) == SetToSortSeq(S, LAMBDA a, b : a < b)
MSubRegion(M, S, x, y) ==
    LET k == Len(M.p)
        pos == MSortedSeq(S)                              \* chosen positions, increasing
        val == MSortedSeq({M.p[i] : i \in S})             \* chosen values, increasing
        m == Len(pos)
        cl == IF x = 0 THEN 0 ELSE pos[x]                 \* columns cl..ch of M
        ch == IF x = m THEN k ELSE pos[x + 1] - 1
        rl == IF y = 0 THEN 0 ELSE val[y] + 1             \* rows rl..rh of M
        rh == IF y = m THEN k ELSE val[y + 1]
    IN [cells |-> (cl..ch) \X (rl..rh),
        points |-> {i \in DOMAIN M.p : cl < i /\ i <= ch /\ rl <= M.p[i] /\ M.p[i] < rh}]
MSubMesh(M, S) ==
    LET m == Cardinality(S)
        sp == PStd([i \in 1..m |-> M.p[MSortedSeq(S)[i]]])
    IN MMesh(sp, {c \in MCells(m) : LET reg == MSubRegion(M, S, c[1], c[2])
                                     IN reg.cells \subseteq M.R /\ reg.points = {}})

\* occurrences of the mesh pattern M1 inside the mesh pattern M2
MOccInMesh(M1, M2) == {t \in POcc(M1.p, M2.p) : M1.R \subseteq MSubMesh(M2, MRangeOf(t)).R}
MOccInMeshSeq0(M1, M2) == LET s == SetToSortSeq(MOccInMesh(M1, M2), PLexLess) IN [i \in DOMAIN s |-> PZero(s[i])]

\* ---- shading and point insertion (on diagrams) ----------------------------------
MShade(M, C) == MMesh(M.p, M.R \cup C)
\* New point in the open cell c = <<x, y>>: positions/values of old points are kept
\* relative to it; every new cell lies inside exactly one old cell and inherits its
\* shading; a directional variant shades the two quarter cells on that side of the point.
MOldIndex(a, x) == IF a <= x THEN a ELSE a - 1
MAddPointPerm(p, x, y) ==
    PFromPoints({<<2 * (i - 1) + 1, 2 * p[i] + 1>> : i \in DOMAIN p} \cup {<<2 * x, 2 * y>>})
MAddPoint(M, c, dir) ==
    LET x == c[1]  y == c[2]  k == Len(M.p)
        base == {d \in MCells(k + 1) : <<MOldIndex(d[1], x), MOldIndex(d[2], y)>> \in M.R}
        side == CASE dir = "E" -> {<<x + 1, y>>, <<x + 1, y + 1>>}
                  [] dir = "N" -> {<<x, y + 1>>, <<x + 1, y + 1>>}
                  [] dir = "W" -> {<<x, y>>, <<x, y + 1>>}
                  [] dir = "S" -> {<<x, y>>, <<x + 1, y>>}
                  [] OTHER -> {}
    IN MMesh(MAddPointPerm(M.p, x, y), base \cup side)

\* mesh pattern rank: the shading as a binary number, cell <<x, y>> is bit x*(k+1)+y
RECURSIVE MPow2(_)
MPow2(n) == IF n = 0 THEN 1 ELSE 2 * MPow2(n - 1)
MRank(M) == LET k == Len(M.p) IN
            IF M.R = {} THEN 0 ELSE SumSet({MPow2(c[1] * (k + 1) + c[2]) : c \in M.R})

\* Class of a mesh basis
MAvLevel(B, n) == {q \in PPerms(n) : \A M \in B : MAvoids(q, M)}
=============================================================================
