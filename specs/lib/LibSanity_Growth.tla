--------------------------- MODULE LibSanity_Growth ---------------------------
(***************************************************************************)
(* Cross-checks of module Growth, evaluated by TLC as ASSUMEs: bases of    *)
(* the juxtaposition classes from the literature (Atkinson; Albert-Linton- *)
(* Ruskuc), counting sequences, closure under deletion, alternative        *)
(* characterisations, the theorems against enumeration by definition, and  *)
(* literal examples.  The C13 adapter runs this module once per check.     *)
(***************************************************************************)
EXTENDS Growth

N == 6
S == [n \in 0..N |-> PPerms(n)]
All == UNION {S[n] : n \in 0..N}
Upto(n) == UNION {S[k] : k \in 0..n}
Card(T) == Cardinality(T)
Pow2(n) == 2 ^ n
Neg(e) == IF e = "+" THEN "-" ELSE "+"
TT == [p \in All |-> GTypes(p)]                  \* tabulated once
In(t) == {p \in All : t \in TT[p]}
InN(t, n) == {p \in S[n] : t \in TT[p]}

\* ---- monotone ----------------------------------------------------------------------------
ASSUME \A n \in 0..N : \A p \in S[n] : (GIsInc(p) <=> p = PIdentity(n)) /\ (GIsDec(p) <=> p = PDecreasing(n))
ASSUME GIsInc(<<>>) /\ GIsDec(<<>>) /\ GIsInc(<<0>>) /\ GIsDec(<<0>>)

\* ---- the juxtaposition classes: bases from the literature -----------------------------------
\* Atkinson, Restricted permutations (1999): [Av(21) | Av(21)] = Av(321, 2143, 3142) etc.
JBasis(e1, e2) == CASE e1 = "+" /\ e2 = "+" -> {<<2, 1, 0>>, <<1, 0, 3, 2>>, <<2, 0, 3, 1>>}
                    [] e1 = "+" /\ e2 = "-" -> {<<1, 0, 2>>, <<2, 0, 1>>}
                    [] e1 = "-" /\ e2 = "+" -> {<<0, 2, 1>>, <<1, 2, 0>>}
                    [] e1 = "-" /\ e2 = "-" -> {<<0, 1, 2>>, <<2, 3, 0, 1>>, <<1, 3, 0, 2>>}
\* Albert, Linton, Ruskuc, The insertion encoding of permutations (2005), Theorem on regularity:
\* Av(132,312), Av(213,231), Av(123,3142,3412), Av(321,2143,2413)   (1-based in the paper)
VBasis(e1, e2) == CASE e1 = "+" /\ e2 = "+" -> {<<2, 1, 0>>, <<1, 0, 3, 2>>, <<1, 3, 0, 2>>}
                    [] e1 = "+" /\ e2 = "-" -> {<<1, 0, 2>>, <<1, 2, 0>>}
                    [] e1 = "-" /\ e2 = "+" -> {<<0, 2, 1>>, <<2, 0, 1>>}
                    [] e1 = "-" /\ e2 = "-" -> {<<0, 1, 2>>, <<2, 0, 3, 1>>, <<2, 3, 0, 1>>}
ASSUME \A e1, e2 \in GSigns : \A p \in All : GJuxt(e1, e2, p) <=> PAvoidsAll(p, JBasis(e1, e2))
ASSUME \A e1, e2 \in GSigns : \A p \in All : GVJuxt(e1, e2, p) <=> PAvoidsAll(p, VBasis(e1, e2))
\* vertical = horizontal of the inverse; a quarter turn maps vertical to horizontal, changing both signs
ASSUME \A e1, e2 \in GSigns : \A p \in All : GVJuxt(e1, e2, p) <=> GJuxt(e1, e2, DSym("inv", p))
ASSUME \A e1, e2 \in GSigns : \A p \in All : GVJuxt(e1, e2, p) <=> GJuxt(Neg(e1), Neg(e2), DSym("r1", p))
ASSUME \A e1, e2 \in GSigns : \A p \in All : GVJuxt(e1, e2, p) <=> GJuxt(Neg(e2), Neg(e1), DSym("r3", p))
\* reverse / complement act on the signs as expected
ASSUME \A e1, e2 \in GSigns : \A p \in All : GJuxt(e1, e2, p) <=> GJuxt(Neg(e2), Neg(e1), DSym("rev", p))
ASSUME \A e1, e2 \in GSigns : \A p \in All : GJuxt(e1, e2, p) <=> GJuxt(Neg(e1), Neg(e2), DSym("comp", p))
\* descent / ascent form: at most one descent; no ascent after a descent; ...
Desc(p) == {i \in 1..(Len(p) - 1) : p[i] > p[i + 1]}
Asc(p) == {i \in 1..(Len(p) - 1) : p[i] < p[i + 1]}
ASSUME \A p \in All : /\ GJuxt("+", "+", p) <=> Card(Desc(p)) <= 1
                      /\ GJuxt("-", "-", p) <=> Card(Asc(p)) <= 1
                      /\ GJuxt("+", "-", p) <=> (\A i \in Desc(p), j \in Asc(p) : j < i)
                      /\ GJuxt("-", "+", p) <=> (\A i \in Asc(p), j \in Desc(p) : j < i)
\* counting: 2^n - n juxtapositions of two increasing sequences, 2^(n-1) unimodal permutations
ASSUME \A n \in 0..N : Card(InN("WPP", n)) = Pow2(n) - n /\ Card(InN("WMM", n)) = Pow2(n) - n
ASSUME \A n \in 1..N : Card(InN("WPM", n)) = Pow2(n - 1) /\ Card(InN("WMP", n)) = Pow2(n - 1)
ASSUME \A n \in 0..N : Card(InN("WIPP", n)) = Pow2(n) - n /\ Card(InN("WIMM", n)) = Pow2(n) - n
ASSUME \A n \in 1..N : Card(InN("WIPM", n)) = Pow2(n - 1) /\ Card(InN("WIMP", n)) = Pow2(n - 1)

\* ---- the layered classes ----------------------------------------------------------------------
\* L2 = Av(231, 312, 321) (layered = Av(231, 312)); Fibonacci many; literally the direct sums of 1 and 21
RECURSIVE Compositions12(_)
Compositions12(n) == IF n = 0 THEN {<<>>} ELSE IF n = 1 THEN {<<1>>}
                     ELSE {<<1>> \o c : c \in Compositions12(n - 1)} \cup {<<2>> \o c : c \in Compositions12(n - 2)}
ASSUME \A p \in All : GInType("L2", p) <=> PAvoidsAll(p, {<<1, 2, 0>>, <<2, 0, 1>>, <<2, 1, 0>>})
ASSUME \A p \in All : GInType("L2I", p) <=> PAvoidsAll(p, {<<0, 2, 1>>, <<1, 0, 2>>, <<0, 1, 2>>})
ASSUME \A p \in All : GLayeredUpTo(Len(p), p) <=> PAvoidsAll(p, {<<1, 2, 0>>, <<2, 0, 1>>})
ASSUME \A n \in 0..N : InN("L2", n) = {ADirectSum([k \in DOMAIN c |-> PDecreasing(c[k])]) : c \in Compositions12(n)}
ASSUME \A n \in 0..N : InN("L2I", n) = {ASkewSum([k \in DOMAIN c |-> PIdentity(c[k])]) : c \in Compositions12(n)}
ASSUME \A n \in 0..N : Card(InN("L2", n)) = GFib(n) /\ Card(InN("L2I", n)) = GFib(n)
ASSUME \A p \in All : GInType("L2I", p) <=> GInType("L2", DSym("rev", p))
ASSUME \A p \in All : GInType("L2I", p) <=> GInType("L2", DSym("comp", p))
ASSUME \A p \in All : GInType("L2", p) <=> GInType("L2", DSym("inv", p))
ASSUME [n \in 1..9 |-> GFib(n - 1)] = <<1, 1, 2, 3, 5, 8, 13, 21, 34>>

\* ---- the ten classes are classes, have at least Fibonacci many members, and are incomparable ----
ASSUME \A t \in GTenTypes : \A p \in All : t \in TT[p] => \A c \in AChildren(p) : t \in TT[c]
ASSUME \A t \in GTenTypes : \A n \in 0..N : Card(InN(t, n)) >= GFib(n)
ASSUME \A t, u \in GTenTypes : t # u => \E p \in Upto(4) : t \in TT[p] /\ u \notin TT[p]
ASSUME \A p \in Upto(2) : TT[p] = GTenTypes
\* hence "Av(B) contains the class t" is the same as "no element of B is in t" (up to the bound)
ASSUME \A t \in GTenTypes : \A b \in Upto(4) : (b \notin In(t)) <=> (\A q \in In(t) \cap Upto(5) : PAvoids(q, b))
\* the symmetries permute the ten classes
ASSUME \A g \in DNames : \A p \in Upto(5) : Card(TT[DSym(g, p)]) = Card(TT[p])
ASSUME \A g \in GKeepsColumns : \A p \in Upto(5) :
          Card(GProps(DSym(g, p))) = Card(GProps(p))

\* ---- theorems on all bases over S1..S3 -----------------------------------------------------
Small == PPermsBetween(1, 3)
Bases == (SUBSET Small) \ {{}}
\* (C13_Verdicts mode "sets" checks the same three statements for every basis up to length 6 / 7)
M == 5
AvoidTab == [b \in Small |-> [n \in 0..M |-> {q \in S[n] : PAvoids(q, b)}]]
Level(B, n) == {q \in S[n] : \A b \in B : q \in AvoidTab[b][n]}
ASSUME \A B \in {{<<0, 1>>}, {<<0, 2, 1>>, <<1, 0>>}, {<<1, 2, 0>>, <<2, 1, 0>>}} : \A n \in 0..5 : Level(B, n) = PAvLevel(B, n)
VT == [B \in Bases |-> GVerdicts(B)]
LT == [B \in Bases |-> [n \in 0..M |-> Level(B, n)]]
ASSUME \A B \in Bases :
          /\ GFiniteEmptyBeyond(B, M, LAMBDA n : LT[B][n])
          /\ GInfiniteNeverEmpty(B, M, LAMBDA n : LT[B][n])
          /\ GFibonacciLower(B, M, LAMBDA n : LT[B][n])
\* Erdos-Szekeres is tight: the class is not yet empty at the bound
ASSUME \A a, b \in 1..3 : Level({PIdentity(a), PDecreasing(b)}, (a - 1) * (b - 1)) # {}
ASSUME \A a, b \in 1..3 : GESBound({PIdentity(a), PDecreasing(b)} \cup {<<1, 0, 2>>}) <= (a - 1) * (b - 1)
\* finite => polynomial => both insertion encodings
ASSUME \A B \in Bases : (VT[B].fin => VT[B].poly) /\ (VT[B].poly => (VT[B].ier /\ VT[B].iem))
                        /\ VT[B].npoly = ~VT[B].poly /\ VT[B].ie = (VT[B].ier \/ VT[B].iem)
\* only the minimal elements matter (the classes are closed downwards)
ASSUME \A B \in Bases : VT[GMinimal(B)] = VT[B]
\* monotone in the basis
ASSUME \A B \in Bases : \A b \in Small \ B : \E v \in {VT[B]}, w \in {VT[B \cup {b}]} :
          \A f \in {"fin", "poly", "ie", "ier", "iem"} : v[f] => w[f]
\* the symmetries (C13_Verdicts mode "sets" checks this for every basis of its universe)
ASSUME \A B \in Bases : Card(B) <= 2 => GSymInvariant(B)
\* topmost by quarter turn = membership in the four Albert-Linton-Ruskuc classes (any quarter turn)
ASSUME \A B \in Bases : /\ VT[B].iem = GMeets(B, {"WIPP", "WIPM", "WIMP", "WIMM"})
                        /\ VT[B].iem = GInsEncRight(DSymSet("r3", B))
                        /\ VT[B].iem = GInsEncRight(DSymSet("inv", B))

\* ---- literal examples -------------------------------------------------------------------------
\* Av(132, 321): n(n-1)/2 + 1, polynomial.   Av(123, 132): 2^(n-1).   Av(231): Catalan, no regular encoding.
ASSUME GPoly({<<0, 2, 1>>, <<2, 1, 0>>}) /\ \A n \in 0..M : Card(Level({<<0, 2, 1>>, <<2, 1, 0>>}, n)) = (n * (n - 1)) \div 2 + 1
ASSUME ~GPoly({<<0, 1, 2>>, <<0, 2, 1>>}) /\ \A n \in 1..M : Card(Level({<<0, 1, 2>>, <<0, 2, 1>>}, n)) = Pow2(n - 1)
ASSUME ~GInsEnc({<<1, 2, 0>>}) /\ ~GInsEnc({<<0, 1, 2>>}) /\ ~GPoly({<<1, 2, 0>>}) /\ ~GFinite({<<1, 2, 0>>})
\* Av(312, 231) (layered permutations) has the rational generating function of 2^(n-1): rightmost and topmost
ASSUME GInsEncRight({<<2, 0, 1>>, <<1, 2, 0>>}) /\ GInsEncTop({<<2, 0, 1>>, <<1, 2, 0>>}) /\ ~GPoly({<<2, 0, 1>>, <<1, 2, 0>>})
\* DESIGN.md witness: {021, 120} is topmost- but not rightmost-encodable
ASSUME ~GInsEncRight({<<0, 2, 1>>, <<1, 2, 0>>}) /\ GInsEncTop({<<0, 2, 1>>, <<1, 2, 0>>}) /\ GInsEnc({<<0, 2, 1>>, <<1, 2, 0>>})
\* Av(321, 2143, 3142) is W(+,+) itself: not polynomial, finite never; adding 123 makes it finite, bound 4
ASSUME ~GPoly(JBasis("+", "+")) /\ ~GInsEncRight(JBasis("+", "+")) /\ ~GFinite(JBasis("+", "+"))
ASSUME GFinite(JBasis("+", "+") \cup {<<0, 1, 2>>}) /\ GESBound(JBasis("+", "+") \cup {<<0, 1, 2>>}) = 4
ASSUME GFinite({<<0>>}) /\ GESBound({<<0>>}) = 0 /\ GPoly({<<0>>}) /\ GInsEncRight({<<0>>}) /\ GInsEncTop({<<0>>})
ASSUME GFinite({<<0, 1>>, <<1, 0>>}) /\ GESBound({<<0, 1>>, <<1, 0>>}) = 1 /\ ~GFinite({<<0, 1>>}) /\ GPoly({<<0, 1>>})
ASSUME GBasisSeq({<<0, 2, 1>>, <<1, 0>>, <<0, 1, 2>>}) = <<<<1, 0>>, <<0, 1, 2>>>>
ASSUME GTypes(<<0, 1, 2>>) = GTenTypes \ {"WMM", "WIMM", "L2I"}
\* 2413 = 24|13 and, by values, 21 below 43;  3142 is its inverse;  2143 = 21 (+) 21
ASSUME GTypes(<<1, 3, 0, 2>>) = {"WPP", "WIMM"} /\ GTypes(<<2, 0, 3, 1>>) = {"WMM", "WIPP"} /\ GTypes(<<1, 0, 3, 2>>) = {"L2", "WMM", "WIMM"}
\* a simple permutation of length 5 with no structure at all
ASSUME GTypes(<<1, 3, 0, 4, 2>>) = {}

VARIABLE dummy
Init == dummy = 0
Next == UNCHANGED dummy
=============================================================================
