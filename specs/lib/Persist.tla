------------------------------ MODULE Persist ------------------------------
(***************************************************************************)
(* What C20 needs, by definition.  All operators carry the prefix Ps.      *)
(*                                                                         *)
(* 1. Files.  The content of a data file is described by what is           *)
(*    PHYSICALLY in it: the sequence of JSON documents it holds (each      *)
(*    document identified by the number of the data set it encodes) and a  *)
(*    flag saying that bytes are present which do not belong to any        *)
(*    complete document (a truncated tail, garbage) or that there is no    *)
(*    document at all (a zero-byte file).  Append-versus-replace is thereby*)
(*    expressible: replacing leaves <<d>>, appending leaves <<.., d>>.     *)
(*    A file system is a function from the names of the EXISTING files to  *)
(*    contents; a missing file is simply not in its domain.                *)
(*    A reader has exactly two honest answers: the single document of a    *)
(*    well-formed file, or "invalid" (0).                                  *)
(* 2. Names.  <name>_<good|bad>_len<n> for data files; for the automaton   *)
(*    database the decimal values of the permutation concatenated (the     *)
(*    directory is S<length>).                                             *)
(* 3. Data sets.  The partition of S_0..S_n by a named predicate; the      *)
(*    predicates are those of module Devices (the table PsPred maps the    *)
(*    names used by the shipped files of permuta/resources/bisc).          *)
(***************************************************************************)
EXTENDS Devices

\* ---- 1. file contents ------------------------------------------------------------
PsContent(docs, junk) == [docs |-> docs, junk |-> junk]
PsSingle(d) == PsContent(<<d>>, FALSE)
PsJunk == PsContent(<<>>, TRUE)                  \* nothing readable (truncated / garbage / zero bytes)
PsTwice(d) == PsContent(<<d, d>>, FALSE)         \* two documents back to back (what appending leaves)
PsWellFormed(c) == Len(c.docs) = 1 /\ ~c.junk    \* "a single well-formed document"
\* The honest answer of a reader, a function of the file system alone: 0 = invalid.
PsReadValue(fs, f) == IF f \in DOMAIN fs THEN (IF PsWellFormed(fs[f]) THEN fs[f].docs[1] ELSE 0) ELSE 0
PsMissingOrMalformed(fs, f) == f \notin DOMAIN fs \/ ~PsWellFormed(fs[f])

\* partial maps
PsPut(m, k, v) == [x \in (DOMAIN m) \cup {k} |-> IF x = k THEN v ELSE m[x]]
PsDrop(m, k) == [x \in (DOMAIN m) \ {k} |-> m[x]]
PsNoMap == [x \in {} |-> 0]

\* ---- 2. names --------------------------------------------------------------------
PsKinds == {"good", "bad"}
PsStem(name, kind, n) == name \o "_" \o kind \o "_len" \o ToString(n)
RECURSIVE PsKey(_)
PsKey(p) == IF Len(p) = 0 THEN "" ELSE ToString(p[1]) \o PsKey(Tail(p))
PsDir(p) == "S" \o ToString(Len(p))

\* ---- 3. data sets ----------------------------------------------------------------
PsShippedNames == {"Baxter", "SimSun", "West_2_stack_sortable", "av_231_and_mesh", "dihedral", "forest_like",
                   "in_alternating_group", "quick_sortable", "smooth", "stack_sortable",
                   "yt_perm_avoids_22", "yt_perm_avoids_32"}
\* two further names used for the scratch data sets of the history machine
PsPredNames == PsShippedNames \cup {"even", "layered"}

PsPred(name, q) ==
    CASE name = "Baxter" -> DvBaxter(q)
      [] name = "SimSun" -> DvSimsun(q)
      [] name = "West_2_stack_sortable" -> DvIsIdentity(DvPasses("stack", q, 2))
      [] name = "av_231_and_mesh" -> DvAv231AndMesh(q)
      [] name = "dihedral" -> DvDihedral(q)
      [] name = "forest_like" -> DvForestLike(q)
      [] name = "in_alternating_group" -> DvAlternating(q)
      [] name = "quick_sortable" -> DvIsIdentity(DvQuickPass(q))
      [] name = "smooth" -> DvSmooth(q)
      [] name = "stack_sortable" -> DvSortableBy("stack", q)
      [] name = "yt_perm_avoids_22" -> DvYtAvoids22(q)
      [] name = "yt_perm_avoids_32" -> DvYtAvoids32(q)
      [] name = "even" -> DvAlternating(q)
      [] name = "layered" -> PAvoidsAll(q, {<<1, 2, 0>>, <<2, 0, 1>>})       \* 231, 312

\* Deviation of the shipped in_alternating_group files (the C12 finding, frozen into data):
\* nothing of length 2 is listed as good.
PsPred_AltN2(name, q) == IF name = "in_alternating_group" THEN DvAlternating_N2Excluded(q) ELSE PsPred(name, q)

\* the two sides of the partition at one length
PsSideBy(P(_, _), name, kind, n) == {q \in PPerms(n) : P(name, q) = (kind = "good")}
PsSide(name, kind, n) == PsSideBy(PsPred, name, kind, n)
PsListing(S) == SetToSortSeq(S, PLexLess)
PsRangeOf(s) == {s[i] : i \in DOMAIN s}
\* a listing holds exactly the set S: every member once, nothing else
PsListsExactly(list, S) == PsRangeOf(list) = S /\ Len(list) = Cardinality(S)
\* what is wrong with a listing (for witnesses): listed but not in S / in S but not listed
PsWrong(list, S) == (PsRangeOf(list) \ S) \cup (S \ PsRangeOf(list))
=============================================================================
