------------------------------- MODULE AvMech -------------------------------
(***************************************************************************)
(* The level-building mechanism of Av (permuta/perm_sets/permset.py) as    *)
(* pure operators on a level list L (L[k + 1] = level k; a level is a      *)
(* function perm |-> spots or Compacted).  Used by C02_AvCache (one        *)
(* thread, public calls atomic) and C07_AvThreads (several threads, one    *)
(* action per shared access).                                              *)
(***************************************************************************)
EXTENDS Mesh

Compacted == {-1}
IMax(a, b) == IF a >= b THEN a ELSE b

\* ---- the class by definition -----------------------------------------------------
AvoidsBasis(q, bd) == IF bd.mesh THEN \A M \in bd.elems : MAvoids(q, M) ELSE PAvoidsAll(q, bd.elems)
ClassLevel(bd, n) == {q \in PPerms(n) : AvoidsBasis(q, bd)}

\* ---- the mechanism, as coded ------------------------------------------------------
InsRight(p, v) == [i \in 1..(Len(p) + 1) |-> IF i = Len(p) + 1 THEN v ELSE IF p[i] >= v THEN p[i] + 1 ELSE p[i]]
DelStd(p, i0) == PStd(PSeqDel(p, i0 + 1))                      \* perm.remove(i0), 0-based index
ElemLen(bd, e) == IF bd.mesh THEN Len(e.p) ELSE Len(e)
MaxSize(bd) == Max({ElemLen(bd, e) : e \in bd.elems})

\* valid_insertions(perm): L is the level sequence, L[k + 1] = level k
ValidIns(L, bd, perm) ==
    LET n0 == Len(perm)
        lo == IMax(0, n0 - MaxSize(bd))
        \* (a function, so that TLC evaluates each admissible set once)
        acc == [i0 \in lo..(n0 - 1) |->
                  LET val == perm[i0 + 1]
                      spots == L[n0][DelStd(perm, i0)]          \* level n0-1, must not be compacted
                  IN {k \in spots : k <= val} \cup {k + 1 : k \in {s \in spots : s >= val}}]
    IN IF n0 = 0 THEN {0} ELSE {v \in 0..n0 : \A i0 \in lo..(n0 - 1) : v \in acc[i0]}
\* does building the next level read a compacted entry (the code would hit `assert spots is not None`)
WouldFault(L, bd) ==
    LET n0 == Len(L) - 1 IN
    \/ \E perm \in DOMAIN L[n0 + 1] : L[n0 + 1][perm] = Compacted
    \/ (n0 >= 1 /\ \E perm \in DOMAIN L[n0 + 1] : \E i0 \in IMax(0, n0 - MaxSize(bd))..(n0 - 1) :
                       LET sub == DelStd(perm, i0) IN sub \notin DOMAIN L[n0] \/ L[n0][sub] = Compacted)

\* the end values recorded for perm (a member of the last level) while the next level is built
GoodIns(L, bd, perm) == {v \in ValidIns(L, bd, perm) : InsRight(perm, v) \notin {e \in bd.elems : Len(e) = Len(L)}}
AppendClassical(L, bd) ==
    LET np1 == Len(L)                                           \* number of the level being built
        last == L[np1]
        good == [perm \in DOMAIN last |-> GoodIns(L, bd, perm)]
        newdom == UNION {{InsRight(perm, v) : v \in good[perm]} : perm \in DOMAIN last}
    IN Append([L EXCEPT ![np1] = [perm \in DOMAIN last |-> last[perm] \cup good[perm]]],
              [q \in newdom |-> {}])
\* The build of the next level abandoned (an exception passed through it) after the members in S of the last level
\* had been extended: their end values are recorded, the unfinished level itself was a local and is lost.
PartialClassical(L, bd, S) ==
    [L EXCEPT ![Len(L)] = [perm \in DOMAIN L[Len(L)] |-> IF perm \in S THEN L[Len(L)][perm] \cup GoodIns(L, bd, perm) ELSE L[Len(L)][perm]]]
\* a wrong design (refuted by C02_AvCache's LevelsExact): the level is registered before it is filled, so the abandoned
\* build leaves the part derived from S behind as if it were the whole level
EarlyAppendClassical(L, bd, S) ==
    Append(PartialClassical(L, bd, S), [q \in UNION {{InsRight(perm, v) : v \in GoodIns(L, bd, perm)} : perm \in S} |-> {}])
AppendMesh(L, bd) == Append(L, [q \in ClassLevel(bd, Len(L)) |-> Compacted])   \* the mesh path filters Perms(n)

RECURSIVE BuildTo(_, _, _)
\* TLC passes operator arguments by name and (while evaluating an action) does not cache them,
\* so a recursive operator whose argument is a computed value would recompute it at every
\* reference.  Binding the argument with a quantifier over a singleton set makes it a value.
BuildTo(L0, bd, n) == CHOOSE res \in { IF Len(L) > n THEN L
                                       ELSE BuildTo(IF bd.mesh THEN AppendMesh(L, bd) ELSE AppendClassical(L, bd), bd, n)
                                       : L \in {L0} } : TRUE
RECURSIVE FaultTo(_, _, _)
FaultTo(L0, bd, n) == \E L \in {L0} : IF Len(L) > n \/ bd.mesh THEN FALSE
                                        ELSE WouldFault(L, bd) \/ FaultTo(AppendClassical(L, bd), bd, n)

\* _ensure_level: build, then compact levels start..n-2 (start computed before building)
Ensure(L, bd, n) ==
    CHOOSE res \in { [k \in 1..Len(L2) |-> IF (k - 1) \in IMax(0, Len(L) - 2)..(n - 2)
                                           THEN [q \in DOMAIN L2[k] |-> Compacted] ELSE L2[k]]
                     : L2 \in {BuildTo(L, bd, n)} } : TRUE

FreshLevels == << [p \in {<<>>} |-> {0}] >>
=============================================================================
