------------------------------ MODULE Devices ------------------------------
(***************************************************************************)
(* Sorting devices, the Simion-Schmidt map and the named families of C12,  *)
(* each by its definition.  All operators carry the prefix Dv.             *)
(*                                                                         *)
(* A device is a state machine over [inp, stk, out]:                       *)
(*   inp  the entries not yet read (next one first),                       *)
(*   stk  the entries held by the device, TOP FIRST,                       *)
(*   out  the entries already emitted (first one first).                   *)
(* Its actions are Push / Pop / PopAll / Swap; the greedy policy of each   *)
(* device is the enabling condition of its actions, so from every state    *)
(* exactly one action is enabled until input and device are empty; the     *)
(* `out` of that final state is what one pass of the device produces.      *)
(*   stack   West's stack: Push while the next entry is smaller than the   *)
(*           top, otherwise Pop one entry.                                 *)
(*   pop     pop-stack: same Push rule, but the only way out is PopAll     *)
(*           (the whole stack, top first).                                 *)
(*   bubble  one left-to-right pass of adjacent transpositions: the cell   *)
(*           under the cursor is stk (at most one entry), the array is     *)
(*           out \o stk \o inp; Swap exchanges the held entry with a       *)
(*           smaller right neighbour, Pop leaves it behind when the right  *)
(*           neighbour is larger (or there is none), Push moves the cursor *)
(*           onto the next cell.                                           *)
(***************************************************************************)
EXTENDS Mesh

DvIsIdentity(p) == \A i \in DOMAIN p : p[i] = i - 1
DvRangeOf(s) == {s[i] : i \in DOMAIN s}

\* ---------------------------------------------------------------------------------
\* devices
DvDevices == {"stack", "pop", "bubble"}
DvState(i, s, o) == [inp |-> i, stk |-> s, out |-> o]
DvStart(p) == DvState(p, <<>>, <<>>)
DvFinal(d) == Len(d.inp) = 0 /\ Len(d.stk) = 0

DvActs(dev) == CASE dev = "stack"  -> {"Push", "Pop"}
                 [] dev = "pop"    -> {"Push", "PopAll"}
                 [] dev = "bubble" -> {"Push", "Swap", "Pop"}
                 [] OTHER -> {}

DvNextSmaller(d) == Len(d.inp) > 0 /\ Len(d.stk) > 0 /\ Head(d.inp) < Head(d.stk)
\* (IF, not \/: inside an action TLC explores both sides of a disjunction)
DvNextLargerOrNone(d) == Len(d.stk) > 0 /\ (IF Len(d.inp) = 0 THEN TRUE ELSE Head(d.inp) > Head(d.stk))

DvEnabled(dev, a, d) ==
    CASE a = "Push"   -> /\ Len(d.inp) > 0
                         /\ IF dev = "bubble" THEN Len(d.stk) = 0
                            ELSE (IF Len(d.stk) = 0 THEN TRUE ELSE DvNextSmaller(d))
      [] a = "Pop"    -> dev \in {"stack", "bubble"} /\ DvNextLargerOrNone(d)
      [] a = "PopAll" -> dev = "pop" /\ DvNextLargerOrNone(d)
      [] a = "Swap"   -> dev = "bubble" /\ DvNextSmaller(d)
      [] OTHER -> FALSE

DvApply(a, d) ==
    CASE a = "Push"   -> DvState(Tail(d.inp), <<Head(d.inp)>> \o d.stk, d.out)
      [] a = "Pop"    -> DvState(d.inp, Tail(d.stk), Append(d.out, Head(d.stk)))
      [] a = "PopAll" -> DvState(d.inp, <<>>, d.out \o d.stk)
      [] a = "Swap"   -> DvState(Tail(d.inp), d.stk, Append(d.out, Head(d.inp)))

DvEnabledSet(dev, d) == {a \in DvActs(dev) : DvEnabled(dev, a, d)}
DvStep(dev, d) == DvApply(CHOOSE a \in DvActs(dev) : DvEnabled(dev, a, d), d)

\* the behaviour of the device run to its end (arguments bound through singleton sets:
\* TLC passes operator arguments by name)
RECURSIVE DvRun(_, _)
DvRun(dev, d) == IF DvFinal(d) THEN d.out
                 ELSE CHOOSE r \in {DvRun(dev, e) : e \in {DvStep(dev, d)}} : TRUE
DvPass(dev, p) == DvRun(dev, DvStart(p))

RECURSIVE DvPasses(_, _, _)
DvPasses(dev, p, k) == IF k = 0 THEN p
                       ELSE CHOOSE r \in {DvPasses(dev, q, k - 1) : q \in {DvPass(dev, p)}} : TRUE
DvSortableBy(dev, p) == DvIsIdentity(DvPass(dev, p))
\* number of passes needed to reach the identity
RECURSIVE DvCount(_, _)
DvCount(dev, p) == IF DvIsIdentity(p) THEN 0
                   ELSE CHOOSE r \in {1 + DvCount(dev, q) : q \in {DvPass(dev, p)}} : TRUE

\* ---------------------------------------------------------------------------------
\* one pass of quicksort: strong fixed points (everything before smaller, everything
\* after larger) stay where they are; every maximal block between them is partitioned
\* around its first entry: the smaller entries in their order, the pivot, the larger ones.
DvStrongFixed(p) == {i \in DOMAIN p : /\ \A j \in 1..(i - 1) : p[j] < p[i]
                                      /\ \A j \in (i + 1)..Len(p) : p[j] > p[i]}
DvPartition(s) == SelectSeq(s, LAMBDA x : x < s[1]) \o <<s[1]>> \o SelectSeq(s, LAMBDA x : x > s[1])
DvQuickPass(p) ==
    LET F == DvStrongFixed(p)
        n == Len(p)
        lo(i) == CHOOSE a \in 1..i : (a..i) \cap F = {} /\ (a = 1 \/ (a - 1) \in F)
        hi(i) == CHOOSE b \in i..n : (i..b) \cap F = {} /\ (b = n \/ (b + 1) \in F)
    IN  [i \in 1..n |-> IF i \in F THEN p[i]
                        ELSE DvPartition(SubSeq(p, lo(i), hi(i)))[i - lo(i) + 1]]

\* ---------------------------------------------------------------------------------
\* barred patterns: q avoids the barred pattern (full, b) - b the 1-based index of the
\* barred entry - iff every occurrence of the pattern without the barred entry extends
\* to an occurrence of the full pattern.
DvBarredAvoids(q, full, b) ==
    \A t \in POcc(PStd(PSeqDel(full, b)), q) : \E u \in POcc(full, q) : PSeqDel(u, b) = t
DvVinc(p, X) == MBiv(p, X, {})

\* pattern characterisations of the sortable classes (one-based names in the comments)
DvCharStack(q)  == PAvoids(q, <<1, 2, 0>>)                                       \* 231
DvCharPop(q)    == PAvoidsAll(q, {<<1, 2, 0>>, <<2, 0, 1>>})                     \* 231, 312
DvCharBubble(q) == PAvoidsAll(q, {<<1, 2, 0>>, <<2, 1, 0>>})                     \* 231, 321
DvCharWest2(q)  == PAvoids(q, <<1, 2, 3, 0>>) /\ DvBarredAvoids(q, <<2, 4, 1, 3, 0>>, 2)   \* 2341, 3-5bar-241
DvCharQuick(q)  == /\ PAvoidsAll(q, {<<2, 1, 0>>, <<1, 3, 0, 2>>})               \* 321, 2413
                   /\ MAvoids(q, MMesh(<<1, 0, 3, 2>>, {<<2, 2>>}))              \* (2143, {(2,2)})
DvChar(dev, q) == CASE dev = "stack" -> DvCharStack(q) [] dev = "pop" -> DvCharPop(q)
                    [] dev = "bubble" -> DvCharBubble(q) [] dev = "quick" -> DvCharQuick(q)

\* ---------------------------------------------------------------------------------
\* Simion-Schmidt.  Left-to-right minima as <<position, value>> pairs.
DvLtrMin(p) == {<<i, p[i]>> : i \in {i \in DOMAIN p : \A j \in 1..(i - 1) : p[j] > p[i]}}
DvAv123(q) == PAvoids(q, <<0, 1, 2>>)
DvAv132(q) == PAvoids(q, <<0, 2, 1>>)
\* Declaratively: the image of a 123-avoider is THE 132-avoider with the same left-to-right
\* minima (U = the 132-avoiders of that length); the inverse likewise with U = 123-avoiders.
DvSameLtrMin(p, U) == {q \in U : DvLtrMin(q) = DvLtrMin(p)}
DvSSDecl(p, U) == CHOOSE q \in DvSameLtrMin(p, U) : TRUE
\* As written in the paper (Restricted permutations, Prop. 19): scan left to right with x the
\* running minimum; a new minimum is copied; any other position receives, forward, the least
\* value above x not yet placed and, backward, the greatest value not yet placed.
RECURSIVE DvSSFill(_, _, _)
DvSSFill(p, inv, img) ==
    IF Len(img) = Len(p) THEN img
    ELSE LET i == Len(img) + 1
             x == CHOOSE m \in DvRangeOf(SubSeq(p, 1, i - 1)) : \A w \in DvRangeOf(SubSeq(p, 1, i - 1)) : m <= w
             free == (0..(Len(p) - 1)) \ DvRangeOf(img)
             v == IF i = 1 \/ p[i] < x THEN p[i]
                  ELSE IF inv THEN CHOOSE k \in free : \A w \in free : w <= k
                  ELSE CHOOSE k \in {f \in free : f > x} : \A w \in {f \in free : f > x} : k <= w
         IN CHOOSE r \in {DvSSFill(p, inv, nxt) : nxt \in {Append(img, v)}} : TRUE
DvSSPaper(p, inv) == DvSSFill(p, inv, <<>>)
DvSSDomain(p, inv) == IF inv THEN DvAv132(p) ELSE DvAv123(p)

\* ---------------------------------------------------------------------------------
\* named families
\* Baxter: avoids the vincular patterns 2-41-3 and 3-14-2 (the two middle letters adjacent)
DvBaxter(q) == MAvoids(q, DvVinc(<<1, 3, 0, 2>>, {2})) /\ MAvoids(q, DvVinc(<<2, 0, 3, 1>>, {2}))
\* equivalently (Gire) the barred patterns 25-3bar-14 and 41-3bar-52
DvBaxterBarred(q) == DvBarredAvoids(q, <<1, 4, 2, 0, 3>>, 3) /\ DvBarredAvoids(q, <<3, 0, 2, 4, 1>>, 3)
\* simsun: no restriction to the k smallest values has a double descent
DvDoubleDescentFree(w) == \A i \in 1..(Len(w) - 2) : ~(w[i] > w[i + 1] /\ w[i + 1] > w[i + 2])
DvSimsun(q) == \A k \in 0..Len(q) : DvDoubleDescentFree(SelectSeq(q, LAMBDA v : v < k))
\* smooth (Lakshmibai-Sandhya): avoids 1324 and 2143
DvSmooth(q) == PAvoidsAll(q, {<<0, 2, 1, 3>>, <<1, 0, 3, 2>>})
\* forest-like (Bousquet-Melou - Butler): avoids 1324 and the barred pattern 21-3bar-54
DvForestLike(q) == PAvoids(q, <<0, 2, 1, 3>>) /\ DvBarredAvoids(q, <<1, 0, 2, 4, 3>>, 3)
\* dihedral group: the symmetries of the n-gon with corners 0..n-1 (n >= 3): the bijections
\* of the corners that map neighbours to neighbours.  (Documented convention: no dihedral
\* group inside S_1 and S_2.)
DvGonNeighbours(n, a, b) == (a - b) % n \in {1, n - 1}
DvDihedral(q) == LET n == Len(q) IN
                 n >= 3 /\ \A i \in 1..n : DvGonNeighbours(n, q[i], q[(i % n) + 1])
DvDihedralGroup(n, Sn) == {q \in Sn : DvDihedral(q)}      \* Sn = all permutations of length n
\* alternating group: even number of inversions
DvInversions(q) == {pr \in (DOMAIN q) \X (DOMAIN q) : pr[1] < pr[2] /\ q[pr[1]] > q[pr[2]]}
DvAlternating(q) == Cardinality(DvInversions(q)) % 2 = 0
\* Deviation of the implementation (known finding, tests pin it): nothing of length 2 is accepted
DvAlternating_N2Excluded(q) == IF Len(q) = 2 THEN FALSE ELSE DvAlternating(q)
\* sign through the cycle type (cross-check): n - #cycles even
RECURSIVE DvWalk(_, _, _)
DvWalk(q, j, acc) == IF j \in acc THEN acc
                     ELSE CHOOSE r \in {DvWalk(q, q[j] + 1, a2) : a2 \in {acc \cup {j}}} : TRUE
DvCycleOf(q, i) == DvWalk(q, i, {})
DvCycles(q) == {DvCycleOf(q, i) : i \in DOMAIN q}
DvEvenByCycles(q) == (Len(q) - Cardinality(DvCycles(q))) % 2 = 0

\* Shape of the Young tableau through Greene's theorem: lambda_1 + ... + lambda_k is the
\* largest size of a union of k increasing subsequences (sets of positions).
DvIncSets(q) == {S \in SUBSET (DOMAIN q) : \A i, j \in S : i < j => q[i] < q[j]}
DvDecSets(q) == {S \in SUBSET (DOMAIN q) : \A i, j \in S : i < j => q[i] > q[j]}
RECURSIVE DvUnionsOf(_, _)
DvUnionsOf(I, k) == IF k = 0 THEN {{}}
                    ELSE CHOOSE r \in {{A \cup B : A \in U, B \in I} : U \in {DvUnionsOf(I, k - 1)}} : TRUE
DvMaxCard(SS) == CHOOSE c \in {Cardinality(S) : S \in SS} : \A S \in SS : Cardinality(S) <= c
DvGreene(q, k) == DvMaxCard(DvUnionsOf(DvIncSets(q), k))
DvGreeneDual(q, k) == DvMaxCard(DvUnionsOf(DvDecSets(q), k))
DvRow(q, k) == DvGreene(q, k) - DvGreene(q, k - 1)            \* lambda_k, k >= 1
DvShape(q) == LET all == [k \in 1..Len(q) |-> DvRow(q, k)] IN SelectSeq(all, LAMBDA r : r > 0)
\* "the tableau contains the shape mu" = mu fits into the shape, row by row
DvShapeContains(q, mu) == \A k \in DOMAIN mu : DvRow(q, k) >= mu[k]
DvYtAvoids22(q) == ~DvShapeContains(q, <<2, 2>>)
DvYtAvoids32(q) == ~DvShapeContains(q, <<3, 2>>)

\* the two documented mesh-pattern properties
DvAv231AndMesh(q) == /\ PAvoids(q, <<1, 2, 0>>)
                     /\ MAvoids(q, MMesh(<<0, 1, 5, 2, 3, 4>>, {<<1, 6>>, <<4, 5>>, <<4, 6>>}))
DvHardMesh(q) == /\ MAvoids(q, MMesh(<<0, 1, 2>>, {<<0, 0>>, <<1, 1>>, <<2, 2>>, <<3, 3>>}))
                 /\ MAvoids(q, MMesh(<<0, 1, 2>>, {<<0, 3>>, <<1, 2>>, <<2, 1>>, <<3, 0>>}))

DvFamilyNames == {"smooth", "forest_like", "baxter", "simsun", "dihedral", "in_alternating_group",
                  "yt_perm_avoids_22", "yt_perm_avoids_32", "av_231_and_mesh", "hard_mesh"}
DvFamily(name, q) ==
    CASE name = "smooth" -> DvSmooth(q)
      [] name = "forest_like" -> DvForestLike(q)
      [] name = "baxter" -> DvBaxter(q)
      [] name = "simsun" -> DvSimsun(q)
      [] name = "dihedral" -> DvDihedral(q)
      [] name = "in_alternating_group" -> DvAlternating(q)
      [] name = "yt_perm_avoids_22" -> DvYtAvoids22(q)
      [] name = "yt_perm_avoids_32" -> DvYtAvoids32(q)
      [] name = "av_231_and_mesh" -> DvAv231AndMesh(q)
      [] name = "hard_mesh" -> DvHardMesh(q)
=============================================================================
