-------------------------- MODULE LibSanity_Simples --------------------------
EXTENDS Simples
ASSUME SWedge2(4) = <<1, 3, 5, 7, 4, 2, 0, 6>>
ASSUME SWedge1a(4) = <<4, 2, 5, 1, 6, 0, 7, 3>>
ASSUME SWedge1b(4) = <<3, 5, 2, 6, 1, 7, 0, 4>>
ASSUME SParAlt(2) = <<2, 0, 3, 1>>
ASSUME \A f \in SFamilies : \A k \in 2..4 : PIsPerm(SMember(f, k)) /\ AIsSimple(SMember(f, k))
\* chains with step 2
ASSUME \A f \in SFamilies : \A k \in 2..3 : PContains(SMember(f, k + 1), SMember(f, k))
\* stabilisation: a pattern of length m occurs in the member of length 2(m+1) iff in the next one
ASSUME \A f \in SFamilies : \A b \in PPermsBetween(1, 3) :
          PContains(SMember(f, Len(b) + 1), b) <=> PContains(SMember(f, Len(b) + 2), b)
VARIABLE dummy
Init == dummy = 0
Next == UNCHANGED dummy
=============================================================================
