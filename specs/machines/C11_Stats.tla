----------------------------- MODULE C11_Stats -----------------------------
(***************************************************************************)
(* C11: every permutation statistic returns the value its definition and   *)
(* name promise.  A state is one permutation together with the record of   *)
(* every statistic / listing by definition (ideal = StObs) and the fields  *)
(* for which a named deviation of the implementation is a known finding    *)
(* (dev = StObsDev).  Init ranges over all permutations of length          *)
(* MinLen..MaxLen (sharded); there are no actions: the reply is a function *)
(* of the input.  The invariants are properties of the SPECIFICATION:      *)
(* each count is the cardinality of its listing and the classical          *)
(* identities hold, so that a wrong definition cannot go unnoticed.        *)
(***************************************************************************)
EXTENDS Stats, Json

CONSTANTS MinLen, MaxLen, Shard, NShards

VARIABLES perm, ideal, dev
vars == <<perm, ideal, dev>>

\* shard hash (3^i mod 17 as position weights: measured spread 40..54 of 720 over 16 shards)
ShardW == <<3, 9, 10, 13, 5, 15, 11, 16, 14, 8>>
Weight(q) == StSumOver(DOMAIN q, LAMBDA i : ShardW[i] * q[i]) + Len(q)
Universe == {q \in PPermsBetween(MinLen, MaxLen) : Weight(q) % NShards = Shard}

Init == /\ perm \in Universe
        /\ \E both \in {StObsBoth(perm)} : ideal = both.i /\ dev = both.d
Stutter == UNCHANGED vars

N0 == Len(perm)
NM == ideal.named
Binom(a, b) == IF b = 2 THEN (a * (a - 1)) \div 2
               ELSE IF b = 3 THEN (a * (a - 1) * (a - 2)) \div 6
               ELSE (a * (a - 1) * (a - 2) * (a - 3)) \div 24
SeqSum(s) == StSumOver(DOMAIN s, LAMBDA k : s[k])
SeqSet(s) == {s[k] : k \in DOMAIN s}

TypeOK == PIsPerm(perm) /\ Len(NM) = 32 /\ DOMAIN dev.named = 1..32

\* each counting form is the size of the corresponding listing form
CountsAreCardinalities ==
    /\ NM[1] = Len(ideal.inv) /\ NM[2] = Len(ideal.noninv)
    /\ NM[4] = Len(ideal.des) /\ NM[5] = Len(ideal.asc) /\ NM[6] = Len(ideal.peaks) /\ NM[7] = Len(ideal.valleys)
    /\ NM[8] = Len(ideal.cycles)
    /\ NM[9] = Len(ideal.ltrmin) /\ NM[10] = Len(ideal.ltrmax) /\ NM[11] = Len(ideal.rtlmin) /\ NM[12] = Len(ideal.rtlmax)
    /\ NM[13] = Len(ideal.fix) /\ NM[24] = Len(ideal.pinn)
    /\ NM[25] = Len(ideal.cpk) /\ NM[26] = Len(ideal.cval) /\ NM[27] = Len(ideal.cdexc) /\ NM[28] = Len(ideal.cddrop)
    /\ NM[29] = Len(ideal.fmax) /\ NM[30] = Len(ideal.amin) /\ NM[31] = Len(ideal.amax) /\ NM[32] = Len(ideal.fmin)
    /\ dev.named[29] = Len(dev.fmax) /\ dev.named[30] = Len(dev.amin)
    /\ dev.named[31] = Len(dev.amax) /\ dev.named[32] = Len(dev.fmin)
    /\ NM[3] = ideal.maj /\ NM[14] = ideal.order /\ NM[15] = ideal.lis /\ NM[16] = ideal.lds /\ NM[17] = ideal.depth
    /\ NM[18] = ideal.bounces /\ NM[19] = ideal.maxdrop /\ NM[20] = ideal.colprimes /\ NM[21] = ideal.holey
    /\ NM[22] = ideal.ssorts /\ NM[23] = ideal.psorts
    /\ dev.named[15] = ideal.lra[1] /\ dev.named[16] = ideal.lrd[1]
    /\ \A s \in DOMAIN ideal.desStep : SeqSet(ideal.desStep[s]) \subseteq SeqSet(ideal.des)
    /\ SeqSum([s \in DOMAIN ideal.desStep |-> Len(ideal.desStep[s])]) = Len(ideal.des)
    /\ SeqSum([s \in DOMAIN ideal.ascStep |-> Len(ideal.ascStep[s])]) = Len(ideal.asc)
    /\ Len(ideal.bonds) = Len(ideal.incb) + Len(ideal.decb)

\* classical identities
Identities ==
    /\ (N0 > 0 => NM[4] + NM[5] = N0 - 1)                                          \* des + asc = n - 1
    /\ NM[1] + NM[2] = Binom(N0, 2)                                                \* inv + non-inv = C(n,2)
    /\ SeqSum(ideal.renc) = NM[1]                                                 \* rank encoding sums to inv
    /\ NM[1] = Cardinality(StInversions(StInverse(perm)))                         \* inv(p) = inv(p^-1)
    /\ NM[8] = Cardinality(StCycleSets(StInverse(perm)))
    /\ NM[3] = SeqSum([k \in DOMAIN ideal.des |-> ideal.des[k] + 1])              \* maj = sum of descent positions
    /\ NM[3] <= Binom(N0, 2)
    /\ NM[6] - NM[7] \in {-1, 0, 1}                                               \* peaks and valleys alternate
    /\ SeqSet(ideal.bends) = SeqSet(ideal.peaks) \cup SeqSet(ideal.valleys)
    /\ NM[15] * NM[16] >= N0                                                       \* Erdos-Szekeres
    /\ ideal.lra[1] <= NM[15] /\ ideal.lrd[1] <= NM[16]                           \* a run is a subsequence
    /\ SeqSet(ideal.sfix) = SeqSet(ideal.fix) \cap SeqSet(ideal.ltrmax)
    /\ (ideal.invol <=> ideal.order <= 2)
    /\ SeqSum([k \in DOMAIN ideal.cycles |-> Len(ideal.cycles[k])]) = N0
    /\ NM[17] <= NM[1] /\ 2 * NM[17] >= NM[1] + (N0 - NM[8])                       \* depth between (inv + refl)/2 and inv
    /\ NM[25] = NM[26]                                                            \* cyclic peaks = cyclic valleys
    /\ NM[25] + NM[26] + NM[27] + NM[28] + NM[13] = N0
    /\ NM[20] <= N0 /\ NM[21] >= 0 /\ NM[19] >= 0
    /\ (N0 > 0 => NM[22] <= N0 - 1 /\ NM[23] <= N0 - 1)
    /\ (NM[22] = 0 <=> perm = PIdentity(N0)) /\ (NM[23] = 0 <=> perm = PIdentity(N0))
    /\ (ideal.gapdef => ideal.gap >= 2)
    /\ SeqSum([k \in DOMAIN ideal.layers |-> Len(ideal.layers[k])]) = N0
    /\ SeqSum([k \in DOMAIN dev.layers |-> Len(dev.layers[k])]) = N0
    /\ SeqSum([k \in DOMAIN ideal.pats3 |-> ideal.pats3[k][2]]) = Binom(N0, 3)
    /\ SeqSum([k \in DOMAIN ideal.pats4 |-> ideal.pats4[k][2]]) = Binom(N0, 4)
    /\ ideal.mdr <= NM[16]                                                        \* the k largest in decreasing order form a decreasing subsequence

\* the deviations touch only what they are said to touch
DeviationShape ==
    /\ \A k \in 1..32 : k \notin StDeviatingIndices => dev.named[k] = NM[k]
    /\ (N0 > 0 => dev.layers[1] = ideal.layers[1])                                 \* the first layer is peeled from a permutation

EmitState == PrintT(ToJson([p |-> perm, i |-> ideal, d |-> dev]))
=============================================================================
