---------------------------- MODULE C07_Behaviours ----------------------------
(***************************************************************************)
(* C07_AvThreads with a history variable: the sequence of *observable*     *)
(* events of a behaviour (lock taken / released, level appended, level     *)
(* compacted, call completed).  TLC simulates behaviours of the coded lock *)
(* discipline and prints the event word of every completed behaviour; the  *)
(* harness steps the real threads through the same word ("let thread t run *)
(* until its next observable event") and compares the projected state      *)
(* after every event.                                                      *)
(***************************************************************************)
EXTENDS C07_AvThreads

VARIABLE hist
hvars == <<vars, hist>>
Ev(t, kind, k) == [t |-> t, kind |-> kind, k |-> k]
HInit == Init /\ hist = <<>>
HStep(t) ==
    \/ Acquire(t) /\ hist' = Append(hist, Ev(t, "Acquire", 0))
    \/ AppendLevel(t) /\ hist' = Append(hist, Ev(t, "AppendLevel", Len(cache)))
    \/ CompactOne(t) /\ hist' = IF cache' # cache THEN Append(hist, Ev(t, "CompactOne", cidx[t])) ELSE hist
    \/ Release(t) /\ hist' = Append(hist, Ev(t, "Release", 0))
    \/ ReadLevel(t) /\ hist' = Append(hist, Ev(t, "CallDone", Len(res'[t])))
    \/ (Begin(t) \/ ReadLen(t) \/ Loop(t) \/ Fill(t)) /\ UNCHANGED hist
HNext == \E t \in Threads : HStep(t)
EmitHist == AllDone => PrintT(ToJson([word |-> hist]))
=============================================================================
