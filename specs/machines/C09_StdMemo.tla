---------------------------- MODULE C09_StdMemo ----------------------------
(***************************************************************************)
(* C09, part 2: standardisation and its memo.                              *)
(*                                                                         *)
(* An input is an order pattern (a sequence over 0..MaxVal, repetitions    *)
(* allowed) carried by Python values of some kind ("carrier": ints,        *)
(* strings, floats, tuples, Fractions, lists, integers whose hashes        *)
(* collide, ...).  The reply of Perm.to_standard depends on the order      *)
(* pattern only and is PStd(pattern): the unique permutation               *)
(* order-isomorphic to the input, ties increasing from left to right.      *)
(*                                                                         *)
(* Mode "inputs":  one state per order pattern of length <= MaxSeqLen      *)
(*                 (sharded), reply by definition, cross-checked with the  *)
(*                 second characterisation LIsStdOf.                       *)
(* Mode "history": the memo as the code keeps it - a hash table of entries *)
(*                 [h, key, val] shared by all callers.  Standardise(i)    *)
(*                 looks the key up (an entry is found iff its KEY equals  *)
(*                 the input's key), answers from the entry, otherwise     *)
(*                 computes, stores, answers; unhashable inputs bypass the *)
(*                 table.  Use(i) performs a containment query with the    *)
(*                 object the memo holds for input i as the pattern (this  *)
(*                 populates that object's pattern-details cache).         *)
(*                 ReplyNeverDependsOnMemo: the reply is PStd(input)       *)
(*                 whatever the memo holds (an action property, because a  *)
(*                 hit does not change the memo).                          *)
(*                 Lookup = "hashonly" is the deviation "an entry is found *)
(*                 iff its HASH equals the input's hash"; TLC must refute  *)
(*                 the property for it on the same universe (the universe  *)
(*                 contains inputs with equal hashes and different         *)
(*                 replies), which shows the check is not vacuous.         *)
(***************************************************************************)
EXTENDS LexRank, Json

CONSTANTS Mode, MaxVal, MaxSeqLen, Shard, NShards,
          Inputs,        \* history mode: sequence of [pat, key, hash, hashable]
          Lookup,        \* "key" | "hashonly"
          MaxMemo,       \* the tour explores memo tables up to this size
          Target         \* the permutation searched in Use

VARIABLES pat, reply, memo, used, act
vars == <<pat, reply, memo, used, act>>

\* ---- inputs mode ---------------------------------------------------------------------
SeqSum(s) == LSeqSum(s)
Universe == {s \in UNION {[1..k -> 0..MaxVal] : k \in 0..MaxSeqLen} : (SeqSum(s) + 3 * Len(s)) % NShards = Shard}
InitInputs == /\ Mode = "inputs" /\ pat \in Universe /\ reply = PStd(pat)
              /\ memo = {} /\ used = {} /\ act = [name |-> "Init", i |-> 0, hit |-> FALSE]

\* ---- history mode ----------------------------------------------------------------------
\* The harness tells, from Python's own == and hash() on the input tuples (not from Permuta), which
\* inputs are equal as memo keys (field key) and which have equal hashes (field hash): equal keys
\* imply equal hashes, but inputs such as (-1, -2) / (-2, -1) or tuples over 0, 2^61-1, 2(2^61-1)
\* have equal hashes and are different keys.
KeyOf(i) == <<Inputs[i].key, Inputs[i].pat>>
HashOf(i) == Inputs[i].hash
Found(i) == IF Lookup = "key" THEN {e \in memo : e.key = KeyOf(i)}
            ELSE {e \in memo : e.h = HashOf(i)}
InitHistory == /\ Mode = "history" /\ pat = <<>> /\ reply = <<>> /\ memo = {} /\ used = {}
               /\ act = [name |-> "Init", i |-> 0, hit |-> FALSE]
Standardise(i) ==
    /\ pat' = Inputs[i].pat
    /\ IF ~Inputs[i].hashable
       THEN reply' = PStd(Inputs[i].pat) /\ UNCHANGED memo /\ act' = [name |-> "Standardise", i |-> i, hit |-> FALSE]
       ELSE IF Found(i) # {}
            THEN /\ reply' = (CHOOSE e \in Found(i) : TRUE).val
                 /\ UNCHANGED memo /\ act' = [name |-> "Standardise", i |-> i, hit |-> TRUE]
            ELSE /\ reply' = PStd(Inputs[i].pat)
                 /\ memo' = memo \cup {[h |-> HashOf(i), key |-> KeyOf(i), val |-> PStd(Inputs[i].pat)]}
                 /\ act' = [name |-> "Standardise", i |-> i, hit |-> FALSE]
    /\ UNCHANGED used
\* a containment query with the memoised object as the pattern; nothing the property talks about changes
Use(i) == /\ Inputs[i].hashable /\ \E e \in memo : e.key = KeyOf(i)
          /\ used' = used \cup {KeyOf(i)}
          /\ pat' = Inputs[i].pat /\ reply' = PStd(Inputs[i].pat)
          /\ act' = [name |-> "Use", i |-> i, hit |-> TRUE] /\ UNCHANGED memo
Init == InitInputs \/ InitHistory
Next == /\ Mode = "history"
        /\ \E i \in DOMAIN Inputs : Standardise(i) \/ Use(i)

\* ---- properties -------------------------------------------------------------------------
\* the reply is the standardisation of the input whatever the memo holds
ReplyIsStd == reply = PStd(pat)
\* the same, stated on transitions: with the VIEW below a hit leads to an already known state, and TLC
\* evaluates invariants on new states only but action properties on every transition
ReplyNeverDependsOnMemo == [][reply' = PStd(pat')]_vars
\* second characterisation: order-isomorphic with ties increasing left to right, and unique
ReplyIsOrderIso == LIsStdOf(reply, pat)
ReplyUnique == Len(pat) <= 4 => \A r \in PPerms(Len(pat)) : LIsStdOf(r, pat) => r = reply
\* a permutation is its own standardisation; standardising is idempotent
FixedPoints == (PIsPerm(pat) => reply = pat) /\ PStd(reply) = reply
\* the memo only ever holds correct entries, one per key
MemoSound == /\ \A e \in memo : e.val = PStd(e.key[2])
             /\ \A e, f \in memo : e.key = f.key => e = f
             /\ used \subseteq {e.key : e \in memo}
\* the universe does contain equal hashes with different replies (otherwise "hashonly" would pass)
CollisionsPresent == Mode = "history" =>
    /\ \E i, j \in DOMAIN Inputs : /\ Inputs[i].hashable /\ Inputs[j].hashable /\ HashOf(i) = HashOf(j)
                                   /\ PStd(Inputs[i].pat) # PStd(Inputs[j].pat)
    /\ \A i, j \in DOMAIN Inputs : KeyOf(i) = KeyOf(j) => HashOf(i) = HashOf(j)
    /\ \A i, j \in DOMAIN Inputs : Inputs[i].key = Inputs[j].key => Inputs[i].pat = Inputs[j].pat

MemoBound == Cardinality(memo) <= MaxMemo
View == <<memo, used>>
EmitState == Mode = "inputs" => PrintT(ToJson([pat |-> pat, std |-> reply]))
KeysOf(m) == {e.key : e \in m}
EmitEdge == PrintT(ToJson([from |-> [memo |-> KeysOf(memo), used |-> used],
                           act |-> act', reply |-> reply', occ |-> POccSeq0(reply', Target),
                           to |-> [memo |-> KeysOf(memo'), used |-> used']]))
=============================================================================
