---------------------------- MODULE C12_Devices ----------------------------
(***************************************************************************)
(* C12: sorting operators, the Simion-Schmidt map and the named families.  *)
(*                                                                         *)
(* For every permutation of the universe and every device (stack,          *)
(* pop-stack, bubble) the machine really runs the device, one action per   *)
(* step: Push / Pop / PopAll / Swap, enabled by the greedy policy of the   *)
(* device (module Devices).  When input and device are empty the pass is   *)
(* over and `out` is, by definition, what one pass produces.  For the      *)
(* stack and the pop-stack the output is fed in again (Refeed) until it is *)
(* the identity: the number of passes run is the sort count.               *)
(*                                                                         *)
(* dev = "static" states carry no behaviour: they hold the definitional    *)
(* values that are not devices (quicksort pass, Simion-Schmidt, families). *)
(* dev = "group" states (perm = identity of length n) stand for "the       *)
(* length n": dihedral group of that length, Simion-Schmidt as a bijection *)
(* between the two classes at that length.                                 *)
(***************************************************************************)
EXTENDS Devices, Json

CONSTANTS MinPerm, MaxPerm, Shard, NShards, WithGroups

VARIABLES perm, dev, cur, npass, inp, stk, out, last
vars == <<perm, dev, cur, npass, inp, stk, out, last>>
\* perm: the input permutation; dev: the device; cur: what was fed into the running pass;
\* npass: passes completed before the running one; inp/stk/out: the device; last: last action

\* shard key (weights chosen for an even spread over 16 shards)
PWeight(q) == FoldLeft(LAMBDA a, b : a + b, 0, [i \in DOMAIN q |-> q[i] * <<1, 2, 3, 5, 7, 11, 13, 17, 19, 23>>[i]])
SnTab == [n \in 0..MaxPerm |-> PPerms(n)]                       \* tabulated once per run
PermU == {q \in UNION {SnTab[n] : n \in MinPerm..MaxPerm} : PWeight(q) % NShards = Shard}
Av123Tab == [n \in 0..MaxPerm |-> {q \in SnTab[n] : DvAv123(q)}]
Av132Tab == [n \in 0..MaxPerm |-> {q \in SnTab[n] : DvAv132(q)}]
DihTab == [n \in 0..MaxPerm |-> DvDihedralGroup(n, SnTab[n])]

Init == /\ \/ perm \in PermU /\ dev \in DvDevices \cup {"static"}
           \/ WithGroups /\ dev = "group" /\ perm \in {PIdentity(n) : n \in MinPerm..MaxPerm}
        /\ cur = perm /\ npass = 0 /\ inp = perm /\ stk = <<>> /\ out = <<>> /\ last = "init"

D == DvState(inp, stk, out)
IsDevice == dev \in DvDevices
PassDone == IsDevice /\ DvFinal(D)
Sorted == DvIsIdentity(out)
\* passes needed by the input: none if it is the identity, otherwise those run so far
CountNow == IF DvIsIdentity(perm) THEN 0 ELSE npass + 1

Act(a) == /\ a \in DvActs(dev) /\ DvEnabled(dev, a, D)
          /\ \E e \in {DvApply(a, D)} : inp' = e.inp /\ stk' = e.stk /\ out' = e.out
          /\ last' = a /\ UNCHANGED <<perm, dev, cur, npass>>
Push == IsDevice /\ Act("Push")
Pop == IsDevice /\ Act("Pop")
PopAll == IsDevice /\ Act("PopAll")
Swap == IsDevice /\ Act("Swap")
Refeed == /\ dev \in {"stack", "pop"} /\ PassDone /\ ~Sorted
          /\ cur' = out /\ inp' = out /\ stk' = <<>> /\ out' = <<>> /\ npass' = npass + 1
          /\ last' = "Refeed" /\ UNCHANGED <<perm, dev>>
Next == Push \/ Pop \/ PopAll \/ Swap \/ Refeed

\* ---- invariants: the devices -----------------------------------------------------------
N0 == Len(perm)
TypeOK == /\ PIsPerm(perm) /\ PIsPerm(cur) /\ npass \in 0..N0 /\ Len(cur) = N0
          /\ dev \in DvDevices \cup {"static", "group"}
\* nothing is lost or invented: the entries in the device, before it and after it are those of the input
Conservation == LET w == out \o stk \o inp IN
                /\ Len(w) = N0 /\ DvRangeOf(w) = 0..(N0 - 1)
\* entries leave the input in order: what is still unread is a suffix of what was fed in
InputIsSuffix == inp = SubSeq(cur, Len(cur) - Len(inp) + 1, Len(cur))
\* the greedy policy leaves no choice and never gets stuck before the end of the pass
NumEnabled == Cardinality(DvEnabledSet(dev, D)) + (IF dev \in {"stack", "pop"} /\ PassDone /\ ~Sorted THEN 1 ELSE 0)
Deterministic == IsDevice => NumEnabled = (IF PassDone /\ (Sorted \/ dev = "bubble") THEN 0 ELSE 1)
\* a stack holds its entries increasing from the top; the bubble cursor holds one entry, the
\* largest seen so far
DeviceShape == /\ dev \in {"stack", "pop"} => \A i \in 1..(Len(stk) - 1) : stk[i] < stk[i + 1]
               /\ dev = "bubble" => /\ Len(stk) <= 1
                                    /\ \A i \in DOMAIN stk, j \in DOMAIN out : out[j] < stk[i]
\* the step machine and the library's run-to-completion operator describe the same pass
PassIsLibPass == PassDone => out = DvPass(dev, cur)
\* after the k-th pass of a stack the k largest entries are in place; a bubble pass places the largest
LargestLast == PassDone =>
                 /\ dev = "stack" => \A i \in 1..N0 : i > N0 - (npass + 1) => out[i] = i - 1
                 /\ dev = "bubble" /\ N0 > 0 => out[N0] = N0 - 1
IdentityFixed == PassDone /\ DvIsIdentity(cur) => Sorted
\* sortable (first pass gives the identity) <=> pattern characterisation
SortableIffPattern == PassDone /\ npass = 0 => (Sorted <=> DvChar(dev, perm))
\* the number of passes: bounded by n-1, equal to the library's count, West-2 characterisation
CountIsPasses == PassDone /\ Sorted =>
                   /\ CountNow <= (IF N0 = 0 THEN 0 ELSE N0 - 1)
                   /\ dev \in {"stack", "pop"} => CountNow = DvCount(dev, perm)
                   /\ dev = "stack" => ((CountNow <= 2) <=> DvCharWest2(perm))
NotSortedEarlier == PassDone /\ npass > 0 => ~DvIsIdentity(cur)

\* ---- invariants: definitional values (dev = "static") --------------------------------
IsStatic == dev = "static"
QOut == DvQuickPass(perm)
QuickOK == IsStatic =>
             /\ PIsPerm(QOut)
             /\ \A i \in DvStrongFixed(perm) : QOut[i] = perm[i]
             /\ DvIsIdentity(QOut) <=> DvCharQuick(perm)
             /\ DvIsIdentity(perm) => DvIsIdentity(QOut)
SSFwdDom == DvAv123(perm)
SSInvDom == DvAv132(perm)
SSFwd == DvSSPaper(perm, FALSE)
SSInv == DvSSPaper(perm, TRUE)
SimionSchmidtOK == IsStatic =>
    /\ SSFwdDom => /\ SSFwd = DvSSDecl(perm, Av132Tab[N0])
                   /\ SSFwd \in Av132Tab[N0] /\ DvLtrMin(SSFwd) = DvLtrMin(perm)
                   /\ DvSSPaper(SSFwd, TRUE) = perm
    /\ SSInvDom => /\ SSInv = DvSSDecl(perm, Av123Tab[N0])
                   /\ SSInv \in Av123Tab[N0] /\ DvLtrMin(SSInv) = DvLtrMin(perm)
                   /\ DvSSPaper(SSInv, FALSE) = perm
G1 == DvGreene(perm, 1)
G2 == DvGreene(perm, 2)
FamiliesOK == IsStatic =>
    /\ DvBaxter(perm) <=> DvBaxterBarred(perm)
    /\ DvSmooth(perm) => DvForestLike(perm)
    /\ DvAlternating(perm) <=> DvEvenByCycles(perm)
    /\ DvDihedral(perm) <=> perm \in DihTab[N0]
    /\ G1 = DvMaxCard(DvIncSets(perm)) /\ G2 >= G1 /\ G2 <= N0 /\ (N0 >= 2 => G2 >= 2)
    /\ G2 - G1 <= G1                                      \* second row not longer than the first
    /\ DvAv231AndMesh(perm) => DvCharStack(perm)
\* per length: bijection between the classes; size and closure of the dihedral group
Compose(a, b) == [i \in DOMAIN a |-> a[b[i] + 1]]
PerLengthOK == dev = "group" =>
    /\ {DvSSPaper(p, FALSE) : p \in Av123Tab[N0]} = Av132Tab[N0]
    /\ {DvSSPaper(p, TRUE) : p \in Av132Tab[N0]} = Av123Tab[N0]
    /\ Cardinality(Av123Tab[N0]) = Cardinality(Av132Tab[N0])
    /\ Cardinality(DihTab[N0]) = (IF N0 < 3 THEN 0 ELSE 2 * N0)
    /\ \A a, b \in DihTab[N0] : Compose(a, b) \in DihTab[N0]

\* ---- emission ------------------------------------------------------------------------
DvSortPerms(T) == SetToSortSeq(T, PPermLess)
EmitPass == PrintT(ToJson([kind |-> "pass", dev |-> dev, p |-> perm, k |-> npass + 1, fed |-> cur, out |-> out,
                           sorted |-> Sorted, count |-> IF Sorted THEN CountNow ELSE -1]))
EmitStatic == PrintT(ToJson(
    [kind |-> "static", p |-> perm,
     quick |-> QOut, quick_sortable |-> DvIsIdentity(QOut),
     ss_dom |-> SSFwdDom, ss |-> IF SSFwdDom THEN SSFwd ELSE <<>>,
     ssi_dom |-> SSInvDom, ssi |-> IF SSInvDom THEN SSInv ELSE <<>>,
     ltrmin |-> {pr[1] - 1 : pr \in DvLtrMin(perm)},
     fam |-> [smooth |-> DvSmooth(perm), forest_like |-> DvForestLike(perm), baxter |-> DvBaxter(perm),
              simsun |-> DvSimsun(perm), dihedral |-> DvDihedral(perm),
              in_alternating_group |-> DvAlternating(perm),
              yt_perm_avoids_22 |-> DvYtAvoids22(perm), yt_perm_avoids_32 |-> DvYtAvoids32(perm),
              av_231_and_mesh |-> DvAv231AndMesh(perm), hard_mesh |-> DvHardMesh(perm)],
     alt_dev |-> DvAlternating_N2Excluded(perm),
     row1 |-> G1, row2 |-> G2 - G1]))
EmitGroup == PrintT(ToJson([kind |-> "group", n |-> N0, dihedral |-> DvSortPerms(DihTab[N0]),
                            av123 |-> Cardinality(Av123Tab[N0]), av132 |-> Cardinality(Av132Tab[N0])]))
EmitState == CASE PassDone -> EmitPass
               [] IsStatic -> EmitStatic
               [] dev = "group" -> EmitGroup
               [] OTHER -> TRUE
=============================================================================
