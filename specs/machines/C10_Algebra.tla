---------------------------- MODULE C10_Algebra ----------------------------
(***************************************************************************)
(* C10: algebraic and structural operations return valid permutations and  *)
(* obey their laws.  The property quantifies over inputs only, so a state  *)
(* is one input configuration and the machine does not move (Stutter);     *)
(* Init ranges over the whole bounded universe selected by Mode:           *)
(*   "unary"   one permutation p, MinLen <= |p| <= MaxLen; every index /   *)
(*             value / shift argument in -ArgMax..ArgMax is tabulated in the  *)
(*             emitted record (in-domain flag + expected result)           *)
(*   "pair"    p, q   with MinLen <= |p|, |q| <= MaxLen                    *)
(*   "triple"  p, q, r                                                     *)
(*   "inflate" p and one component per point of p, every component list    *)
(*             over {None} \cup permutations of length <= CompMax          *)
(* The expected values are the definitions of module Algebra.  The laws of *)
(* the property are invariants of this module: they are checked on the     *)
(* definitions for every state (so the oracle is known to be lawful) and   *)
(* the adapter checks the same laws on the values the real code returns.   *)
(***************************************************************************)
EXTENDS Algebra, Json

CONSTANTS Mode, MinLen, MaxLen, ArgMax, CompMax, CoverContainMax, Shard, NShards

VARIABLES p, q, r, comps
vars == <<p, q, r, comps>>

Args == (0 - ArgMax)..ArgMax
\* sharding key: the permutation read as a number in base 7 (injective for lengths <= 7)
RECURSIVE Weight(_)
Weight(x) == IF Len(x) = 0 THEN 0 ELSE x[1] + 1 + 7 * Weight(Tail(x))
\* (reduced modulo a prime first: the digit sum, hence the parity, is the same for a whole length)
InShard(w) == (w % 1009) % NShards = Shard
PermU == PPermsBetween(MinLen, MaxLen)
CompU == {ANone} \cup {AComp(c) : c \in PPermsUpTo(CompMax)}
CompWeight(cs) == IF cs = <<>> THEN 0
                  ELSE SumSet({7 * i * i * (IF cs[i].none THEN 5 ELSE Weight(cs[i].c) + 1) + i : i \in DOMAIN cs})

InitUnary == /\ Mode = "unary"
             /\ p \in {x \in PermU : InShard(Weight(x))}
             /\ q = <<>> /\ r = <<>> /\ comps = <<>>
InitPair == /\ Mode = "pair"
            /\ p \in PermU /\ q \in PermU /\ InShard(Weight(p) + 3 * Weight(q) + Len(q))
            /\ r = <<>> /\ comps = <<>>
InitTriple == /\ Mode = "triple"
              /\ p \in PermU /\ q \in PermU /\ r \in PermU
              /\ InShard(Weight(p) + 3 * Weight(q) + 5 * Weight(r) + Len(q))
              /\ comps = <<>>
InitInflate == /\ Mode = "inflate"
               /\ p \in PermU /\ q = <<>> /\ r = <<>>
               /\ comps \in [1..Len(p) -> CompU]
               /\ InShard(Weight(p) + CompWeight(comps))
Init == InitUnary \/ InitPair \/ InitTriple \/ InitInflate
Stutter == UNCHANGED vars

n == Len(p)
Id(k) == PIdentity(k)

\* ---- documented defaults -------------------------------------------------------------
\* insert(): "The index defaults to the right end and value defaults to len(self)"
InsertDefaultIndex == n
InsertDefaultValue == n
\* remove() / remove_element(): "defaults to the greatest element"
RemoveDefaultValue == n - 1

\* =========================== properties of the specification ===============================
TypeOK == /\ PIsPerm(p) /\ PIsPerm(q) /\ PIsPerm(r)
          /\ \A i \in DOMAIN comps : comps[i].none \in BOOLEAN /\ PIsPerm(comps[i].c)

\* ---- unary ---------------------------------------------------------------------------------
\* every operation returning a permutation returns a bijection of the documented length
UnaryValid == Mode = "unary" =>
    /\ \A i, v \in Args : AInsertDom(p, i, v) => PIsPerm(AInsert(p, i, v)) /\ Len(AInsert(p, i, v)) = n + 1
    /\ \A i \in Args : ARemoveAtDom(p, i) => PIsPerm(ARemoveAt(p, i)) /\ Len(ARemoveAt(p, i)) = n - 1
    /\ \A v \in Args : ARemoveValueDom(p, v) => PIsPerm(ARemoveValue(p, v)) /\ Len(ARemoveValue(p, v)) = n - 1
    /\ \A t \in Args : /\ PIsPerm(AShiftRight(p, t)) /\ Len(AShiftRight(p, t)) = n
                       /\ PIsPerm(AShiftUp(p, t)) /\ Len(AShiftUp(p, t)) = n
    /\ \A kind \in {"inc", "dec", "both"} : PIsPerm(AContract(p, kind))
    /\ \A c \in AChildren(p) : PIsPerm(c) /\ Len(c) = n - 1
    /\ \A c \in ACovers(p) : PIsPerm(c) /\ Len(c) = n + 1
\* insertion and removal undo each other; the inserted point is where it was asked to be
InsertRemoveUndo == Mode = "unary" =>
    /\ \A i, v \in Args : AInsertDom(p, i, v) =>
          /\ AInsert(p, i, v)[i + 1] = v
          /\ ARemoveAt(AInsert(p, i, v), i) = p
          /\ ARemoveValue(AInsert(p, i, v), v) = p
    /\ \A i \in Args : ARemoveAtDom(p, i) =>
          /\ AInsert(ARemoveAt(p, i), i, p[i + 1]) = p
          /\ ARemoveValue(p, p[i + 1]) = ARemoveAt(p, i)
\* covers and shadow are dual, and both are what containment says they are
CoversChildrenDual == Mode = "unary" =>
    /\ \A c \in ACovers(p) : p \in AChildren(c)
    /\ \A c \in AChildren(p) : p \in ACovers(c)
    /\ AChildren(p) = AChildrenByContainment(p)
    /\ (n <= CoverContainMax => ACovers(p) = ACoversByContainment(p))
    /\ Cardinality(ACovers(p)) = n * n + 1
\* the four shifts are actions of the cyclic group Z_n
ShiftGroupLaws == Mode = "unary" =>
    /\ AShiftRight(p, 0) = p /\ AShiftUp(p, 0) = p /\ AShiftRight(p, n) = p /\ AShiftUp(p, n) = p
    /\ \A s, t \in Args :
          /\ AShiftRight(AShiftRight(p, s), t) = AShiftRight(p, s + t)
          /\ AShiftUp(AShiftUp(p, s), t) = AShiftUp(p, s + t)
          /\ AShiftUp(AShiftRight(p, s), t) = AShiftRight(AShiftUp(p, t), s)
    /\ \A t \in Args : /\ AShiftLeft(AShiftRight(p, t), t) = p /\ AShiftDown(AShiftUp(p, t), t) = p
                       /\ AShiftLeft(p, t) = AShiftRight(p, n * 8 - t)
                       /\ AShiftUp(p, t) = AInverse(AShiftRight(AInverse(p), t))
\* decompositions re-assemble, with non-empty indecomposable parts
DecompositionsReassemble == Mode = "unary" =>
    LET sd == ASumDecomposition(p)  kd == ASkewDecomposition(p) IN
    /\ ADirectSum(sd) = p /\ ASkewSum(kd) = p
    /\ \A k \in DOMAIN sd : sd[k] # <<>> /\ PIsPerm(sd[k]) /\ ~AIsSumDecomposable(sd[k])
    /\ \A k \in DOMAIN kd : kd[k] # <<>> /\ PIsPerm(kd[k]) /\ ~AIsSkewDecomposable(kd[k])
    /\ AIsSumDecomposable(p) <=> Len(sd) >= 2
    /\ AIsSkewDecomposable(p) <=> Len(kd) >= 2
    /\ AIsSumDecomposable(p) <=> AIsSumDecomposableDef(p)
    /\ AIsSkewDecomposable(p) <=> AIsSkewDecomposableDef(p)
    /\ n >= 2 => ~(AIsSumDecomposable(p) /\ AIsSkewDecomposable(p))
\* the block listing is exactly the set of proper intervals; simplicity; the largest block
BlocksAreIntervals == Mode = "unary" =>
    LET bd == ABlockDecomposition(p) IN
    /\ Len(bd) = n
    /\ \A L \in 0..(n - 1), a \in 0..(n - 1) :
          (\E k \in DOMAIN bd[L + 1] : bd[L + 1][k] = a)
             <=> (L >= 2 /\ a + L <= n /\ LET V == {p[i] : i \in (a + 1)..(a + L)} IN Max(V) - Min(V) = L - 1)
    /\ AIsSimple(p) <=> (AMaxBlockLen(p) = 0)
    /\ AIsSimple(p) <=> (\A L \in 1..n : bd[L] = <<>>)
    /\ (n >= 3 /\ AIsSimple(p)) => ~AIsSumDecomposable(p) /\ ~AIsSkewDecomposable(p)
    /\ ABlockPatterns(p) = {} <=> AIsSimple(p)
    /\ AMaxBlockLen(p) > 0 => AMaxBlockStarts(p) # {} /\ \A a \in AMaxBlockStarts(p) : AIsInterval(p, a, AMaxBlockLen(p))
    /\ AIsStronglySimple(p) => AIsSimple(p)
\* contractions: quotient by the maximal runs
ContractionLaws == Mode = "unary" =>
    \A kind \in {"inc", "dec", "both"} :
       LET R == AMaxRuns(p, ADirs(kind)) IN
       /\ UNION {x[1]..x[2] : x \in R} = 1..n
       /\ \A x, y \in R : x # y => (x[1]..x[2]) \cap (y[1]..y[2]) = {}
       /\ Len(AContract(p, kind)) = n - Cardinality(ABonds(p, kind))
       /\ AContract(p, kind) = AContractVia(p, kind, LAMBDA x : x[2])
       /\ Len(AMonoBlocks(p, kind, TRUE)) = Cardinality(R)
       /\ kind # "both" => ABonds(AContract(p, kind), kind) = {}
       /\ PContains(p, AContract(p, kind))

\* ---- pairs ------------------------------------------------------------------------------------
SumLaws == Mode = "pair" =>
    LET ds == ADirectSum(<<p, q>>)  ss == ASkewSum(<<p, q>>) IN
    /\ PIsPerm(ds) /\ PIsPerm(ss) /\ Len(ds) = n + Len(q) /\ Len(ss) = n + Len(q)
    \* the stated point configuration
    /\ PStd(SubSeq(ds, 1, n)) = p /\ PStd(SubSeq(ds, n + 1, Len(ds))) = q
    /\ \A i \in 1..n, j \in (n + 1)..Len(ds) : ds[i] < ds[j]
    /\ PStd(SubSeq(ss, 1, n)) = p /\ PStd(SubSeq(ss, n + 1, Len(ss))) = q
    /\ \A i \in 1..n, j \in (n + 1)..Len(ss) : ss[i] > ss[j]
    \* unit, decomposition of a sum, inverse of a sum
    /\ ADirectSum(<<p, <<>>>>) = p /\ ADirectSum(<<<<>>, p>>) = p /\ ADirectSum(<<p>>) = p
    /\ ASkewSum(<<p, <<>>>>) = p /\ ASkewSum(<<<<>>, p>>) = p /\ ASkewSum(<<p>>) = p
    /\ ASumDecomposition(ds) = ASumDecomposition(p) \o ASumDecomposition(q)
    /\ ASkewDecomposition(ss) = ASkewDecomposition(p) \o ASkewDecomposition(q)
    /\ AInverse(ds) = ADirectSum(<<AInverse(p), AInverse(q)>>)
    /\ AInverse(ss) = ASkewSum(<<AInverse(q), AInverse(p)>>)
    /\ (n > 0 /\ Len(q) > 0) => AIsSumDecomposable(ds) /\ AIsSkewDecomposable(ss)
ComposeLaws == (Mode = "pair" /\ Len(p) = Len(q)) =>
    LET pq == ACompose2(p, q) IN
    /\ PIsPerm(pq) /\ Len(pq) = n
    /\ \A i \in 1..n : pq[i] = p[q[i] + 1]
    /\ ACompose2(p, Id(n)) = p /\ ACompose2(Id(n), p) = p
    /\ ACompose2(p, AInverse(p)) = Id(n) /\ ACompose2(AInverse(p), p) = Id(n)
    /\ AInverse(pq) = ACompose2(AInverse(q), AInverse(p))
    /\ AComposeSeq(<<p, q>>) = pq /\ AComposeSeq(<<p>>) = p

\* ---- triples ----------------------------------------------------------------------------------
Associativity == Mode = "triple" =>
    /\ ADirectSum(<<p, q, r>>) = ADirectSum(<<ADirectSum(<<p, q>>), r>>)
    /\ ADirectSum(<<p, q, r>>) = ADirectSum(<<p, ADirectSum(<<q, r>>)>>)
    /\ ASkewSum(<<p, q, r>>) = ASkewSum(<<ASkewSum(<<p, q>>), r>>)
    /\ ASkewSum(<<p, q, r>>) = ASkewSum(<<p, ASkewSum(<<q, r>>)>>)
    /\ AComposable(<<p, q, r>>) =>
          /\ AComposeSeq(<<p, q, r>>) = ACompose2(ACompose2(p, q), r)
          /\ AComposeSeq(<<p, q, r>>) = ACompose2(p, ACompose2(q, r))
          /\ PIsPerm(AComposeSeq(<<p, q, r>>))

\* ---- inflation --------------------------------------------------------------------------------
RECURSIVE LenSum(_, _)
LenSum(cs, k) == IF k = 0 THEN 0 ELSE ACompLen(cs[k]) + LenSum(cs, k - 1)
InflationLaws == Mode = "inflate" =>
    LET res == AInflate(p, comps)
        lo(i) == LenSum(comps, i - 1)
        blk(x) == CHOOSE i \in DOMAIN comps : lo(i) < x /\ x <= lo(i) + ACompLen(comps[i])
    IN
    /\ PIsPerm(res) /\ Len(res) = LenSum(comps, n)
    \* the stated point configuration: block i looks like component i, blocks are arranged like p
    /\ \A i \in DOMAIN comps : PStd(SubSeq(res, lo(i) + 1, lo(i) + ACompLen(comps[i]))) = ACompPerm(comps[i])
    /\ \A x, y \in DOMAIN res : blk(x) # blk(y) => ((res[x] < res[y]) <=> (p[blk(x)] < p[blk(y)]))
    \* every non-empty component is an interval of the result
    /\ \A i \in DOMAIN comps : ACompLen(comps[i]) >= 1 => AIsInterval(res, lo(i), ACompLen(comps[i]))
    \* no empty component: the quotient is p again
    /\ (\A i \in DOMAIN comps : ACompLen(comps[i]) >= 1) => PFromPoints({<<lo(i), res[lo(i) + 1]>> : i \in DOMAIN comps}) = p
    \* only points: nothing changes;  monotone p: the sums
    /\ (\A i \in DOMAIN comps : comps[i] = ANone \/ comps[i] = AComp(<<0>>)) => res = p
    /\ p = Id(n) => res = ADirectSum([i \in DOMAIN comps |-> ACompPerm(comps[i])])
    /\ p = PDecreasing(n) => res = ASkewSum([i \in DOMAIN comps |-> ACompPerm(comps[i])])

\* ================================== emission =================================================
InsTable == {[i |-> i, v |-> v, ok |-> AInsertDom(p, i, v),
              res |-> IF AInsertDom(p, i, v) THEN AInsert(p, i, v) ELSE <<>>] : i \in Args, v \in Args}
RemTable == {[i |-> i, ok |-> ARemoveAtDom(p, i), res |-> IF ARemoveAtDom(p, i) THEN ARemoveAt(p, i) ELSE <<>>] : i \in Args}
RemValTable == {[v |-> v, ok |-> ARemoveValueDom(p, v), res |-> IF ARemoveValueDom(p, v) THEN ARemoveValue(p, v) ELSE <<>>] : v \in Args}
ShiftTable == {[t |-> t, right |-> AShiftRight(p, t), left |-> AShiftLeft(p, t),
                up |-> AShiftUp(p, t), down |-> AShiftDown(p, t)] : t \in Args}
MonoTable == {[kind |-> kind, ones |-> ones, res |-> AMonoBlocks(p, kind, ones)] : kind \in {"inc", "dec", "both"}, ones \in BOOLEAN}

EmitUnary ==
    [mode |-> "unary", p |-> p, inv |-> AInverse(p),
     defi |-> InsertDefaultIndex, defv |-> InsertDefaultValue, defrem |-> RemoveDefaultValue,
     ins |-> InsTable, rem |-> RemTable, remv |-> RemValTable, sh |-> ShiftTable,
     sumdec |-> ASumDecomposition(p), skewdec |-> ASkewDecomposition(p),
     sumd |-> AIsSumDecomposable(p), skewd |-> AIsSkewDecomposable(p),
     blocks |-> ABlockDecomposition(p), blockpats |-> ABlockPatterns(p),
     maxlen |-> AMaxBlockLen(p), maxstarts |-> AMaxBlockStarts(p),
     simple |-> AIsSimple(p), ssimple |-> AIsStronglySimple(p),
     mono |-> MonoTable,
     coninc |-> AContract(p, "inc"), condec |-> AContract(p, "dec"), conboth |-> AContract(p, "both"),
     children |-> AChildren(p), covers |-> ACovers(p)]
EmitPair ==
    [mode |-> "pair", p |-> p, q |-> q,
     dsum |-> ADirectSum(<<p, q>>), ssum |-> ASkewSum(<<p, q>>),
     cok |-> AComposable(<<p, q>>),
     comp |-> IF AComposable(<<p, q>>) THEN ACompose2(p, q) ELSE <<>>,
     invcomp |-> IF AComposable(<<p, q>>) THEN AInverse(ACompose2(p, q)) ELSE <<>>,
     pinv |-> AInverse(p), qinv |-> AInverse(q)]
EmitTriple ==
    [mode |-> "triple", p |-> p, q |-> q, r |-> r,
     dsum |-> ADirectSum(<<p, q, r>>), ssum |-> ASkewSum(<<p, q, r>>),
     cok |-> AComposable(<<p, q, r>>),
     comp |-> IF AComposable(<<p, q, r>>) THEN AComposeSeq(<<p, q, r>>) ELSE <<>>]
EmitInflate ==
    [mode |-> "inflate", p |-> p, comps |-> comps, res |-> AInflate(p, comps)]
EmitState == PrintT(ToJson(CASE Mode = "unary" -> EmitUnary [] Mode = "pair" -> EmitPair
                             [] Mode = "triple" -> EmitTriple [] Mode = "inflate" -> EmitInflate))
=============================================================================
