---------------------------- MODULE C01_Backtrack ----------------------------
(***************************************************************************)
(* C01, statement level: the pruned backtracking search of                 *)
(* Perm.occurrences_in as an explicit stack machine.                       *)
(*   frame <<i, k>>: trying position i (0-based) of perm for pattern entry *)
(*   k; the bounds come from the pattern's table (left floor / ceiling     *)
(*   index and value offsets) and the positions chosen so far (occ).       *)
(* One action Step per loop iteration of the nested function: return when  *)
(* too few elements remain, otherwise test q[i] against the bounds, record *)
(* it, yield a complete tuple or descend.                                  *)
(* TLC checks the design of the pruning: every yielded tuple is an         *)
(* occurrence, tuples come out in lexicographic order without repetition,  *)
(* the chosen prefix is always order-isomorphic to the pattern's prefix    *)
(* (this is what the floor/ceiling bounds are for), and at termination     *)
(* exactly the occurrences by definition have been yielded.                *)
(***************************************************************************)
EXTENDS SearchTable, Json

CONSTANTS MinPatt, MaxPatt, MinPerm, MaxPerm, Shard, NShards, CutSlack
\* CutSlack = 0 is the coded cut "remaining < needed"; 1 models the off-by-one "remaining <= needed"
\* (must be refuted by TLC: it loses occurrences that end at the last position)

VARIABLES patt, perm, stack, occ, out, pushes
vars == <<patt, perm, stack, occ, out, pushes>>
n == Len(patt)
N == Len(perm)
Tab == PDetails(patt)

PWeight(q) == IF Len(q) = 0 THEN 0 ELSE SumSet({(i + 2) * (i + 1) * q[i] + i : i \in DOMAIN q}) + Len(q)
Universe == {q \in PPermsBetween(MinPerm, MaxPerm) : PWeight(q) % NShards = Shard}

Init == /\ patt \in PPermsBetween(MinPatt, MaxPatt) /\ perm \in Universe
        /\ occ = [k \in 1..Len(patt) |-> 0]
        /\ IF Len(patt) = 0 THEN stack = <<>> /\ out = << <<>> >> /\ pushes = <<>>
           ELSE IF Len(patt) > Len(perm) THEN stack = <<>> /\ out = <<>> /\ pushes = <<>>
           ELSE stack = << <<0, 0>> >> /\ out = <<>> /\ pushes = << <<0, 0>> >>

\* bounds for pattern entry k (0-based) given the chosen positions
Lower(k, o) == LET d == Tab[k + 1] IN IF d[1] = -1 THEN d[3] ELSE perm[o[d[1] + 1] + 1] + d[3]
Upper(k, o) == LET d == Tab[k + 1] IN IF d[2] = -1 THEN N - d[4] ELSE perm[o[d[2] + 1] + 1] - d[4]

Top == stack[Len(stack)]
Pop == SubSeq(stack, 1, Len(stack) - 1)
Step ==
    /\ stack # <<>>
    /\ LET i == Top[1]  k == Top[2]  remaining == N - i  needed == n - k IN
       IF remaining < needed + CutSlack
       THEN /\ stack' = Pop /\ UNCHANGED <<occ, out, pushes>>                      \* "can't form an occurrence"
       ELSE LET element == perm[i + 1]
                hit == Lower(k, occ) <= element /\ element <= Upper(k, occ)
                o2 == [occ EXCEPT ![k + 1] = i]
                advanced == Append(Pop, <<i + 1, k>>)
            IN IF ~hit THEN stack' = advanced /\ UNCHANGED <<occ, out, pushes>>
               ELSE IF needed = 1 THEN /\ stack' = advanced /\ occ' = o2 /\ out' = Append(out, o2) /\ UNCHANGED pushes
               ELSE /\ stack' = Append(advanced, <<i + 1, k + 1>>) /\ occ' = o2
                    /\ pushes' = Append(pushes, <<i + 1, k + 1>>) /\ UNCHANGED out
    /\ UNCHANGED <<patt, perm>>
Next == Step
Spec == Init /\ [][Next]_vars /\ WF_vars(Step)

\* ---- properties ---------------------------------------------------------------------------
One(t) == [j \in DOMAIN t |-> t[j] + 1]
Sound == \A j \in DOMAIN out : One(out[j]) \in POcc(patt, perm)
LexOrdered == \A a, b \in DOMAIN out : a < b => PLexLess(out[a], out[b])
\* the positions chosen for entries 0..k-1 of the deepest frame form an occurrence of the pattern's prefix
PrefixIsOccurrence == stack # <<>> =>
    LET k == Top[2] IN One(SubSeq(occ, 1, k)) \in POcc(PStd(SubSeq(patt, 1, k)), perm)
\* frames are nested: depths 0, 1, ..., and positions increase with depth
Nested == \A d \in DOMAIN stack : stack[d][2] = d - 1 /\ (d > 1 => stack[d][1] > occ[d - 1])
Complete == stack = <<>> => out = POccSeq0(patt, perm)
Terminates == <>(stack = <<>>)
EmitDone == stack = <<>> => PrintT(ToJson([p |-> patt, q |-> perm, out |-> out, pushes |-> pushes]))
=============================================================================
