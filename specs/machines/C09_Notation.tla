---------------------------- MODULE C09_Notation ----------------------------
(***************************************************************************)
(* C09, part 3: notations.  One state per input.                           *)
(*                                                                         *)
(* Mode "perm":  a permutation p of length MinLen..MaxLen (sharded) and    *)
(*   what each notation of p is, by definition:                            *)
(*     chars   one decimal digit character per entry (str / from_string)   *)
(*     one     the entries plus one (Perm.one_based)                       *)
(*     int1    the integer whose decimal numeral is `one`  (from_integer)  *)
(*     int0    the integer whose numeral is p itself, meaningful only when *)
(*             the numeral does not start with the digit 0 (int0ok)        *)
(*   Every reader applied to its notation must return p; every writer      *)
(*   followed by the matching reader must return p.                        *)
(*                                                                         *)
(* Mode "valid": a sequence over Vals of length <= MaxSeqLen (sharded);    *)
(*   the value NonInt stands for an item that is not an integer.  The      *)
(*   validated constructor accepts exactly the bijections of 0..n-1 and    *)
(*   otherwise raises TypeError (a non-integer item) or ValueError (not a  *)
(*   bijection), as documented; when both defects are present either class *)
(*   is acceptable.                                                        *)
(***************************************************************************)
EXTENDS LexRank, Json

CONSTANTS Mode, MinLen, MaxLen, Vals, NonInt, MaxSeqLen, Shard, NShards

VARIABLES inp
vars == <<inp>>

PermsTab == [n \in MinLen..MaxLen |-> LAllPerms(n)]
InShard(p) == IF p = <<>> THEN Shard = 0 ELSE (p[1] + 3 * p[Len(p)] + Len(p)) % NShards = Shard
SeqUniverse == {s \in UNION {[1..k -> Vals] : k \in 0..MaxSeqLen} : (LSeqSum([i \in DOMAIN s |-> (i + 1) * (s[i] + 1)]) + Len(s)) % NShards = Shard}
Init == \/ Mode = "perm" /\ \E n \in MinLen..MaxLen : inp \in {p \in PermsTab[n] : InShard(p)}
        \/ Mode = "valid" /\ inp \in SeqUniverse
Next == UNCHANGED vars

\* ---- perm mode ---------------------------------------------------------------------------
\* the notations denote inp and nothing else: standardising the digits gives inp back
NotationsDenote == Mode = "perm" =>
    /\ PStd(LOneBased(inp)) = inp
    /\ [i \in DOMAIN inp |-> LOneBased(inp)[i] - 1] = inp
    /\ Len(LChars(inp)) = Len(inp)
    /\ \A i \in DOMAIN inp : LDigitChar[inp[i] + 1] = LChars(inp)[i]
    /\ (Len(inp) <= 9 => LIntOf(LOneBased(inp)) >= LIntOf(inp))
\* distinct permutations of the same length have distinct integers (checked against the next one)
IntInjectiveLocally == (Mode = "perm" /\ Len(inp) \in 1..6) =>
    \E q \in {LNextIn(PermsTab[Len(inp)], inp)} : Len(q) = Len(inp) => LIntOf(LOneBased(q)) > LIntOf(LOneBased(inp))

\* ---- valid mode --------------------------------------------------------------------------
HasNonInt(s) == \E i \in DOMAIN s : s[i] = NonInt
IntPart(s) == {i \in DOMAIN s : s[i] # NonInt}
IntPartFine(s) == /\ \A i \in IntPart(s) : s[i] \in 0..(Len(s) - 1)
                  /\ \A i, j \in IntPart(s) : s[i] = s[j] => i = j
Accept(s) == ~HasNonInt(s) /\ LIsBijection(s)
Classes(s) == IF Accept(s) THEN {}
              ELSE IF ~HasNonInt(s) THEN {"ValueError"}
              ELSE IF IntPartFine(s) THEN {"TypeError"}
              ELSE {"TypeError", "ValueError"}
AcceptIsPerm == Mode = "valid" => /\ (Accept(inp) <=> PIsPerm(inp))
                                  /\ (Accept(inp) <=> (Len(inp) <= 5 /\ inp \in PPerms(Len(inp))))
                                  /\ (Accept(inp) <=> Classes(inp) = {})

EmitState ==
    IF Mode = "perm"
    THEN PrintT(ToJson([mode |-> "perm", p |-> inp, chars |-> LChars(inp), one |-> LOneBased(inp),
                        int1 |-> IF Len(inp) <= 9 THEN LIntOf(LOneBased(inp)) ELSE -1,
                        int0 |-> IF Len(inp) <= 9 THEN LIntOf(inp) ELSE -1,
                        int0ok |-> (Len(inp) <= 9 /\ LZeroBasedIntOK(inp))]))
    ELSE PrintT(ToJson([mode |-> "valid", s |-> inp, accept |-> Accept(inp), nonint |-> HasNonInt(inp),
                        classes |-> Classes(inp)]))
=============================================================================
