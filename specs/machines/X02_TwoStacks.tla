---------------------------- MODULE X02_TwoStacks ----------------------------
(***************************************************************************)
(* X02 (extension): Perm.bkv_sortable - the sigma-machine: two stacks in   *)
(* series, the right stack must avoid the given patterns (read top to      *)
(* bottom, standardised), the left stack must be increasing from top to    *)
(* bottom.  Greedy policy, one action per move:                            *)
(*   PushRight  if the next input element can go on the right stack        *)
(*   MoveLeft   else if the top of the right stack can go on the left one  *)
(*   Output     else the top of the left stack is output                   *)
(* The permutation is sortable iff the output is the identity.             *)
(* Cross-checks from the literature: with no pattern restriction the       *)
(* machine sorts exactly the Catalan-many ... (counts 1,1,2,5,14,42);      *)
(* with sigma = 210 the counts are 1,1,2,4,8,16.                           *)
(***************************************************************************)
EXTENDS Pattern, Json
CONSTANTS MaxPerm, Sigma            \* Sigma: set of patterns the right stack avoids
VARIABLES perm, inp, right, left, out
vars == <<perm, inp, right, left, out>>
Init == perm \in PPermsUpTo(MaxPerm) /\ inp = perm /\ right = <<>> /\ left = <<>> /\ out = <<>>
CanPushRight == IF inp = <<>> THEN FALSE ELSE PAvoidsAll(PStd(<<inp[1]>> \o right), Sigma)
CanMoveLeft == IF right = <<>> THEN FALSE ELSE IF left = <<>> THEN TRUE ELSE right[1] < left[1]
PushRight == CanPushRight /\ right' = <<inp[1]>> \o right /\ inp' = Tail(inp) /\ UNCHANGED <<perm, left, out>>
MoveLeft == ~CanPushRight /\ CanMoveLeft /\ left' = <<right[1]>> \o left /\ right' = Tail(right) /\ UNCHANGED <<perm, inp, out>>
Output == ~CanPushRight /\ ~CanMoveLeft /\ left # <<>> /\ out' = Append(out, left[1]) /\ left' = Tail(left) /\ UNCHANGED <<perm, inp, right>>
Next == PushRight \/ MoveLeft \/ Output
Finished == Len(out) = Len(perm)
\* ---- properties ------------------------------------------------------------------
Conservation == {inp[i] : i \in DOMAIN inp} \cup {right[i] : i \in DOMAIN right} \cup {left[i] : i \in DOMAIN left}
                   \cup {out[i] : i \in DOMAIN out} = {perm[i] : i \in DOMAIN perm}
LeftIncreasing == \A i \in 1..(Len(left) - 1) : left[i] < left[i + 1]
RightAvoids == PAvoidsAll(PStd(right), Sigma)
NeverStuck == Finished \/ ENABLED Next
EmitDone == Finished => PrintT(ToJson([p |-> perm, sortable |-> out = PIdentity(Len(perm))]))
=============================================================================
