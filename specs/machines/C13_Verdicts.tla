---------------------------- MODULE C13_Verdicts ----------------------------
(***************************************************************************)
(* C13: finiteness, polynomial growth and insertion-encodability verdicts. *)
(*                                                                         *)
(* Mode "calls" - the history machine.  The process keeps two memo tables  *)
(*   pm   PolyPerms._CACHE                permutation |-> its set of types *)
(*   im   InsertionEncodablePerms._CACHE  permutation |-> its run shapes   *)
(* (the topmost test looks up the quarter-turned permutation in the same   *)
(* table).  One action per public call, Do(f, s): the function f applied   *)
(* to a basis that is iterated as the sequence s (order and repetitions as *)
(* given).  The action is written as the code works - values are read      *)
(* through the memo, missing entries are computed (from the definitions of *)
(* module Growth) and stored, the run-shape walks stop as soon as all four *)
(* shapes have been seen, is_insertion_encodable tries rightmost first -   *)
(* and the invariants say that the reply is nevertheless the verdict the   *)
(* structure theorems give for the SET of s (VerdictIsFunctionOfSet) and   *)
(* that a stored entry is always the definition's value (MemoExact).       *)
(* Earlier calls: sequences from WarmSeqs, at most MaxWarm of them before  *)
(* a call from the big universe (MaxWarm < 0: no bound, every call may     *)
(* follow every call).  act / reply are observation variables (VIEW).      *)
(*                                                                         *)
(* Mode "sets" - the input universe: one state per basis (every image of   *)
(* every base set under Syms) with all six verdicts, the Erdos-Szekeres    *)
(* bound and the counting sequence by definition; the invariants tie the   *)
(* theorems to enumeration and to the symmetries.                          *)
(* Mode "perm" - one state per permutation: its types and run shapes.      *)
(***************************************************************************)
EXTENDS Growth, Json

CONSTANTS Mode,
          Bases,      \* sequence of base sets (sets of permutations)
          Syms,       \* symmetries applied to every base set
          MaxN,       \* "sets": enumeration bound (-1: verdicts only)
          MaxLen,     \* "perm": permutations of length 1..MaxLen
          OrderMax,   \* "calls": sets of at most this size are iterated in every order
          WithReps,   \* "calls": add sequences with repeated elements
          WarmSeqs,   \* "calls": sequence of basis sequences used as earlier calls
          MaxWarm,    \* "calls": number of earlier calls (-1: unbounded history)
          Funs        \* "calls": functions called

VARIABLES pm, im, depth, act, reply
mech == <<pm, im, depth>>
vars == <<pm, im, depth, act, reply>>

AllFuns == {"fin", "poly", "npoly", "ie", "ier", "iem"}
SeqSet(s) == {s[i] : i \in DOMAIN s}
RevSeq(s) == [i \in DOMAIN s |-> s[Len(s) + 1 - i]]
Card(T) == Cardinality(T)
EmptyMemo == <<>>

\* ---- the universes -------------------------------------------------------------------------
ImageSets == {DSymSet(g, Bases[i]) : i \in DOMAIN Bases, g \in Syms}
WarmSets == {SeqSet(WarmSeqs[k]) : k \in DOMAIN WarmSeqs}
AllOrders(B) == {s \in [1..Card(B) -> B] : \A i, j \in 1..Card(B) : s[i] = s[j] => i = j}
Orders(B) == IF Card(B) <= OrderMax THEN AllOrders(B)
             ELSE {DSortedTuple(B), RevSeq(DSortedTuple(B))}
Reps(s) == IF WithReps /\ Len(s) <= 2 THEN {s \o s, s \o RevSeq(s), <<s[1]>> \o s \o <<s[1]>>} ELSE {}
CallSeqs == UNION {Orders(B) \cup UNION {Reps(s) : s \in Orders(B)} : B \in ImageSets}

\* tabulated once per run: per-permutation values and per-set verdicts BY DEFINITION
ElemU == UNION (ImageSets \cup WarmSets)
TurnTab == [p \in ElemU |-> DSym(GTurn, p)]
KeyU == ElemU \cup {TurnTab[p] : p \in ElemU}
TypeTab == [p \in ElemU |-> GTypes(p)]
PropTab == [q \in KeyU |-> GProps(q)]
SetU == ImageSets \cup WarmSets \cup {GMinimal(B) : B \in ImageSets}
VerdTab == [B \in SetU |-> GVerdicts(B)]
BasisTab == [B \in ImageSets \cup WarmSets |-> GBasisSeq(B)]

\* ---- the calls, as the code performs them ------------------------------------------------------
\* is_finite: two scans of the iterable, no memo
DoFin(s) == (\E i \in DOMAIN s : GIsDec(s[i])) /\ (\E i \in DOMAIN s : GIsInc(s[i]))
\* is_polynomial: the types of every element, read through / stored in the memo
PolyMemo(s, m) == [p \in DOMAIN m \cup SeqSet(s) |-> IF p \in DOMAIN m THEN m[p] ELSE TypeTab[p]]
DoPoly(s, m) == UNION {PolyMemo(s, m)[s[i]] : i \in DOMAIN s} = GTenTypes
\* the run-shape walk over the keys (the elements, or their quarter turns), stopping when all four
\* shapes have been collected
Walk(keys, m) ==
    LET Val(q) == IF q \in DOMAIN m THEN m[q] ELSE PropTab[q]
        Cum(k) == UNION {Val(keys[i]) : i \in 1..k}
        Hit == {k \in DOMAIN keys : Cum(k) = GFourTypes}
        stop == IF Hit = {} THEN Len(keys) ELSE CHOOSE k \in Hit : \A j \in Hit : k <= j
    IN  [m |-> [q \in DOMAIN m \cup {keys[i] : i \in 1..stop} |-> Val(q)], v |-> Hit # {}]
Turned(s) == [i \in DOMAIN s |-> TurnTab[s[i]]]
Apply(f, s, p, i) ==
    CASE f = "fin"   -> [pm |-> p, im |-> i, v |-> DoFin(s)]
      [] f = "poly"  -> [pm |-> PolyMemo(s, p), im |-> i, v |-> DoPoly(s, p)]
      [] f = "npoly" -> [pm |-> PolyMemo(s, p), im |-> i, v |-> ~DoPoly(s, p)]
      [] f = "ier"   -> [pm |-> p, im |-> Walk(s, i).m, v |-> Walk(s, i).v]
      [] f = "iem"   -> [pm |-> p, im |-> Walk(Turned(s), i).m, v |-> Walk(Turned(s), i).v]
      [] f = "ie"    -> CHOOSE r \in {IF w.v THEN [pm |-> p, im |-> w.m, v |-> TRUE]
                                      ELSE [pm |-> p, im |-> Walk(Turned(s), w.m).m, v |-> Walk(Turned(s), w.m).v]
                                      : w \in {Walk(s, i)}} : TRUE

Do(f, s, warm) ==
    /\ \E r \in {Apply(f, s, pm, im)} : pm' = r.pm /\ im' = r.im /\ reply' = [v |-> r.v]
    /\ act' = [f |-> f, seq |-> s, warm |-> warm]
    /\ depth' = IF MaxWarm < 0 THEN 0 ELSE IF warm THEN depth + 1 ELSE MaxWarm + 1
Warm(f, s) == (MaxWarm < 0 \/ depth < MaxWarm) /\ Do(f, s, TRUE)
Call(f, s) == (MaxWarm < 0 \/ depth <= MaxWarm) /\ Do(f, s, FALSE)
\* (is_finite keeps no state: as an earlier call it is explored in the unbounded-history mode only)
WarmFuns == IF MaxWarm < 0 THEN Funs ELSE Funs \ {"fin"}
Next == /\ Mode = "calls"
        /\ \/ \E f \in WarmFuns : \E k \in DOMAIN WarmSeqs : Warm(f, WarmSeqs[k])
           \/ \E f \in Funs : \E s \in CallSeqs : Call(f, s)
Stutter == UNCHANGED vars

\* ---- initial states ----------------------------------------------------------------------------
SN == [n \in 0..MaxN |-> PPerms(n)]
AvoidTab == [b \in UNION ImageSets |-> [n \in 0..MaxN |-> {q \in SN[n] : PAvoids(q, b)}]]
Level(B, n) == {q \in SN[n] : \A b \in B : q \in AvoidTab[b][n]}
SetReply(B) == [v |-> GVerdicts(B), bound |-> IF GFinite(B) THEN GESBound(B) ELSE 0 - 1,
                counts |-> [n \in 1..(MaxN + 1) |-> Card(Level(B, n - 1))], bseq |-> GBasisSeq(B)]
PermReply(p) == [types |-> GTypes(p), props |-> GProps(p), turn |-> DSym(GTurn, p), tprops |-> GProps(DSym(GTurn, p))]
InitCalls == Mode = "calls" /\ act = [f |-> "init", seq |-> <<>>, warm |-> TRUE] /\ reply = [v |-> FALSE]
InitSets == Mode = "sets" /\ \E B \in ImageSets : act = [f |-> "set", seq |-> DSortedTuple(B), warm |-> FALSE] /\ reply = SetReply(B)
InitPerm == Mode = "perm" /\ \E p \in PPermsBetween(1, MaxLen) : act = [f |-> "perm", seq |-> <<p>>, warm |-> FALSE] /\ reply = PermReply(p)
Init == pm = EmptyMemo /\ im = EmptyMemo /\ depth = 0 /\ (InitCalls \/ InitSets \/ InitPerm)

\* ---- properties: the history machine ------------------------------------------------------------
\* every stored entry is the value the definition gives (entries are never wrong or stale)
MemoExact == /\ \A p \in DOMAIN pm : pm[p] = GTypes(p)
             /\ \A q \in DOMAIN im : im[q] = GProps(q)
\* the reply is the verdict of the structure theorems for the set of the iterated elements -
\* whatever the order, the repetitions and the earlier calls
VerdictOK(a, r) == a.f \in AllFuns => r.v = VerdTab[SeqSet(a.seq)][a.f]
VerdictIsFunctionOfSet == Mode = "calls" => VerdictOK(act, reply)
\* entries are only ever added
MemoGrows == [][DOMAIN pm \subseteq DOMAIN pm' /\ DOMAIN im \subseteq DOMAIN im'
                /\ (\A p \in DOMAIN pm : pm'[p] = pm[p]) /\ (\A q \in DOMAIN im : im'[q] = im[q])]_vars
\* a call stores nothing but (turns of) its own elements
MemoLocal == [][/\ DOMAIN pm' \subseteq DOMAIN pm \cup SeqSet(act'.seq)
                /\ DOMAIN im' \subseteq DOMAIN im \cup SeqSet(act'.seq) \cup SeqSet(Turned(act'.seq))]_vars

\* ---- properties: the input universe --------------------------------------------------------------
Cur == SeqSet(act.seq)
InSets == Mode = "sets"
EnumFiniteEmpty == InSets => GFiniteEmptyBeyond(Cur, MaxN, LAMBDA n : Level(Cur, n))
EnumInfiniteNeverEmpty == InSets => GInfiniteNeverEmpty(Cur, MaxN, LAMBDA n : Level(Cur, n))
EnumFibonacci == InSets => GFibonacciLower(Cur, MaxN, LAMBDA n : Level(Cur, n))
SymInvariant == InSets => GSymInvariant(Cur)
Implications == InSets => LET v == reply.v IN
                   /\ (v.fin => v.poly) /\ (v.poly => (v.ier /\ v.iem))
                   /\ v.npoly = ~v.poly /\ v.ie = (v.ier \/ v.iem)
                   /\ v.iem = GMeets(Cur, {"WIPP", "WIPM", "WIMP", "WIMM"})
MinimalSame == InSets => GVerdicts(GMinimal(Cur)) = reply.v
PermSane == Mode = "perm" => LET p == act.seq[1] IN
               /\ reply.props = reply.types \cap GFourTypes
               /\ reply.tprops = {CASE t = "WIPP" -> "WMM" [] t = "WIPM" -> "WMP" [] t = "WIMP" -> "WPM" [] t = "WIMM" -> "WPP"
                                  : t \in reply.types \cap {"WIPP", "WIPM", "WIMP", "WIMM"}}
               /\ (Len(p) <= 2 => reply.types = GTenTypes)

\* ---- emission ------------------------------------------------------------------------------------
View == mech
MemoView(p, i, d) == [pd |-> DOMAIN p, id |-> DOMAIN i, d |-> d]
BasisEdge(f, s) == LET b == BasisTab[SeqSet(s)]
                       r == Apply(f, b, pm, im)
                   IN  [seq |-> b, addp |-> DOMAIN r.pm \ DOMAIN pm, addi |-> DOMAIN r.im \ DOMAIN im, v |-> r.v]
EmitEdge == /\ Assert(VerdictOK(act', reply'), <<"VerdictIsFunctionOfSet fails for", act'>>)
            /\ PrintT(ToJson([from |-> MemoView(pm, im, depth), act |-> act', v |-> reply'.v, d2 |-> depth',
                              addp |-> DOMAIN pm' \ DOMAIN pm, addi |-> DOMAIN im' \ DOMAIN im,
                              basis |-> BasisEdge(act'.f, act'.seq)]))
EmitState == PrintT(ToJson([mode |-> Mode, seq |-> act.seq, reply |-> reply]))
=============================================================================
