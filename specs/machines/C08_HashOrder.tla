---------------------------- MODULE C08_HashOrder ----------------------------
(***************************************************************************)
(* C08: equality, hashing and ordering.                                    *)
(*                                                                         *)
(* Values are records [kind, p, R] (kind in Perm, MeshPatt, BivincularPatt,*)
(* VincularPatt, CovincularPatt) or bases [kind, elems].  What identity    *)
(* depends on is Key(v): the permutation for Perm; <<pattern, shading>>    *)
(* for the whole mesh hierarchy, whatever the subclass; kind and element   *)
(* keys for bases.  The machine holds live objects, the hash first         *)
(* observed for each, and a Python set/dict; the environment may allocate       *)
(* (keeping or dropping the garbage) and collect between any two steps.    *)
(*   Create(v) Hash(i) SetAdd(i) SetLookup(i)   (the harness performs the  *)
(*   same operation on a dict)      AllocKeep AllocFree Collect            *)
(*   Use(i)    the object is used (printed, compared, copied, searched):   *)
(*             no effect on anything observable afterwards                 *)
(*   Copy(i)   a new live object is made FROM object i (copy / pickle /    *)
(*             rebuilt from its parts in another container form): it has   *)
(*             the same value, hence must be equal and hash alike          *)
(* Properties: an object's hash never changes (action property), equal     *)
(* keys give equal hashes, lookups find equal values.  The ordering laws   *)
(* are checked on the relation observed from the real code (Trace_C08).    *)
(***************************************************************************)
EXTENDS Mesh, Json

CONSTANTS Values,      \* sequence of value records
          MaxObjs

VARIABLES objs, hseen, pyset, act, obs
mech == <<objs, hseen, pyset>>
vars == <<objs, hseen, pyset, act, obs>>

MeshKinds == {"MeshPatt", "BivincularPatt", "VincularPatt", "CovincularPatt"}
RECURSIVE Key(_)
Key(v) == IF v.kind = "Perm" THEN <<"perm", v.p, {}>>
          ELSE IF v.kind \in MeshKinds THEN <<"mesh", v.p, v.R>>
          ELSE <<v.kind, <<>>, {IF v.kind = "MeshBasis" THEN <<"mesh", v.elems[i].p, v.elems[i].R>>   \* a MeshBasis wraps classical patterns
                                ELSE Key(v.elems[i]) : i \in DOMAIN v.elems}>>
Eq(v, w) == Key(v) = Key(w)
Val(i) == Values[objs[i]]

Init == objs = <<>> /\ hseen = <<>> /\ pyset = {} /\ act = [name |-> "Init", i |-> 0] /\ obs = [flag |-> FALSE, same |-> {}]
A(n, i) == [name |-> n, i |-> i]
Create(v) == /\ Len(objs) < MaxObjs
             /\ objs' = Append(objs, v) /\ hseen' = Append(hseen, FALSE)
             /\ act' = A("Create", v) /\ obs' = [flag |-> TRUE, same |-> {}] /\ UNCHANGED pyset
\* hash(o): must equal every hash observed before for an object with an equal key (in
\* particular its own earlier hash); obs.same = the objects whose recorded hash must coincide
Hash(i) == /\ i \in DOMAIN objs
           /\ hseen' = [hseen EXCEPT ![i] = TRUE]
           /\ obs' = [flag |-> TRUE, same |-> {j \in DOMAIN objs : hseen[j] /\ Eq(Val(i), Val(j))}]
           /\ act' = A("Hash", i) /\ UNCHANGED <<objs, pyset>>
SetAdd(i) == /\ i \in DOMAIN objs /\ pyset' = pyset \cup {i} /\ hseen' = [hseen EXCEPT ![i] = TRUE]
             /\ act' = A("SetAdd", i) /\ obs' = [flag |-> TRUE, same |-> {}] /\ UNCHANGED objs
SetLookup(i) == /\ i \in DOMAIN objs /\ hseen' = [hseen EXCEPT ![i] = TRUE]
                /\ obs' = [flag |-> \E j \in pyset : Eq(Val(i), Val(j)), same |-> {}]
                /\ act' = A("SetLookup", i) /\ UNCHANGED <<objs, pyset>>
Use(i) == /\ i \in DOMAIN objs /\ act' = A("Use", i) /\ obs' = [flag |-> TRUE, same |-> {}] /\ UNCHANGED mech
Copy(i) == /\ i \in DOMAIN objs /\ Len(objs) < MaxObjs
           /\ objs' = Append(objs, objs[i]) /\ hseen' = Append(hseen, FALSE)
           /\ act' = A("Copy", i) /\ obs' = [flag |-> TRUE, same |-> {}] /\ UNCHANGED pyset
\* environment: allocation history (no effect on anything observable)
Env(n) == /\ act' = A(n, 0) /\ obs' = [flag |-> TRUE, same |-> {}] /\ UNCHANGED mech
Next == \/ \E v \in DOMAIN Values : Create(v)
        \/ \E i \in 1..MaxObjs : Hash(i) \/ SetAdd(i) \/ SetLookup(i) \/ Use(i) \/ Copy(i)
        \/ Env("AllocKeep") \/ Env("AllocFree") \/ Env("Collect")

\* ---- properties ---------------------------------------------------------------------
\* a recorded hash is never forgotten or changed: the set of hashed objects only grows and the
\* coincidence classes only merge equal keys
HashStable == [][\A i \in DOMAIN hseen : hseen[i] => hseen'[i]]_vars
SameMeansEqualKey == \A j \in obs.same : act.name = "Hash" => Eq(Val(act.i), Val(j))
\* equality across the hierarchy is by key only
CrossKindEq == \A a, b \in DOMAIN Values :
                 (Values[a].kind \in MeshKinds /\ Values[b].kind \in MeshKinds) =>
                    (Eq(Values[a], Values[b]) <=> (Values[a].p = Values[b].p /\ Values[a].R = Values[b].R))
View == mech
EmitEdge == PrintT(ToJson([from |-> [objs |-> objs, hseen |-> hseen, pyset |-> pyset],
                           act |-> act', obs |-> obs',
                           to |-> [objs |-> objs', hseen |-> hseen', pyset |-> pyset']]))
=============================================================================
