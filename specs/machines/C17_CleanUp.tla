----------------------------- MODULE C17_CleanUp -----------------------------
(***************************************************************************)
(* C17: the clean-up phase of BiSC (run_clean_up / clean_up in             *)
(* permuta/bisc/bisc_subfunctions.py) as a machine.                        *)
(*                                                                         *)
(* Input: the learned patterns SG (mesh patterns grouped by length; Keys = *)
(* the lengths the output dictionary has an entry for, possibly an empty   *)
(* one), the bad permutations in the order they are tested (by length,     *)
(* from one more than the smallest key), and a limit on the size of a      *)
(* basis (0 = none).                                                       *)
(*                                                                         *)
(* State: monitor, a family of candidate bases (sets of learned patterns). *)
(*   Start       one shading for every underlying pattern of the smallest  *)
(*               key, in every combination (nothing when the limit is      *)
(*               smaller than the number of those underlying patterns)     *)
(*   Test(q)     the next bad permutation q: a candidate FAILS when all    *)
(*               its patterns shorter than q avoid q.  A failing candidate *)
(*               is replaced by its extensions with one "saviour" (a       *)
(*               learned pattern shorter than q that q contains) or, when  *)
(*               q is itself the underlying pattern of learned patterns,   *)
(*               with one of those; a candidate that has reached the limit *)
(*               is dropped.  After a failure only the minimal candidates  *)
(*               are kept.  With no candidate left the phase gives up.     *)
(*   Finish      the candidates are the bases returned.                    *)
(*                                                                         *)
(* TLC checks the clause of the property at design level: every candidate, *)
(* at every moment, has a pattern occurring in every bad permutation       *)
(* tested so far; and that candidates form an antichain after pruning.     *)
(* The harness compares the final family with what the real run_clean_up   *)
(* returned for the same input (mechanism level).                          *)
(***************************************************************************)
EXTENDS BiscSpec, Json, TLC

CONSTANTS Mode,      \* "as_coded", or "keep_failing": a wrong design in which a failing candidate simply stays (must be refuted)
          Inputs     \* set of [id, SG: set of mesh patterns, keys: set of lengths, bad: sequence of permutations, limit]

VARIABLES inp, phase, monitor, k
vars == <<inp, phase, monitor, k>>

PattLen(S) == Len(S.p)
MinKey(I) == CHOOSE j \in I.keys : \A i \in I.keys : j <= i
MaxKey(I) == CHOOSE j \in {PattLen(S) : S \in I.SG} : \A S \in I.SG : PattLen(S) <= j
\* lengths of patterns taken into account: keys between the smallest key and the longest learned pattern
CalcLens(I) == {j \in I.keys : j >= MinKey(I) /\ j <= MaxKey(I)}
Underlying(I, j) == {S.p : S \in {T \in I.SG : PattLen(T) = j}}
\* all ways of picking one learned shading for every underlying pattern of length j
OneShadingEach(I, j) == LET U == Underlying(I, j) IN
                 {{f[p] : p \in U} : f \in {g \in [U -> I.SG] : \A p \in U : g[p].p = p}}
MinimalFamily(F) == {m \in F : ~\E m2 \in F : m2 # m /\ m2 \subseteq m}

Init == /\ inp \in Inputs /\ phase = "start" /\ monitor = {} /\ k = 1
Start == /\ phase = "start"
         /\ IF inp.SG = {} THEN phase' = "gaveup" /\ monitor' = {}
            ELSE IF inp.limit > 0 /\ inp.limit < Cardinality(Underlying(inp, MinKey(inp))) THEN phase' = "gaveup" /\ monitor' = {}
            ELSE phase' = "test" /\ monitor' = (IF Underlying(inp, MinKey(inp)) = {} THEN {} ELSE OneShadingEach(inp, MinKey(inp)))
         /\ UNCHANGED <<inp, k>>
Shorter(m, L) == {S \in m : PattLen(S) < L}
Fails(m, q) == \A S \in Shorter(m, Len(q)) : ~MContains(q, S)
Saviours(I, q) == {S \in I.SG : PattLen(S) \in CalcLens(I) /\ PattLen(S) < Len(q) /\ MContains(q, S)}
Larger(I, q) == IF Len(q) \in I.keys THEN {S \in I.SG : S.p = q} ELSE {}
Test == /\ phase = "test" /\ k <= Len(inp.bad)
        /\ LET q == inp.bad[k]
               failing == {m \in monitor : Fails(m, q)}
               grow == {m \in failing : inp.limit = 0 \/ Cardinality(m) < inp.limit}
               kids == {m \cup {S} : m \in grow, S \in Saviours(inp, q) \cup Larger(inp, q)}
               after == IF failing = {} \/ Mode = "keep_failing" THEN monitor ELSE MinimalFamily((monitor \ failing) \cup kids)
           IN IF monitor = {} THEN phase' = "gaveup" /\ UNCHANGED <<monitor, k>>
              ELSE IF after = {} THEN phase' = "gaveup" /\ monitor' = {} /\ k' = k + 1
              ELSE monitor' = after /\ k' = k + 1 /\ UNCHANGED phase
        /\ UNCHANGED inp
Finish == /\ phase = "test" /\ k = Len(inp.bad) + 1
          /\ phase' = "done" /\ UNCHANGED <<inp, monitor, k>>
Next == Start \/ Test \/ Finish
Spec == Init /\ [][Next]_vars

\* ---- properties -----------------------------------------------------------------------
TypeOK == phase \in {"start", "test", "done", "gaveup"} /\ \A m \in monitor : m \subseteq inp.SG
\* the clause of the property: every candidate occurs in every bad permutation tested so far - through a pattern shorter
\* than the permutation, or through the permutation itself being a learned underlying pattern
Catches(m, q) == (\E S \in Shorter(m, Len(q)) : MContains(q, S)) \/ (\E S \in m : S.p = q)
CandidatesHitEveryTestedBad == phase \in {"test", "done"} => \A m \in monitor : \A i \in 1..(k - 1) : Catches(m, inp.bad[i])
Antichain == \A m1, m2 \in monitor : m1 \subseteq m2 => m1 = m2
WithinLimit == inp.limit > 0 => \A m \in monitor : Cardinality(m) <= inp.limit

CellSeq(U) == SetToSortSeq(U, LAMBDA c, d : c[1] < d[1] \/ (c[1] = d[1] /\ c[2] < d[2]))
EmitEnd == phase \in {"done", "gaveup"} =>
    PrintT(ToJson([id |-> inp.id, end |-> phase,
                   bases |-> SetToSeq({SetToSeq({[p |-> S.p, R |-> CellSeq(S.R)] : S \in m}) : m \in monitor})]))
=============================================================================
