---------------------------- MODULE C20_Files ----------------------------
(***************************************************************************)
(* C20: persisted BiSC data and the automaton database, as a history       *)
(* machine over the working directory.                                     *)
(*                                                                         *)
(* State (what is on disk and in the process)                              *)
(*   fs      name of an EXISTING data file |-> its content: the sequence of *)
(*           JSON documents physically in the file (a document = the       *)
(*           number of the data set it encodes) and the junk flag (module  *)
(*           Persist).  A missing file is absent from the domain.          *)
(*   db      file name in dfa_db/S<n>/ (the digits of the permutation)     *)
(*           |-> tag of the stored automaton (the key of the permutation   *)
(*           whose language it accepts)                                    *)
(*   loaded  the lru_cache of load_dfa_for_perm: cache key |-> tag that    *)
(*           was returned (and will be returned again)                     *)
(*   want    history variable: for every data file name, the data set last *)
(*           written to it and not damaged or removed since (0 = none)     *)
(* Observation variables, hidden by the VIEW: act, reply.                  *)
(*                                                                         *)
(* One action per public call (and per interference of the environment):   *)
(*   WriteBisc(name, d)   write_bisc_files(n_d, prop_d, name): both files  *)
(*   ReadBisc(f)          read_bisc_file(f)      no memo: a function of fs *)
(*   Corrupt(f, kind)     environment: "junk" (truncate / garbage / zero   *)
(*                        bytes) or "dup" (the document twice)             *)
(*   Delete(f)            environment: remove the data file                *)
(*   StoreDfa(p)          store_dfa_for_perm(p)   (write-once)             *)
(*   LoadDfa(p)           load_dfa_for_perm(p)    (memoised, stores first  *)
(*                        when the file is missing)                        *)
(*   CreateDb(n)          create_dfa_db_for_length(n)                      *)
(*   MakeFromDb(b)        make_dfa_for_basis_from_db(Bases[b])             *)
(*   DeleteDb(p)          environment: remove the stored automaton         *)
(* WriteMode / CacheMode select the ideal mechanism ("replace", "perm") or *)
(* a named wrong one ("append": the writer appends; "length": the cache is *)
(* keyed by the length only).  The wrong ones exist to show that the       *)
(* invariants can fail (the harness expects TLC to refute them).           *)
(***************************************************************************)
EXTENDS Persist, Json

CONSTANTS Names,      \* set of data set names (strings)
          Datasets,   \* sequence of [n |-> length bound, pred |-> name in PsPredNames]
          Perms,      \* permutations that are stored / loaded / removed one by one
          DbLens,     \* lengths for create_dfa_db_for_length
          Bases,      \* sequence of sets of permutations for make_dfa_for_basis_from_db
          Ops,        \* the calls explored
          Inits,      \* sequence of initial directories [fs |-> .., db |-> ..]
          WriteMode,  \* "replace" (ideal) | "append"
          CacheMode,  \* "perm" (ideal) | "length"
          MaxDocs     \* bound on documents per file (only reached in append mode)

VARIABLES fs, db, loaded, want, act, reply
mech == <<fs, db, loaded, want>>
vars == <<fs, db, loaded, want, act, reply>>

DataIds == DOMAIN Datasets
FilesOf(nm, d) == {PsStem(nm, k, Datasets[d].n) : k \in PsKinds}
Files == UNION {FilesOf(nm, d) : nm \in Names, d \in DataIds}
DbUniverse == Perms \cup UNION {PPerms(n) : n \in DbLens} \cup UNION {Bases[b] : b \in DOMAIN Bases}
CacheKey(p) == IF CacheMode = "perm" THEN PsKey(p) ELSE PsDir(p)

NoAct == [name |-> "Init", nm |-> "", d |-> 0, f |-> "", ck |-> "", p |-> <<>>, n |-> 0, b |-> 0]
A(name) == [NoAct EXCEPT !.name = name]
NoReply == [kind |-> "none", d |-> 0, tags |-> {}, hit |-> FALSE]

Init == /\ \E i \in DOMAIN Inits : fs = Inits[i].fs /\ db = Inits[i].db
        /\ loaded = PsNoMap
        /\ want = [f \in Files |-> PsReadValue(fs, f)]
        /\ act = NoAct /\ reply = NoReply

\* ---- data files ----------------------------------------------------------------------
Written(old, present, d) == IF WriteMode = "append" /\ present THEN [old EXCEPT !.docs = Append(@, d)] ELSE PsSingle(d)
WriteBisc(nm, d) ==
    /\ "WriteBisc" \in Ops
    /\ \A f \in FilesOf(nm, d) \cap DOMAIN fs : Len(fs[f].docs) < MaxDocs
    /\ fs' = [f \in (DOMAIN fs) \cup FilesOf(nm, d) |->
                 IF f \in FilesOf(nm, d) THEN Written(IF f \in DOMAIN fs THEN fs[f] ELSE PsJunk, f \in DOMAIN fs, d) ELSE fs[f]]
    /\ want' = [f \in Files |-> IF f \in FilesOf(nm, d) THEN d ELSE want[f]]
    /\ act' = [A("WriteBisc") EXCEPT !.nm = nm, !.d = d] /\ reply' = NoReply /\ UNCHANGED <<db, loaded>>
ReadBisc(f) ==
    /\ "ReadBisc" \in Ops
    /\ reply' = [NoReply EXCEPT !.kind = "read", !.d = PsReadValue(fs, f)]
    /\ act' = [A("ReadBisc") EXCEPT !.f = f] /\ UNCHANGED mech
Damaged(c, kind) == IF kind = "dup" THEN PsTwice(c.docs[1]) ELSE PsJunk
CanCorrupt(f, kind) == f \in DOMAIN fs /\ (kind = "dup" => PsWellFormed(fs[f])) /\ (kind = "junk" => fs[f] # PsJunk)
Corrupt(f, kind) ==
    /\ "Corrupt" \in Ops /\ CanCorrupt(f, kind)
    /\ fs' = [fs EXCEPT ![f] = Damaged(@, kind)]
    /\ want' = [want EXCEPT ![f] = 0]
    /\ act' = [A("Corrupt") EXCEPT !.f = f, !.ck = kind] /\ reply' = NoReply /\ UNCHANGED <<db, loaded>>
Delete(f) ==
    /\ "Delete" \in Ops /\ f \in DOMAIN fs
    /\ fs' = PsDrop(fs, f)
    /\ want' = [want EXCEPT ![f] = 0]
    /\ act' = [A("Delete") EXCEPT !.f = f] /\ reply' = NoReply /\ UNCHANGED <<db, loaded>>

\* ---- automaton database --------------------------------------------------------------
\* write-once: an existing file is left alone
Stored(dbm, p) == IF PsKey(p) \in DOMAIN dbm THEN dbm ELSE PsPut(dbm, PsKey(p), PsKey(p))
\* one memoised load; st = [db, loaded, tags, hit]
LoadOne(st, p) ==
    IF CacheKey(p) \in DOMAIN st.loaded
    THEN [st EXCEPT !.tags = @ \cup {st.loaded[CacheKey(p)]}, !.hit = TRUE]
    ELSE LET d2 == Stored(st.db, p) IN
         [db |-> d2, loaded |-> PsPut(st.loaded, CacheKey(p), d2[PsKey(p)]), tags |-> st.tags \cup {d2[PsKey(p)]}, hit |-> FALSE]
RECURSIVE LoadAll(_, _)
LoadAll(st, ps) == IF Len(ps) = 0 THEN st
                   ELSE CHOOSE r \in {LoadAll(s2, Tail(ps)) : s2 \in {LoadOne(st, Head(ps))}} : TRUE
StoreDfa(p) ==
    /\ "StoreDfa" \in Ops
    /\ db' = Stored(db, p)
    /\ act' = [A("StoreDfa") EXCEPT !.p = p] /\ reply' = NoReply /\ UNCHANGED <<fs, loaded, want>>
LoadDfa(p) ==
    /\ "LoadDfa" \in Ops
    /\ \E r \in {LoadOne([db |-> db, loaded |-> loaded, tags |-> {}, hit |-> FALSE], p)} :
          /\ db' = r.db /\ loaded' = r.loaded
          /\ reply' = [NoReply EXCEPT !.kind = "load", !.tags = r.tags, !.hit = r.hit]
    /\ act' = [A("LoadDfa") EXCEPT !.p = p] /\ UNCHANGED <<fs, want>>
CreateDb(n) ==
    /\ "CreateDb" \in Ops
    /\ db' = [k \in (DOMAIN db) \cup {PsKey(q) : q \in PPerms(n)} |-> IF k \in DOMAIN db THEN db[k] ELSE k]
    /\ act' = [A("CreateDb") EXCEPT !.n = n] /\ reply' = NoReply /\ UNCHANGED <<fs, loaded, want>>
MakeFromDb(b) ==
    /\ "MakeFromDb" \in Ops
    /\ \E r \in {LoadAll([db |-> db, loaded |-> loaded, tags |-> {}, hit |-> FALSE], PsListing(Bases[b]))} :
          /\ db' = r.db /\ loaded' = r.loaded
          /\ reply' = [NoReply EXCEPT !.kind = "make", !.tags = r.tags]
    /\ act' = [A("MakeFromDb") EXCEPT !.b = b] /\ UNCHANGED <<fs, want>>
DeleteDb(p) ==
    /\ "DeleteDb" \in Ops /\ PsKey(p) \in DOMAIN db
    /\ db' = PsDrop(db, PsKey(p))
    /\ act' = [A("DeleteDb") EXCEPT !.p = p] /\ reply' = NoReply /\ UNCHANGED <<fs, loaded, want>>

CorruptKinds == {"junk", "dup"}
Next == \/ \E nm \in Names, d \in DataIds : WriteBisc(nm, d)
        \/ \E f \in Files : ReadBisc(f) \/ Delete(f) \/ \E k \in CorruptKinds : Corrupt(f, k)
        \/ \E p \in Perms : StoreDfa(p) \/ LoadDfa(p) \/ DeleteDb(p)
        \/ \E n \in DbLens : CreateDb(n)
        \/ \E b \in DOMAIN Bases : MakeFromDb(b)

\* ---- properties ----------------------------------------------------------------------
TypeOK == /\ DOMAIN fs \subseteq Files
          /\ \A f \in DOMAIN fs : fs[f].junk \in BOOLEAN /\ \A i \in DOMAIN fs[f].docs : fs[f].docs[i] \in DataIds
          /\ DOMAIN db \subseteq {PsKey(q) : q \in DbUniverse}
          /\ DOMAIN want = Files /\ \A f \in Files : want[f] \in DataIds \cup {0}
\* what a memoised load of q would hand out in this state
LoadValue(dbm, ld, q) == IF CacheKey(q) \in DOMAIN ld THEN ld[CacheKey(q)]
                         ELSE IF PsKey(q) \in DOMAIN dbm THEN dbm[PsKey(q)] ELSE PsKey(q)

\* reading returns exactly the data set last written for that name ...
ReadYourLastWrite == \A f \in Files : want[f] # 0 => PsReadValue(fs, f) = want[f]
\* ... "invalid" is answered only for a file that is missing or not a single well-formed
\* document, and only when nothing intact was written there ...
InvalidOnlyWhenInvalid == \A f \in Files : PsReadValue(fs, f) = 0 => (PsMissingOrMalformed(fs, f) /\ want[f] = 0)
\* ... and a missing or malformed file is never answered with data
NeverDifferentData == \A f \in Files : PsMissingOrMalformed(fs, f) => PsReadValue(fs, f) = 0
\* the reply is the honest answer for the file system as it is (no dependence on earlier reads)
ReplyFromFsOnly == act.name = "ReadBisc" => reply.d = PsReadValue(fs, act.f)
\* every load is language-equivalent to a fresh computation for that permutation
LoadFaithful == \A q \in DbUniverse : LoadValue(db, loaded, q) = PsKey(q)
ReplyFaithful == /\ act.name = "LoadDfa" => reply.tags = {PsKey(act.p)}
                 /\ act.name = "MakeFromDb" => reply.tags = {PsKey(q) : q \in Bases[act.b]}
\* writes for one name / permutation never change what is read for another
TouchedFiles(a) == IF a.name = "WriteBisc" THEN FilesOf(a.nm, a.d)
                   ELSE IF a.name \in {"Corrupt", "Delete"} THEN {a.f} ELSE {}
TouchedPerms(a) == IF a.name \in {"StoreDfa", "LoadDfa", "DeleteDb"} THEN {a.p}
                   ELSE IF a.name = "CreateDb" THEN PPerms(a.n)
                   ELSE IF a.name = "MakeFromDb" THEN Bases[a.b] ELSE {}
NoCrossTalkStep == /\ \A f \in Files \ TouchedFiles(act') :
                        PsReadValue(fs', f) = PsReadValue(fs, f) /\ ((f \in DOMAIN fs') <=> (f \in DOMAIN fs))
                   /\ \A q \in DbUniverse \ TouchedPerms(act') : LoadValue(db', loaded', q) = LoadValue(db, loaded, q)
NoCrossTalk == [][NoCrossTalkStep]_vars
\* reads change nothing
ReadsArePure == [][act'.name = "ReadBisc" => UNCHANGED mech]_vars

\* ---- emission ------------------------------------------------------------------------
View == mech
Key(f, d, l) == [fs |-> f, db |-> d, loaded |-> l]
EmitEdge == PrintT(ToJson([from |-> Key(fs, db, loaded), act |-> act', reply |-> reply', to |-> Key(fs', db', loaded')]))
\* the data sets as tables: per data set, for k = 0..n the two sides in lexicographic order
SideTable(d, kind) == [k \in 1..(Datasets[d].n + 1) |-> PsListing(PsSide(Datasets[d].pred, kind, k - 1))]
EmitTables == PrintT(ToJson([tables |-> [d \in DataIds |-> [n |-> Datasets[d].n, pred |-> Datasets[d].pred,
                                                            good |-> SideTable(d, "good"), bad |-> SideTable(d, "bad")]]]))
=============================================================================
