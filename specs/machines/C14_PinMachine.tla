---------------------------- MODULE C14_PinMachine ----------------------------
(***************************************************************************)
(* C14: the pin machine.  State: the word read so far and the pin          *)
(* configuration (two linear orders of the pins).  Action Place(c) is      *)
(* enabled by the enumeration rule of pin words; the reachable states are  *)
(* exactly the pin words up to MaxLen, each with its configuration.        *)
(* Invariants: no reachable word is stuck (every enabled letter can be     *)
(* placed), the configuration yields a permutation of the word's length,   *)
(* numerals land in their quadrant, and - for words up to ThmLen - the     *)
(* containment theorem: sigma is contained in the permutation of w iff     *)
(* some pin word of sigma is found inside w (ideal formulation of the      *)
(* factor search, see Pin.tla).                                            *)
(* Targets: a set of permutations claimed NOT to be pin permutations (the  *)
(* real perm -> words table maps them to no word); TargetsNotPin refutes   *)
(* the claim if some reachable word decodes to one of them.                *)
(***************************************************************************)
EXTENDS Pin, Json

CONSTANTS MaxLen, ThmLen, PattLen, OccLen, Shard, NShards, Targets

VARIABLES word, cfg
vars == <<word, cfg>>

Init == word = <<>> /\ cfg = PinInit
Place(c) == /\ Len(word) < MaxLen /\ PinMayAppend(word, c)
            /\ word' = Append(word, c) /\ cfg' = PinPlace(cfg, c)
Next == \E c \in Letters : Place(c)

\* ---- tables (constants) ----------------------------------------------------------------
Sigmas == PPermsBetween(0, PattLen)          \* including the empty permutation, whose only pin word is the empty word
WordsOfPerm == [s \in Sigmas |-> {u \in PinWordsOf(Len(s)) : PinPerm(u) = s}]
ShortWords == UNION {PinWordsOf(n) : n \in 0..OccLen}

Quad == [i \in DOMAIN word |-> PinQuadrantOf(cfg, i)]
OccSP(f, i) == /\ i + Len(f) - 1 <= Len(word) /\ Quad[i] = f[1]
               /\ SubSeq(word, i + 1, i + Len(f) - 1) = SubSeq(f, 2, Len(f))
OccTuples(u, mayTouch) ==
    LET fs == PinFactors(u)  k == Len(fs) IN
    {t \in [1..k -> 1..Len(word)] :
        /\ \A j \in 1..k : OccSP(fs[j], t[j])
        /\ \A j \in 1..(k - 1) : /\ t[j + 1] >= t[j] + Len(fs[j])
                                 /\ (~mayTouch /\ word[t[j + 1]] \in Dirs) => t[j + 1] > t[j] + Len(fs[j])}
Found(u, mayTouch) == Len(word) > 0 /\ OccTuples(u, mayTouch) # {}
FoundPerm(s, mayTouch) == \E u \in WordsOfPerm[s] : Found(u, mayTouch)

\* deterministic sharding of the word universe over several TLC processes
PWeight == IF word = <<>> THEN 0 ELSE Len(word) + SumSet({i * (IF word[i] \in Numerals THEN 3 ELSE 7) + i * i * (IF word[i] \in {"1", "U", "3", "L"} THEN 1 ELSE 2) : i \in DOMAIN word})

\* ---- properties ---------------------------------------------------------------------------
Decodes == PinDefined(cfg) /\ PIsPerm(PinPermOf(cfg)) /\ Len(PinPermOf(cfg)) = Len(word)
ConfigIsRun == cfg = PinConfig(word)
NumeralsInQuadrant == \A i \in DOMAIN word : word[i] \in Numerals => Quad[i] = word[i]
\* a direction letter's pin separates the previous pin from all earlier ones (incl. the origin)
Separates == \A i \in DOMAIN word : word[i] \in Dirs =>
                LET s == IF word[i] \in Vert THEN cfg.px ELSE cfg.py
                    a == PinIndexIn(s, i)  b == PinIndexIn(s, i - 1)
                IN \A j \in 0..(i - 2) : (PinIndexIn(s, j) < a) # (b < a)
InShard == PWeight % NShards = Shard
Theorem == (InShard /\ Len(word) \in 1..ThmLen) =>
              \A s \in Sigmas : PContains(PinPermOf(cfg), s) <=> FoundPerm(s, FALSE)
\* the deviating search never misses anything the ideal finds
DeviationOverReports == (InShard /\ Len(word) \in 1..ThmLen) => \A s \in Sigmas : FoundPerm(s, FALSE) => FoundPerm(s, TRUE)

\* no reachable word decodes to a permutation the code's table maps to no word
TargetsNotPin == PinPermOf(cfg) \notin Targets

\* ---- emission -------------------------------------------------------------------------------
Z(t) == [i \in DOMAIN t |-> t[i] - 1]
EmitState == InShard => PrintT(ToJson(
   [w |-> word, perm |-> PinPermOf(cfg), quad |-> Quad, strict |-> PinIsStrict(word),
    factors |-> PinFactors(word),
    sptom |-> IF PinIsStrict(word) /\ Len(word) >= 1 THEN PinSPtoM(word) ELSE {},
    contains |-> IF Len(word) \in 1..ThmLen
                 THEN {[s |-> s, truth |-> PContains(PinPermOf(cfg), s), dev |-> FoundPerm(s, TRUE)] : s \in Sigmas} ELSE {},
    occ |-> IF Len(word) \in 1..ThmLen
            THEN {[u |-> u, ideal |-> {Z(t) : t \in OccTuples(u, FALSE)}, dev |-> {Z(t) : t \in OccTuples(u, TRUE)}] : u \in ShortWords} ELSE {}]))
=============================================================================
