--------------------------- MODULE C17_BiscMachine ---------------------------
(***************************************************************************)
(* C17: the BiSC algorithm as Permuta runs it (permuta/bisc/bisc.py and    *)
(* bisc_subfunctions.py), one action per phase step:                       *)
(*                                                                         *)
(*   Start        normalise the input: which pattern lengths need looking  *)
(*                at (check interval: lengths j <= M at which not every    *)
(*                permutation is good)                                     *)
(*   MinePerm(a)  mine(): one good permutation a (length <= N) is taken    *)
(*                apart: for every sub-pattern p of it with a length in    *)
(*                the interval, the set of cells of p's grid occupied by   *)
(*                the other points of a is recorded ("allowed": p with the *)
(*                complement shaded occurs in a good permutation).  A good *)
(*                permutation of interval length records the empty set for *)
(*                itself.  The permutations are mined in ANY order.        *)
(*   Minimise     only the minimal occupied sets of every pattern are kept *)
(*   ForbLevel    forb(): for the next length j of the interval and every  *)
(*                pattern p of that length: the minimal sets of cells that *)
(*                meet every allowed set of p (so that p with those cells  *)
(*                shaded occurs in no good permutation) and do not make p  *)
(*                contain a shorter forbidden pattern (such a shading is   *)
(*                implied and pruned); a pattern occurring in no good      *)
(*                permutation at all is forbidden unshaded, unless implied *)
(*   Finish       the output SG: all forbidden patterns found              *)
(*                                                                         *)
(* What TLC checks on every input of the family: the mined table equals    *)
(* its declarative meaning whatever the mining order; the output is sound  *)
(* up to N, complete up to M and irredundant (module BiscSpec) - the       *)
(* design theorem of the algorithm; and it equals the declarative output.  *)
(* The harness compares the real mine() table and the real forb() / bisc() *)
(* output with the emitted states.                                         *)
(***************************************************************************)
EXTENDS BiscSpec, Json, TLC

CONSTANTS Family,     \* the inputs explored: a set of sets of permutations (each set: the good permutations)
          M,          \* longest patterns to learn
          N,          \* longest good permutations to learn from
          AllOrders   \* TRUE: every mining order is a behaviour; FALSE: one fixed order (larger families)

VARIABLES A, phase, todo, allowed, lev, badp, out
vars == <<A, phase, todo, allowed, lev, badp, out>>

Patterns(j) == PPerms(j)
AllPatterns == UNION {Patterns(j) : j \in 0..M}
\* lengths at which something can be forbidden
Interval(G) == {j \in 0..M : ~(Patterns(j) \subseteq G)}
MinCI(G) == CHOOSE j \in Interval(G) : \A k \in Interval(G) : j <= k
MaxCI(G) == CHOOSE j \in Interval(G) : \A k \in Interval(G) : j >= k

\* the cells of p's grid occupied by the points of a outside the occurrence t
Occupied(a, t) == {MCellOf(a, t, j) : j \in (DOMAIN a) \ MRangeOf(t)}
MinimalSets(SS) == {U \in SS : ~\E V \in SS : V # U /\ V \subseteq U}
\* what mining the permutation a contributes to the pattern p (proper sub-patterns of interval length; a itself
\* is entered with the empty set when the table is initialised)
Contribution(G, a, p) ==
    IF Len(a) >= 1 /\ Len(a) <= N /\ Len(p) < Len(a) /\ Len(p) >= MinCI(G) /\ Len(p) <= MaxCI(G)
    THEN {Occupied(a, t) : t \in POcc(p, a)} ELSE {}
InitialTable(G) == [p \in AllPatterns |-> IF p \in G THEN {{}} ELSE {}]
\* the declarative meaning of the mined table
AllowedDecl(G) == [p \in AllPatterns |-> MinimalSets(InitialTable(G)[p] \cup UNION {Contribution(G, a, p) : a \in G})]

\* forbidden shadings of p given the table and the forbidden patterns of shorter lengths
Hits(C, SS) == \A U \in SS : C \cap U # {}
ImpliedByShorter(p, C, B) == \E q \in DOMAIN B : Len(q) < Len(p) /\ \E R \in B[q] : MOccInMesh(MMesh(q, R), MMesh(p, C)) # {}
\* the direct statement: the minimal shadings among those that meet every allowed set and are not implied
ForbiddenDirect(p, SS, B) ==
    IF SS = {} THEN (IF ImpliedByShorter(p, {}, B) THEN {} ELSE {{}})
    ELSE MinimalSets({C \in SUBSET MCells(Len(p)) : Hits(C, SS) /\ ~ImpliedByShorter(p, C, B)})
\* the same set, computed the cheap way round: "implied" is preserved by shading more, so a minimal valid shading is a
\* minimal hitting set that is not implied; a hitting set is minimal iff no single cell can be dropped.  (Invariant
\* ForbFastIsDirect: equal to the direct statement on every input with patterns up to length 2.)
MinimalHitting(SS, cells) == {C \in SUBSET cells : Hits(C, SS) /\ \A c \in C : ~Hits(C \ {c}, SS)}
ForbiddenOf(p, SS, B) ==
    IF SS = {} THEN (IF ImpliedByShorter(p, {}, B) THEN {} ELSE {{}})
    ELSE {H \in MinimalHitting(SS, MCells(Len(p))) : ~ImpliedByShorter(p, H, B)}
EmptyB == [p \in {} |-> {}]
RECURSIVE ForbUpTo(_, _, _)
\* the forbidden table for the interval lengths <= j (in increasing order of length)
ForbUpTo(G, T, j) ==
    IF j < 0 THEN EmptyB
    ELSE LET B == ForbUpTo(G, T, j - 1) IN
         IF j \in Interval(G) THEN B @@ [p \in Patterns(j) |-> ForbiddenOf(p, T[p], B)] ELSE B
OutputOf(B) == UNION {{MMesh(p, R) : R \in B[p]} : p \in DOMAIN B}
OutputDecl(G) == IF Interval(G) = {} THEN {} ELSE OutputOf(ForbUpTo(G, AllowedDecl(G), M))

\* ---- the machine ---------------------------------------------------------------------
Init == /\ A \in Family /\ phase = "start" /\ todo = {} /\ allowed = [p \in AllPatterns |-> {}]
        /\ lev = 0 /\ badp = EmptyB /\ out = {}
Start == /\ phase = "start"
         /\ IF Interval(A) = {}
            THEN phase' = "done" /\ UNCHANGED <<todo, allowed>>            \* "you need to search for longer patterns"
            ELSE /\ phase' = "mine" /\ todo' = {a \in A : Len(a) >= 1 /\ Len(a) <= N}
                 /\ allowed' = InitialTable(A)
         /\ UNCHANGED <<A, lev, badp, out>>
LeastOf(S) == CHOOSE a \in S : \A b \in S : a = b \/ PPermLess(a, b)
MinePerm(a) == /\ phase = "mine" /\ a \in todo /\ (AllOrders \/ a = LeastOf(todo))
               /\ allowed' = [p \in AllPatterns |-> allowed[p] \cup Contribution(A, a, p)]
               /\ todo' = todo \ {a}
               /\ UNCHANGED <<A, phase, lev, badp, out>>
Minimise == /\ phase = "mine" /\ todo = {}
            /\ allowed' = [p \in AllPatterns |-> MinimalSets(allowed[p])]
            /\ phase' = "forb" /\ lev' = 0
            /\ UNCHANGED <<A, todo, badp, out>>
ForbLevel == /\ phase = "forb" /\ lev <= M
             /\ badp' = IF lev \in Interval(A) THEN badp @@ [p \in Patterns(lev) |-> ForbiddenOf(p, allowed[p], badp)] ELSE badp
             /\ lev' = lev + 1
             /\ UNCHANGED <<A, phase, todo, allowed, out>>
Finish == /\ phase = "forb" /\ lev = M + 1
          /\ out' = OutputOf(badp) /\ phase' = "done"
          /\ UNCHANGED <<A, todo, allowed, lev, badp>>
Next == Start \/ (\E a \in todo : MinePerm(a)) \/ Minimise \/ ForbLevel \/ Finish
Spec == Init /\ [][Next]_vars

\* ---- properties ------------------------------------------------------------------------
TypeOK == /\ phase \in {"start", "mine", "forb", "done"} /\ todo \subseteq A /\ lev \in 0..(M + 1)
          /\ \A p \in AllPatterns : \A U \in allowed[p] : U \subseteq MCells(Len(p))
\* whatever the order of mining, the table after Minimise is the declarative one
MinedTableIsItsMeaning == phase \in {"forb", "done"} /\ Interval(A) # {} => allowed = AllowedDecl(A)
\* mining only ever adds occupied sets of real occurrences in good permutations
TableSound == \A p \in AllPatterns : \A U \in allowed[p] :
                 \/ (U = {} /\ p \in A)
                 \/ \E a \in A : Len(a) <= N /\ \E t \in POcc(p, a) : Occupied(a, t) = U
\* the design theorem: the output describes the input
OutputSound == phase = "done" => BSound(A, N, out)
OutputComplete == phase = "done" /\ Interval(A) # {} => BComplete(A, M, out)
OutputIrredundant == phase = "done" => BIrredundant(A, N, out)
OutputIsItsMeaning == phase = "done" => out = OutputDecl(A)
PatternsShort == \A S \in out : Len(S.p) <= M
ForbFastIsDirect == M <= 2 => \A p \in DOMAIN badp : badp[p] = ForbiddenDirect(p, allowed[p], badp)

\* ---- emission ----------------------------------------------------------------------------
CellSeq(U) == SetToSortSeq(U, LAMBDA c, d : c[1] < d[1] \/ (c[1] = d[1] /\ c[2] < d[2]))
TableJson(T) == LET ps == SetToSortSeq({p \in DOMAIN T : T[p] # {}}, PPermLess) IN
                [i \in DOMAIN ps |-> [p |-> ps[i], sets |-> SetToSeq({CellSeq(U) : U \in T[ps[i]]})]]
EmitDone == phase = "done" =>
    PrintT(ToJson([m |-> M, n |-> N, A |-> SetToSortSeq(A, PPermLess), interval |-> SetToSortSeq(Interval(A), <),
                   allowed |-> TableJson(allowed), bad |-> TableJson(badp),
                   out |-> SetToSeq({[p |-> S.p, R |-> CellSeq(S.R)] : S \in out})]))
=============================================================================
