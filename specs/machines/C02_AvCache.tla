---------------------------- MODULE C02_AvCache ----------------------------
(***************************************************************************)
(* C02: the permutation class Av(basis) and its caches, as Permuta keeps   *)
(* them (permuta/perm_sets/permset.py).                                    *)
(*                                                                         *)
(* Mechanism state                                                         *)
(*   insts  sequence of class objects [b |-> index of the basis in Bases,  *)
(*          levels |-> <<level 0, level 1, ...>>]; a level is a function   *)
(*          perm |-> spots, spots = the set of end values v such that      *)
(*          appending v stays in the class (filled in when the next level  *)
(*          is built), or the marker Compacted once the level has been     *)
(*          compacted (Permuta: value None).                               *)
(*   cc     the process-wide class cache: basis index |-> instance (0 = no *)
(*          entry).  clear_cache empties it; old instances stay usable.    *)
(*   its    open lazy iterators (of_length / up_to_length / first)         *)
(* Observation variables (hidden by the VIEW): act, reply.                 *)
(*                                                                         *)
(* Every public call is one action, written as the code works: levels are  *)
(* built from the last level by the window rule (intersection, over the    *)
(* one-point deletions in the last max|b| positions, of the admissible end *)
(* values), then levels start..n-2 are compacted.  The replies are read    *)
(* from that mechanism state; the invariants say they equal the definition *)
(* of the class - so TLC checks the design of the cache, and the harness   *)
(* checks the code against every transition.                               *)
(***************************************************************************)
EXTENDS AvMech, Json

CONSTANTS Bases,      \* sequence of basis descriptors [mesh |-> BOOLEAN, elems |-> set of perms / mesh records]
          MaxLen,     \* largest length requested
          MaxInst,    \* bound on class objects alive
          MaxIts,     \* bound on open iterators
          Ops         \* which calls are explored (subset of the operation names below)

ASSUME \A a, b \in DOMAIN Bases : a # b => Bases[a] # Bases[b]     \* equal bases denote one class object

VARIABLES insts, cc, its, fault, act, reply
mech == <<insts, cc, its, fault>>
vars == <<insts, cc, its, fault, act, reply>>

Bas(i) == Bases[insts[i].b]
\* tabulated once per run (a constant): the class of basis number b at length n
ClassTab == [b \in DOMAIN Bases |-> [n \in 0..(MaxLen + 1) |-> ClassLevel(Bases[b], n)]]
CL(b, n) == ClassTab[b][n]

\* ---- public calls ------------------------------------------------------------------
\* _get_level(n) on instance i: new instance table and the key set of level n
Got(i, n) == [insts EXCEPT ![i].levels = Ensure(@, Bas(i), n)]
KeysAfter(i, n) == DOMAIN Ensure(insts[i].levels, Bas(i), n)[n + 1]
FaultAfter(i, n) == fault \/ (Len(insts[i].levels) <= n /\ FaultTo(insts[i].levels, Bas(i), n))

NoReply == [kind |-> "none", n |-> 0, set |-> {}, seq |-> <<>>, flag |-> FALSE]
R(kind, n, set, seq, flag) == [kind |-> kind, n |-> n, set |-> set, seq |-> seq, flag |-> flag]
A(name, i, n, q) == [name |-> name, i |-> i, n |-> n, q |-> q]

Count(i, n) == /\ "Count" \in Ops
               /\ \E E \in {Ensure(insts[i].levels, Bas(i), n)} :
                  /\ insts' = [insts EXCEPT ![i].levels = E]
                  /\ reply' = R("int", Cardinality(DOMAIN E[n + 1]), {}, <<>>, FALSE)
               /\ fault' = FaultAfter(i, n)
               /\ act' = A("Count", i, n, <<>>) /\ UNCHANGED <<cc, its>>
\* list(of_length(n)): fully consumed at once
OfLength(i, n) == /\ "OfLength" \in Ops
                  /\ \E E \in {Ensure(insts[i].levels, Bas(i), n)} :
                     /\ insts' = [insts EXCEPT ![i].levels = E]
                     /\ reply' = R("set", 0, DOMAIN E[n + 1], <<>>, FALSE)
                  /\ fault' = FaultAfter(i, n)
                  /\ act' = A("OfLength", i, n, <<>>) /\ UNCHANGED <<cc, its>>
\* enumeration(n) = [count(0), ..., count(n)]
Enumeration(i, n) == /\ "Enumeration" \in Ops
                     /\ \E E \in {Ensure(insts[i].levels, Bas(i), n)} :
                        /\ insts' = [insts EXCEPT ![i].levels = E]
                        /\ reply' = R("seq", 0, {}, [k \in 1..(n + 1) |-> Cardinality(DOMAIN E[k])], FALSE)
                     /\ fault' = FaultAfter(i, n)
                     /\ act' = A("Enumeration", i, n, <<>>) /\ UNCHANGED <<cc, its>>
Member(i, q) == /\ "Member" \in Ops
                /\ \E E \in {Ensure(insts[i].levels, Bas(i), Len(q))} :
                   /\ insts' = [insts EXCEPT ![i].levels = E]
                   /\ reply' = R("bool", 0, {}, <<>>, q \in DOMAIN E[Len(q) + 1])
                /\ fault' = FaultAfter(i, Len(q))
                /\ act' = A("Member", i, 0, q) /\ UNCHANGED <<cc, its>>

\* A call asking instance i for level n that does not return: an exception (KeyboardInterrupt) passes through it
\* while levels are being built.  Whole levels up to some k < n are in place, nothing has been compacted, and an
\* arbitrary set S of members of level k has had its end values recorded for the abandoned level k + 1.  Later
\* calls are ordinary calls from that state; the invariants say their replies are still those of the definition.
\* With "InterruptEarlyAppend" in Ops the unfinished level stays registered (a wrong design TLC must refute).
Interrupted(i, n) ==
    /\ "Interrupt" \in Ops /\ Len(insts[i].levels) <= n
    /\ \E k \in (Len(insts[i].levels) - 1)..(n - 1) : \E L \in {BuildTo(insts[i].levels, Bas(i), k)} :
          IF Bas(i).mesh THEN insts' = [insts EXCEPT ![i].levels = L]
          ELSE \E S \in SUBSET DOMAIN L[k + 1] :
                 insts' = [insts EXCEPT ![i].levels = IF "InterruptEarlyAppend" \in Ops /\ S # DOMAIN L[k + 1]
                                                       THEN EarlyAppendClassical(L, Bas(i), S) ELSE PartialClassical(L, Bas(i), S)]
    /\ reply' = NoReply /\ act' = A("Interrupted", i, n, <<>>) /\ UNCHANGED <<cc, its, fault>>
\* the trace form: the interruption left exactly the levels 0..k
InterruptedTo(i, k) ==
    /\ "Interrupt" \in Ops /\ Len(insts[i].levels) - 1 <= k
    /\ insts' = [insts EXCEPT ![i].levels = BuildTo(@, Bas(i), k)]
    /\ reply' = NoReply /\ act' = A("Interrupted", i, k, <<>>) /\ UNCHANGED <<cc, its, fault>>

\* Av(basis): get or create through the class cache
NewAv(b) == /\ "NewAv" \in Ops
            /\ IF cc[b] # 0
               THEN /\ reply' = R("inst", cc[b], {}, <<>>, FALSE) /\ UNCHANGED <<insts, cc>>
               ELSE /\ Len(insts) < MaxInst
                    /\ insts' = Append(insts, [b |-> b, levels |-> FreshLevels])
                    /\ cc' = [cc EXCEPT ![b] = Len(insts) + 1]
                    /\ reply' = R("inst", Len(insts) + 1, {}, <<>>, TRUE)
            /\ act' = A("NewAv", 0, b, <<>>) /\ UNCHANGED <<its, fault>>
ClearCache == /\ "ClearCache" \in Ops
              /\ cc' = [b \in DOMAIN cc |-> 0]
              /\ reply' = NoReply /\ act' = A("ClearCache", 0, 0, <<>>) /\ UNCHANGED <<insts, its, fault>>

\* is_subclass: all(p not in self for p in other.basis), basis elements in their stored
\* (sorted) order, stopping at the first member.  Ideal meaning: Av(self) is contained in
\* Av(other).  For two classical bases the walk decides exactly that.  When a mesh basis is
\* involved it does not (deviation IsSubclass_MeshBasisWalk): a mesh basis element of `other` is
\* never `in` the class (the answer is vacuously TRUE), and a class with a mesh basis is not
\* closed under taking patterns, so "no basis element of other is in self" does not imply inclusion.
BasisSeq(bd) == IF bd.mesh THEN <<>> ELSE SetToSortSeq(bd.elems, PPermLess)
RECURSIVE SubWalk(_, _, _, _)
SubWalk(L, bd, bs, k) ==      \* returns <<levels, verdict>>
    IF k > Len(bs) THEN <<L, TRUE>>
    ELSE CHOOSE res \in { IF bs[k] \in DOMAIN L2[Len(bs[k]) + 1] THEN <<L2, FALSE>> ELSE SubWalk(L2, bd, bs, k + 1)
                          : L2 \in {Ensure(L, bd, Len(bs[k]))} } : TRUE
IsSubclassIdealUpTo(i, j, N) == \A n \in 0..N : CL(insts[i].b, n) \subseteq CL(insts[j].b, n)
IsSubclass(i, j) ==
    /\ "IsSubclass" \in Ops
    /\ \E w \in {SubWalk(insts[i].levels, Bas(i), BasisSeq(Bas(j)), 1)} :
       /\ insts' = [insts EXCEPT ![i].levels = w[1]]
       \* reply.flag: the ideal (bounded by MaxLen when a mesh basis is involved); reply.n = 1 iff the deviating walk says TRUE
       /\ reply' = R("bool", IF w[2] THEN 1 ELSE 0, {}, <<>>,
                     IF Bas(i).mesh \/ Bas(j).mesh THEN IsSubclassIdealUpTo(i, j, MaxLen) ELSE w[2])
    /\ act' = A("IsSubclass", i, j, <<>>) /\ UNCHANGED <<cc, its, fault>>

\* ---- lazy iterators -----------------------------------------------------------------
\* of_length(n) calls _get_level immediately and iterates over that dict object;
\* up_to_length(n) and first(c) are generators that fetch each level when they reach it.
\* got = the permutations yielded so far from the level currently being walked (snap).
Iter(kind, i, n) == [kind |-> kind, i |-> i, n |-> n, cur |-> -1, snap |-> {}, got |-> {}, total |-> 0]
OpenOf(i, n) == /\ "Iter" \in Ops /\ Len(its) < MaxIts
                /\ \E E \in {Ensure(insts[i].levels, Bas(i), n)} :
                   /\ insts' = [insts EXCEPT ![i].levels = E]
                   /\ its' = Append(its, [Iter("of", i, n) EXCEPT !.cur = n, !.snap = DOMAIN E[n + 1]])
                /\ fault' = FaultAfter(i, n)
                /\ reply' = NoReply /\ act' = A("OpenOf", i, n, <<>>) /\ UNCHANGED cc
OpenUpTo(i, n) == /\ "Iter" \in Ops /\ Len(its) < MaxIts
                  /\ its' = Append(its, Iter("upto", i, n))
                  /\ reply' = NoReply /\ act' = A("OpenUpTo", i, n, <<>>) /\ UNCHANGED <<insts, cc, fault>>
OpenFirst(i, c) == /\ "Iter" \in Ops /\ Len(its) < MaxIts
                   /\ its' = Append(its, Iter("first", i, c))
                   /\ reply' = NoReply /\ act' = A("OpenFirst", i, c, <<>>) /\ UNCHANGED <<insts, cc, fault>>

ProbeSet == PPermsUpTo(MaxLen)
Drop(s, t) == [k \in 1..(Len(s) - 1) |-> IF k < t THEN s[k] ELSE s[k + 1]]
\* one next() on iterator t.  A generator that has exhausted its current level moves on,
\* fetching the following level(s) at that moment.
RECURSIVE Advance(_, _, _)
Advance(L, it, bd) ==      \* <<levels, iterator or "stop" marker in .kind>>
    IF it.got # it.snap THEN <<L, it>>
    ELSE IF it.kind = "of" THEN <<L, [it EXCEPT !.kind = "stop"]>>
    ELSE IF it.kind = "upto" /\ it.cur >= it.n THEN <<L, [it EXCEPT !.kind = "stop"]>>
    ELSE IF it.kind = "first" /\ (it.total >= it.n \/ (it.cur >= 0 /\ it.snap = {})) THEN <<L, [it EXCEPT !.kind = "stop"]>>
    ELSE IF it.cur + 1 > MaxLen THEN <<L, [it EXCEPT !.kind = "beyond"]>>      \* outside the explored bound
    ELSE CHOOSE res \in { Advance(L2, [it EXCEPT !.cur = it.cur + 1, !.snap = DOMAIN L2[it.cur + 2], !.got = {}], bd)
                          : L2 \in {Ensure(L, bd, it.cur + 1)} } : TRUE
AdvOf(t) == LET it == its[t] IN
            Advance(insts[it.i].levels, IF it.kind = "first" /\ it.total >= it.n THEN [it EXCEPT !.got = it.snap] ELSE it, Bas(it.i))
NextItStop(t) ==
    /\ "Iter" \in Ops /\ t \in DOMAIN its /\ AdvOf(t)[2].kind = "stop"
    /\ insts' = [insts EXCEPT ![its[t].i].levels = AdvOf(t)[1]]
    /\ its' = Drop(its, t)
    /\ reply' = R("stop", 0, {}, <<>>, FALSE)
    /\ act' = A("NextIt", t, 0, <<>>) /\ UNCHANGED <<cc, fault>>
\* the iterator yields q: any member of the level it is walking that it has not yielded yet
NextItYield(t, q) ==
    /\ "Iter" \in Ops /\ t \in DOMAIN its
    /\ LET it2 == AdvOf(t)[2] IN
       /\ it2.kind \notin {"stop", "beyond"}
       /\ q \in it2.snap \ it2.got
       /\ insts' = [insts EXCEPT ![its[t].i].levels = AdvOf(t)[1]]
       /\ its' = [its EXCEPT ![t] = [it2 EXCEPT !.got = @ \cup {q}, !.total = @ + 1]]
       /\ reply' = R("yield", it2.cur, {q}, <<>>, FALSE)
    /\ act' = A("NextIt", t, 0, q) /\ UNCHANGED <<cc, fault>>
NextIt(t) == NextItStop(t) \/ \E q \in ProbeSet : NextItYield(t, q)

\* membership probes: for every length one member and one non-member of each class (when they
\* exist) - the listing actions already compare whole levels, and Trace_C02 judges arbitrary ones
Probe == UNION {UNION {LET C == CL(b, n)  D == PPerms(n) \ C IN
                        (IF C = {} THEN {} ELSE {CHOOSE q \in C : TRUE}) \cup (IF D = {} THEN {} ELSE {CHOOSE q \in D : TRUE})
                       : n \in 0..MaxLen} : b \in DOMAIN Bases}
Init == /\ insts = <<>> /\ cc = [b \in DOMAIN Bases |-> 0] /\ its = <<>> /\ fault = FALSE
        /\ act = A("Init", 0, 0, <<>>) /\ reply = NoReply
Next == \/ \E b \in DOMAIN Bases : NewAv(b)
        \/ ClearCache
        \/ \E i \in DOMAIN insts :
             \/ \E n \in 0..MaxLen : Count(i, n) \/ OfLength(i, n) \/ Enumeration(i, n) \/ OpenOf(i, n) \/ OpenUpTo(i, n)
             \/ \E c \in 0..MaxLen + 2 : OpenFirst(i, c)
             \/ \E q \in Probe : Member(i, q)
             \/ \E j \in DOMAIN insts : IsSubclass(i, j)
             \/ \E n \in 0..MaxLen : Interrupted(i, n)
        \/ \E t \in DOMAIN its : NextIt(t)

\* ---- properties ---------------------------------------------------------------------
\* the design theorem: what the window rule builds is the class
LevelsExact == \A i \in DOMAIN insts : \A k \in 1..Len(insts[i].levels) :
                  DOMAIN insts[i].levels[k] = CL(insts[i].b, k - 1)
\* uncompacted spots of level k are exactly the admissible end values, once level k+1 exists
SpotsExact == \A i \in DOMAIN insts : ~Bas(i).mesh =>
                \A k \in 1..(Len(insts[i].levels) - 1) : \A p \in DOMAIN insts[i].levels[k] :
                   LET s == insts[i].levels[k][p] IN
                   s # Compacted => s = IF k = 1 THEN {0}     \* level 0 starts as {eps: [0]}, also when (0) is excluded
                                        ELSE {v \in 0..(k - 1) : InsRight(p, v) \in CL(insts[i].b, k)}
\* the two topmost levels are never compacted (the next build needs them)
TopTwoUncompacted == \A i \in DOMAIN insts : ~Bas(i).mesh =>
                        \A k \in IMax(1, Len(insts[i].levels) - 1)..Len(insts[i].levels) :
                           \A p \in DOMAIN insts[i].levels[k] : insts[i].levels[k][p] # Compacted
NoFault == ~fault
\* every reply equals the definition, whatever was asked before
ReplyCorrect ==
    CASE act.name = "Count" -> reply.n = Cardinality(CL(insts[act.i].b, act.n))
      [] act.name = "OfLength" -> reply.set = CL(insts[act.i].b, act.n)
      [] act.name = "Enumeration" -> reply.seq = [k \in 1..(act.n + 1) |-> Cardinality(CL(insts[act.i].b, k - 1))]
      [] act.name = "Member" -> reply.flag = AvoidsBasis(act.q, Bas(act.i))
      [] act.name = "IsSubclass" -> ((~Bas(act.i).mesh /\ ~Bas(act.n).mesh) => (reply.flag <=> IsSubclassIdealUpTo(act.i, act.n, MaxLen + 1)))
      [] act.name = "NextIt" -> (reply.kind = "yield" => reply.set \subseteq CL(insts[its[act.i].i].b, reply.n))
      [] OTHER -> TRUE
\* iterators only ever walk complete levels
ItersSound == \A t \in DOMAIN its : its[t].cur >= 0 =>
                 /\ its[t].snap = CL(insts[its[t].i].b, its[t].cur) /\ its[t].got \subseteq its[t].snap
\* equal bases share one object; different bases never do
CacheCoherent == \A b \in DOMAIN cc : cc[b] # 0 => (cc[b] \in DOMAIN insts /\ insts[cc[b]].b = b)

\* ---- emission -------------------------------------------------------------------------
\* Given LevelsExact and SpotsExact (checked above) an instance is determined by its basis,
\* the number of levels and which of them are compacted; that is its key.  Full projections
\* are printed once per distinct state, edges carry keys only.
View == mech
LevelJson(lev) == LET ps == SetToSortSeq(DOMAIN lev, PPermLess)
                  IN [k \in DOMAIN ps |-> [p |-> ps[k], s |-> IF lev[ps[k]] = Compacted THEN <<-1>> ELSE SetToSortSeq(lev[ps[k]], <)]]
InstKey(x) == [b |-> x.b, top |-> Len(x.levels) - 1,
               comp |-> SetToSortSeq({k \in 0..(Len(x.levels) - 1) : \E p \in DOMAIN x.levels[k + 1] : x.levels[k + 1][p] = Compacted}, <),
               sizes |-> [k \in DOMAIN x.levels |-> Cardinality(DOMAIN x.levels[k])]]
ItKey(it) == [kind |-> it.kind, i |-> it.i, n |-> it.n, cur |-> it.cur, got |-> SetToSortSeq(it.got, PPermLess), total |-> it.total]
MechKey(I, C, T) == [insts |-> [k \in DOMAIN I |-> InstKey(I[k])], cc |-> C, its |-> [k \in DOMAIN T |-> ItKey(T[k])]]
EmitEdge == PrintT(ToJson([from |-> MechKey(insts, cc, its), act |-> act', reply |-> reply', to |-> MechKey(insts', cc', its')]))
EmitState == PrintT(ToJson([key |-> MechKey(insts, cc, its),
                            full |-> [k \in DOMAIN insts |-> [kk \in DOMAIN insts[k].levels |-> LevelJson(insts[k].levels[kk])]]]))
=============================================================================
