---------------------------- MODULE C07_AvThreads ----------------------------
(***************************************************************************)
(* C07: several threads query one shared class object.                     *)
(*                                                                         *)
(* Av._get_level(n) in permset.py is                                       *)
(*     with Av._CACHE_LOCK:  self._ensure_level(n)                         *)
(*     return self.cache[n]              (the read is outside the lock)    *)
(* and _ensure_level reads len(cache), then for every missing level fills  *)
(* the spots of the last level while computing the new one, appends the    *)
(* new level, and finally compacts levels start..n-2 one by one.           *)
(* One action per shared access:                                           *)
(*   Begin -> Acquire -> ReadLen -> (Fill -> AppendLevel)* -> CompactOne*  *)
(*         -> Release -> ReadLevel -> (next call)                          *)
(* LockMode selects the discipline: "as_coded", "none" (no lock at all),   *)
(* "readlen_outside" (len(cache) read before the lock is taken).  TLC must *)
(* establish the invariants for as_coded and must refute them for the two  *)
(* faulty designs - otherwise the model could not tell them apart.         *)
(***************************************************************************)
EXTENDS AvMech, Json

CONSTANTS Basis,       \* one basis descriptor [mesh, elems]
          Prog,        \* Prog[t] = sequence of calls [op |-> "count"|"list"|"member", n |-> length, q |-> perm]
          LockMode

VARIABLES cache, lock, pc, ci, start, nxt, pend, cidx, res, err
vars == <<cache, lock, pc, ci, start, nxt, pend, cidx, res, err>>
Threads == DOMAIN Prog
Call(t) == Prog[t][ci[t]]
Target(t) == IF Call(t).op = "member" THEN Len(Call(t).q) ELSE Call(t).n

Init == /\ cache = FreshLevels /\ lock = 0
        /\ pc = [t \in Threads |-> IF Len(Prog[t]) = 0 THEN "done" ELSE "begin"]
        /\ ci = [t \in Threads |-> 1]
        /\ start = [t \in Threads |-> 0] /\ nxt = [t \in Threads |-> 0]
        /\ pend = [t \in Threads |-> <<>>] /\ cidx = [t \in Threads |-> 0]
        /\ res = [t \in Threads |-> <<>>] /\ err = [t \in Threads |-> FALSE]

Goto(t, l) == pc' = [pc EXCEPT ![t] = l]

Begin(t) == /\ pc[t] = "begin"
            /\ Goto(t, IF LockMode = "as_coded" THEN "acquire" ELSE "readlen")
            /\ UNCHANGED <<cache, lock, ci, start, nxt, pend, cidx, res, err>>
Acquire(t) == /\ pc[t] = "acquire" /\ lock = 0
              /\ lock' = t
              /\ Goto(t, IF LockMode = "readlen_outside" THEN "loop" ELSE "readlen")
              /\ UNCHANGED <<cache, ci, start, nxt, pend, cidx, res, err>>
\* start = max(0, len(cache) - 2);  range(len(cache), n + 1) is fixed here
ReadLen(t) == /\ pc[t] = "readlen"
              /\ start' = [start EXCEPT ![t] = IMax(0, Len(cache) - 2)]
              /\ nxt' = [nxt EXCEPT ![t] = Len(cache)]
              /\ Goto(t, IF LockMode = "readlen_outside" THEN "acquire" ELSE "loop")
              /\ UNCHANGED <<cache, lock, ci, pend, cidx, res, err>>
Loop(t) == /\ pc[t] = "loop"
           /\ IF nxt[t] <= Target(t) THEN Goto(t, "fill")
              ELSE /\ Goto(t, "compact")
           /\ cidx' = [cidx EXCEPT ![t] = start[t]]
           /\ UNCHANGED <<cache, lock, ci, start, nxt, pend, res, err>>
\* One iteration of the build loop for level nxt[t]: last_level = cache[-1] is whatever is
\* last *now*.  If that is not level nxt-1 (another thread appended meanwhile) the code works
\* on the wrong level (KeyError / assertion / garbage): modelled as err.
Fill(t) == /\ pc[t] = "fill"
           /\ IF Len(cache) # nxt[t] \/ (~Basis.mesh /\ WouldFault(cache, Basis))
              THEN /\ err' = [err EXCEPT ![t] = TRUE] /\ Goto(t, "done") /\ lock' = IF lock = t THEN 0 ELSE lock
                   /\ UNCHANGED <<cache, pend>>
              ELSE /\ \E L2 \in {IF Basis.mesh THEN AppendMesh(cache, Basis) ELSE AppendClassical(cache, Basis)} :
                        /\ cache' = SubSeq(L2, 1, Len(cache))            \* spots of the last level filled
                        /\ pend' = [pend EXCEPT ![t] = << L2[Len(L2)] >>]
                   /\ Goto(t, "append") /\ UNCHANGED <<lock, err>>
           /\ UNCHANGED <<ci, start, nxt, cidx, res>>
AppendLevel(t) == /\ pc[t] = "append"
                  /\ cache' = Append(cache, pend[t][1])
                  /\ nxt' = [nxt EXCEPT ![t] = @ + 1]
                  /\ pend' = [pend EXCEPT ![t] = <<>>]
                  /\ Goto(t, "loop")
                  /\ UNCHANGED <<lock, ci, start, cidx, res, err>>
\* for i in range(start, n - 1): cache[i] = {perm: None ...}
CompactOne(t) == /\ pc[t] = "compact"
                 /\ IF cidx[t] <= Target(t) - 2
                    THEN /\ IF cidx[t] + 1 \in DOMAIN cache
                            THEN cache' = [cache EXCEPT ![cidx[t] + 1] = [q \in DOMAIN @ |-> Compacted]]
                            ELSE UNCHANGED cache
                         /\ cidx' = [cidx EXCEPT ![t] = @ + 1] /\ UNCHANGED pc
                    ELSE /\ Goto(t, IF LockMode = "none" THEN "readlevel" ELSE "release") /\ UNCHANGED <<cache, cidx>>
                 /\ UNCHANGED <<lock, ci, start, nxt, pend, res, err>>
Release(t) == /\ pc[t] = "release" /\ lock = t
              /\ lock' = 0 /\ Goto(t, "readlevel")
              /\ UNCHANGED <<cache, ci, start, nxt, pend, cidx, res, err>>
\* return self.cache[n]  - outside the lock - and the caller's use of that level
ReadLevel(t) ==
    /\ pc[t] = "readlevel"
    /\ IF Target(t) + 1 \notin DOMAIN cache
       THEN /\ err' = [err EXCEPT ![t] = TRUE] /\ Goto(t, "done") /\ UNCHANGED <<res, ci>>
       ELSE /\ LET keys == DOMAIN cache[Target(t) + 1]
                   r == CASE Call(t).op = "count" -> [op |-> "count", n |-> Cardinality(keys), set |-> {}, flag |-> FALSE]
                          [] Call(t).op = "list" -> [op |-> "list", n |-> 0, set |-> keys, flag |-> FALSE]
                          [] Call(t).op = "member" -> [op |-> "member", n |-> 0, set |-> {}, flag |-> Call(t).q \in keys]
               IN res' = [res EXCEPT ![t] = Append(@, r)]
            /\ IF ci[t] < Len(Prog[t]) THEN ci' = [ci EXCEPT ![t] = @ + 1] /\ Goto(t, "begin")
                                       ELSE UNCHANGED ci /\ Goto(t, "done")
            /\ UNCHANGED err
    /\ UNCHANGED <<cache, lock, start, nxt, pend, cidx>>

Step(t) == Begin(t) \/ Acquire(t) \/ ReadLen(t) \/ Loop(t) \/ Fill(t) \/ AppendLevel(t)
           \/ CompactOne(t) \/ Release(t) \/ ReadLevel(t)
Next == \E t \in Threads : Step(t)
Spec == Init /\ [][Next]_vars /\ \A t \in Threads : WF_vars(Step(t))

\* ---- properties -----------------------------------------------------------------------
InCS(t) == pc[t] \in {"readlen", "loop", "fill", "append", "compact", "release"}
MutualExclusion == LockMode = "as_coded" => \A a, b \in Threads : (a # b /\ InCS(a)) => ~InCS(b)
NoException == \A t \in Threads : ~err[t]
\* every level visible in the shared list is the complete level of its index
NoTornLevel == \A k \in DOMAIN cache : DOMAIN cache[k] = ClassLevel(Basis, k - 1)
Expected(c) == LET n == IF c.op = "member" THEN Len(c.q) ELSE c.n
                   C == ClassLevel(Basis, n)
               IN CASE c.op = "count" -> [op |-> "count", n |-> Cardinality(C), set |-> {}, flag |-> FALSE]
                    [] c.op = "list" -> [op |-> "list", n |-> 0, set |-> C, flag |-> FALSE]
                    [] c.op = "member" -> [op |-> "member", n |-> 0, set |-> {}, flag |-> c.q \in C]
ResultsAsAlone == \A t \in Threads : \A k \in DOMAIN res[t] : res[t][k] = Expected(Prog[t][k])
AllDone == \A t \in Threads : pc[t] = "done"
Termination == <>AllDone
\* the lock is held only inside the critical section and released at the end
LockDiscipline == /\ lock # 0 => (lock \in Threads /\ pc[lock] \in {"readlen", "loop", "fill", "append", "compact", "release", "acquire"})
                  /\ AllDone => lock = 0

\* ---- emission: the expected result of every call of the program (what it returns alone) ----
EmitExpected == AllDone => PrintT(ToJson([expected |-> [t \in Threads |-> [k \in DOMAIN Prog[t] |-> Expected(Prog[t][k])]]]))
=============================================================================
