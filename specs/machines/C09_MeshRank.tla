---------------------------- MODULE C09_MeshRank ----------------------------
(***************************************************************************)
(* C09, part 4: mesh pattern rank / unrank / of_length.                    *)
(*                                                                         *)
(* Mode "gen": the enumerator of all mesh patterns of a length is a state  *)
(*   machine: state (patt, shade, pos); Next takes the shading whose rank  *)
(*   is one more (found in the table of MRank over all shadings - the      *)
(*   definition of unranking), and when the fully shaded grid has been     *)
(*   produced moves to the next underlying pattern in lexicographic order  *)
(*   with the empty shading.  One behaviour per length in Lens.            *)
(*   pos is what index the pattern must have in MeshPatt.of_length(k),     *)
(*   MRank(shade) what .rank() must return, (patt, shade) what             *)
(*   MeshPatt.unrank(patt, rank) must return.                              *)
(* Mode "sample": the explicit set Sample of mesh patterns (length 3 and   *)
(*   more) with their ranks by definition, and the ranks in UnrankSample   *)
(*   unranked through the table of pattern SamplePatt.                     *)
(***************************************************************************)
EXTENDS LexRank, Json

CONSTANTS Mode, Lens, CountEvery, Sample, SamplePatt, UnrankSample

VARIABLES patt, shade, pos, rk
vars == <<patt, shade, pos, rk>>

K == Len(patt)
NumShadings(k) == Cardinality(SUBSET MCells(k))
\* tables, evaluated once: rank of every shading (ranks do not depend on the underlying pattern)
RankTab == [k \in Lens |-> MRankTable(PIdentity(k))]
PermsTab == [k \in Lens |-> PPerms(k)]
SampleTab == MRankTable(SamplePatt)

InitGen == /\ Mode = "gen" /\ \E k \in Lens : patt = PIdentity(k)
           /\ shade = {} /\ pos = 0 /\ rk = 0
InitSample == /\ Mode = "sample"
              /\ \/ \E M \in Sample : patt = M.p /\ shade = M.R /\ rk = MRank(M) /\ pos = 0
                 \/ \E r \in UnrankSample : /\ patt = SamplePatt /\ rk = r /\ pos = 1
                                            /\ shade = IF MValidRankIn(SampleTab, r) THEN MUnrankIn(SampleTab, r) ELSE {<<-1, -1>>}
Init == InitGen \/ InitSample

NextShading == /\ MValidRankIn(RankTab[K], rk + 1)
               /\ shade' = MUnrankIn(RankTab[K], rk + 1) /\ rk' = rk + 1 /\ pos' = pos + 1 /\ UNCHANGED patt
NextPattern == /\ ~MValidRankIn(RankTab[K], rk + 1)
               /\ LGreaterIn(PermsTab[K], patt) # {}
               /\ patt' = LNextIn(PermsTab[K], patt) /\ shade' = {} /\ rk' = 0 /\ pos' = pos + 1
Next == Mode = "gen" /\ (NextShading \/ NextPattern)

\* ---- properties ---------------------------------------------------------------------------
M0 == MMesh(patt, shade)
TypeOK == Mode = "gen" => MIsMesh(M0)
RankIsRank == Mode = "gen" => MRank(M0) = rk /\ [R |-> shade, r |-> rk] \in RankTab[K]
\* position = (number of smaller underlying patterns) * (number of shadings) + rank
PosIsIndex == Mode = "gen" => pos = LRankIn(PermsTab[K], patt) * NumShadings(K) + rk
\* rank = number of shadings that precede in the order of the most significant differing cell
RankIsCount == (Mode = "gen" /\ pos % CountEvery = 0) => MRankByCount(K, shade) = rk
\* first and last shading of a pattern
Extremes == Mode = "gen" => /\ (rk = 0 <=> shade = {})
                            /\ (rk = NumShadings(K) - 1 <=> shade = MCells(K))
                            /\ (~MValidRankIn(RankTab[K], rk + 1) <=> shade = MCells(K))
                            /\ ~MValidRankIn(RankTab[K], -1) /\ ~MValidRankIn(RankTab[K], NumShadings(K))
\* the behaviour is strictly increasing in (pattern, rank): nothing twice; steps of exactly one: nothing skipped
StrictlyIncreasing == [][\/ (patt' = patt /\ rk' = rk + 1 /\ MShadeLess(shade, shade'))
                         \/ (PLexLess(patt, patt') /\ rk' = 0 /\ shade = MCells(K)
                             /\ ~\E q \in PermsTab[K] : PLexLess(patt, q) /\ PLexLess(q, patt'))]_vars
SampleSound == Mode = "sample" =>
    IF pos = 0 THEN MIsMesh(M0) /\ rk \in 0..(NumShadings(K) - 1)
    ELSE (MValidRankIn(SampleTab, rk) <=> rk \in 0..(NumShadings(K) - 1))
         /\ (MValidRankIn(SampleTab, rk) => MRank(M0) = rk /\ MIsMesh(M0))

EmitState == PrintT(ToJson([mode |-> Mode, p |-> patt, R |-> shade, rank |-> rk, pos |-> pos, k |-> K,
                            pidx |-> IF Mode = "gen" THEN LRankIn(PermsTab[K], patt) ELSE PRankInLength(patt),
                            nshade |-> NumShadings(K),
                            valid |-> IF Mode = "sample" /\ pos = 1 THEN MValidRankIn(SampleTab, rk) ELSE TRUE,
                            dir |-> IF Mode = "sample" /\ pos = 1 THEN "unrank" ELSE "rank"]))
=============================================================================
