------------------------------ MODULE C16_Simples ------------------------------
(***************************************************************************)
(* C16: "finitely many simples".  A state is one basis.  It carries what   *)
(* the property lets the verdict be judged against:                        *)
(*   special   no symmetric image of a special family (parallel            *)
(*             alternations, wedge simples of both types) has arbitrarily  *)
(*             long members in the class (explicit families, lib Simples)  *)
(*   simples   the number of simple permutations of the class of each      *)
(*             length 4..MaxN, by enumeration (for Schmerl-Trotter: if the *)
(*             class has infinitely many simples it has one in every two   *)
(*             consecutive lengths)                                        *)
(* The pin-sequence part of the criterion is decided on the exported       *)
(* automaton (machine C15_PinLanguage).                                    *)
(* Extras[basis]: permutations the harness adds to the basis to present    *)
(* the same class by a non-minimal basis; NonMinimalSame checks that each  *)
(* of them really contains a basis element (so the class is the same) and  *)
(* that the special-family verdict and the simples do not move.            *)
(***************************************************************************)
EXTENDS Simples, Json, TLC

CONSTANTS Inputs, MaxN, Extras
VARIABLES basis
vars == <<basis>>
Init == basis \in Inputs
Stutter == UNCHANGED vars

SimpleCounts == [n \in 4..MaxN |-> Cardinality(SSimplesOfClass(basis, n))]
\* consistency of the specification: a family with arbitrarily long members in the class
\* contributes a simple permutation to every even length
FamiliesGiveSimples == SSpecialInfinite(basis) => \A n \in 4..MaxN : n % 2 = 0 => SimpleCounts[n] > 0
\* the verdict on special families is invariant under the eight symmetries
SymmetryInvariant == \A g \in DNames : SSpecialFinite(DSymSet(g, basis)) = SSpecialFinite(basis)
\* non-minimal presentations used by the harness describe the same class and get the same verdict
NonMinimalSame == \E X \in {Extras[basis]} :
                     /\ \A c \in X : \E b \in basis : PContains(c, b)
                     /\ SSpecialFinite(basis \cup X) = SSpecialFinite(basis)
                     /\ \A n \in 4..(IF MaxN < 6 THEN MaxN ELSE 6) : SSimplesOfClass(basis \cup X, n) = SSimplesOfClass(basis, n)
EmitState == PrintT(ToJson([basis |-> basis, special |-> SSpecialFinite(basis),
                            simples |-> [n \in 1..(MaxN - 3) |-> SimpleCounts[n + 3]],
                            syms |-> {DSortedTuple(DSymSet(g, basis)) : g \in DNames}]))
=============================================================================
