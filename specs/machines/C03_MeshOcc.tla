---------------------------- MODULE C03_MeshOcc ----------------------------
(***************************************************************************)
(* C03: occurrences of mesh / bivincular / vincular / covincular patterns  *)
(* in permutations.  A state is one query: the pattern (underlying         *)
(* permutation patt, shaded cells shade, and - for the bivincular family - *)
(* the adjacency requirements adjx/adjy it was built from), the            *)
(* permutation perm, and the reply: the occurrence listing by definition.  *)
(* Universes (selected by Mode):                                           *)
(*   "mesh"   every shading of every pattern of length MinMesh..MaxMesh    *)
(*   "biv"    every pair of requirement sets for patterns of length BivLen *)
(*   "sample" the explicit finite set Sample (chosen by the harness)       *)
(***************************************************************************)
EXTENDS Mesh, Json

CONSTANTS Mode, MinMesh, MaxMesh, BivLen, MinPerm, MaxPerm, Shard, NShards, Sample

VARIABLES patt, shade, adjx, adjy, isbiv, perm, reply
vars == <<patt, shade, adjx, adjy, isbiv, perm, reply>>

PermUniverse == PPermsBetween(MinPerm, MaxPerm)
MeshUniverse == {M \in UNION {MAllMesh(k) : k \in MinMesh..MaxMesh} : (MRank(M) + Len(M.p)) % NShards = Shard}
SetSum(S) == IF S = {} THEN 0 ELSE SumSet(S)
BivUniverse == {b \in PPerms(BivLen) \X (SUBSET (0..BivLen)) \X (SUBSET (0..BivLen)) :
                   (SetSum(b[2]) + 5 * SetSum(b[3]) + 3 * Cardinality(b[2]) + PRankInLength(b[1])) % NShards = Shard}

InitMesh == /\ Mode = "mesh"
            /\ \E M \in MeshUniverse : /\ patt = M.p /\ shade = M.R
                                       /\ isbiv = MIsBiv(M) /\ adjx = MFullCols(M) /\ adjy = MFullRows(M)
InitBiv == /\ Mode = "biv"
           /\ \E b \in BivUniverse : /\ patt = b[1] /\ adjx = b[2] /\ adjy = b[3]
                                     /\ shade = MBiv(b[1], b[2], b[3]).R /\ isbiv = TRUE
InitSample == /\ Mode = "sample"
              /\ \E M \in Sample : /\ patt = M.p /\ shade = M.R
                                   /\ isbiv = MIsBiv(M) /\ adjx = MFullCols(M) /\ adjy = MFullRows(M)
Init == /\ (InitMesh \/ InitBiv \/ InitSample)
        /\ perm \in PermUniverse
        /\ reply = MOccSeq0(MMesh(patt, shade), perm)
Stutter == UNCHANGED vars

M0 == MMesh(patt, shade)
\* ---- properties of the specification itself ----------------------------------
TypeOK == MIsMesh(M0) /\ PIsPerm(perm)
\* every reported tuple is an occurrence of the underlying classical pattern
Underlying == \A i \in DOMAIN reply : [j \in DOMAIN reply[i] |-> reply[i][j] + 1] \in POcc(patt, perm)
\* no shading: exactly the classical occurrences;  everything shaded: only when the
\* permutation has no other points
Extremes == /\ (shade = {} => reply = POccSeq0(patt, perm))
            /\ (shade = MCells(Len(patt)) => (reply # <<>> <=> perm = patt))
\* bivincular meaning, stated directly through adjacency (cross-check of the mesh form)
BivMeaning == (isbiv /\ shade = MBiv(patt, adjx, adjy).R) =>
                 {[j \in DOMAIN reply[i] |-> reply[i][j] + 1] : i \in DOMAIN reply} = MBivOccDirect(patt, adjx, adjy, perm)

EmitState == PrintT(ToJson([p |-> patt, R |-> shade, X |-> adjx, Y |-> adjy, biv |-> isbiv, q |-> perm, occ |-> reply]))
=============================================================================
