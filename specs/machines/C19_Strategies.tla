---------------------------- MODULE C19_Strategies ----------------------------
(***************************************************************************)
(* C19: which enumeration strategies are reported for a basis.  A state is *)
(* one basis (a set of permutations); it carries, for each core strategy,  *)
(* whether its hypothesis holds for the basis or one of its symmetric      *)
(* images.  Invariants: the reported set is invariant under the eight      *)
(* symmetries, and depends only on the set (the machine has no order).     *)
(* A basis may be a redundant presentation (elements containing other      *)
(* elements): the hypotheses speak about every element given, so such a    *)
(* presentation can lose strategies of its minimal part but never gain one *)
(* (RedundantNeverGrows); the state also carries the minimal part.         *)
(***************************************************************************)
EXTENDS Strategies, Json
CONSTANTS Inputs
VARIABLES basis
vars == <<basis>>
Init == basis \in Inputs
Stutter == UNCHANGED vars
Report(B) == {s \in StrategyNames : Applies(s, B)}
SymmetryInvariant == \A g \in DNames : Report(DSymSet(g, basis)) = Report(basis)
\* adding a required pattern of a strategy to the basis keeps the strategy applicable
AddingNeededKeeps == \A s \in StrategyNames : Applies(s, basis) => \A p \in Needed(s) : AppliesTo(s, basis) => AppliesTo(s, basis \cup {p})
\* a redundant presentation never has a strategy that its minimal presentation lacks, and required patterns
\* are excluded from the class of the one iff from the class of the other
RedundantNeverGrows == /\ Report(basis) \subseteq Report(MinimalPart(basis))
                       /\ \A p \in UNION {Needed(s) : s \in StrategyNames} : InClass(p, basis) <=> InClass(p, MinimalPart(basis))
\* repeating the question for an image gives the answer for the basis (the orbit is closed)
ImagesOfImages == \A h \in {"inv", "rev"} : Report(DSymSet(h, DSymSet("r1", basis))) = Report(basis)
EmitState == PrintT(ToJson([basis |-> basis, report |-> Report(basis),
                            undefined |-> {s \in StrategyNames : SomeImageUndefined(s, basis)},
                            minimal |-> DSortedTuple(MinimalPart(basis)),
                            syms |-> {DSortedTuple(DSymSet(g, basis)) : g \in DNames}]))
=============================================================================
