---------------------------- MODULE C19_Strategies ----------------------------
(***************************************************************************)
(* C19: which enumeration strategies are reported for a basis.  A state is *)
(* one basis (a set of permutations); it carries, for each core strategy,  *)
(* whether its hypothesis holds for the basis or one of its symmetric      *)
(* images.  Invariants: the reported set is invariant under the eight      *)
(* symmetries, and depends only on the set (the machine has no order).     *)
(***************************************************************************)
EXTENDS Strategies, Json
CONSTANTS Inputs
VARIABLES basis
vars == <<basis>>
Init == basis \in Inputs
Stutter == UNCHANGED vars
Report(B) == {s \in StrategyNames : Applies(s, B)}
SymmetryInvariant == \A g \in DNames : Report(DSymSet(g, basis)) = Report(basis)
\* adding a required pattern of a strategy to the basis keeps the strategy applicable
AddingNeededKeeps == \A s \in StrategyNames : Applies(s, basis) => \A p \in Needed(s) : AppliesTo(s, basis) => AppliesTo(s, basis \cup {p})
EmitState == PrintT(ToJson([basis |-> basis, report |-> Report(basis),
                            undefined |-> {s \in StrategyNames : SomeImageUndefined(s, basis)},
                            syms |-> {DSortedTuple(DSymSet(g, basis)) : g \in DNames}]))
=============================================================================
