--------------------------- MODULE C06_MeshInMesh ---------------------------
(***************************************************************************)
(* C06: one mesh pattern inside another, and the sub-pattern induced on a  *)
(* set of points.  A state is the larger pattern M2 = (patt, shade).       *)
(* For every smaller pattern M1 of the constant sequence Smalls the state  *)
(* carries the occurrences of M1 in M2 by definition (an occurrence of the *)
(* underlying patterns whose induced sub-pattern is shaded at least like   *)
(* M1), and for every subset S of points the induced sub-pattern.          *)
(* The meaning is stated over the universe U of permutations:              *)
(*   Sound      an occurrence of M1 in M2 makes every permutation that     *)
(*              contains M2 contain M1, at the corresponding points        *)
(*   Strongest  a cell of the induced sub-pattern is shaded iff every      *)
(*              occurrence of M2 keeps that cell empty at those points     *)
(***************************************************************************)
EXTENDS Mesh, Json

CONSTANTS Mode, MinMesh, MaxMesh, MaxPerm, Shard, NShards, Sample, Smalls

VARIABLES patt, shade
vars == <<patt, shade>>
M2 == MMesh(patt, shade)
K == Len(patt)
U == PPermsUpTo(MaxPerm)

MeshU == {M \in UNION {MAllMesh(k) : k \in MinMesh..MaxMesh} : (MRank(M) + Len(M.p)) % NShards = Shard}
Init == \E M \in (IF Mode = "sample" THEN Sample ELSE MeshU) : patt = M.p /\ shade = M.R
Stutter == UNCHANGED vars

PointSets == SUBSET (1..K)
\* the positions of q that the occurrence t of M2 gives to the chosen points S
PickPts(t, S) == LET s == MSortedSeq(S) IN [i \in DOMAIN s |-> t[s[i]]]

TypeOK == MIsMesh(M2)
\* pointwise soundness of the induced sub-pattern: the corresponding points of every
\* occurrence of M2 form an occurrence of SubMesh(M2, S)
SubSound == \A S \in PointSets : \E Sub \in {MSubMesh(M2, S)} :
               \A q \in U : \A t \in MOcc(M2, q) : PickPts(t, S) \in MOcc(Sub, q)
\* strongest: every unshaded cell of the induced sub-pattern is hit by some occurrence of M2
\* (needs permutations one point longer than M2)
SubStrongest == \A S \in PointSets : \E Sub \in {MSubMesh(M2, S)} :
                   \A c \in MCells(Cardinality(S)) \ Sub.R :
                      \E q \in U : \E t \in MOcc(M2, q) :
                         \E j \in (DOMAIN q) \ MRangeOf(PickPts(t, S)) : MCellOf(q, PickPts(t, S), j) = c
\* soundness of reported containment, pointwise
InMeshSound == \A k \in DOMAIN Smalls : \A t \in MOccInMesh(Smalls[k], M2) :
                  \A q \in U : \A u \in MOcc(M2, q) : [i \in DOMAIN t |-> u[t[i]]] \in MOcc(Smalls[k], q)
\* a classical pattern is the unshaded mesh pattern
ClassicalAsUnshaded == shade = {} => \A k \in DOMAIN Smalls :
                          Smalls[k].R = {} => MOccInMesh(Smalls[k], M2) = POcc(Smalls[k].p, patt)

\* every pattern occurs in itself at its own points (and nowhere else with all its points)
SelfOccurs == MOccInMesh(M2, M2) = {[i \in 1..K |-> i]}
\* containment between patterns is transitive through the reported occurrences: composing an occurrence of
\* Smalls[j] in Smalls[k] with one of Smalls[k] in M2 gives an occurrence of Smalls[j] in M2
OccCompose == \A k \in DOMAIN Smalls : \A t \in MOccInMesh(Smalls[k], M2) :
                 \A j \in DOMAIN Smalls : \A u \in MOccInMesh(Smalls[j], Smalls[k]) :
                    [i \in DOMAIN u |-> t[u[i]]] \in MOccInMesh(Smalls[j], M2)

EmitState == PrintT(ToJson([p |-> patt, R |-> shade,
                            subs |-> {[S |-> [i \in DOMAIN MSortedSeq(S) |-> MSortedSeq(S)[i] - 1],
                                       p |-> MSubMesh(M2, S).p, R |-> MSubMesh(M2, S).R] : S \in PointSets},
                            self |-> MOccInMeshSeq0(M2, M2),
                            occ |-> [k \in DOMAIN Smalls |-> MOccInMeshSeq0(Smalls[k], M2)]]))
=============================================================================
