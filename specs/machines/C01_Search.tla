---------------------------- MODULE C01_Search ----------------------------
(***************************************************************************)
(* C01: classical occurrences / containment / counts, and their            *)
(* independence from the memo table a pattern object builds on first use.  *)
(*                                                                         *)
(* State of one pattern object:                                            *)
(*   patt   the pattern (fixed for the object's lifetime)                  *)
(*   bound  whether the object has bound its search table                  *)
(*          (Permuta: Perm._cached_pattern_details is not None)            *)
(*   perm   the permutation last searched (searched = FALSE before that)   *)
(*   reply  what that search listed (0-based index tuples, in order)       *)
(* Actions: Search(q)  - one call of patt.occurrences_in(q), fully consumed*)
(*          SearchedIn(p2) - one call of p2.occurrences_in(patt): the object  *)
(*                       is the permutation being searched                 *)
(*          Fresh      - a new object with the same value (memo unbound)   *)
(* Two configurations: INIT InitInputs / NEXT Stutter enumerates the whole *)
(* input universe one state per (pattern, permutation); INIT InitHist /    *)
(* NEXT NextHist explores every search history over a smaller universe.    *)
(***************************************************************************)
EXTENDS SearchTable, Json

CONSTANTS MinPatt, MaxPatt, MinPerm, MaxPerm, Shard, NShards, Colours

VARIABLES patt, bound, searched, perm, reply, cols, its, astext
vars == <<patt, bound, searched, perm, reply, cols, its, astext>>
\* astext: the last call used this object as the *permutation being searched* (another pattern, held
\*      in perm, was searched in it); reply is then the listing of perm in patt.  Being searched in
\*      does not touch the object's own search table.
\* its: the searches currently open as lazy iterators on this pattern object, each
\*      [q |-> permutation, got |-> the tuples yielded so far, done |-> exhausted]
\* cols: <<>> for a plain search, <<cp, cq>> (colours of pattern / permutation positions)
\* for a coloured one.
\* bound: has this object built its table;  searched: has any search been made
\* (perm/reply are <<>> until then).  memo is derived: the table once bound.

Patts == PPermsBetween(MinPatt, MaxPatt)
\* deterministic sharding of the permutation universe over several TLC processes
\* (a cheap position-weighted sum; evaluated once, Universe is a constant)
PWeight(q) == IF Len(q) = 0 THEN 0 ELSE SumSet({(i + 2) * (i + 1) * q[i] + i : i \in DOMAIN q}) + Len(q)
Universe == {q \in PPermsBetween(MinPerm, MaxPerm) : PWeight(q) % NShards = Shard}

InitInputs == /\ patt \in Patts
              /\ perm \in Universe
              /\ bound = TRUE /\ searched = TRUE /\ cols = <<>> /\ its = <<>> /\ astext = FALSE
              /\ reply = POccSeq0(patt, perm)
Stutter == UNCHANGED vars

InitHist == patt \in Patts /\ bound = FALSE /\ searched = FALSE /\ perm = <<>> /\ reply = <<>> /\ cols = <<>> /\ its = <<>> /\ astext = FALSE

Search(q) == /\ perm' = q
             /\ reply' = POccSeq0(patt, q)          \* the definition, whatever memo holds
             /\ bound' = TRUE                       \* table bound on first use, then kept
             /\ searched' = TRUE /\ cols' = <<>> /\ astext' = FALSE
             /\ UNCHANGED <<patt, its>>
\* the object in the other role: pattern p2 is searched in it (history of a *permutation* object,
\* and of an object that is pattern in one call and permutation in the next)
SearchedIn(p2) == /\ perm' = p2
                  /\ reply' = POccSeq0(p2, patt)
                  /\ astext' = TRUE /\ searched' = TRUE /\ cols' = <<>>
                  /\ UNCHANGED <<patt, bound, its>>
\* a coloured search uses (and on first use binds) the same table
SearchCol(q, cp, cq) == /\ perm' = q /\ cols' = <<cp, cq>>
                        /\ reply' = POccColSeq0(patt, q, cp, cq)
                        /\ bound' = TRUE /\ searched' = TRUE /\ astext' = FALSE
                        /\ UNCHANGED <<patt, its>>
Fresh == /\ bound
         /\ bound' = FALSE
         /\ UNCHANGED <<patt, searched, perm, reply, cols, its, astext>>
\* Lazy protocol: occurrences_in returns a generator; several may be open on the same
\* object and be advanced in any interleaving.  Each yields the listing in order.
MaxIts == 2
OpenIter(q) == /\ Len(its) < MaxIts
               /\ its' = Append(its, [q |-> q, got |-> <<>>, done |-> FALSE])
               /\ UNCHANGED <<patt, bound, searched, perm, reply, cols, astext>>
StepIter(i) == /\ i \in DOMAIN its /\ ~its[i].done
               /\ LET all == POccSeq0(patt, its[i].q)  k == Len(its[i].got) IN
                  /\ its' = IF k < Len(all) THEN [its EXCEPT ![i].got = Append(@, all[k + 1])]
                                             ELSE [its EXCEPT ![i].done = TRUE]
                  /\ bound' = (bound \/ Len(patt) \in 1..Len(its[i].q))   \* table is bound when the body first runs
               /\ UNCHANGED <<patt, searched, perm, reply, cols, astext>>
NextIter == \/ \E q \in Universe : OpenIter(q)
            \/ \E i \in 1..MaxIts : StepIter(i)
            \/ \E q \in Universe : Search(q)
            \/ \E p2 \in Patts : SearchedIn(p2)
\* whatever the interleaving, each iterator has yielded a prefix of the listing, and the
\* whole listing once it is exhausted
ItersIndependent == \A i \in DOMAIN its :
                       LET all == POccSeq0(patt, its[i].q) IN
                       /\ Len(its[i].got) <= Len(all) /\ its[i].got = SubSeq(all, 1, Len(its[i].got))
                       /\ its[i].done => its[i].got = all
ColourSeqs(n) == [1..n -> Colours]
NextHist == \/ Fresh
            \/ \E q \in Universe : Search(q)
            \/ \E q \in Universe : \E cp \in ColourSeqs(Len(patt)) : \E cq \in ColourSeqs(Len(q)) : SearchCol(q, cp, cq)
            \/ \E p2 \in Patts : SearchedIn(p2)

\* ---- properties of the specification itself ---------------------------------
\* the two roles of the last call: SP is the pattern searched for, ST the permutation searched in
SP == IF astext THEN perm ELSE patt
ST == IF astext THEN patt ELSE perm
TypeOK == /\ PIsPerm(patt)
          /\ PIsPerm(perm) /\ bound \in BOOLEAN /\ searched \in BOOLEAN /\ astext \in BOOLEAN
          /\ (astext => cols = <<>>)
ReplyIsListing ==           \* each occurrence once, sorted, exactly the definition
    searched =>
      /\ \A i \in DOMAIN reply : \A j \in DOMAIN reply : i < j => PLexLess(reply[i], reply[j])
      /\ {reply[i] : i \in DOMAIN reply} =
            {PZero(t) : t \in {u \in POcc(SP, ST) : cols = <<>> \/ \A i \in DOMAIN u : cols[2][u[i]] = cols[1][i]}}
EmptyPatternOnce == (searched /\ Len(SP) = 0) => reply = << <<>> >>
ColoursOnlyRestrict == (searched /\ cols # <<>>) =>
      {reply[i] : i \in DOMAIN reply} \subseteq {PZero(t) : t \in POcc(SP, ST)}
TooLongNever == (searched /\ Len(SP) > Len(ST)) => reply = <<>>
Memo == IF bound THEN PDetails(patt) ELSE <<>>
\* the table is well formed: floor/ceiling really are the nearest values to the left
MemoWellFormed == bound =>
    \A k \in DOMAIN patt :
       LET d == PDetails(patt)[k] IN
         /\ d[1] = -1 <=> \A j \in 1..(k - 1) : patt[j] > patt[k]
         /\ d[2] = -1 <=> \A j \in 1..(k - 1) : patt[j] < patt[k]
         /\ d[1] # -1 => (patt[d[1] + 1] < patt[k] /\ d[3] = patt[k] - patt[d[1] + 1]
                           /\ ~\E j \in 1..(k - 1) : patt[d[1] + 1] < patt[j] /\ patt[j] < patt[k])
         /\ d[2] # -1 => (patt[d[2] + 1] > patt[k] /\ d[4] = patt[d[2] + 1] - patt[k]
                           /\ ~\E j \in 1..(k - 1) : patt[d[2] + 1] > patt[j] /\ patt[j] > patt[k])
\* containment is monotone: deleting a point of the pattern keeps containment
Monotone == (searched /\ reply # <<>> /\ Len(SP) > 0) =>
              \A i \in DOMAIN SP : PContains(ST, PStd(PSeqDel(SP, i)))

HistView == <<patt, bound, its>>     \* perm/reply are observation variables

\* ---- emission ----------------------------------------------------------------
EmitState == PrintT(ToJson([p |-> patt, q |-> perm, occ |-> reply, tab |-> Memo]))
EmitEdge == PrintT(ToJson([p |-> patt, frombound |-> bound,
                           act |-> IF bound /\ ~bound' THEN "Fresh" ELSE IF astext' THEN "SearchedIn"
                                   ELSE IF cols' = <<>> THEN "Search" ELSE "SearchCol",
                           q |-> perm', cols |-> cols', occ |-> reply', tobound |-> bound']))
=============================================================================
