---------------------------- MODULE C01_Search ----------------------------
(***************************************************************************)
(* C01: classical occurrences / containment / counts, and their            *)
(* independence from the memo table a pattern object builds on first use.  *)
(*                                                                         *)
(* State of one pattern object:                                            *)
(*   patt   the pattern (fixed for the object's lifetime)                  *)
(*   bound  whether the object has bound its search table                  *)
(*          (Permuta: Perm._cached_pattern_details is not None)            *)
(*   perm   the permutation last searched (searched = FALSE before that)   *)
(*   reply  what that search listed (0-based index tuples, in order)       *)
(* Actions: Search(q)  - one call of patt.occurrences_in(q), fully consumed*)
(*          Fresh      - a new object with the same value (memo unbound)   *)
(* Two configurations: INIT InitInputs / NEXT Stutter enumerates the whole *)
(* input universe one state per (pattern, permutation); INIT InitHist /    *)
(* NEXT NextHist explores every search history over a smaller universe.    *)
(***************************************************************************)
EXTENDS SearchTable, Json

CONSTANTS MinPatt, MaxPatt, MinPerm, MaxPerm, Shard, NShards, Colours

VARIABLES patt, bound, searched, perm, reply, cols, its
vars == <<patt, bound, searched, perm, reply, cols, its>>
\* its: the searches currently open as lazy iterators on this pattern object, each
\*      [q |-> permutation, got |-> the tuples yielded so far, done |-> exhausted]
\* cols: <<>> for a plain search, <<cp, cq>> (colours of pattern / permutation positions)
\* for a coloured one.
\* bound: has this object built its table;  searched: has any search been made
\* (perm/reply are <<>> until then).  memo is derived: the table once bound.

Patts == PPermsBetween(MinPatt, MaxPatt)
\* deterministic sharding of the permutation universe over several TLC processes
\* (a cheap position-weighted sum; evaluated once, Universe is a constant)
PWeight(q) == IF Len(q) = 0 THEN 0 ELSE SumSet({(i + 2) * (i + 1) * q[i] + i : i \in DOMAIN q}) + Len(q)
Universe == {q \in PPermsBetween(MinPerm, MaxPerm) : PWeight(q) % NShards = Shard}

InitInputs == /\ patt \in Patts
              /\ perm \in Universe
              /\ bound = TRUE /\ searched = TRUE /\ cols = <<>> /\ its = <<>>
              /\ reply = POccSeq0(patt, perm)
Stutter == UNCHANGED vars

InitHist == patt \in Patts /\ bound = FALSE /\ searched = FALSE /\ perm = <<>> /\ reply = <<>> /\ cols = <<>> /\ its = <<>>

Search(q) == /\ perm' = q
             /\ reply' = POccSeq0(patt, q)          \* the definition, whatever memo holds
             /\ bound' = TRUE                       \* table bound on first use, then kept
             /\ searched' = TRUE /\ cols' = <<>>
             /\ UNCHANGED <<patt, its>>
\* a coloured search uses (and on first use binds) the same table
SearchCol(q, cp, cq) == /\ perm' = q /\ cols' = <<cp, cq>>
                        /\ reply' = POccColSeq0(patt, q, cp, cq)
                        /\ bound' = TRUE /\ searched' = TRUE
                        /\ UNCHANGED <<patt, its>>
Fresh == /\ bound
         /\ bound' = FALSE
         /\ UNCHANGED <<patt, searched, perm, reply, cols, its>>
\* Lazy protocol: occurrences_in returns a generator; several may be open on the same
\* object and be advanced in any interleaving.  Each yields the listing in order.
MaxIts == 2
OpenIter(q) == /\ Len(its) < MaxIts
               /\ its' = Append(its, [q |-> q, got |-> <<>>, done |-> FALSE])
               /\ UNCHANGED <<patt, bound, searched, perm, reply, cols>>
StepIter(i) == /\ i \in DOMAIN its /\ ~its[i].done
               /\ LET all == POccSeq0(patt, its[i].q)  k == Len(its[i].got) IN
                  /\ its' = IF k < Len(all) THEN [its EXCEPT ![i].got = Append(@, all[k + 1])]
                                             ELSE [its EXCEPT ![i].done = TRUE]
                  /\ bound' = (bound \/ Len(patt) \in 1..Len(its[i].q))   \* table is bound when the body first runs
               /\ UNCHANGED <<patt, searched, perm, reply, cols>>
NextIter == \/ \E q \in Universe : OpenIter(q)
            \/ \E i \in 1..MaxIts : StepIter(i)
            \/ \E q \in Universe : Search(q)
\* whatever the interleaving, each iterator has yielded a prefix of the listing, and the
\* whole listing once it is exhausted
ItersIndependent == \A i \in DOMAIN its :
                       LET all == POccSeq0(patt, its[i].q) IN
                       /\ Len(its[i].got) <= Len(all) /\ its[i].got = SubSeq(all, 1, Len(its[i].got))
                       /\ its[i].done => its[i].got = all
ColourSeqs(n) == [1..n -> Colours]
NextHist == \/ Fresh
            \/ \E q \in Universe : Search(q)
            \/ \E q \in Universe : \E cp \in ColourSeqs(Len(patt)) : \E cq \in ColourSeqs(Len(q)) : SearchCol(q, cp, cq)

\* ---- properties of the specification itself ---------------------------------
TypeOK == /\ PIsPerm(patt)
          /\ PIsPerm(perm) /\ bound \in BOOLEAN /\ searched \in BOOLEAN
ReplyIsListing ==           \* each occurrence once, sorted, exactly the definition
    searched =>
      /\ \A i \in DOMAIN reply : \A j \in DOMAIN reply : i < j => PLexLess(reply[i], reply[j])
      /\ {reply[i] : i \in DOMAIN reply} =
            {PZero(t) : t \in {u \in POcc(patt, perm) : cols = <<>> \/ \A i \in DOMAIN u : cols[2][u[i]] = cols[1][i]}}
EmptyPatternOnce == (searched /\ Len(patt) = 0) => reply = << <<>> >>
ColoursOnlyRestrict == (searched /\ cols # <<>>) =>
      {reply[i] : i \in DOMAIN reply} \subseteq {PZero(t) : t \in POcc(patt, perm)}
TooLongNever == (searched /\ Len(patt) > Len(perm)) => reply = <<>>
Memo == IF bound THEN PDetails(patt) ELSE <<>>
\* the table is well formed: floor/ceiling really are the nearest values to the left
MemoWellFormed == bound =>
    \A k \in DOMAIN patt :
       LET d == PDetails(patt)[k] IN
         /\ d[1] = -1 <=> \A j \in 1..(k - 1) : patt[j] > patt[k]
         /\ d[2] = -1 <=> \A j \in 1..(k - 1) : patt[j] < patt[k]
         /\ d[1] # -1 => (patt[d[1] + 1] < patt[k] /\ d[3] = patt[k] - patt[d[1] + 1]
                           /\ ~\E j \in 1..(k - 1) : patt[d[1] + 1] < patt[j] /\ patt[j] < patt[k])
         /\ d[2] # -1 => (patt[d[2] + 1] > patt[k] /\ d[4] = patt[d[2] + 1] - patt[k]
                           /\ ~\E j \in 1..(k - 1) : patt[d[2] + 1] > patt[j] /\ patt[j] > patt[k])
\* containment is monotone: deleting a point of the pattern keeps containment
Monotone == (searched /\ reply # <<>> /\ Len(patt) > 0) =>
              \A i \in DOMAIN patt : PContains(perm, PStd(PSeqDel(patt, i)))

HistView == <<patt, bound, its>>     \* perm/reply are observation variables

\* ---- emission ----------------------------------------------------------------
EmitState == PrintT(ToJson([p |-> patt, q |-> perm, occ |-> reply, tab |-> Memo]))
EmitEdge == PrintT(ToJson([p |-> patt, frombound |-> bound,
                           act |-> IF bound /\ ~bound' THEN "Fresh" ELSE IF cols' = <<>> THEN "Search" ELSE "SearchCol",
                           q |-> perm', cols |-> cols', occ |-> reply', tobound |-> bound']))
=============================================================================
