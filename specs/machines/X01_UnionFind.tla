---------------------------- MODULE X01_UnionFind ----------------------------
(***************************************************************************)
(* X01 (extension, not one of the listed properties): permuta/misc/        *)
(* union_find.py.  Abstract state: a partition of 0..N-1.  Mechanism       *)
(* state, as the code keeps it: parent[i] >= 0 is a parent link, a         *)
(* negative value marks a root and holds minus the size of its set; find   *)
(* compresses paths, unite links the smaller root below the larger.        *)
(* Invariants: the forest represents the partition (no cycles, roots hold  *)
(* sizes), and every reply is what the partition says.                     *)
(***************************************************************************)
EXTENDS Naturals, Integers, FiniteSets, Sequences, TLC, Json

CONSTANTS N
VARIABLES parent, part, act, reply
vars == <<parent, part, act, reply>>
Ids == 0..(N - 1)

\* the abstract meaning
BlockOf(P, i) == CHOOSE B \in P : i \in B
\* the mechanism
RECURSIVE Root(_, _)
Root(par, i) == IF par[i] < 0 THEN i ELSE Root(par, par[i])
RECURSIVE PathTo(_, _)
PathTo(par, i) == IF par[i] < 0 THEN {} ELSE {i} \cup PathTo(par, par[i])
Compress(par, i) == [j \in Ids |-> IF j \in PathTo(par, i) THEN Root(par, i) ELSE par[j]]

Init == /\ parent = [i \in Ids |-> -1] /\ part = {{i} : i \in Ids}
        /\ act = [name |-> "Init", a |-> 0, b |-> 0] /\ reply = [n |-> 0, flag |-> FALSE]
Find(i) == /\ parent' = Compress(parent, i)
           /\ reply' = [n |-> Root(parent, i), flag |-> FALSE]
           /\ act' = [name |-> "Find", a |-> i, b |-> 0] /\ UNCHANGED part
Size(i) == /\ parent' = Compress(parent, i)
           /\ reply' = [n |-> 0 - parent[Root(parent, i)], flag |-> FALSE]
           /\ act' = [name |-> "Size", a |-> i, b |-> 0] /\ UNCHANGED part
Unite(i, j) ==
    LET p1 == Compress(parent, i)
        p2 == Compress(p1, j)
        r1 == Root(parent, i)  r2 == Root(parent, j)
        small == IF 0 - p2[r1] > 0 - p2[r2] THEN r2 ELSE r1      \* the code swaps when size(idx1) > size(idx2)
        big == IF small = r1 THEN r2 ELSE r1
    IN /\ IF r1 = r2
          THEN parent' = p2 /\ UNCHANGED part
          ELSE /\ parent' = [p2 EXCEPT ![big] = p2[big] + p2[small], ![small] = big]
               /\ part' = (part \ {BlockOf(part, i), BlockOf(part, j)}) \cup {BlockOf(part, i) \cup BlockOf(part, j)}
       /\ reply' = [n |-> 0, flag |-> r1 # r2]
       /\ act' = [name |-> "Unite", a |-> i, b |-> j]
Next == \E i \in Ids : Find(i) \/ Size(i) \/ \E j \in Ids : Unite(i, j)

\* ---- properties ---------------------------------------------------------------------
IsPartition == (UNION part = Ids) /\ \A A, B \in part : A # B => A \cap B = {}
ForestRepresents == \A i, j \in Ids : (Root(parent, i) = Root(parent, j)) <=> (BlockOf(part, i) = BlockOf(part, j))
RootsHoldSizes == \A i \in Ids : parent[i] < 0 => 0 - parent[i] = Cardinality(BlockOf(part, i))
ReplyCorrect == CASE act.name = "Find" -> reply.n \in BlockOf(part, act.a)
                  [] act.name = "Size" -> reply.n = Cardinality(BlockOf(part, act.a))
                  [] OTHER -> TRUE
\* union by size keeps trees shallow: depth <= log2(size)
RECURSIVE Depth(_, _)
Depth(par, i) == IF par[i] < 0 THEN 0 ELSE 1 + Depth(par, par[i])
Shallow == \A i \in Ids : LET s == 0 - parent[Root(parent, i)] IN
              Depth(parent, i) = 0 \/ (Depth(parent, i) = 1 /\ s >= 2) \/ (Depth(parent, i) = 2 /\ s >= 4) \/ (Depth(parent, i) >= 3 /\ s >= 8)
View == <<parent, part>>
AsSeq(f) == [k \in 1..N |-> f[k - 1]]
EmitEdge == PrintT(ToJson([from |-> [parent |-> AsSeq(parent)], act |-> act', reply |-> reply', to |-> [parent |-> AsSeq(parent')],
                           blocks |-> part']))
=============================================================================
