--------------------------- MODULE C15_PinLanguage ---------------------------
(***************************************************************************)
(* C15: the automaton Permuta builds for a basis, run in product with the  *)
(* pin machine.  The implementation's DFA is exported by the harness as a  *)
(* table (constants DfaN, DfaDelta, DfaFinal, DfaInit).  Dfa2*: a SEQUENCE *)
(* of further tables - the automata the implementation returns for the     *)
(* same basis in other ways (assembled from the on-disk database, after    *)
(* the database was filled in another order, asked a second time, basis    *)
(* reordered / with repeated elements, ...); all must have the language of *)
(* the first.                                                              *)
(* Mode "semantic": states are (direction word m, DFA state reached on m)  *)
(* for all words of the pin-sequence language M (alternating vertical /    *)
(* horizontal) up to MaxWord; invariant: the DFA accepts m iff the         *)
(* permutation encoded by m contains a basis element.                      *)
(* Mode "equiv": states are tuples of DFA states of all the tables reached *)
(* on a common word (all words over the alphabet, no length bound - the    *)
(* product graph is finite); invariant: all accept or all reject.          *)
(* FiniteByGraph: the words of M the DFA rejects are bounded in length iff *)
(* no cycle of the (DFA x M) graph is both reachable and able to reach a   *)
(* rejecting state - evaluated on the exported table.                      *)
(***************************************************************************)
EXTENDS Pin, Json

CONSTANTS Mode, Basis, MaxWord,
          DfaN, DfaDelta, DfaFinal, DfaInit,          \* states 1..DfaN, DfaDelta[q][d]
          Dfa2N, Dfa2Delta, Dfa2Final, Dfa2Init       \* sequences: Dfa2Delta[k][q][d] for the k-th further automaton

VARIABLES word, q1, q2
vars == <<word, q1, q2>>

Init == word = <<>> /\ q1 = DfaInit /\ q2 = Dfa2Init
MayAppend(w, d) == IF w = <<>> THEN TRUE ELSE (w[Len(w)] \in Vert) # (d \in Vert)
Step(d) == /\ IF Mode = "semantic" THEN Len(word) < MaxWord /\ MayAppend(word, d) ELSE TRUE
           /\ word' = IF Mode = "semantic" THEN Append(word, d) ELSE <<d>>       \* (equiv: only the last letter is kept)
           /\ q1' = DfaDelta[q1][d] /\ q2' = [k \in DOMAIN q2 |-> Dfa2Delta[k][q2[k]][d]]
Next == \E d \in Dirs : Step(d)

\* the permutation a direction word encodes (words shorter than 2 encode no pin)
Encoded(m) == IF Len(m) < 2 THEN <<>> ELSE PinPerm(PinMtoSP(m))
Expected(m) == \E b \in Basis : PContains(Encoded(m), b)

AcceptsIffContains == Mode = "semantic" => ((q1 \in DfaFinal) <=> Expected(word))
Disagreeing == {k \in DOMAIN q2 : (q1 \in DfaFinal) # (q2[k] \in Dfa2Final[k])}
DbEquivalent == Disagreeing = {}
PairView == <<q1, q2>>
FullView == vars

\* ---- the finiteness verdict, on the exported table --------------------------------------------
\* nodes <<q, k>>, k = kind of the last letter ("N" none, "V", "H"); edges along alternating letters
Kinds == {"N", "V", "H"}
KindOf(d) == IF d \in Vert THEN "V" ELSE "H"
Succ(nd) == {<<DfaDelta[nd[1]][d], KindOf(d)>> : d \in {x \in Dirs : nd[2] = "N" \/ KindOf(x) # nd[2]}}
RECURSIVE Closure(_, _)
Closure(S, frontier) == IF frontier = {} THEN S
                        ELSE LET nw == (UNION {Succ(nd) : nd \in frontier}) \ S IN
                             CHOOSE r \in {Closure(S2, nw) : S2 \in {S \cup nw}} : TRUE
ReachFrom(nd) == Closure({}, {nd})                      \* nodes reachable in >= 1 step
Reachable == {<<DfaInit, "N">>} \cup ReachFrom(<<DfaInit, "N">>)
Rejecting(nd) == nd[1] \notin DfaFinal
FiniteByGraph == ~\E nd \in Reachable : LET R == ReachFrom(nd) IN nd \in R /\ \E x \in R \cup {nd} : Rejecting(x)

\* ---- emission ------------------------------------------------------------------------------------
EmitVerdict == word = <<>> => PrintT(ToJson([finite |-> FiniteByGraph, reachable |-> Cardinality(Reachable)]))
\* rejected words of M per length (the pin sequences avoiding the basis, as far as explored)
EmitRejected == (Mode = "semantic" /\ q1 \notin DfaFinal /\ Len(word) >= 2) => PrintT(ToJson([rej |-> Len(word)]))
=============================================================================
