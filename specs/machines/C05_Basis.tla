------------------------------ MODULE C05_Basis ------------------------------
(***************************************************************************)
(* C05: a basis is the set of minimal elements of the given patterns.      *)
(*                                                                         *)
(* Permuta builds a basis by SORTING the patterns and then PRUNING         *)
(* greedily: a pattern is kept iff it avoids every pattern kept so far.    *)
(* The machine runs exactly that algorithm, one action per step, with the  *)
(* sort key as a parameter of the model:                                   *)
(*   Start  -> Sort -> Consider(1) -> ... -> Consider(n) -> done           *)
(* and TLC checks the design: if the sort order is a linear extension of   *)
(* containment then the result is Minimal(S) - independent of input order  *)
(* and repetition, an antichain, a fixed point, and defines the same class.*)
(* The faulty key Permuta used for mesh patterns (pattern, sorted shading) *)
(* is kept as KeyMode "lexshading": TLC must refute ResultIsMinimal for it.*)
(* Elements are mesh records [p, R]; a classical pattern is R = {}.        *)
(***************************************************************************)
EXTENDS Mesh, Json

CONSTANTS Inputs,        \* set of input sets S (each a set of mesh records)
          KeyMode,       \* "cardinality" (as repaired) | "lexshading" (as it was)
          ClassLen       \* the class is compared up to this length

VARIABLES inp, sorted, kept, idx, phase
vars == <<inp, sorted, kept, idx, phase>>

Below(a, b) == a # b /\ MOccInMesh(a, b) # {}          \* a occurs in b
Minimal(S) == {a \in S : ~\E b \in S : Below(b, a)}

\* ---- sort keys ------------------------------------------------------------------
CellLess(c, d) == c[1] < d[1] \/ (c[1] = d[1] /\ c[2] < d[2])
CellSeq(R) == SetToSortSeq(R, CellLess)
SeqLessBy(a, b, less(_, _)) == \/ \E i \in 1..Len(a) : i <= Len(b) /\ less(a[i], b[i]) /\ \A j \in 1..(i - 1) : a[j] = b[j]
                               \/ (Len(a) < Len(b) /\ \A j \in 1..Len(a) : a[j] = b[j])
ShadingLexLess(R1, R2) == SeqLessBy(CellSeq(R1), CellSeq(R2), CellLess)
KeyLess(a, b) ==
    \/ PPermLess(a.p, b.p)
    \/ (a.p = b.p /\ IF KeyMode = "cardinality"
                     THEN Cardinality(a.R) < Cardinality(b.R) \/ (Cardinality(a.R) = Cardinality(b.R) /\ ShadingLexLess(a.R, b.R))
                     ELSE ShadingLexLess(a.R, b.R))

Init == inp \in Inputs /\ sorted = <<>> /\ kept = <<>> /\ idx = 0 /\ phase = "start"
Sort == /\ phase = "start"
        /\ sorted' = SetToSortSeq(inp, KeyLess) /\ idx' = 1 /\ phase' = "prune"
        /\ UNCHANGED <<inp, kept>>
\* the empty pattern is contained in everything: the code short-cuts to {eps-pattern}
Consider == /\ phase = "prune" /\ idx <= Len(sorted)
            /\ kept' = IF \A k \in DOMAIN kept : MOccInMesh(kept[k], sorted[idx]) = {}
                       THEN Append(kept, sorted[idx]) ELSE kept
            /\ idx' = idx + 1 /\ UNCHANGED <<inp, sorted, phase>>
Finish == /\ phase = "prune" /\ idx > Len(sorted)
          /\ phase' = "done" /\ UNCHANGED <<inp, sorted, kept, idx>>
Next == Sort \/ Consider \/ Finish

Result == {kept[k] : k \in DOMAIN kept}
\* ---- properties -------------------------------------------------------------------
KeyIsLinearExtension == \A a, b \in inp : Below(a, b) => KeyLess(a, b)
ResultIsMinimal == phase = "done" => Result = Minimal(inp)
Antichain == \A a, b \in Result : ~Below(a, b)
KeptSorted == \A i, j \in DOMAIN kept : i < j => KeyLess(kept[i], kept[j])
\* the pruned basis defines the same class as the input
SameClass == phase = "done" => \A n \in 0..ClassLen : MAvLevel(Result, n) = MAvLevel(inp, n)
\* fixed point: pruning the result changes nothing (no element of the result lies below another)
FixedPoint == phase = "done" => Minimal(Result) = Result

EmitDone == phase = "done" =>
    PrintT(ToJson([inp |-> inp, basis |-> kept, minimal |-> Minimal(inp),
                   counts |-> [n \in 1..(ClassLen + 1) |-> Cardinality(MAvLevel(inp, n - 1))]]))
=============================================================================
