----------------------------- MODULE C11_Tools -----------------------------
(***************************************************************************)
(* C11, second half: the tools of permuta.permutils.statistics on classes  *)
(* and bijections GIVEN AS DATA.  The table of the 32 named statistics is  *)
(* tabulated once (by definition: Table[p].i, and as the implementation    *)
(* computes it under the known deviations: Table[p].d); every expectation  *)
(* below is the defining identity evaluated on that table:                 *)
(*   Distribution(f, S)[k] = #{p in S : f(p) = k}                          *)
(*   Preserved(f, b)       = for all (k, v) in b : f(k) = f(v)             *)
(*   Transformed(f, g, b)  = for all (k, v) in b : f(k) = g(v)             *)
(*   EquallyDistributed(f, C1, C2, n) = the distributions agree on every   *)
(*                           level 0..n;  jointly: the same for pairs      *)
(* Modes (one state per datum; no actions):                                *)
(*   "dist"  (class c, length m)      all 32 distributions of the level    *)
(*   "eq"    (pair of classes, n)     equally / jointly equally distributed*)
(*   "eqt"   (pair of classes, n)     jointly transformed, on the          *)
(*                                    sub-table Sub of the statistics      *)
(*   "eqtf"  (pair in FullPairs, FullN) the same on the full table         *)
(*   "bij"   (bijection b)            preserved / transformed              *)
(* Classes: sequence of bases (sets of patterns; the empty basis stands    *)
(* for "all permutations"); Pairs: sequence of <<c1, c2>>; Bijs: sequence  *)
(* of sets of pairs <<k, v>>; the eight symmetries on the permutations of  *)
(* length <= SymMax are prepended to Bijs by the machine itself.           *)
(***************************************************************************)
EXTENDS Stats, D4, Json

CONSTANTS Mode, Classes, Pairs, Bijs, Sub, FullPairs, FullN, MaxLen, MaxTab, SymMax, Shard, NShards

VARIABLES x, y, reply
vars == <<x, y, reply>>

\* ---- tabulated once per run ------------------------------------------------------
Table == StTabulate(PPermsUpTo(MaxTab), StNamedBoth)
Levels == StTabulate(DOMAIN Classes, LAMBDA c : StTabulate(0..MaxLen, LAMBDA m : PAvLevel(Classes[c], m)))
Level(c, m) == Levels[c][m]
SymNames == <<"id", "r1", "r2", "r3", "rev", "comp", "inv", "anti">>
SymBij(g) == {<<p, DSym(SymNames[g], p)>> : p \in PPermsUpTo(SymMax)}
SymBijs == <<SymBij(1), SymBij(2), SymBij(3), SymBij(4), SymBij(5), SymBij(6), SymBij(7), SymBij(8)>>
AllBijs == SymBijs \o Bijs
Idx == 1..32
Dv == StDeviatingIndices
DvSeq == StSorted(Dv)

Val(v, k, p) == Table[p][v][k]
Dist(v, k, S) == StDistribution([p \in S |-> Val(v, k, p)], S)
Bag2(v, k, l, S) == StBag([p \in S |-> <<Val(v, k, p), Val(v, l, p)>>], S)
EqDist(v, k, c1, c2, m) == \A j \in 0..m : Dist(v, k, Level(c1, j)) = Dist(v, k, Level(c2, j))
JointEq(v, k, l, c1, c2, m) == \A j \in 0..m : Bag2(v, k, l, Level(c1, j)) = Bag2(v, k, l, Level(c2, j))
Pres(v, k, b) == \A kv \in b : Val(v, k, kv[1]) = Val(v, k, kv[2])
Trans(v, k, l, b) == \A kv \in b : Val(v, k, kv[1]) = Val(v, l, kv[2])
Touches(kl) == kl[1] \in Dv \/ kl[2] \in Dv
SeqSum(s) == StSumOver(DOMAIN s, LAMBDA k : s[k])

\* ---- replies -----------------------------------------------------------------------
DistReply(c, m) ==
    [size |-> Cardinality(Level(c, m)), basis |-> SetToSortSeq(Classes[c], PPermLess), len |-> m,
     i |-> [k \in Idx |-> Dist("i", k, Level(c, m))],
     d |-> [j \in DOMAIN DvSeq |-> Dist("d", DvSeq[j], Level(c, m))]]
EqReply(pr, m) ==
    LET c1 == Pairs[pr][1]  c2 == Pairs[pr][2] IN
    CHOOSE r \in { [b1 |-> SetToSortSeq(Classes[c1], PPermLess), b2 |-> SetToSortSeq(Classes[c2], PPermLess), n |-> m,
                    eqI |-> StSorted(eqI), eqD |-> StSorted((eqI \ Dv) \cup {k \in Dv : EqDist("d", k, c1, c2, m)}),
                    jointI |-> StSortedTuples(jI),
                    jointD |-> StSortedTuples({kl \in jI : ~Touches(kl)}
                                               \cup {kl \in {ab \in Idx \X Idx : ab[1] < ab[2] /\ Touches(ab)} : JointEq("d", kl[1], kl[2], c1, c2, m)})]
                   : eqI \in {{k \in Idx : EqDist("i", k, c1, c2, m)}},
                     jI \in {{kl \in Idx \X Idx : kl[1] < kl[2] /\ JointEq("i", kl[1], kl[2], c1, c2, m)}} } : TRUE
\* all pairs <<a, b>> of ordered pairs of distinct statistics of the table T (a sequence of indices) for
\* which the identity holds: the signature of a on the first class (its joint distribution on every
\* level 0..m) equals the signature of b on the second
OrdPairsOf(T) == {kl \in {T[j] : j \in DOMAIN T} \X {T[j] : j \in DOMAIN T} : kl[1] # kl[2]}
Signature(v, a, c, m) == StTabulate(0..m, LAMBDA j : Bag2(v, a[1], a[2], Level(c, j)))
JointTransSet(v, T, c1, c2, m) ==
    CHOOSE r \in { {ab \in OrdPairsOf(T) \X OrdPairsOf(T) : S1[ab[1]] = S2[ab[2]]}
                   : S1 \in {StTabulate(OrdPairsOf(T), LAMBDA a : Signature(v, a, c1, m))},
                     S2 \in {StTabulate(OrdPairsOf(T), LAMBDA a : Signature(v, a, c2, m))} } : TRUE
EqtReply(pr, m, T) ==
    LET c1 == Pairs[pr][1]  c2 == Pairs[pr][2] IN
    [b1 |-> SetToSortSeq(Classes[c1], PPermLess), b2 |-> SetToSortSeq(Classes[c2], PPermLess), n |-> m, sub |-> T,
     jtI |-> JointTransSet("i", T, c1, c2, m),
     jtD |-> JointTransSet("d", T, c1, c2, m)]
BijReplyOf(b, B) ==
    CHOOSE r \in { [bij |-> SetToSortSeq(B, LAMBDA a, c : PPermLess(a[1], c[1])), sym |-> IF b <= 8 THEN SymNames[b] ELSE "data",
                    presI |-> StSorted(pI), presD |-> StSorted((pI \ Dv) \cup {k \in Dv : Pres("d", k, B)}),
                    transI |-> StSortedTuples(tI),
                    transD |-> StSortedTuples({kl \in tI : ~Touches(kl)}
                                               \cup {kl \in {ab \in Idx \X Idx : Touches(ab)} : Trans("d", kl[1], kl[2], B)})]
                   : pI \in {{k \in Idx : Pres("i", k, B)}},
                     tI \in {{kl \in Idx \X Idx : Trans("i", kl[1], kl[2], B)}} } : TRUE
BijReply(b) == CHOOSE r \in {BijReplyOf(b, B) : B \in {AllBijs[b]}} : TRUE

Mine(a, b) == (7 * a + b) % NShards = Shard
InitDist == Mode = "dist" /\ x \in DOMAIN Classes /\ y \in 0..MaxLen /\ Mine(x, y) /\ reply = DistReply(x, y)
InitEq   == Mode = "eq"   /\ x \in DOMAIN Pairs /\ y \in 0..MaxLen /\ Mine(x, y) /\ reply = EqReply(x, y)
InitEqt  == Mode = "eqt"  /\ x \in DOMAIN Pairs /\ y \in 0..MaxLen /\ Mine(x, y) /\ reply = EqtReply(x, y, Sub)
\* the same on the full table of 32 statistics, for the pairs FullPairs at n = FullN
InitEqtF == Mode = "eqtf" /\ x \in FullPairs /\ y = FullN /\ Mine(x, y) /\ reply = EqtReply(x, y, [k \in 1..32 |-> k])
InitBij  == Mode = "bij"  /\ x \in DOMAIN AllBijs /\ y = 0 /\ Mine(x, y) /\ reply = BijReply(x)
Init == InitDist \/ InitEq \/ InitEqt \/ InitEqtF \/ InitBij
Stutter == UNCHANGED vars

\* ---- properties of the specification ---------------------------------------------------
\* a distribution sums to the size of the class level, and its last entry is not zero
DistributionSums == Mode = "dist" =>
    /\ \A k \in Idx : SeqSum(reply.i[k]) = reply.size
    /\ \A j \in DOMAIN DvSeq : SeqSum(reply.d[j]) = reply.size
    /\ \A k \in Idx : reply.size > 0 => reply.i[k][Len(reply.i[k])] > 0
\* joint equidistribution implies equidistribution of both marginals
JointImpliesMarginal == Mode = "eq" =>
    /\ \A j \in DOMAIN reply.jointI : reply.jointI[j][1] \in {reply.eqI[k] : k \in DOMAIN reply.eqI}
                                   /\ reply.jointI[j][2] \in {reply.eqI[k] : k \in DOMAIN reply.eqI}
    /\ \A j \in DOMAIN reply.jointD : reply.jointD[j][1] \in {reply.eqD[k] : k \in DOMAIN reply.eqD}
                                   /\ reply.jointD[j][2] \in {reply.eqD[k] : k \in DOMAIN reply.eqD}
\* the transformed relation contains the swap of every jointly equidistributed pair's converse:
\* (a, b) holds from C1 to C2 iff (swap a, swap b) does
TransformedSwap == Mode \in {"eqt", "eqtf"} =>
    \A ab \in reply.jtI : <<<<ab[1][2], ab[1][1]>>, <<ab[2][2], ab[2][1]>>>> \in reply.jtI
\* preserved = transformed into itself; classical facts about the symmetries
SetOf(s) == {s[k] : k \in DOMAIN s}
PreservedIsSelfTransformed == Mode = "bij" =>
    /\ \A k \in Idx : k \in SetOf(reply.presI) <=> <<k, k>> \in SetOf(reply.transI)
    /\ \A k \in Idx : k \in SetOf(reply.presD) <=> <<k, k>> \in SetOf(reply.transD)
SymmetryFacts == Mode = "bij" =>
    /\ (reply.sym = "id" => SetOf(reply.presI) = Idx)
    /\ (reply.sym = "rev" => {<<4, 5>>, <<5, 4>>, <<1, 2>>, <<15, 16>>, <<10, 12>>, <<9, 11>>} \subseteq SetOf(reply.transI) /\ 6 \in SetOf(reply.presI))
    /\ (reply.sym = "comp" => {<<4, 5>>, <<6, 7>>, <<15, 16>>, <<9, 10>>, <<11, 12>>} \subseteq SetOf(reply.transI))
    /\ (reply.sym = "inv" => {1, 2, 8, 9, 12, 13, 14, 15, 16, 17} \subseteq SetOf(reply.presI) /\ {<<10, 11>>, <<11, 10>>} \subseteq SetOf(reply.transI))
    /\ (reply.sym = "r2" => {1, 4, 5, 15, 16} \subseteq SetOf(reply.presI))

EmitState == PrintT(ToJson([mode |-> Mode, x |-> x, y |-> y, r |-> reply]))
=============================================================================
