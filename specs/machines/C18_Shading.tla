---------------------------- MODULE C18_Shading ----------------------------
(***************************************************************************)
(* C18: shading-lemma licences and point insertion preserve the meaning of *)
(* a mesh pattern; lookups, region tests and the text rendering reflect it.*)
(* A state is one mesh pattern; everything the property promises about it  *)
(* is stated over the bounded universe U of permutations:                  *)
(*   SemShadable(C)   shading the cells C does not change which            *)
(*                    permutations of U contain the pattern (the *meaning* *)
(*                    of a licence - the real can_shade / can_simul_shade  *)
(*                    / shadable_boxes may only license such C)            *)
(*   LemmaNE/LemmaAt  the side conditions of the shading lemma for the     *)
(*                    north-east corner of a point, transported to the     *)
(*                    other corners by the plane maps of D4; TLC checks    *)
(*                    that they imply SemShadable (design of the lemma)    *)
(*   MAddPoint        point insertion on diagrams, and its meaning         *)
(***************************************************************************)
EXTENDS D4, Json

CONSTANTS Mode, MinMesh, MaxMesh, MaxPerm, Shard, NShards, Sample

VARIABLES patt, shade
vars == <<patt, shade>>
M0 == MMesh(patt, shade)
K == Len(patt)
U == PPermsUpTo(MaxPerm)

MeshU == {M \in UNION {MAllMesh(k) : k \in MinMesh..MaxMesh} : (MRank(M) + Len(M.p)) % NShards = Shard}
Init == \E M \in (IF Mode = "sample" THEN Sample ELSE MeshU) : patt = M.p /\ shade = M.R
Stutter == UNCHANGED vars

\* ---- meaning of a shading licence ---------------------------------------------------
CSet(M) == {q \in U : MContains(q, M)}
SemShadableIn(M, C, CS) == C \cap M.R = {} /\ \A q \in CS : MContains(q, MShade(M, C))
SemShadable(M, C) == SemShadableIn(M, C, CSet(M))

\* ---- the shading lemma, north-east corner of the point (x-1, y-1) --------------------
LemmaNE(M, c) ==
    LET x == c[1]  y == c[2]  k == Len(M.p)  R == M.R IN
    /\ c \notin R
    /\ x >= 1 /\ y >= 1 /\ M.p[x] = y - 1                      \* the point sits at the lower-left corner
    /\ <<x - 1, y - 1>> \notin R                                \* the box on the other side of the point
    /\ ~(<<x, y - 1>> \in R /\ <<x - 1, y>> \in R)
    /\ \A nx \in (0..k) \ {x - 1, x} : <<nx, y - 1>> \in R => <<nx, y>> \in R
    /\ \A ny \in (0..k) \ {y - 1, y} : <<x - 1, ny>> \in R => <<x, ny>> \in R
\* any corner: transport the pattern and the cell by a rotation, test the NE conditions there
CellImage(g, k, c) == LET m == DMap(g, 2 * k, <<2 * c[1], 2 * c[2]>>) IN <<m[1] \div 2, m[2] \div 2>>
LemmaAt(M, c) == \E g \in {"id", "r1", "r2", "r3"} : LemmaNE(DSymMesh(g, M), CellImage(g, Len(M.p), c))
\* two adjacent boxes above each other, NE of the point (x-1, y1-1), shaded simultaneously
SimulNE(M, c1, c2) ==      \* c1 directly above c2
    LET x == c1[1]  y1 == c1[2]  k == Len(M.p)  R == M.R IN
    /\ c2 = <<x, y1 - 1>> /\ x >= 1 /\ y1 >= 1 /\ M.p[x] = y1 - 1
    /\ c1 \notin R /\ c2 \notin R
    /\ <<x - 1, y1>> \notin R /\ <<x - 1, y1 - 1>> \notin R
    /\ \A y \in (0..k) \ {y1, y1 - 1} : <<x - 1, y>> \in R => <<x, y>> \in R
    /\ \A nx \in (0..k) \ {x, x - 1} : (<<nx, y1>> \in R) <=> (<<nx, y1 - 1>> \in R)
SimulAt(M, c1, c2) == \E g \in {"id", "r1", "r2", "r3"} :
                         LET a == CellImage(g, Len(M.p), c1)  b == CellImage(g, Len(M.p), c2)  N == DSymMesh(g, M) IN
                         SimulNE(N, a, b) \/ SimulNE(N, b, a)

Cells == MCells(K)
AdjPairs == {<<c, d>> \in Cells \X Cells : (d = <<c[1] + 1, c[2]>>) \/ (d = <<c[1], c[2] + 1>>)}
Dirs == {"none", "E", "N", "W", "S"}

\* ---- properties of the specification ---------------------------------------------------
TypeOK == MIsMesh(M0)
\* the lemma's side conditions imply the meaning (on the universe)
LemmaSound == \E CS \in {CSet(M0)} : \A c \in Cells : LemmaAt(M0, c) => SemShadableIn(M0, {c}, CS)
SimulSound == \E CS \in {CSet(M0)} : \A pr \in AdjPairs : SimulAt(M0, pr[1], pr[2]) => SemShadableIn(M0, {pr[1], pr[2]}, CS)
\* point insertion means "an occurrence with a point in that cell", for every direction
AddPointMeaning == \A c \in Cells \ shade : \A d \in Dirs : \A q \in U :
                      MContains(q, MAddPoint(M0, c, d)) <=> MOccWithPointIn(M0, q, c) # {}

\* ---- region tests and rendering ---------------------------------------------------------
Rects == {r \in (0..K) \X (0..K) \X (0..K) \X (0..K) : r[1] <= r[3] /\ r[2] <= r[4]}     \* <<left, lower, right, upper>>
RectShadedOf(M, r) == \A x \in r[1]..r[3] : \A y \in r[2]..r[4] : <<x, y>> \in M.R
\* is_pointfree((l,b),(r,u)): no point strictly inside the region covering cells l..r x b..u
RectPointFreeOf(M, r) == ~\E i \in 1..Len(M.p) : r[1] < i /\ i <= r[3] /\ r[2] <= M.p[i] /\ M.p[i] < r[4]
RectShaded(r) == RectShadedOf(M0, r)
RectPointFree(r) == RectPointFreeOf(M0, r)
NonPointless == {c \in Cells : \E i \in 1..K : c[1] \in {i - 1, i} /\ c[2] \in {patt[i], patt[i] + 1}}
Anchored == << \A y \in 0..K : <<K, y>> \in shade, \A x \in 0..K : <<x, K>> \in shade,
               \A y \in 0..K : <<0, y>> \in shade, \A x \in 0..K : <<x, 0>> \in shade >>     \* right, top, left, bottom
\* the text rendering with cells drawn s x s characters, as a W x W matrix of symbols (W = (k+1)s + k), top row first:
\* S shaded cell, E empty cell, V / H grid line pieces, P point, X crossing without a point.  Coordinates X, Y are
\* 0 at the left / bottom; every (s+1)-th one is a grid line (through position / value X \div (s+1)), the others
\* belong to the cell <<X \div (s+1), Y \div (s+1)>>.
AsciiOf(M, s) ==
    LET k == Len(M.p)  W == (k + 1) * s + k IN
    [row \in 1..W |-> [col \in 1..W |->
        LET Y == W - row
            X == col - 1
            yLine == Y % (s + 1) = s
            xLine == X % (s + 1) = s
        IN IF ~yLine /\ ~xLine THEN (IF <<X \div (s + 1), Y \div (s + 1)>> \in M.R THEN "S" ELSE "E")
           ELSE IF ~yLine THEN "V"
           ELSE IF ~xLine THEN "H"
           ELSE IF M.p[X \div (s + 1) + 1] = Y \div (s + 1) THEN "P" ELSE "X"]]
Ascii == AsciiOf(M0, 1)
\* stretching the drawing does not change what it shows: the s = 2 drawing sampled at the first character of every
\* cell and at the grid lines is the s = 1 drawing
AsciiScales == \E A1 \in {AsciiOf(M0, 1)}, A2 \in {AsciiOf(M0, 2)} :
                  \A r \in DOMAIN A1, c \in DOMAIN A1 :
                     A1[r][c] = A2[3 * ((r - 1) \div 2) + 1 + 2 * ((r - 1) % 2)][3 * ((c - 1) \div 2) + 1 + 2 * ((c - 1) % 2)]

\* ---- emission ------------------------------------------------------------------------------
EmitState ==
  \E CS \in {CSet(M0)} :
    PrintT(ToJson([p |-> patt, R |-> shade,
      cells |-> {[c |-> c, sem |-> SemShadableIn(M0, {c}, CS), lemma |-> LemmaAt(M0, c)] : c \in Cells},
      pairs |-> {[c |-> pr[1], d |-> pr[2], sem |-> SemShadableIn(M0, {pr[1], pr[2]}, CS), lemma |-> SimulAt(M0, pr[1], pr[2])] : pr \in AdjPairs},
      addp |-> {[c |-> c, dir |-> d, p |-> MAddPoint(M0, c, d).p, R |-> MAddPoint(M0, c, d).R] : c \in Cells \ shade, d \in Dirs},
      addinc |-> {[c |-> c, p |-> MAddPoint(MAddPoint(M0, c, "none"), <<c[1] + 1, c[2] + 1>>, "none").p,
                           R |-> MAddPoint(MAddPoint(M0, c, "none"), <<c[1] + 1, c[2] + 1>>, "none").R] : c \in Cells \ shade},
      adddec |-> {[c |-> c, p |-> MAddPoint(MAddPoint(M0, c, "none"), <<c[1] + 1, c[2]>>, "none").p,
                           R |-> MAddPoint(MAddPoint(M0, c, "none"), <<c[1] + 1, c[2]>>, "none").R] : c \in Cells \ shade},
      rects |-> {[r |-> r, shaded |-> RectShaded(r), pointfree |-> RectPointFree(r)] : r \in Rects},
      nonpointless |-> NonPointless, anchored |-> Anchored, rank |-> MRank(M0), ascii |-> Ascii, ascii2 |-> AsciiOf(M0, 2)]))
=============================================================================
