---------------------------- MODULE C04_Symmetry ----------------------------
(***************************************************************************)
(* C04: the eight symmetries of the square as a group action.              *)
(* State: one object (a permutation, a mesh pattern, or a finite set of    *)
(* permutations).  Actions: the symmetry operations Permuta offers, each   *)
(* defined through the plane map of module D4 - so the state graph is the  *)
(* action graph of the dihedral group on the bounded universe, and every   *)
(* edge <<object, operation, image>> is an obligation for the real code.   *)
(* Mode "equiv" enumerates (pattern, permutation) pairs for the            *)
(* equivariance of containment.                                            *)
(***************************************************************************)
EXTENDS D4, Json

CONSTANTS Mode, MaxPerm, MaxMesh, SetMaxLen, SetMaxSize, EqMaxPerm, Shard, NShards

VARIABLES perm, shade, pset, last
vars == <<perm, shade, pset, last>>
\* perm/shade: the permutation or mesh pattern (shade = {} for a bare permutation);
\* pset: the set of permutations (Mode "set");  last: the operation that led here.

Ops == {"reverse", "complement", "inverse", "flip_antidiagonal", "reverse_complement",
        "flip_horizontal", "flip_vertical", "flip_diagonal"}
OpSym(op) == CASE op = "reverse" -> "rev" [] op = "flip_vertical" -> "rev"
               [] op = "complement" -> "comp" [] op = "flip_horizontal" -> "comp"
               [] op = "inverse" -> "inv" [] op = "flip_diagonal" -> "inv"
               [] op = "flip_antidiagonal" -> "anti"
               [] op = "reverse_complement" -> "r2"
RotCounts == -8..8

PWeight(q) == IF Len(q) = 0 THEN 0 ELSE SumSet({(i + 2) * (i + 1) * q[i] + i : i \in DOMAIN q}) + Len(q)
PermU == {q \in PPermsUpTo(MaxPerm) : PWeight(q) % NShards = Shard}
MeshU == {M \in UNION {MAllMesh(k) : k \in 0..MaxMesh} : (MRank(M) + Len(M.p)) % NShards = Shard}
\* (the empty collection is a set of permutations too: its orbit is the single empty set)
SetU == {S \in SUBSET PPermsBetween(1, SetMaxLen) : Cardinality(S) \in 0..SetMaxSize}

NoOp == [op |-> "init", k |-> 0]
InitPerm == Mode = "perm" /\ perm \in PermU /\ shade = {} /\ pset = {} /\ last = NoOp
InitMesh == Mode = "mesh" /\ (\E M \in MeshU : perm = M.p /\ shade = M.R) /\ pset = {} /\ last = NoOp
InitSet  == Mode = "set" /\ pset \in SetU /\ perm = <<>> /\ shade = {} /\ last = NoOp
InitEquiv == /\ Mode = "equiv" /\ (\E M \in MeshU : perm = M.p /\ shade = M.R)
             /\ pset \in {{q} : q \in PPermsUpTo(EqMaxPerm)} /\ last = NoOp
Init == InitPerm \/ InitMesh \/ InitSet \/ InitEquiv

ApplySym(g) == /\ perm' = DSym(g, perm)
               /\ shade' = DSymCells(g, Len(perm), shade)
               /\ pset' = DSymSet(g, pset)
Op(op) == /\ Mode \in {"perm", "mesh", "set"}
          /\ ApplySym(OpSym(op)) /\ last' = [op |-> op, k |-> 0]
Rotate(k) == /\ Mode \in {"perm", "mesh", "set"}
             /\ ApplySym(DRot(k)) /\ last' = [op |-> "rotate", k |-> k]
Next == (\E op \in Ops : Op(op)) \/ (\E k \in RotCounts : Rotate(k))
Stutter == UNCHANGED vars

\* ---- properties of the specification -------------------------------------------
TypeOK == PIsPerm(perm) /\ shade \subseteq MCells(Len(perm)) /\ \A p \in pset : PIsPerm(p)
\* the action stays inside the orbit and preserves sizes
SizePreserved == [][Len(perm') = Len(perm) /\ Cardinality(shade') = Cardinality(shade)
                    /\ Cardinality(pset') = Cardinality(pset)]_vars
\* rotating four times, or any involution twice, is the identity; rotate(-k) undoes rotate(k)
Relations == /\ \A g \in {"rev", "comp", "inv", "anti", "r2"} : DSym(g, DSym(g, perm)) = perm
             /\ DSym("r1", DSym("r1", DSym("r1", DSym("r1", perm)))) = perm
             /\ \A k \in RotCounts : DSym(DRot(-k), DSym(DRot(k), perm)) = perm
             /\ DSym("rev", DSym("r1", DSym("rev", perm))) = DSym("r3", perm)
             /\ DSym("r2", perm) = DSym("rev", DSym("comp", perm))
             /\ DSym("anti", perm) = DSym("r2", DSym("inv", perm))
OrbitSize == Cardinality(DOrbit(perm)) \in {1, 2, 4, 8}
\* containment is equivariant (checked on the definitions, Mode "equiv")
M0 == MMesh(perm, shade)
TheQ == CHOOSE q \in pset : TRUE
Equivariant == Mode = "equiv" => \A g \in DNames : MContains(DSym(g, TheQ), DSymMesh(g, M0)) <=> MContains(TheQ, M0)
\* the lexicographically minimal representative is the same for the whole orbit
LexMinInvariant == Mode = "set" => \A g \in DNames : DLexMin(DSymSet(g, pset)) = DLexMin(pset)

View == <<perm, shade, pset>>      \* `last` only labels the edge

\* ---- emission --------------------------------------------------------------------
SetSeq(S) == DSortedTuple(S)
EmitEdge == PrintT(ToJson([mode |-> Mode, p |-> perm, R |-> shade, S |-> SetSeq(pset),
                           op |-> last'.op, k |-> last'.k,
                           p2 |-> perm', R2 |-> shade', S2 |-> SetSeq(pset')]))
EmitState == PrintT(ToJson(
    [mode |-> Mode, p |-> perm, R |-> shade, S |-> SetSeq(pset),
     orbit |-> IF Mode = "perm" THEN SetSeq(DOrbit(perm)) ELSE <<>>,
     morbit |-> IF Mode = "mesh" THEN {[p |-> N.p, R |-> N.R] : N \in DOrbitMesh(M0)} ELSE {},
     allsets |-> IF Mode = "set" THEN {SetSeq(T) : T \in DOrbitSet(pset)} ELSE {},
     lexmin |-> IF Mode = "set" THEN DLexMin(pset) ELSE <<>>,
     antichain |-> \A a, b \in pset : a # b => ~PContains(a, b),
     c |-> IF Mode = "equiv" THEN MContains(TheQ, M0) ELSE FALSE]))
=============================================================================
