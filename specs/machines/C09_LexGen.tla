----------------------------- MODULE C09_LexGen -----------------------------
(***************************************************************************)
(* C09, part 1: the generator of all permutations IS a state machine.      *)
(*                                                                         *)
(*   state   cur  (a permutation), step (how many were produced before it) *)
(*   Next    cur' = the least permutation greater than cur of its length,  *)
(*           rolling over to the identity of the next length               *)
(*                                                                         *)
(* The behaviour  <<>>, 0, 01, 10, 012, 021, ...  is what Perm.first(k),   *)
(* Perm.of_length(n), Perm.up_to_length(n) must produce, step is what      *)
(* Perm.rank() must return for cur, cur is what Perm.unrank(step) and      *)
(* Perm.unrank(step - #shorter, n) must return, and the order of the       *)
(* behaviour is what < must decide.  Every state carries these             *)
(* expectations (EmitState).                                               *)
(*                                                                         *)
(* Two definitions of the same enumeration are run against each other:     *)
(*   by counting  rank = number of smaller permutations, successor = least *)
(*                greater permutation   (quantifies over all n! of them)   *)
(*   by sorting   rank = index in the sorted sequence of all permutations  *)
(*                of the length (sorted once with PLexLess; TableSound     *)
(*                checks that the table is strictly increasing and         *)
(*                complete), successor = next entry                        *)
(* DefEvery = 1 evaluates the counting definitions in every state          *)
(* (affordable up to length 6); DefEvery = d evaluates them in the states  *)
(* whose step is a multiple of d and takes the table successor elsewhere   *)
(* (lengths 7 and 8).  SuccessorsAgree / RankIsStep tie the two together   *)
(* wherever both are evaluated.                                            *)
(*                                                                         *)
(* A run covers the segment StartStep..StopStep of the behaviour, starting *)
(* at StartPerm (the harness cuts the behaviour into segments that overlap *)
(* in one state; that StartPerm really is the StartStep-th permutation is  *)
(* not assumed: RankIsStep / IndexIsStep are checked in the initial state  *)
(* as everywhere).  With Track = TRUE the machine also keeps the set of    *)
(* permutations produced so far (history variable) to state "exactly once, *)
(* shorter lengths first" literally.                                       *)
(***************************************************************************)
EXTENDS LexRank, Json

CONSTANTS MinLen, MaxLen,        \* lengths whose tables are needed in this segment
          StartPerm, StartStep, StopStep,
          Track, DefEvery

VARIABLES cur, step, seen
vars == <<cur, step, seen>>

\* tables, evaluated once per run
Lens == MinLen..MaxLen
PermsTab == [n \in Lens |-> LAllPerms(n)]
SortedTab == [n \in Lens |-> LSorted(PermsTab[n])]
CountSeq == [k \in 1..(MaxLen + 1) |-> IF (k - 1) \in Lens THEN Cardinality(PermsTab[k - 1]) ELSE Cardinality(LAllPerms(k - 1))]
ShorterTab == [n \in 0..(MaxLen + 1) |-> LShorterFromCounts(CountSeq, n)]
ShorterSeq == [i \in 1..(MaxLen + 2) |-> ShorterTab[i - 1]]

ByDef(st) == st % DefEvery = 0
N == Len(cur)
IndexOf(s, x) == CHOOSE i \in DOMAIN s : s[i] = x
CurIndex == IndexOf(SortedTab[N], cur)
NextByDef == LNextIn(PermsTab[N], cur)
NextByTable == CHOOSE res \in { IF i < Len(SortedTab[N]) THEN SortedTab[N][i + 1] ELSE PIdentity(N + 1) : i \in {CurIndex} } : TRUE

Init == cur = StartPerm /\ step = StartStep /\ seen = {}
Next == /\ step < StopStep
        /\ cur' = IF ByDef(step) THEN NextByDef ELSE NextByTable
        /\ step' = step + 1
        /\ seen' = IF Track THEN seen \cup {cur} ELSE seen

\* ---- the property, on the specification ---------------------------------------------
TypeOK == PIsPerm(cur) /\ N \in Lens
\* the table really is the sorted enumeration (evaluated in the initial state only)
TableSound == step = StartStep =>
    \A n \in Lens : LET s == SortedTab[n] IN
        /\ Len(s) = Cardinality(PermsTab[n]) /\ {s[i] : i \in DOMAIN s} = PermsTab[n]
        /\ \A i \in 1..(Len(s) - 1) : PLexLess(s[i], s[i + 1])
\* rank = number of smaller permutations (all shorter ones, and the smaller ones of its length)
RankIsStep == ByDef(step) => ShorterTab[N] + LRankIn(PermsTab[N], cur) = step
\* rank = index in the sorted enumeration
IndexIsStep == ShorterTab[N] + (CurIndex - 1) = step
SuccessorsAgree == ByDef(step) => NextByDef = NextByTable
\* unranking = indexing the sorted enumeration: with the length given, and overall
UnrankNIsCur == LUnrankIn(SortedTab[N], step - ShorterTab[N]) = cur
UnrankIsCur == LET n == LLengthOfRank(ShorterSeq, step) IN
               n = N /\ LUnrankIn(SortedTab[n], step - ShorterTab[n]) = cur
\* the ranks just outside a length are no ranks of that length; first and last of a length
BoundaryRanks == /\ ~LValidRankIn(SortedTab[N], -1)
                 /\ ~LValidRankIn(SortedTab[N], Cardinality(PermsTab[N]))
                 /\ LValidRankIn(SortedTab[N], step - ShorterTab[N])
                 /\ (cur = PDecreasing(N) <=> step - ShorterTab[N] = Cardinality(PermsTab[N]) - 1)
                 /\ (cur = PIdentity(N) <=> step = ShorterTab[N])
                 /\ (ByDef(step) => ((LGreaterIn(PermsTab[N], cur) = {}) <=> cur = PDecreasing(N)))
\* the behaviour is strictly increasing and skips nothing
Increasing == [][PPermLess(cur, cur')]_vars
NothingBetween == [][ByDef(step) => ~\E r \in PermsTab[Len(cur)] \cup PermsTab[Len(cur')] : PPermLess(cur, r) /\ PPermLess(r, cur')]_vars
LengthNeverDrops == [][Len(cur') = Len(cur) \/ (Len(cur') = Len(cur) + 1 /\ cur' = PIdentity(Len(cur')) /\ cur = PDecreasing(Len(cur)))]_vars
\* history (Track): exactly once, every shorter permutation before any longer one
ExactlyOnce == Track => (cur \notin seen /\ Cardinality(seen) = step - StartStep)
ShorterFirst == (Track /\ StartStep = 0) =>
                   /\ \A k \in Lens : k < N => PermsTab[k] \subseteq seen
                   /\ \A q \in seen : PPermLess(q, cur)
                   /\ seen = UNION {PermsTab[k] : k \in {j \in Lens : j < N}} \cup LSmallerIn(PermsTab[N], cur)

View == <<cur, step>>
EmitState == PrintT(ToJson([cur |-> cur, step |-> step, n |-> N, rin |-> step - ShorterTab[N],
                            last |-> (step - ShorterTab[N] = Cardinality(PermsTab[N]) - 1),
                            count |-> Cardinality(PermsTab[N]), bydef |-> ByDef(step)]))
=============================================================================
