#!/bin/sh
# Regression over every seeded change: runs the quick check of the seed's property against a scratch worktree with the
# patch applied (3 at a time) and prints the number of VIOLATION lines (0 = missed).
cd /verif
prop_of() { case "$1" in W1a) echo C01;; W2a) echo C11;; C02c) echo C07;; G1a) echo C01;; G2a) echo C09;; G3a) echo C14;; G4a) echo C20;; G5a|G6a) echo C02;; C04j) echo C03;; *) echo "$1" | cut -c1-3;; esac; }
for s in $(ls seeded); do echo "$s $(prop_of $s)"; done | xargs -P 3 -L 1 sh -c 'out=$(TAIL=4000 tools/try_seed.sh $0 $1 2>&1); v=$(printf "%s\n" "$out" | grep -c "^VIOLATION"); m=$(printf "%s\n" "$out" | grep -c "MACHINERY-FAILURE"); echo "$0 $1 violation_lines=$v machinery=$m"'
