#!/usr/bin/env python3
"""Regenerates MANIFEST.json from the table below (one place to keep claims current)."""
import json, os
V = os.path.dirname(os.path.dirname(os.path.abspath(__file__)))
props = [json.loads(l) for l in open(os.path.join(V, "properties.jsonl"))]
claims = json.load(open(os.path.join(V, "tools", "claims.json")))
checks, na = [], []
for p in props:
    pid = p["id"]
    c = claims.get(pid)
    if not c or c.get("not_applicable"):
        na.append({"property_id": pid, "reason": (c or {}).get("not_applicable", "check not built yet in this round (planned in DESIGN.md section 4)")})
        continue
    checks.append({
        "property_id": pid,
        "quick_cmd": "bin/check %s --tier quick" % pid,
        "thorough_cmd": "bin/check %s --tier thorough" % pid,
        "evidence_file": "evidence/%s.json" % pid,
        "replay_cmd_template": "bin/check %s --replay {path}" % pid,
        "engine": "tlc+conformance",
        "level_claimed": {"category": "model_checking", "text": c["text"], "design_ref": "DESIGN.md section 4, %s" % pid},
        "level_note": c["note"],
        "technique": c["technique"],
    })
m = {
    "version": 1,
    "setup_cmd": "bin/setup",
    "hooks": {"guard": "PERMUTA_VERIF", "enable": "no hooks are compiled into /repo: checks observe the public API, public attributes, the file system, sys.settrace and a scheduler-aware replacement of Av._CACHE_LOCK from outside",
              "baseline_off_cmd": "cd /repo && /venv/bin/python -m pytest -ra -q -p no:cacheprovider --timeout=900 --continue-on-collection-errors",
              "source_commits": [], "add_only": True},
    "engines": [
        {"name": "tlc", "path": "specs/", "serves_properties": [c["property_id"] for c in checks], "kind_free_text": "explicit TLA+ specifications (lib definitions, per-property state machines, trace specs) checked with TLC 1.8"},
        {"name": "replay", "path": "harness/adapters/", "serves_properties": [c["property_id"] for c in checks], "kind_free_text": "spec->code: every TLC-emitted state/transition replayed against the real objects"},
        {"name": "tracecheck", "path": "specs/traces/", "serves_properties": [c["property_id"] for c in checks], "kind_free_text": "code->spec: recorded executions of the real code validated by TLC against Trace_* specs reusing the machine's actions"},
    ],
    "checks": checks,
    "not_applicable": na,
    "notes": "All checks: bin/check <ID> [--tier quick|thorough] [--replay file]; exit 0 held / 1 VIOLATION / 2 machinery failure. Known findings: known_findings.json.",
}
json.dump(m, open(os.path.join(V, "MANIFEST.json"), "w"), indent=1)
print("checks:", [c["property_id"] for c in checks], "not_applicable:", [n["property_id"] for n in na])
