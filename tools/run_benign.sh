#!/bin/sh
# Runs the checks named in benign/<id>/meta.json against a scratch worktree with the benign (property-preserving)
# change applied (three at a time).  A VIOLATION here is a false alarm of the machinery.  usage: run_benign.sh [id ...]
cd /verif
ids="$@"; [ -n "$ids" ] || ids=$(ls benign)
for id in $ids; do
  for prop in $(python3 -c "import json;print(' '.join(json.load(open('benign/$id/meta.json'))['checks']))"); do
    echo "$id $prop"
  done
done | xargs -P 3 -L 1 sh -c 'out=$(TAIL=400 tools/try_seed.sh /verif/benign/$0/patch.diff $1 2>&1); v=$(printf "%s\n" "$out" | grep -c "^VIOLATION"); d=$(printf "%s\n" "$out" | grep -c "^DRIFT"); m=$(printf "%s\n" "$out" | grep -c "MACHINERY-FAILURE"); echo "$0 $1: violations=$v drift_lines=$d machinery_failures=$m"'
