#!/bin/sh
# usage: confirm_seed.sh C01a   -- confirm an independently seeded change myself, then file it under /verif/seeded
# (suite passes with the change; demo fails with it and passes without it); removes the scratch worktree afterwards.
id="$1"; wt=/tmp/wt/$id; out=/tmp/seedout/$id; dst=/verif/seeded/$id
set -e
[ -f "$out/patch.diff" ] && [ -f "$out/demo.py" ] || { echo "$id: missing patch/demo"; exit 3; }
git -C "$wt" checkout -q -- . ; git -C "$wt" apply "$out/patch.diff"
cd "$wt"
set +e
PYTHONPATH=$wt /venv/bin/python -m pytest -q -p no:cacheprovider -n 6 --timeout=900 > "$out/pytest.log" 2>&1; trc=$?
tail -1 "$out/pytest.log"
(cd "$out" && PYTHONPATH=$wt timeout 900 /venv/bin/python demo.py > "$out/demo_with.log" 2>&1); w=$?
git -C "$wt" checkout -q -- .
(cd "$out" && PYTHONPATH=$wt timeout 900 /venv/bin/python demo.py > "$out/demo_without.log" 2>&1); wo=$?
echo "$id: pytest_rc=$trc demo_with=$w demo_without=$wo"
if [ $trc -eq 0 ] && [ $w -ne 0 ] && [ $wo -eq 0 ]; then
  mkdir -p "$dst"; cp "$out/patch.diff" "$out/demo.py" "$dst/"
  /venv/bin/python - "$out" "$dst" "$id" <<'PY'
import json,sys
out,dst,id_=sys.argv[1:4]
try: m=json.load(open(out+"/meta.json"))
except Exception: m={}
m["id"]=id_
m["confirmed_by_me"]={"pytest": open(out+"/pytest.log").read().strip().splitlines()[-1], "demo_exit_with_change":"nonzero","demo_exit_without_change":0,
  "ran":"tools/confirm_seed.sh: pytest -n 6 in the scratch worktree with the patch; demo.py with and without the patch"}
json.dump(m,open(dst+"/meta.json","w"),indent=1)
PY
  echo "$id: CONFIRMED -> $dst"
else
  echo "$id: NOT confirmed"
fi
cd /; git -C /repo worktree remove --force "$wt"
