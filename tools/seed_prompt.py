#!/usr/bin/env python3
"""Print the prompt given to an independent sub-agent asked to seed a property-breaking change.
usage: seed_prompt.py C01 a [extra-hint]"""
import json, sys
pid, tag = sys.argv[1], sys.argv[2]
hint = sys.argv[3] if len(sys.argv) > 3 else ""
for line in open("/verif/properties.jsonl"):
    d = json.loads(line)
    if d["id"] == pid:
        break
wt = f"/tmp/wt/{pid}{tag}"
out = f"/tmp/seedout/{pid}{tag}"
print(f"""You are testing how well a verification effort detects regressions in the Python library Permuta (PermutaTriangle/Permuta, pure Python combinatorics: permutations, patterns, permutation classes).

Your own private git worktree of the library is at {wt} (work ONLY there; never touch /repo or /verif, and do not read anything under /verif). Run Python as `/venv/bin/python` with the worktree first on the path, e.g. `cd {wt} && PYTHONPATH={wt} /venv/bin/python demo.py` (check `permuta.__file__` points into {wt}).

PROPERTY that the library is supposed to satisfy:
  Title: {d['title']}
  Statement: {d['statement']}
  Quantified over: {d['quantifier']['text']}
  Code areas: {', '.join(d['anchors']['files'])}

TASK: produce ONE realistic change (the kind of slip or well-meant refactoring/optimisation a maintainer could make) to the library source under {wt}/permuta that BREAKS this property while the library still imports and the existing test suite still passes completely. The change should need something specific to manifest - a particular unusual input, a multi-step sequence of operations, a particular history of earlier calls, a particular interleaving, or two cooperating edits that each look fine alone - not something any ordinary use would expose at once. Keep it small (a few lines). Do not edit tests, README or docs. {hint}

Requirements, all of which you must verify yourself:
 1. Test suite passes with the change: `cd {wt} && /venv/bin/python -m pytest -q -p no:cacheprovider -x -n 6 --timeout=900` (542 tests incl. doctests and README.rst; takes 1-3 minutes; must be 0 failures). If a test fails, choose a different change.
 2. Write {out}/demo.py : a small standalone program that exercises the library (imports permuta normally) and exits 0 when the property holds for what it exercises and exits 1 (printing what went wrong) when it does not. It must exit 1 with your change and exit 0 on the unchanged library (verify both with `git diff > patch.diff; git apply -R patch.diff; ...; git apply patch.diff` - do NOT use `git stash`: the stash is shared by all worktrees of the repository). The demo should judge against an independent definition (brute force), not against stored outputs.
 3. Write {out}/patch.diff = output of `git -C {wt} diff` (the change, relative to the worktree root, appliable with `git apply`).
 4. Write {out}/meta.json with keys: property ("{pid}"), summary (one or two sentences: what was changed), needs (what specific input/sequence/interleaving is needed for the breakage to show), files (list), tests_pass (true, with the pytest summary line), demo_with_change_exit (1), demo_without_change_exit (0).
Leave the worktree with the change applied. In your final answer give a 5-line summary. Do not commit anything.""")
