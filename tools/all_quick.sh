#!/bin/sh
# usage: all_quick.sh [seed]   -- every quick check once (4 at a time), summary line + exit status per property
seed="${1:-1}"; cd /verif; mkdir -p /tmp/allq.$seed
ls harness/adapters/c*.py | sed 's/.*\/c\([0-9]*\).py/C\1/' | xargs -P 4 -I{} sh -c "VERIF_SEED=$seed VERIF_EVIDENCE_DIR=/tmp/allq.$seed/ev timeout 3000 bin/check {} --tier quick > /tmp/allq.$seed/{}.log 2>&1; echo {} rc=\$? \$(grep -c '^VIOLATION' /tmp/allq.$seed/{}.log) violations \$(tail -1 /tmp/allq.$seed/{}.log | sed 's/.*traces validated, //')"
