#!/bin/sh
# usage: try_seed.sh <seed id or patch file> <PROPERTY> [tier]   -- run a check against a scratch worktree of /repo with the
# seeded change applied (VERIF_REPO), never touching /repo itself; prints the tail of the check's output.
seed="$1"; prop="$2"; tier="${3:-quick}"
patch="/verif/seeded/$seed/patch.diff"; [ -f "$patch" ] || patch="$seed"
W=$(mktemp -d /tmp/wt-try.XXXXXX); rmdir "$W"
git -C /repo worktree add -q "$W" HEAD || exit 3
git -C "$W" apply "$patch" || { git -C /repo worktree remove --force "$W"; echo "patch does not apply"; exit 3; }
cd /verif && VERIF_REPO="$W" VERIF_EVIDENCE_DIR=/tmp/try-evidence VERIF_REPLAY_DIR=/tmp/try-replay timeout 3000 bin/check "$prop" --tier "$tier" 2>&1 | grep -v "^  " | tail -${TAIL:-4}
git -C /repo worktree remove --force "$W"
