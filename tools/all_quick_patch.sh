#!/bin/sh
# usage: all_quick_patch.sh <patch file> [checks...]  -- every quick check (or the named ones) against a scratch worktree of /repo
# with the patch applied; one line per check.  For property-preserving patches every line must say violations=0 machinery=0.
patch="$1"; shift; checks="$@"
[ -n "$checks" ] || checks="C01 C02 C03 C04 C05 C06 C07 C08 C09 C10 C11 C12 C13 C14 C15 C16 C17 C18 C19 C20"
W=$(mktemp -d /tmp/wt-allq.XXXXXX); rmdir "$W"
git -C /repo worktree add -q "$W" HEAD || exit 3
git -C "$W" apply "$patch" || { git -C /repo worktree remove --force "$W"; echo "patch does not apply"; exit 3; }
cd /verif
for c in $checks; do echo $c; done | xargs -P 3 -I{} sh -c 'out=$(VERIF_REPO='"$W"' VERIF_EVIDENCE_DIR=/tmp/try-evidence VERIF_REPLAY_DIR=/tmp/try-replay timeout 3000 bin/check {} --tier quick 2>&1); v=$(printf "%s\n" "$out" | grep -c "^VIOLATION"); m=$(printf "%s\n" "$out" | grep -c "MACHINERY-FAILURE"); d=$(printf "%s\n" "$out" | grep -c "^DRIFT"); echo "{} violations=$v machinery=$m drift_lines=$d"; [ "$v$m" = "00" ] || printf "%s\n" "$out" | grep -v "^  \|KNOWN" | head -8'
git -C /repo worktree remove --force "$W"
