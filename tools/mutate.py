#!/usr/bin/env python3
"""Mechanical mutants of the library (operator flips, off-by-one, dropped statements) that the repository's own suite does not
notice, run against the checks.   usage: mutate.py <count> <seed> [outdir]

For each sampled mutation site: apply it in a scratch worktree of /repo (under /tmp), run the repository's tests (-x, in
parallel); if they pass, the mutant is a survivor: the quick checks of every property anchored in the mutated file are run
against the worktree (VERIF_REPO).  Result lines:   <id> <file>:<line> <kind> suite=pass|fail checks=C01:3,C09:0,...
Survivors that no check reports have to be looked at by hand (equivalent mutant, or a blind spot).  Nothing is written to
/repo or kept under /tmp afterwards except the outdir (default /tmp/mutants) with one diff per survivor.
"""
import json
import os
import random
import re
import subprocess
import sys

REPO = "/repo"
VERIF = "/verif"
RULES = [
    (r"(?<![<>=!])<(?![<=])", "<=", "lt->le"), (r"<=", "<", "le->lt"), (r"(?<![<>=!-])>(?![>=])", ">=", "gt->ge"), (r">=", ">", "ge->gt"),
    (r"==", "!=", "eq->ne"), (r"!=", "==", "ne->eq"), (r"\band\b", "or", "and->or"), (r"\bor\b", "and", "or->and"),
    (r"\+ 1\b", "+ 2", "+1->+2"), (r"- 1\b", "- 0", "-1->-0"), (r"\+ 1\b", "+ 0", "+1->+0"), (r"\bnot ", "", "drop-not"),
    (r"\bTrue\b", "False", "True->False"), (r"\bFalse\b", "True", "False->True"), (r"\bmin\(", "max(", "min->max"), (r"\bmax\(", "min(", "max->min"),
    (r"\bany\(", "all(", "any->all"), (r"\ball\(", "any(", "all->any"), (r"\bbreak\b", "continue", "break->continue"),
    (r"range\(1, ", "range(0, ", "range1->0"), (r"\[1:\]", "[0:]", "slice1->0"), (r"\[:-1\]", "[:]", "slice-1->all"),
]


def anchored():
    out = {}
    for line in open(os.path.join(VERIF, "properties.jsonl")):
        d = json.loads(line)
        for f in d["anchors"]["files"]:
            out.setdefault(f, []).append(d["id"])
    return out


def sites(files):
    res = []
    for f in files:
        path = os.path.join(REPO, f)
        if not os.path.isfile(path):
            continue
        indoc = False
        for no, text in enumerate(open(path).read().splitlines(), 1):
            st = text.strip()
            if st.count('"""') % 2 == 1:
                indoc = not indoc
                continue
            if st.startswith(('"', "'", 'f"', "r'", 'r"')) or st.endswith(('",', '"')):
                continue                                  # a line of a string literal
            if indoc or not st or st.startswith(("#", "assert", "print(", "import", "from ", "def ", "class ", "@", ">>>", "...")):
                continue
            code = text.split("#")[0]
            for k, (pat, rep, kind) in enumerate(RULES):
                for m in re.finditer(pat, code):
                    before = code[:m.start()]
                    if before.count('"') % 2 or before.count("'") % 2:
                        continue                          # inside a string literal
                    res.append((f, no, k, m.start(), kind))
    return res


def run(cmd, **kw):
    return subprocess.run(cmd, stdout=subprocess.PIPE, stderr=subprocess.STDOUT, text=True, **kw)


def main():
    count, seed = int(sys.argv[1]), int(sys.argv[2])
    outdir = sys.argv[3] if len(sys.argv) > 3 else "/tmp/mutants"
    os.makedirs(outdir, exist_ok=True)
    anch = anchored()
    rnd = random.Random(seed)
    all_sites = sites(sorted(anch))
    rnd.shuffle(all_sites)
    wt = "/tmp/mutwt-%d" % os.getpid()
    run(["git", "-C", REPO, "worktree", "add", "-q", "--detach", wt])
    try:
        done = 0
        for f, no, k, col, kind in all_sites:
            if done >= count:
                break
            path = os.path.join(wt, f)
            lines = open(path).read().split("\n")
            pat, rep, _ = RULES[k]
            old = lines[no - 1]
            new = old[:col] + re.sub(pat, rep, old[col:], count=1)
            if new == old:
                continue
            lines[no - 1] = new
            open(path, "w").write("\n".join(lines))
            mid = "m%d_%03d" % (seed, done)
            done += 1
            try:
                r = run(["/venv/bin/python", "-c", "import permuta"], cwd=wt, env=dict(os.environ, PYTHONPATH=wt))
                if r.returncode != 0:
                    print(mid, "%s:%d" % (f, no), kind, "suite=import-error", flush=True)
                    continue
                r = run(["/venv/bin/python", "-m", "pytest", "-q", "-x", "-p", "no:cacheprovider", "-n", "8", "--timeout=300"], cwd=wt,
                        env=dict(os.environ, PYTHONPATH=wt), timeout=1500)
                if r.returncode != 0:
                    print(mid, "%s:%d" % (f, no), kind, "suite=fail", flush=True)
                    continue
                diff = run(["git", "-C", wt, "diff"]).stdout
                open(os.path.join(outdir, mid + ".diff"), "w").write(diff)
                verdicts = []
                for pid in anch[f]:
                    c = run([os.path.join(VERIF, "bin/check"), pid, "--tier", "quick"], timeout=2400,
                            env=dict(os.environ, VERIF_REPO=wt, VERIF_EVIDENCE_DIR="/tmp/mut-evidence", VERIF_REPLAY_DIR="/tmp/mut-replay"))
                    nv = sum(1 for l in c.stdout.splitlines() if l.startswith("VIOLATION"))
                    mf = "MACHINERY-FAILURE" in c.stdout
                    verdicts.append("%s:%s" % (pid, "MF" if mf and not nv else nv))
                print(mid, "%s:%d" % (f, no), kind, "suite=pass", "checks=" + ",".join(verdicts), "|", old.strip()[:90], flush=True)
            except subprocess.TimeoutExpired:
                print(mid, "%s:%d" % (f, no), kind, "timeout", flush=True)
            finally:
                run(["git", "-C", wt, "checkout", "-q", "--", "."])
    finally:
        run(["git", "-C", REPO, "worktree", "remove", "--force", wt])


if __name__ == "__main__":
    main()
