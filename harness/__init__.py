
import os as _os

if _os.environ.get("VERIF_WEAK_HASH"):
    # worker processes started with this variable (see harness/weakhash.py) get colliding hashes before permuta is imported
    from harness import weakhash as _weakhash
    _weakhash.install(int(_os.environ["VERIF_WEAK_HASH"]))
