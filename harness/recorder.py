"""pytest plugin (-p harness.recorder): records calls the repository's own tests make to the public containment
and class-query API, so that TLC can validate them (the tests exercise more than their assertions check).

Only top-level calls are recorded (a depth counter skips calls the library makes internally); events go to the
ndjson file named by VERIF_RECORD_FILE; sizes are capped so that TLC can judge every event."""
import functools
import json
import os
import threading

_depth = threading.local()
_out = None
_seen = set()
_count = {}
CAP = int(os.environ.get("VERIF_RECORD_CAP", "1500"))


def _emit(ev):
    global _out
    key = json.dumps(ev, sort_keys=True)
    op = ev["op"]
    if key in _seen or _count.get(op, 0) >= CAP:
        return
    _seen.add(key)
    _count[op] = _count.get(op, 0) + 1
    if _out is None:
        _out = open(os.environ["VERIF_RECORD_FILE"], "a")
    _out.write(key + "\n")
    _out.flush()


def _top_level(fn, make_event):
    @functools.wraps(fn)
    def wrapper(*a, **k):
        d = getattr(_depth, "v", 0)
        _depth.v = d + 1
        try:
            res = fn(*a, **k)
        finally:
            _depth.v = d
        if d == 0:
            try:
                ev = make_event(a, k, res)
                if ev is not None:
                    _emit(ev)
            except Exception:  # pylint: disable=broad-except
                pass
        return res
    return wrapper


def pytest_configure(config):
    from permuta import Av, MeshPatt, Perm
    from permuta.perm_sets.basis import Basis

    def split(patts):
        cl, ms = [], []
        for p in patts:
            if isinstance(p, Perm):
                if len(p) > 4:
                    return None
                cl.append(list(p))
            elif isinstance(p, MeshPatt):
                if len(p) > 4:
                    return None
                ms.append({"p": list(p.pattern), "R": sorted(list(c) for c in p.shading)})
            else:
                return None
        return cl, ms

    def contains_event(kind):
        def mk(a, k, res):
            self, patts = a[0], a[1:]
            if len(self) > 7 or not patts or not isinstance(res, bool):
                return None
            sp = split(patts)
            if sp is None:
                return None
            return {"op": "Mixed", "kind": kind, "q": list(self), "cl": sp[0], "ms": sp[1], "res": res}
        return mk
    Perm.contains = _top_level(Perm.contains, contains_event("contains"))
    Perm.avoids = _top_level(Perm.avoids, contains_event("avoids"))

    def count_event(a, k, res):
        self, n = a[0], a[1]
        if not isinstance(self.basis, Basis) or n > 6 or any(len(b) > 5 for b in self.basis):
            return None
        return {"op": "AvCount", "basis": [list(b) for b in self.basis], "n": n, "res": res}
    Av.count = _top_level(Av.count, count_event)

    def member_event(a, k, res):
        self, q = a[0], a[1]
        if not isinstance(self.basis, Basis) or not isinstance(q, Perm) or len(q) > 7 or any(len(b) > 5 for b in self.basis):
            return None
        return {"op": "AvMember", "basis": [list(b) for b in self.basis], "q": list(q), "res": bool(res)}
    Av.__contains__ = _top_level(Av.__contains__, member_event)


def pytest_unconfigure(config):
    if _out is not None:
        _out.close()
