"""Entry point:  bin/check <ID> [--tier quick|thorough] [--replay file]

exit 0  property held on everything explored (KNOWN-FINDING lines possible)
exit 1  at least one VIOLATION line was printed
exit 2  machinery failure (never a verdict)
"""
import argparse
import importlib
import os
import shutil
import sys
import tempfile
import traceback


def main():
    ap = argparse.ArgumentParser()
    ap.add_argument("pid")
    ap.add_argument("--tier", default=os.environ.get("VERIF_TIER", "quick"), choices=["quick", "thorough"])
    ap.add_argument("--replay", default=None)
    a = ap.parse_args()
    seed = int(os.environ.get("VERIF_SEED", "20261003"))
    from harness.core import Ctx, REPO
    from harness.tlc import MachineryFailure
    pid = a.pid.upper()
    if a.replay:
        a.replay = os.path.abspath(a.replay)
    # a check that hangs must not hang its caller: after a generous limit the process reports a machinery failure and ends
    import faulthandler
    import threading
    limit = float(os.environ.get("VERIF_WATCHDOG_S", "2400" if a.tier == "quick" else "14000"))

    def give_up():
        print("MACHINERY-FAILURE property=%s no result after %d s (watchdog); stacks follow on stderr" % (pid, limit), flush=True)
        faulthandler.dump_traceback(all_threads=True)
        os._exit(2)
    dog = threading.Timer(limit, give_up)
    dog.daemon = True
    dog.start()
    scratch = tempfile.mkdtemp(prefix="verif-cwd-")
    os.chdir(scratch)  # the library writes dfa_db/ and BiSC files relative to the cwd
    rc = 2
    ctx = None
    try:
        import permuta
        if not os.path.abspath(permuta.__file__).startswith(os.path.abspath(REPO)):
            raise MachineryFailure("permuta imported from %s, expected under %s" % (permuta.__file__, REPO))
        from harness import spoil
        wrapped = spoil.install()           # results belong to the caller (harness/spoil.py)
        mod = importlib.import_module("harness.adapters." + pid.lower())
        ctx = Ctx(pid, a.tier, seed)
        ctx.note("returned_containers_emptied_after_every_call", len(wrapped))
        ctx.scratch = scratch
        if a.replay:
            rc = mod.replay(ctx, a.replay)
        else:
            mod.run(ctx)
            rc = ctx.finish()
    except MachineryFailure as e:
        print("MACHINERY-FAILURE property=%s %s" % (pid, str(e)[:4000]))
        rc = 2
        if ctx is not None and ctx.violations:
            # violations already confirmed against the real code stand; the later phase did not run
            ctx.note("machinery_failure_after_violation", str(e)[:500])
            rc = ctx.finish()
    except Exception as e:  # pylint: disable=broad-except
        # An exception nobody caught.  Raised by the library itself (innermost frame under REPO) on a call the harness makes
        # without any trouble on the unchanged tree: the tree under check fails where the property promises an answer.
        # Raised anywhere else: the machinery is broken, no verdict.
        tb = traceback.extract_tb(e.__traceback__)
        inner = os.path.abspath(tb[-1].filename) if tb else ""
        if ctx is not None and not a.replay and inner.startswith(os.path.abspath(REPO) + os.sep):
            frames = ["%s:%d %s" % (os.path.relpath(f.filename, REPO) if f.filename.startswith(REPO) else os.path.basename(f.filename), f.lineno, f.name)
                      for f in tb[-8:]]
            ctx.violation({"kind": "uncaught exception of the library", "frames": frames}, "NoException", "the call returns",
                          "%s: %s" % (type(e).__name__, str(e)[:200]))
            ctx.note("stopped_by_library_exception", frames)
            rc = ctx.finish()
        else:
            print("MACHINERY-FAILURE property=%s unexpected harness exception" % pid)
            traceback.print_exc()
            rc = 2
            if ctx is not None and ctx.violations:
                ctx.note("machinery_failure_after_violation", "%s: %s" % (type(e).__name__, str(e)[:300]))
                rc = ctx.finish()
    finally:
        os.chdir("/")
        shutil.rmtree(scratch, ignore_errors=True)
    sys.exit(rc)


if __name__ == "__main__":
    main()
