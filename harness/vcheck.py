"""Entry point:  bin/check <ID> [--tier quick|thorough] [--replay file]

exit 0  property held on everything explored (KNOWN-FINDING lines possible)
exit 1  at least one VIOLATION line was printed
exit 2  machinery failure (never a verdict)
"""
import argparse
import importlib
import os
import shutil
import sys
import tempfile
import traceback


def main():
    ap = argparse.ArgumentParser()
    ap.add_argument("pid")
    ap.add_argument("--tier", default=os.environ.get("VERIF_TIER", "quick"), choices=["quick", "thorough"])
    ap.add_argument("--replay", default=None)
    a = ap.parse_args()
    seed = int(os.environ.get("VERIF_SEED", "20261003"))
    from harness.core import Ctx, REPO
    from harness.tlc import MachineryFailure
    pid = a.pid.upper()
    if a.replay:
        a.replay = os.path.abspath(a.replay)
    scratch = tempfile.mkdtemp(prefix="verif-cwd-")
    os.chdir(scratch)  # the library writes dfa_db/ and BiSC files relative to the cwd
    rc = 2
    ctx = None
    try:
        import permuta
        if not os.path.abspath(permuta.__file__).startswith(os.path.abspath(REPO)):
            raise MachineryFailure("permuta imported from %s, expected under %s" % (permuta.__file__, REPO))
        mod = importlib.import_module("harness.adapters." + pid.lower())
        ctx = Ctx(pid, a.tier, seed)
        ctx.scratch = scratch
        if a.replay:
            rc = mod.replay(ctx, a.replay)
        else:
            mod.run(ctx)
            rc = ctx.finish()
    except MachineryFailure as e:
        print("MACHINERY-FAILURE property=%s %s" % (pid, str(e)[:4000]))
        rc = 2
        if ctx is not None and ctx.violations:
            # violations already confirmed against the real code stand; the later phase did not run
            ctx.note("machinery_failure_after_violation", str(e)[:500])
            rc = ctx.finish()
    except Exception:  # pylint: disable=broad-except
        print("MACHINERY-FAILURE property=%s unexpected harness exception" % pid)
        traceback.print_exc()
        rc = 2
    finally:
        os.chdir("/")
        shutil.rmtree(scratch, ignore_errors=True)
    sys.exit(rc)


if __name__ == "__main__":
    main()
