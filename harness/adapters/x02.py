"""X02 (extension) - Perm.bkv_sortable against the two-stack machine X02_TwoStacks for several pattern sets."""
import contextlib
import io

from permuta import Perm

from harness import tlc, util

SIGMAS = [[], [(2, 1, 0)], [(0, 1, 2), (0, 2, 1)], [(1, 2, 0), (0, 2, 1)], [(2, 1, 0, 3)], [(0, 1)]]
KNOWN = {(): [1, 1, 2, 5, 14, 42], ((2, 1, 0),): [1, 1, 2, 4, 8, 16], ((2, 1, 0, 3),): [1, 1, 2, 5, 13, 34]}


def run(ctx):
    n = 5 if ctx.tier == "quick" else 6
    jobs = []
    for sg in SIGMAS:
        mod = util.mc_module("MC_X02", "X02_TwoStacks", {"SigmaDef": "{" + ", ".join(tlc.tla(list(p)) for p in sg) + "}"})
        c = util.cfg(init="Init", next_="Next", invariants=["Conservation", "LeftIncreasing", "RightAvoids", "NeverStuck", "EmitDone"],
                     constants={"MaxPerm": n, "Sigma": ("<-", "SigmaDef")})
        jobs.append(("MC_X02", c, {"files": {"MC_X02.tla": mod}, "timeout": 1800, "workers": 2}))
    for sg, r in zip(SIGMAS, tlc.run_many(jobs, parallel=6)):
        ctx.add_tlc(r, "two-stack machine, sigma=%s" % sg)
        counts = [0] * (n + 1)
        pats = tuple(Perm(p) for p in sg)
        for rec in r.records:
            p = rec["p"]
            with contextlib.redirect_stdout(io.StringIO()):          # the method prints its stacks
                st, got = util.call(Perm(p).bkv_sortable, pats)
            ctx.case((tuple(map(tuple, sg)), tuple(p)), nontrivial=len(p) >= 3)
            if st == "raise" or bool(got) != rec["sortable"]:
                ctx.violation({"kind": "state", "sigma": sg, "p": p}, "SortableIffMachineSorts", rec["sortable"], got)
            counts[len(p)] += 1 if rec["sortable"] else 0
        key = tuple(map(tuple, sg))
        if key in KNOWN and counts[:6] != KNOWN[key][:len(counts[:6])]:
            raise tlc.MachineryFailure("X02: the machine's counts %s contradict the published enumeration %s for sigma=%s" % (counts, KNOWN[key], sg))
        ctx.sample({"sigma": sg, "sortable_counts_by_length": counts})
    ctx.exhaustive = True
    ctx.rule = "every permutation up to the bound run through the two-stack machine for six pattern sets; non-trivial = length >= 3"


def replay(ctx, path):
    raise tlc.MachineryFailure("X02 cases are replayed by re-running the check")
