"""C16 - the 'finitely many simples' verdict matches the class's actual simples.

For every basis TLC decides (machine C16_Simples) whether a special family has arbitrarily long members in the
class (explicit families) and counts the simples of each length by enumeration; the pin-sequence part is decided by
TLC on the exported automaton (machine C15_PinLanguage).  The verdict of the real code, through every entry point,
for every order, for non-minimal presentations and for all eight symmetric images, is judged against these - also in other
containers and argument forms, for the same objects asked twice, before / after enumeration and clear_cache, and with the
three entry points called one after the other in every order (from the state of a fresh process, and in cold processes).
"""
import concurrent.futures
import contextlib
import io
import itertools
import json
import multiprocessing
import os
import random
import subprocess
import sys
import tempfile
import time

from permuta import Av, Basis, Perm
from permuta import cli
from permuta import permutils
from permuta.enumeration_strategies.finitely_many_simples import FinitelyManySimplesStrategy
from permuta.permutils.pin_words import PinWords

from harness import tlc, util
from harness.adapters import c15


def contains(q, p):
    k = len(p)
    return any(all((q[c[i]] < q[c[j]]) == (p[i] < p[j]) for i in range(k) for j in range(k))
               for c in itertools.combinations(range(len(q)), k))


def bases(rnd, quick):
    s = {n: util.perms_of(n) for n in range(2, 6)}
    out = [[(0, 1)], [(0, 1, 2)], [(0, 2, 1)], [(1, 2, 0)], [(0, 1, 2), (2, 1, 0)], [(0, 2, 1), (1, 2, 0)],
           [(1, 3, 0, 2)], [(1, 3, 0, 2), (2, 0, 3, 1)], [(0, 1, 2, 3)], [(1, 0, 3, 2)], [(0, 2, 1, 3)],
           [(2, 0, 3, 1), (0, 1, 2)], [(1, 3, 0, 2), (2, 0, 3, 1), (0, 1, 2, 3)], [(2, 3, 0, 1)]]
    for _ in range(4 if quick else 40):
        k = rnd.randint(1, 3)
        b = [rnd.choice(s[rnd.choice([3, 4, 4])]) for _ in range(k)]
        b = [p for p in b if not any(q != p and contains(p, q) for q in b)]
        if b and b not in out:
            out.append(sorted(set(b)))
    if not quick:
        for _ in range(10):
            out.append(sorted({rnd.choice(s[5]), rnd.choice(s[4]), rnd.choice(s[3])}))
        # more elements of length 5: alone, in pairs, simple ones, next to the bases of the special families
        out += [[p] for p in rnd.sample(s[5], 4)] + [[(1, 3, 0, 4, 2)], [(2, 0, 4, 1, 3), (1, 4, 2, 0, 3)], [(0, 1, 2, 3, 4)]]
        for _ in range(6):
            out.append(sorted({rnd.choice(s[5]), rnd.choice(s[5])}))
        for _ in range(4):
            out.append(sorted({rnd.choice(s[5]), rnd.choice([(1, 3, 0, 2), (2, 0, 3, 1), (2, 3, 0, 1), (0, 1, 2)])}))
    res = []
    for b in out:
        b = [p for p in b if not any(q != p and contains(p, q) for q in b)]
        if b not in res:
            res.append(b)
    return res


def pin_verdict_jobs(basis):
    B = [Perm(p) for p in basis]
    fresh = PinWords.make_dfa_for_basis(list(B))
    defs = {"BasisDef": "{" + ", ".join(tlc.tla(list(p)) for p in basis) + "}"}
    defs.update(c15.tla_table("A", c15.export(fresh)))
    defs.update(c15.tla_tables("B", []))
    mod = util.mc_module("MC_C15", "C15_PinLanguage", defs)
    consts = {"Basis": ("<-", "BasisDef"), "MaxWord": 6, "Mode": '"semantic"',
              "DfaN": ("<-", "ANDef"), "DfaDelta": ("<-", "ADeltaDef"), "DfaFinal": ("<-", "AFinalDef"), "DfaInit": ("<-", "AInitDef"),
              "Dfa2N": ("<-", "BNDef"), "Dfa2Delta": ("<-", "BDeltaDef"), "Dfa2Final": ("<-", "BFinalDef"), "Dfa2Init": ("<-", "BInitDef")}
    c = util.cfg(init="Init", next_="Next", invariants=["AcceptsIffContains", "EmitVerdict"], view="FullView", constants=consts)
    return ("MC_C15", c, {"files": {"MC_C15.tla": mod}, "timeout": 3000, "allow_violation": True})


def cli_simple(text):
    buf = io.StringIO()
    with contextlib.redirect_stdout(buf):
        args = cli.get_parser().parse_args(["simple", text])
        args.func(args)
    out = buf.getvalue()
    if "infinitely many" in out:
        return False
    if "finitely many" in out:
        return True
    return None


def text_of(seq, one_based=False, sep="_"):
    return sep.join("".join(str(v + (1 if one_based else 0)) for v in p) for p in seq)


REAL_SYM = (("rotate", lambda p: p.rotate(1)), ("reverse", lambda p: p.reverse()), ("complement", lambda p: p.complement()),
            ("inverse", lambda p: p.inverse()), ("rotate(2)", lambda p: p.rotate(2)), ("rotate(3)", lambda p: p.rotate(3)),
            ("flip_antidiagonal", lambda p: p.flip_antidiagonal()))
ENTRY = {"Av": lambda X, t: Av(list(X)).has_finitely_many_simples(),
         "Strategy": lambda X, t: FinitelyManySimplesStrategy(list(X)).applies(),
         "cli": lambda X, t: cli_simple(t),
         "utility": lambda X, t: PinWords.has_finite_simples(list(X))}
ORDERS = list(itertools.permutations(("Av", "Strategy", "cli")))


def as_fresh_process():
    """Process-wide state the entry points may share, put back to what a fresh process has (as far as it is visible)."""
    Av.clear_cache()
    for owner in ("PolyPerms", "InsertionEncodablePerms"):
        t = getattr(getattr(permutils, owner, None), "_CACHE", None)
        if isinstance(t, dict):
            t.clear()


COLD = r"""
import contextlib, io, json, sys
from permuta import Av, Perm, cli
from permuta.enumeration_strategies.finitely_many_simples import FinitelyManySimplesStrategy
from permuta.permutils.pin_words import PinWords
basis = [Perm(p) for p in json.loads(sys.argv[1])]
text = sys.argv[2]
def cli_simple():
    buf = io.StringIO()
    with contextlib.redirect_stdout(buf):
        args = cli.get_parser().parse_args(["simple", text])
        args.func(args)
    out = buf.getvalue()
    return False if "infinitely many" in out else True if "finitely many" in out else None
entry = {"Av": lambda: Av(list(basis)).has_finitely_many_simples(), "Strategy": lambda: FinitelyManySimplesStrategy(list(basis)).applies(),
         "cli": cli_simple, "utility": lambda: PinWords.has_finite_simples(list(basis))}
out = []
for name in json.loads(sys.argv[3]):
    try:
        out.append([name, "ok", entry[name]()])
    except Exception as e:
        out.append([name, "raise", type(e).__name__])
print(json.dumps(out))
"""


def cold_sessions(b):
    """One cold process per order of the three entry points (then the utility function): [(order, Popen)]."""
    out = []
    for order in ORDERS:
        argv = [sys.executable, "-c", COLD, json.dumps([list(p) for p in b]), text_of(b), json.dumps(list(order) + ["utility"])]
        out.append((order, subprocess.Popen(argv, stdout=subprocess.PIPE, stderr=subprocess.PIPE, text=True, env=util.hash_env(16 + len(out)))))
    return out


def supersets(rnd, b):
    """Permutations containing an element of b (checked with the harness's own containment): non-minimal presentations."""
    out = []
    for which in (0, len(b) - 1):
        base = b[which]
        cands = [c for c in util.perms_of(len(base) + 1) if contains(c, base) and c not in b]
        if cands:
            out.append(rnd.choice(cands))
    base = rnd.choice(b)
    for _ in range(20):
        c = util.rand_perm(rnd, len(base) + 2)
        if contains(c, base) and c not in out:
            out.append(c)
            break
    return out


def ask_all(ctx, rnd, b, bi, tier_quick, maxn, sup):
    """Every question about one basis; answers are recorded as (entry, status, answer, flags) and judged later against
    TLC's verdicts (the TLC runs are under way meanwhile)."""
    B = [Perm(p) for p in b]
    t0 = text_of(b)
    Q = []
    # (bases whose automaton is expensive to build get shorter lists of questions: in the thorough tier those with an
    # element of length 5 are asked the quick tier's list, in the quick tier the larger ones its lean form)
    quick = tier_quick or any(len(p) >= 5 for p in b)
    lean = tier_quick and (len(b) >= 3 or sum(len(p) >= 4 for p in b) >= 2)

    def ask(name, thunk, **flags):
        st, got = util.call(thunk)
        Q.append((name, st, got, flags))
    ask("PinWords.has_finite_simples", lambda: PinWords.has_finite_simples(list(B)))
    ask("has_finite_simples(reversed order)", lambda: PinWords.has_finite_simples(list(reversed(B))))
    if not lean:
        ask("has_finite_simples(check_all)", lambda: PinWords.has_finite_simples(list(B), check_all=True))
    ask("Av.has_finitely_many_simples", lambda: Av(list(B)).has_finitely_many_simples())
    ask("FinitelyManySimplesStrategy", lambda: FinitelyManySimplesStrategy(B).applies())
    ask("cli simple", lambda: cli_simple(t0))
    # non-minimal presentations of the same class, in several ways
    pres = []
    if sup:
        g = [Perm(x) for x in sup]
        pres = [("has_finite_simples(non-minimal basis)", lambda: PinWords.has_finite_simples(list(B) + [g[0]])),
                ("Strategy(non-minimal basis)", lambda: FinitelyManySimplesStrategy(list(B) + [g[0]]).applies()),
                ("has_finite_simples(non-minimal: redundant element first)", lambda: PinWords.has_finite_simples([g[-1]] + list(B))),
                ("has_finite_simples(non-minimal: several redundant elements)", lambda: PinWords.has_finite_simples(g[:1] + list(B) + g[1:])),
                ("has_finite_simples(non-minimal, check_all)", lambda: PinWords.has_finite_simples(g + list(B), check_all=True)),
                ("Av(non-minimal basis)", lambda: Av(list(B) + g).has_finitely_many_simples()),
                ("Strategy(non-minimal: redundant first, an element twice)", lambda: FinitelyManySimplesStrategy(g[-1:] + list(B) + B[:1]).applies()),
                ("cli simple(non-minimal basis)", lambda: cli_simple(text_of(list(b) + sup))),
                ("has_finite_simples(an element twice)", lambda: PinWords.has_finite_simples(list(B) + B[:1]))]
        keep = pres[:1 if lean else 2] + ([pres[2 + bi % (len(pres) - 2)]] if quick else pres[2:])
        for name, th in keep:
            ask(name, th)
    # symmetric images, computed by the real code (checked below to be images the specification lists)
    for name, f in (REAL_SYM[bi % 7:] + REAL_SYM[:bi % 7])[:1 if lean else 3 if quick else 7]:
        img = [f(p) for p in B]
        ask("has_finite_simples(symmetric image: %s)" % name, lambda: PinWords.has_finite_simples(list(img)), image=frozenset(tuple(p) for p in img))
    # the basis in other containers / argument forms
    forms = [("has_finite_simples(frozenset)", lambda: PinWords.has_finite_simples(frozenset(B))),
             ("has_finite_simples(Basis object)", lambda: PinWords.has_finite_simples(Basis(*B))),
             ("has_finite_simples(tuple, use_db=False, check_all=False)", lambda: PinWords.has_finite_simples(tuple(B), False, False)),
             ("Strategy(generator)", lambda: FinitelyManySimplesStrategy(p for p in B).applies()),
             ("Strategy(Basis object)", lambda: FinitelyManySimplesStrategy(Basis(*B)).applies()),
             ("Av(generator)", lambda: Av(p for p in reversed(B)).has_finitely_many_simples()),
             ("Av(set)", lambda: Av(set(B)).has_finitely_many_simples()),
             ("Av.from_string(1-based text)", lambda: Av.from_string(text_of(b, one_based=True)).has_finitely_many_simples()),
             ("cli simple(1-based text, reversed)", lambda: cli_simple(text_of(list(reversed(b)), one_based=True, sep=":"))),
             ("has_finite_simples(set)", lambda: PinWords.has_finite_simples(set(B)))]
    if all(len(p) <= 4 for p in b):
        forms.append(("has_finite_simples(use_db=True)", lambda: PinWords.has_finite_simples(list(B), use_db=True)))
    for name, th in ([forms[(2 * bi + j) % len(forms)] for j in range(1 if lean else 2)] if quick else forms):
        ask(name, th)
    # a one-shot generator handed to the utility function: the property does not quantify over container kinds
    ask("has_finite_simples(one-shot generator)", lambda: PinWords.has_finite_simples(p for p in B), drift_only=True)
    # the same objects asked twice
    strat, cls = FinitelyManySimplesStrategy(B), Av(list(B))
    ask("Strategy object, first time", strat.applies)
    ask("Av object, first time", cls.has_finitely_many_simples)
    ask("Strategy object, asked again", strat.applies)
    ask("Av object, asked again", cls.has_finitely_many_simples)
    # the same questions again after the class has been enumerated in this process (levels cached on the shared
    # class object), and on a class object created after clear_cache: the verdict depends only on the class

    def after_enumeration():
        Av(list(B)).enumeration(maxn)
        return Av(list(reversed(B))).has_finitely_many_simples()
    ask("Av.has_finitely_many_simples after enumeration(%d)" % maxn, after_enumeration)
    if not lean:
        ask("cli simple after enumeration", lambda: cli_simple(t0))
        ask("Strategy after enumeration", lambda: FinitelyManySimplesStrategy(B).applies())
    ask("class object created before the enumeration", cls.has_finitely_many_simples)

    def after_clear():
        Av.clear_cache()
        return Av(list(B)).has_finitely_many_simples()
    ask("Av.has_finitely_many_simples after clear_cache", after_clear)
    ask("class object created before clear_cache", cls.has_finitely_many_simples)
    # the three entry points one after the other, in every order, each order from the state of a fresh process
    for order in ([ORDERS[bi % 6]] if tier_quick else [ORDERS[bi % 6], ORDERS[(bi + 3) % 6]] if quick else ORDERS):
        as_fresh_process()
        for k, e in enumerate(order + ("utility",)):
            ask("order %s: %s (call %d)" % (" > ".join(order), e, k + 1), lambda: ENTRY[e](B, t0))
    # the special-families part on its own
    S = [("has_finite_special_simples", lambda: PinWords.has_finite_special_simples(list(B))),
         ("has_finite_special_simples(reversed, frozenset)", lambda: PinWords.has_finite_special_simples(frozenset(reversed(B)))),
         ("has_finite_special_simples(asked again, tuple)", lambda: PinWords.has_finite_special_simples(tuple(B)))]
    special = [(name,) + util.call(th) for name, th in S]
    return Q, special


def ask_worker(args):
    seed, b, bi, quick, maxn, sup = args
    os.chdir(tempfile.mkdtemp(prefix="c16-worker-", dir=os.getcwd()))
    t0 = time.time()
    return ask_all(None, random.Random(seed), b, bi, quick, maxn, sup) + (round(time.time() - t0, 1),)


def run(ctx):
    quick = ctx.tier == "quick"
    rnd = util.rng(ctx, 16)
    bl = bases(rnd, quick)
    maxn = 7 if quick else 8
    jobs = [("LibSanity_Simples", util.cfg(init="Init", next_="Next"), {"workers": 2, "timeout": 1800})]
    per = 2
    chunks = [bl[i:i + per] for i in range(0, len(bl), per)]
    sups = {tuple(sorted(b)): supersets(rnd, b) for b in bl}       # for the non-minimal presentations (checked by TLC: NonMinimalSame)
    tla_set = lambda ps: "{" + ", ".join(tlc.tla(list(p)) for p in ps) + "}"
    for ch in chunks:
        inp = "{" + ", ".join(tla_set(b) for b in ch) + "}"
        ext = " @@ ".join("(%s :> %s)" % (tla_set(b), tla_set(sups[tuple(sorted(b))])) for b in ch)
        mod = util.mc_module("MC_C16", "C16_Simples", {"InputsDef": inp, "ExtrasDef": ext})
        c = util.cfg(init="Init", next_="Stutter", invariants=["FamiliesGiveSimples", "SymmetryInvariant", "NonMinimalSame", "EmitState"],
                     constants={"Inputs": ("<-", "InputsDef"), "MaxN": maxn, "Extras": ("<-", "ExtrasDef")})
        jobs.append(("MC_C16", c, {"files": {"MC_C16.tla": mod}, "timeout": 3000}))
    cold_bases = [b for b in ([(1, 3, 0, 2), (2, 0, 3, 1), (0, 1, 2, 3)], [(0, 1, 2, 3)], [(0, 2, 1), (1, 2, 0)]) if b in bl][:2 if quick else 3]
    cold = [(b, cold_sessions(b)) for b in cold_bases]
    pool = concurrent.futures.ThreadPoolExecutor(max_workers=16)
    try:
        t0 = time.time()
        futs = [pool.submit(tlc.run_tlc, j[0], j[1], **j[2]) for j in jobs]
        pin_futs = []
        for b in bl:
            j = pin_verdict_jobs(b)
            pin_futs.append(pool.submit(tlc.run_tlc, j[0], j[1], **j[2]))
        # the questions of one basis are one history in one process; the bases are spread over a few worker processes
        # (each with its own database directory), several bases after one another in each
        observed = {}
        args = [(ctx.seed * 7919 + bi, b, bi, quick, maxn, sups[tuple(sorted(b))]) for bi, b in enumerate(bl)]
        with concurrent.futures.ProcessPoolExecutor(max_workers=5 if quick else 10, mp_context=multiprocessing.get_context("spawn")) as procs:
            slowest = []
            for b, res in zip(bl, procs.map(ask_worker, args, chunksize=1)):
                observed[tuple(sorted(b))] = res[:2]
                slowest.append((res[2], len(res[0]), b))
            ctx.note("slowest_bases_seconds_questions", sorted(slowest, reverse=True)[:4])
        # the same questions for a few bases in worker processes whose hashes collide (harness/weakhash.py, switched on
        # through the environment before the workers import the library)
        weak_bases = [a for a in args if max(map(len, a[1]), default=0) <= 4][:: max(1, len(args) // 4)][:4]
        os.environ["VERIF_WEAK_HASH"] = "3"
        try:
            with concurrent.futures.ProcessPoolExecutor(max_workers=3, mp_context=multiprocessing.get_context("spawn")) as procs:
                for a, res in zip(weak_bases, procs.map(ask_worker, weak_bases, chunksize=1)):
                    key = tuple(sorted(a[1]))
                    extra = [(name + " (interpreter with colliding hashes)", st, got, flags) for name, st, got, flags in res[0]]
                    observed[key] = (observed[key][0] + extra, observed[key][1])
        finally:
            del os.environ["VERIF_WEAK_HASH"]
        ctx.note("bases_asked_again_with_colliding_hashes", len(weak_bases))
        t_ask = time.time() - t0
        results = [f.result() for f in futs]
        pin_results = [f.result() for f in pin_futs]
        ctx.note("phase_seconds", {"asking the real code (TLC runs side by side)": round(t_ask, 1), "waiting for TLC": round(time.time() - t0 - t_ask, 1)})
    finally:
        pool.shutdown(wait=False)
    ctx.add_tlc(results[0], "LibSanity_Simples")
    recs = {}
    for r in results[1:]:
        ctx.add_tlc(r, "special families and simples by enumeration")
        for rec in r.records:
            recs[tuple(sorted(map(tuple, rec["basis"])))] = rec
    pin = {}
    for b, r in zip(bl, pin_results):
        ctx.add_tlc(r, "pin-sequence verdict on the exported automaton")
        if r.violated:
            raise tlc.MachineryFailure("C16: the exported automaton of %s disagrees with the pin semantics (see C15)" % b)
        pin[tuple(sorted(b))] = [x for x in r.records if "finite" in x][0]["finite"]
    if len(recs) != len(bl):
        raise tlc.MachineryFailure("C16: %d records for %d bases" % (len(recs), len(bl)))
    # the cold processes: one per order of the entry points
    for b, sessions in cold:
        key = tuple(sorted(b))
        extra = []
        for order, proc in sessions:
            try:
                out, err = proc.communicate(timeout=1500)
            except subprocess.TimeoutExpired as ex:
                proc.kill()
                raise tlc.MachineryFailure("C16: cold process timed out") from ex
            if proc.returncode != 0:
                extra.append(("cold process, order %s" % " > ".join(order), "raise", (err.strip().splitlines() or ["failed"])[-1], {}))
                continue
            for k, (e, st, got) in enumerate(json.loads(out)):
                extra.append(("cold process, order %s: %s (call %d)" % (" > ".join(order), e, k + 1), st, got, {}))
        observed[key] = (observed[key][0] + extra, observed[key][1])
    ninf = nq = 0
    oneshot = []
    for b in bl:
        key = tuple(sorted(b))
        rec = recs[key]
        spec_finite = rec["special"] and pin[key]
        ninf += 0 if spec_finite else 1
        simples = rec["simples"]                      # lengths 4..maxn
        gap = any(simples[i] == 0 and simples[i + 1] == 0 for i in range(len(simples) - 1))
        base = {"kind": "basis", "basis": [list(p) for p in b]}
        ctx.case(key, nontrivial=len(b) >= 1 and max(map(len, b)) >= 3)
        syms = {frozenset(tuple(p) for p in S) for S in rec["syms"]}
        queries, special = observed[key]
        for name, st, got in special:
            if st == "raise" or got != rec["special"]:
                ctx.violation(dict(base, entry=name), "SpecialFamilies", rec["special"], got)
        for name, st, got, flags in queries:
            case = dict(base, entry=name)
            nq += 1
            ctx.case()
            if "image" in flags and flags["image"] not in syms:
                ctx.drift("basis %s: %s is not an image the specification lists (property C04, not judged here)" % (b, name))
                continue
            if flags.get("drift_only"):
                if st == "raise" or got != spec_finite:
                    oneshot.append((b, got, spec_finite))
                continue
            if st == "raise":
                ctx.violation(case, "NoException", spec_finite, got)
                continue
            if got is False and gap:
                ctx.violation(case, "InfiniteMeansSimplesInConsecutiveLengths", "simples in one of every two consecutive lengths 4..%d" % maxn, simples)
            if got is True and not spec_finite:
                ctx.violation(case, "FiniteMeansNoLongFamily", "infinitely many (a special family or arbitrarily long pin sequences avoid the basis)", got)
            if got != spec_finite and not ((got is False and gap) or (got is True and not spec_finite)):
                ctx.violation(case, "VerdictDependsOnlyOnClass", spec_finite, got)
        if len(ctx.samples) < 3:
            ctx.sample({"basis": b, "special_finite": rec["special"], "pin_finite": pin[key], "simples_4_to_%d" % maxn: simples})
    if oneshot:
        ctx.drift("PinWords.has_finite_simples(one-shot generator) differs from the class's verdict on %d of %d bases, e.g. %s answers %s, "
                  "verdict %s (container kinds are not part of C16; not judged)" % ((len(oneshot), len(bl)) + oneshot[0]))
    if ninf == 0 or ninf == len(bl):
        raise tlc.MachineryFailure("C16: vacuous basis list (all verdicts equal)")
    ctx.exhaustive = True
    ctx.traces += len(bl)
    ctx.note("bases", len(bl))
    ctx.note("questions", nq)
    ctx.note("infinite_verdicts", ninf)
    ctx.rule = ("per basis: special-family verdict by explicit families (TLC), simples per length by enumeration (TLC), pin verdict "
                "on the exported automaton (TLC); the real verdict through four entry points, reversed order, several non-minimal "
                "presentations, symmetric images, other containers and argument forms (frozenset, set, tuple, Basis, generators for the "
                "constructors, 1-based text), the same objects asked twice, after enumeration and clear_cache (objects created before and "
                "after), the three entry points in every order from the state of a fresh process (and in cold processes for %d bases) "
                "is judged against them" % len(cold))
    ctx.assumptions.append("'arbitrarily long' is decided through the chain argument (member of length 2|b|+2) and the pin part through the automaton verdict validated up to the C15 word bound")
    ctx.assumptions.append("a one-shot generator handed directly to PinWords.has_finite_simples is reported as drift only: C16 quantifies over classes and entry points, not over container kinds")


def replay(ctx, path):
    raise tlc.MachineryFailure("C16 cases are replayed by re-running the check")
