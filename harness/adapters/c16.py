"""C16 - the 'finitely many simples' verdict matches the class's actual simples.

For every basis TLC decides (machine C16_Simples) whether a special family has arbitrarily long members in the
class (explicit families) and counts the simples of each length by enumeration; the pin-sequence part is decided by
TLC on the exported automaton (machine C15_PinLanguage).  The verdict of the real code, through every entry point,
for every order, for non-minimal presentations and for all eight symmetric images, is judged against these.
"""
import contextlib
import io
import itertools
import json

from permuta import Av, Perm
from permuta import cli
from permuta.enumeration_strategies.finitely_many_simples import FinitelyManySimplesStrategy
from permuta.permutils.pin_words import PinWords

from harness import tlc, util
from harness.adapters import c15


def contains(q, p):
    k = len(p)
    return any(all((q[c[i]] < q[c[j]]) == (p[i] < p[j]) for i in range(k) for j in range(k))
               for c in itertools.combinations(range(len(q)), k))


def bases(rnd, quick):
    s = {n: util.perms_of(n) for n in range(2, 6)}
    out = [[(0, 1)], [(0, 1, 2)], [(0, 2, 1)], [(1, 2, 0)], [(0, 1, 2), (2, 1, 0)], [(0, 2, 1), (1, 2, 0)],
           [(1, 3, 0, 2)], [(1, 3, 0, 2), (2, 0, 3, 1)], [(0, 1, 2, 3)], [(1, 0, 3, 2)], [(0, 2, 1, 3)],
           [(2, 0, 3, 1), (0, 1, 2)], [(1, 3, 0, 2), (2, 0, 3, 1), (0, 1, 2, 3)], [(2, 3, 0, 1)]]
    for _ in range(4 if quick else 40):
        k = rnd.randint(1, 3)
        b = [rnd.choice(s[rnd.choice([3, 4, 4])]) for _ in range(k)]
        b = [p for p in b if not any(q != p and contains(p, q) for q in b)]
        if b and b not in out:
            out.append(sorted(set(b)))
    if not quick:
        for _ in range(10):
            out.append(sorted({rnd.choice(s[5]), rnd.choice(s[4]), rnd.choice(s[3])}))
    res = []
    for b in out:
        b = [p for p in b if not any(q != p and contains(p, q) for q in b)]
        if b not in res:
            res.append(b)
    return res


def pin_verdict_jobs(basis):
    B = [Perm(p) for p in basis]
    fresh = PinWords.make_dfa_for_basis(list(B))
    defs = {"BasisDef": "{" + ", ".join(tlc.tla(list(p)) for p in basis) + "}"}
    defs.update(c15.tla_table("A", c15.export(fresh)))
    defs.update(c15.tla_table("B", c15.export(fresh)))
    mod = util.mc_module("MC_C15", "C15_PinLanguage", defs)
    consts = {"Basis": ("<-", "BasisDef"), "MaxWord": 6, "Mode": '"semantic"',
              "DfaN": ("<-", "ANDef"), "DfaDelta": ("<-", "ADeltaDef"), "DfaFinal": ("<-", "AFinalDef"), "DfaInit": ("<-", "AInitDef"),
              "Dfa2N": ("<-", "BNDef"), "Dfa2Delta": ("<-", "BDeltaDef"), "Dfa2Final": ("<-", "BFinalDef"), "Dfa2Init": ("<-", "BInitDef")}
    c = util.cfg(init="Init", next_="Next", invariants=["AcceptsIffContains", "EmitVerdict"], view="FullView", constants=consts)
    return ("MC_C15", c, {"files": {"MC_C15.tla": mod}, "timeout": 3000, "allow_violation": True})


def cli_simple(text):
    buf = io.StringIO()
    with contextlib.redirect_stdout(buf):
        args = cli.get_parser().parse_args(["simple", text])
        args.func(args)
    out = buf.getvalue()
    if "infinitely many" in out:
        return False
    if "finitely many" in out:
        return True
    return None


def run(ctx):
    quick = ctx.tier == "quick"
    rnd = util.rng(ctx, 16)
    bl = bases(rnd, quick)
    maxn = 7 if quick else 8
    jobs = [("LibSanity_Simples", util.cfg(init="Init", next_="Next"), {"workers": 2, "timeout": 1800})]
    per = 2
    chunks = [bl[i:i + per] for i in range(0, len(bl), per)]
    for ch in chunks:
        inp = "{" + ", ".join("{" + ", ".join(tlc.tla(list(p)) for p in b) + "}" for b in ch) + "}"
        mod = util.mc_module("MC_C16", "C16_Simples", {"InputsDef": inp})
        c = util.cfg(init="Init", next_="Stutter", invariants=["FamiliesGiveSimples", "SymmetryInvariant", "EmitState"],
                     constants={"Inputs": ("<-", "InputsDef"), "MaxN": maxn})
        jobs.append(("MC_C16", c, {"files": {"MC_C16.tla": mod}, "timeout": 3000}))
    pin_jobs = [pin_verdict_jobs(b) for b in bl]
    results = tlc.run_many(jobs + pin_jobs, parallel=16)
    ctx.add_tlc(results[0], "LibSanity_Simples")
    recs = {}
    for r in results[1:len(jobs)]:
        ctx.add_tlc(r, "special families and simples by enumeration")
        for rec in r.records:
            recs[tuple(sorted(map(tuple, rec["basis"])))] = rec
    pin = {}
    for b, r in zip(bl, results[len(jobs):]):
        ctx.add_tlc(r, "pin-sequence verdict on the exported automaton")
        if r.violated:
            raise tlc.MachineryFailure("C16: the exported automaton of %s disagrees with the pin semantics (see C15)" % b)
        pin[tuple(sorted(b))] = [x for x in r.records if "finite" in x][0]["finite"]
    if len(recs) != len(bl):
        raise tlc.MachineryFailure("C16: %d records for %d bases" % (len(recs), len(bl)))
    ninf = 0
    for b in bl:
        key = tuple(sorted(b))
        rec = recs[key]
        spec_finite = rec["special"] and pin[key]
        ninf += 0 if spec_finite else 1
        simples = rec["simples"]                      # lengths 4..maxn
        gap = any(simples[i] == 0 and simples[i + 1] == 0 for i in range(len(simples) - 1))
        base = {"kind": "basis", "basis": [list(p) for p in b]}
        ctx.case(key, nontrivial=len(b) >= 1 and max(map(len, b)) >= 3)
        B = [Perm(p) for p in b]
        queries = [("PinWords.has_finite_simples", lambda X=B: PinWords.has_finite_simples(list(X)))]
        queries.append(("has_finite_simples(reversed order)", lambda X=B: PinWords.has_finite_simples(list(reversed(X)))))
        queries.append(("has_finite_simples(check_all)", lambda X=B: PinWords.has_finite_simples(list(X), check_all=True)))
        queries.append(("Av.has_finitely_many_simples", lambda X=B: Av(list(X)).has_finitely_many_simples()))
        queries.append(("FinitelyManySimplesStrategy", lambda X=B: FinitelyManySimplesStrategy(X).applies()))
        queries.append(("cli simple", lambda X=b: cli_simple("_".join("".join(str(v) for v in p) for p in X))))
        # a non-minimal presentation of the same class
        big = None
        for cand in util.perms_of(max(map(len, b)) + 1):
            if contains(cand, b[0]):
                big = cand
                break
        if big is not None:
            queries.append(("has_finite_simples(non-minimal basis)", lambda X=B, g=big: PinWords.has_finite_simples(list(X) + [Perm(g)])))
            queries.append(("Strategy(non-minimal basis)", lambda X=B, g=big: FinitelyManySimplesStrategy(list(X) + [Perm(g)]).applies()))
        for sym in rec["syms"][: (3 if quick else 8)]:
            queries.append(("has_finite_simples(symmetric image)", lambda S=sym: PinWords.has_finite_simples([Perm(p) for p in S])))
        # the same questions again after the class has been enumerated in this process (levels cached on the shared
        # class object), and on a class object created after clear_cache: the verdict depends only on the class
        def after_enumeration(X=B, n=maxn):
            Av(list(X)).enumeration(n)
            return Av(list(reversed(X))).has_finitely_many_simples()
        queries.append(("Av.has_finitely_many_simples after enumeration(%d)" % maxn, after_enumeration))
        queries.append(("cli simple after enumeration", lambda X=b: cli_simple("_".join("".join(str(v) for v in p) for p in X))))
        queries.append(("Strategy after enumeration", lambda X=B: FinitelyManySimplesStrategy(X).applies()))

        def after_clear(X=B):
            Av.clear_cache()
            return Av(list(X)).has_finitely_many_simples()
        queries.append(("Av.has_finitely_many_simples after clear_cache", after_clear))
        special_real = PinWords.has_finite_special_simples(list(B))
        if special_real != rec["special"]:
            ctx.violation(dict(base, entry="has_finite_special_simples"), "SpecialFamilies", rec["special"], special_real)
        for name, q in queries:
            st, got = util.call(q)
            case = dict(base, entry=name)
            if st == "raise":
                ctx.violation(case, "NoException", spec_finite, got)
                continue
            if got is False and gap:
                ctx.violation(case, "InfiniteMeansSimplesInConsecutiveLengths", "simples in one of every two consecutive lengths 4..%d" % maxn, simples)
            if got is True and not spec_finite:
                ctx.violation(case, "FiniteMeansNoLongFamily", "infinitely many (a special family or arbitrarily long pin sequences avoid the basis)", got)
            if got != spec_finite and not ((got is False and gap) or (got is True and not spec_finite)):
                ctx.violation(case, "VerdictDependsOnlyOnClass", spec_finite, got)
        if len(ctx.samples) < 3:
            ctx.sample({"basis": b, "special_finite": rec["special"], "pin_finite": pin[key], "simples_4_to_%d" % maxn: simples})
    if ninf == 0 or ninf == len(bl):
        raise tlc.MachineryFailure("C16: vacuous basis list (all verdicts equal)")
    ctx.exhaustive = True
    ctx.traces += len(bl)
    ctx.note("bases", len(bl))
    ctx.note("infinite_verdicts", ninf)
    ctx.rule = ("per basis: special-family verdict by explicit families (TLC), simples per length by enumeration (TLC), pin verdict "
                "on the exported automaton (TLC); the real verdict through six entry points, reversed order, a non-minimal "
                "presentation and symmetric images is judged against them")
    ctx.assumptions.append("'arbitrarily long' is decided through the chain argument (member of length 2|b|+2) and the pin part through the automaton verdict validated up to the C15 word bound")


def replay(ctx, path):
    raise tlc.MachineryFailure("C16 cases are replayed by re-running the check")
