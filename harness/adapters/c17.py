"""C17 - BiSC output describes its input: sound up to n, complete up to m, irredundant.

A trace-validation property: the adapter runs the real bisc / auto_bisc / helper functions on every input of the
universe (every subset of S0..S3 with all 1 <= m <= n <= 3 in the thorough tier, a seeded sample in the quick tier,
plus random subsets of S<=4, S<=5 of several densities, with and without whole lengths, as list in several orders,
dict and predicate) and records what they returned; Trace_C17 (lib BiscSpec) judges every recorded run.

Lenses added by the hardening round (all judged by Trace_C17 / lib BiscSpec):
  argument forms   bisc by keyword and with report=True, n=None, defaultdict with missing keys, dictionary with extra
                   longer keys, a `def` predicate that is only defined up to n, lists with repeated members;
                   run_clean_up with default / positional / keyword bm, M, limit_monitors; sanity checks with
                   stop_on_failure both ways and the permutations they hand back; occurrences as tuple / range /
                   unsorted list; auto_bisc on a (good, bad) tuple of dictionaries and on a list
  history          the same list / dictionary object asked twice, asked again after it was extended, a predicate whose
                   answer changed; the same output object handed to every helper in a row (snapshot taken first:
                   later results are judged against the snapshot, and the object must still hold the same patterns)
  larger inputs    named classes and avoiders of random mesh patterns up to length 7 (8 thorough) with m = 3 or 4, occurrences in permutations of length 8-10,
                   first / last positions, empty and full occurrences
"""
import collections
import contextlib
import io
import itertools
import json
import time

from permuta import Perm
from permuta.bisc import bisc as bisc_mod
from permuta.bisc.bisc import auto_bisc, bisc
from permuta.bisc.bisc_subfunctions import (maximal_mesh_pattern_of_occurrence, patterns_suffice_for_bad,
                                            patterns_suffice_for_good, perm_contains_cl_patts_many_shadings,
                                            run_clean_up, to_sg_format)

from harness import tlc, util


def quiet(f, *a, **k):
    buf = io.StringIO()
    with contextlib.redirect_stdout(buf):
        return f(*a, **k)


def sg_json(SG):
    out = []
    for n in sorted(SG):
        for p in sorted(SG[n]):
            for R in SG[n][p]:
                out.append({"p": list(p), "R": sorted(list(c) for c in R)})
    return out


DUP_SITE = "bisc(A, m, n) with A a list in which a permutation is repeated"
DUP_DEV = "RepeatedMembersCountedTwice"


def content(D):
    """What a dictionary / list input holds, as a comparable value (empty levels do not count: a defaultdict
    grows empty levels when it is looked at)."""
    if isinstance(D, dict):
        return {k: sorted(v) for k, v in D.items() if v}
    return sorted(D)


def extra_forms(rnd, perms, m, n):
    """Further presentations of the same finite set (name, thunk).  Every thunk must return the same patterns
    as bisc(list, m, n)."""
    by_len = sorted(perms, key=lambda p: (len(p), p))
    top = max([len(p) for p in perms] + [n]) + 1
    Aset = set(perms)
    dd = collections.defaultdict(list)                    # only the non-empty levels are present
    for p in by_len:
        dd[len(p)].append(p)
    wide = {k: [p for p in perms if len(p) == k] for k in range(top + 1)}     # levels beyond n, some of them populated

    def only_up_to_n(p):                                  # a property that is simply not defined on longer permutations
        if len(p) > n:
            raise ArithmeticError("the property is only defined up to length %d" % n)
        return p in Aset

    out = [("list, keywords, report=True", lambda: bisc(A=list(by_len), m=m, n=n, report=True)),
           ("defaultdict without the empty levels", lambda: bisc(dd, m, n)),
           ("dict with levels beyond n", lambda: bisc(wide, m, n=n)),
           ("def predicate undefined beyond n", lambda: bisc(only_up_to_n, m, n)),
           ("list reversed", lambda: bisc(list(reversed(by_len)), m, n))]
    longest = max([len(p) for p in perms], default=-1)
    if longest == n:
        out.append(("list, n=None", lambda: bisc(list(by_len), m)))
        out.append(("dict, n=None", lambda: bisc({k: [p for p in perms if len(p) == k] for k in range(n + 1)}, m, None)))
    elif perms and longest < n:
        out.append(("dict with empty top levels, n=None", lambda: bisc({k: [p for p in perms if len(p) == k] for k in range(n + 1)}, m)))
    return out


def run_bisc_all_forms(ctx, rnd, A, m, n, events, nextra=99):
    """A: list of tuples.  Runs list (two orders), dict and predicate forms, then further presentations, the same
    objects a second time, and a list with repeated members."""
    perms = [Perm(a) for a in A]
    by_len = sorted(perms, key=lambda p: (len(p), p))
    shuffled = list(perms)
    rnd.shuffle(shuffled)
    D = {k: [p for p in perms if len(p) == k] for k in range(n + 1)}
    Aset = set(perms)
    the_list, the_dict = list(shuffled), dict(D)
    before = (content(the_list), content(the_dict))
    forms = [("list", lambda: bisc(list(by_len), m, n)), ("list-shuffled", lambda: bisc(the_list, m, n)),
             ("dict", lambda: bisc(the_dict, m, n)), ("predicate", lambda: bisc(lambda p: p in Aset, m, n))]
    more = extra_forms(rnd, perms, m, n)
    if len(more) > nextra:
        more = rnd.sample(more, nextra)
    # history: the very same list and dictionary objects once more, after everything else
    more += [("the same list object again", lambda: bisc(the_list, m, n)), ("the same dict object again", lambda: bisc(the_dict, m, n))]
    outs = []
    for form, mk in forms + more:
        st, SG = util.call(quiet, mk)
        case = {"kind": "bisc", "A": [list(a) for a in A], "m": m, "n": n, "form": form}
        if st == "raise":
            ctx.violation(case, "NoException", "a dictionary of patterns", SG)
            continue
        outs.append((form, SG))
    if (content(the_list), content(the_dict)) != before:
        ctx.drift("bisc changed the members of the caller's list / dictionary (A=%s, m=%d, n=%d)" % ([list(a) for a in A], m, n))
    if not outs:
        return
    form0, SG0 = outs[0]
    Ain = [list(a) for a in A if len(a) <= n]
    j0 = sg_json(SG0)
    events.append({"op": "Bisc", "A": Ain, "m": m, "n": n, "SG": j0, "meta": {"form": form0}})
    for form, SG in outs[1:]:
        events.append({"op": "SameOutput", "SG1": j0, "SG2": sg_json(SG), "meta": {"A": Ain, "m": m, "n": n, "form": form}})
    # repeated members: the same finite set, so the same guarantees (judged as its own Bisc event)
    if perms and rnd.random() < 0.5:
        dup = list(by_len) + [rnd.choice(by_len) for _ in range(rnd.randint(1, 3))]
        if rnd.random() < 0.5:
            k = rnd.choice(sorted({len(p) for p in perms}))
            dup += [p for p in by_len if len(p) == k]       # a whole level twice
        rnd.shuffle(dup)
        st, SG = util.call(quiet, bisc, dup, m, n)
        if st == "ok":
            events.append({"op": "Bisc", "A": Ain, "m": m, "n": n, "SG": sg_json(SG),
                           "meta": {"form": "list with repeated members", "dup": [list(p) for p in dup]}})
    return SG0


def history_probes(ctx, rnd, events, count):
    """The same object asked again after it was changed by the caller: the answer must describe what it holds now."""
    pool = [p for k in range(5) for p in util.perms_of(k)]
    for _ in range(count):
        n = rnd.randint(2, 4)
        m = rnd.randint(1, min(3, n))
        dens = rnd.choice([0.4, 0.7])
        A1 = [Perm(p) for p in pool if len(p) <= n and rnd.random() < dens]
        add = [Perm(p) for p in pool if len(p) <= n and Perm(p) not in A1 and rnd.random() < 0.3]
        L = list(A1)
        rnd.shuffle(L)
        Dd = {k: [p for p in A1 if len(p) == k] for k in range(n + 1)}
        cur = set(A1)

        def pred(p):
            return p in cur
        for stage, members in (("first", A1), ("after the caller added members", A1 + add)):
            if stage != "first":
                L.extend(add)
                for p in add:
                    Dd[len(p)].append(p)
                cur.update(add)
            Ain = [list(p) for p in members]
            for form, arg in (("list", L), ("dict", Dd), ("predicate", pred)):
                st, SG = util.call(quiet, bisc, arg, m, n)
                if st == "raise":
                    ctx.violation({"kind": "bisc-history", "A": Ain, "m": m, "n": n, "form": form, "stage": stage}, "NoException", "patterns", SG)
                    continue
                events.append({"op": "Bisc", "A": Ain, "m": m, "n": n, "SG": sg_json(SG), "meta": {"form": form + ", same object, " + stage}})


def subsets_small(rnd, quick):
    s = [p for k in range(4) for p in util.perms_of(k)]
    if quick:
        out = []
        for _ in range(160):
            dens = rnd.choice([0.2, 0.5, 0.8])
            out.append([p for p in s if rnd.random() < dens])
        # pattern classes and structured inputs
        out.append([p for p in s if p != (1, 2, 0)])
        out.append([p for p in s if len(p) != 2])
        out.append(s)
        out.append([])
        return out
    return [list(c) for r in range(len(s) + 1) for c in itertools.combinations(s, r)]


def helper_probes(ctx, rnd, events, SG, A, top):
    """The output object SG of one bisc run handed to every helper in a row.  A snapshot is taken first; every
    result is judged against the snapshot, and at the end the object must still hold the same patterns."""
    snap = sg_json(SG)
    Aset = set(A)
    for _ in range(3):
        q = util.rand_perm(rnd, rnd.randint(0, 5))
        events.append({"op": "Contains", "q": list(q), "SG": snap, "res": bool(perm_contains_cl_patts_many_shadings(Perm(q), SG))})
    L = rnd.randint(1, top)
    Ad = {k: [Perm(p) for p in A if len(p) == k] for k in range(L + 1)}
    Bd = {k: [Perm(p) for p in util.perms_of(k) if p not in Aset] for k in range(L + 1)}
    sides = {"good": (patterns_suffice_for_good, Ad), "bad": (patterns_suffice_for_bad, Bd)}
    for kind in ("good", "bad"):
        f, dct = sides[kind]
        S = [list(p) for k in dct for p in dct[k]]
        val, _ = quiet(f, SG, L, dct)
        events.append({"op": "Suffice", "kind": kind, "SG": snap, "L": L, "S": S, "res": bool(val)})
        # both stopping modes, positional and by keyword, with what is handed back next to the verdict
        for stop, call in ((True, lambda: f(SG, L, dct, True)), (False, lambda: f(SG, L, dct, stop_on_failure=False)),
                           (True, lambda: f(SG=SG, L=L, **{"A" if kind == "good" else "B": dct}, stop_on_failure=True))):
            st, res = util.call(quiet, call)
            if st == "raise":
                ctx.violation({"kind": "suffice", "side": kind, "SG": snap, "L": L, "S": S}, "NoException", "(verdict, permutations)", res)
                continue
            val, wit = res
            events.append({"op": "SufficeW", "kind": kind, "SG": snap, "L": L, "S": S, "res": bool(val), "wit": [list(p) for p in wit],
                           "meta": {"stop_on_failure": stop}})
    # a sanity check over fewer lengths than the dictionary holds
    if L > 1:
        L2 = rnd.randint(0, L - 1)
        val, wit = quiet(patterns_suffice_for_bad, SG, L2, Bd)
        events.append({"op": "SufficeW", "kind": "bad", "SG": snap, "L": L2, "S": [list(p) for k in Bd for p in Bd[k]], "res": bool(val),
                       "wit": [list(p) for p in wit], "meta": {"stop_on_failure": False}})
    return snap


def cleanup_variants(ctx, rnd, events, SG, Bd, ncase, A):
    """run_clean_up with its arguments given in different ways; every returned basis must occur in every bad
    permutation it was tested on (lengths from the shortest learned length up to bm); to_sg_format of all
    numbered patterns gives back the patterns that went in."""
    snap = sg_json(SG)
    low = min(SG.keys())
    tops = [k for k in SG if SG[k]]
    npatt = sum(len(R) for k in SG for R in SG[k].values())
    lim = rnd.choice([1, 2, 3, 4, 5, 6])
    variants = [("positional", ncase, lambda: run_clean_up(SG, Bd, ncase, None, lim)),
                ("bm=None", ncase, lambda: run_clean_up(SG, Bd, limit_monitors=lim)),
                ("M given", ncase, lambda: run_clean_up(SG, Bd, bm=ncase, M=max(tops), limit_monitors=lim, report=True))]
    if ncase > low + 1:
        bm = rnd.randint(low + 1, ncase - 1)
        variants.append(("smaller bm", bm, lambda: run_clean_up(SG, Bd, bm, limit_monitors=lim)))
    if npatt <= 5:
        variants.append(("defaults", ncase, lambda: run_clean_up(SG, Bd)))
    name, bm, call = rnd.choice(variants)
    st, res = util.call(quiet, call)
    if st == "raise":
        ctx.violation({"kind": "cleanup", "A": [list(a) for a in A], "variant": name}, "NoException", "bases", res)
        return 0
    bases, d = res
    for b in bases[:6]:
        events.append({"op": "CleanUp", "SG": sg_json(to_sg_format(b, d)), "Bad": [list(p) for k in Bd if low <= k <= bm for p in Bd[k]],
                       "meta": {"A": [list(a) for a in A], "variant": name}})
    if d:
        events.append({"op": "SameAs", "SG1": snap, "SG2": sg_json(to_sg_format(sorted(d), d)), "clause": "ToSgFormatRoundTrip", "meta": {"variant": name}})
    events.append({"op": "SameAs", "SG1": snap, "SG2": sg_json(SG), "clause": "HelpersLeaveOutputUnchanged", "meta": {"after": "run_clean_up " + name}})
    return len(bases[:6])


NAMED = [("Av(231)", [(1, 2, 0)]), ("Av(132,321)", [(0, 2, 1), (2, 1, 0)]), ("Av(2413,3142)", [(1, 3, 0, 2), (2, 0, 3, 1)]),
         ("Av(123)", [(0, 1, 2)]), ("Av(312,231)", [(2, 0, 1), (1, 2, 0)]), ("Av(1342)", [(0, 2, 3, 1)])]


def larger_inputs(ctx, rnd, events, quick):
    """Beyond the exhaustive bound: whole classes up to length 7 (8), patterns up to length 3 or 4, and the same
    class with some long members left out (so it is no longer a class)."""
    top = 7 if quick else 8
    for name, basis in (rnd.sample(NAMED, 3) if quick else NAMED):
        Bp = [Perm(b) for b in basis]
        cls = [p for k in range(top + 1) for p in Perm.of_length(k) if p.avoids(*Bp)]
        m = max(3, max(map(len, basis)))
        for label, A in (("whole class", cls), ("class with holes", [p for p in cls if len(p) < 4 or rnd.random() < 0.9])):
            A = list(A)
            rnd.shuffle(A)
            n = top if label == "whole class" else rnd.randint(4, top - 1)
            st, SG = util.call(quiet, bisc, A, m, n)
            if st == "raise":
                ctx.violation({"kind": "bisc-large", "class": name, "input": label, "m": m, "n": n}, "NoException", "patterns", SG)
                continue
            events.append({"op": "Bisc", "A": [list(p) for p in A if len(p) <= n], "m": m, "n": n, "SG": sg_json(SG),
                           "meta": {"form": "list-shuffled", "class": name, "input": label}})


def mesh_defined_inputs(ctx, rnd, events, quick):
    """Sets that need shadings to be described: the avoiders of one or two random mesh patterns of length 2-3 up to
    length 6-7 (8).  The set is just an input; what bisc returns for it is judged like any other run."""
    from permuta import MeshPatt
    for _ in range(8 if quick else 60):
        top = rnd.choice([6, 7] if quick else [6, 7, 7, 8])
        patts = []
        for _ in range(rnd.choice([1, 1, 2])):
            k = rnd.choice([2, 3, 3])
            dens = rnd.choice([0.15, 0.35, 0.6])
            patts.append(MeshPatt(Perm(util.rand_perm(rnd, k)), [(i, j) for i in range(k + 1) for j in range(k + 1) if rnd.random() < dens]))
        A = [p for k in range(top + 1) for p in Perm.of_length(k) if all(p.avoids(M) for M in patts)]
        m = max(len(M) for M in patts)
        n = rnd.choice([top, top, top - 1])
        rnd.shuffle(A)
        st, SG = util.call(quiet, bisc, A, m, n)
        desc = [[list(M.pattern), sorted(map(list, M.shading))] for M in patts]
        if st == "raise":
            ctx.violation({"kind": "bisc-large", "avoiders of": desc, "m": m, "n": n}, "NoException", "patterns", SG)
            continue
        events.append({"op": "Bisc", "A": [list(p) for p in A if len(p) <= n], "m": m, "n": n, "SG": sg_json(SG),
                       "meta": {"form": "list-shuffled", "input": "avoiders of mesh patterns", "patterns": desc}})


def occurrence_probes(rnd, events, quick):
    for i in range(150 if quick else 800):
        q = util.rand_perm(rnd, rnd.randint(1, 7) if i % 3 else rnd.randint(8, 10))
        k = rnd.randint(0, min(4, len(q)))
        occ = sorted(rnd.sample(range(len(q)), k))
        r = rnd.random()
        if r < 0.15 and k:                   # boundary positions
            occ = sorted(set(occ[1:-1]) | {0, len(q) - 1})
        elif r < 0.2:
            occ = list(range(len(q))) if len(q) <= 5 else []
        given, form = list(occ), "sorted list"
        r = rnd.random()
        if r < 0.25:
            given, form = tuple(occ), "tuple"
        elif r < 0.5:
            given = list(occ)
            rnd.shuffle(given)
            form = "unsorted list"
        elif r < 0.6 and occ and occ == list(range(occ[0], occ[0] + len(occ))):
            given, form = range(occ[0], occ[0] + len(occ)), "range"
        res = maximal_mesh_pattern_of_occurrence(Perm(q), given)
        events.append({"op": "MaxMesh", "q": list(q), "occ": occ, "res": sorted(list(c) for c in res), "meta": {"form": form, "given": list(given)}})
    events.append({"op": "MaxMesh", "q": [], "occ": [], "res": sorted(list(c) for c in maximal_mesh_pattern_of_occurrence(Perm(()), [])), "meta": {"form": "empty"}})


# ---- the algorithm as a machine (C17_BiscMachine): design theorems by TLC, the intermediate tables against the real code ----
MACHINE_INVS = ["TypeOK", "MinedTableIsItsMeaning", "TableSound", "OutputSound", "OutputComplete", "OutputIrredundant",
                "OutputIsItsMeaning", "PatternsShort", "ForbFastIsDirect"]


def machine_start(ctx, rnd, quick):
    """TLC runs the BiSC machine on a family of inputs (subsets of S_0..S_3; all 1024 of them in the thorough tier), M = 2,
    N = 3, and once with every mining order on a small family."""
    import concurrent.futures
    pool3 = [p for k in range(4) for p in util.perms_of(k)]
    if quick:
        fam = [tuple(p for p in pool3 if rnd.random() < dens) for dens in [0.2, 0.4, 0.5, 0.6, 0.8, 0.9] * 6]
        fam += [(), tuple(pool3), tuple(p for p in pool3 if len(p) < 3), ((), (0,), (0, 1), (0, 1, 2), (2, 0, 1))]
    else:
        fam = [tuple(p for i, p in enumerate(pool3) if mask >> i & 1) for mask in range(1 << len(pool3))]
    fam = sorted(set(fam))
    nsh = 8 if quick else 16
    jobs = []
    for sh in range(nsh):
        part = fam[sh::nsh]
        fdef = "{" + ", ".join("{" + ", ".join(tlc.tla(list(p)) for p in A) + "}" for A in part) + "}"
        mod = util.mc_module("MC_C17M", "C17_BiscMachine", {"FamilyDef": fdef})
        k = {"Family": ("<-", "FamilyDef"), "M": 2, "N": 3, "AllOrders": "FALSE"}
        jobs.append(("MC_C17M", util.cfg(init="Init", next_="Next", invariants=MACHINE_INVS + ["EmitDone"], constants=k),
                     {"files": {"MC_C17M.tla": mod}, "timeout": 3000}))
    nbig = 0
    if True:
        # inputs over S_0..S_4 with patterns up to length 3 (65 536 candidate shadings per pattern)
        pool4 = pool3 + util.perms_of(4)
        for dens in (0.3, 0.5, 0.7, 0.85) * (1 if quick else 8):
            A = tuple(p for p in pool4 if rnd.random() < dens)
            fdef = "{{" + ", ".join(tlc.tla(list(p)) for p in A) + "}}"
            mod = util.mc_module("MC_C17M", "C17_BiscMachine", {"FamilyDef": fdef})
            k = {"Family": ("<-", "FamilyDef"), "M": 3, "N": 4, "AllOrders": "FALSE"}
            jobs.append(("MC_C17M", util.cfg(init="Init", next_="Next", invariants=MACHINE_INVS + ["EmitDone"], constants=k),
                         {"files": {"MC_C17M.tla": mod}, "timeout": 3400}))
            nbig += 1
    small = [A for A in fam if len(A) <= 5][:: (6 if quick else 2)][:24]
    fdef = "{" + ", ".join("{" + ", ".join(tlc.tla(list(p)) for p in A) + "}" for A in small) + "}"
    mod = util.mc_module("MC_C17M", "C17_BiscMachine", {"FamilyDef": fdef})
    k = {"Family": ("<-", "FamilyDef"), "M": 2, "N": 3, "AllOrders": "TRUE"}
    jobs.append(("MC_C17M", util.cfg(init="Init", next_="Next", invariants=MACHINE_INVS, constants=k), {"files": {"MC_C17M.tla": mod}, "timeout": 3000}))
    ex = concurrent.futures.ThreadPoolExecutor(max_workers=1)
    return ex, ex.submit(tlc.run_many, jobs, 6 if quick else 16), len(fam) + nbig, len(small)


def machine_finish(ctx, started):
    """Every final state of the machine against the real code: mine() must have built the machine's table of allowed occupied
    sets, forb() its table of forbidden shadings, bisc() its output.  These are mechanism comparisons (the property only
    promises a sound, complete, irredundant output - judged by the Bisc events): a difference is reported as drift."""
    from permuta.bisc.bisc_subfunctions import forb, mine
    ex, fut, nfam, nsmall = started
    results = fut.result()
    ex.shutdown(wait=False)
    for r in results[:-1]:
        ctx.add_tlc(r, "BiSC machine: design theorems over a shard of the family")
    ctx.add_tlc(results[-1], "BiSC machine: every mining order (%d small inputs)" % nsmall)
    ndone = nsame = 0
    for r in results[:-1]:
        for rec in r.records:
            if "allowed" not in rec:
                continue
            ndone += 1
            A = [tuple(a) for a in rec["A"]]
            D = collections.defaultdict(list)
            for a in A:
                D[len(a)].append(Perm(a))
            mm, nn = rec.get("m", 2), rec.get("n", 3)
            st, got = util.call(quiet, mine, D, mm, nn)
            if st == "raise":
                ctx.violation({"kind": "machine", "A": rec["A"], "call": "mine"}, "NoException", "the table of allowed patterns", got)
                continue
            ci, good = got
            want_t = {tuple(e["p"]): {frozenset(map(tuple, u)) for u in e["sets"]} for e in rec["allowed"]}
            have_t = {tuple(p): {frozenset(map(tuple, u)) for u in us} for j in (good or {}) for p, us in good[j].items() if us}
            same = sorted(ci) == rec["interval"] and (not rec["interval"] or have_t == want_t)
            if same and rec["interval"]:
                st, outp = util.call(quiet, forb, ci, good, mm)
                if st == "raise":
                    ctx.violation({"kind": "machine", "A": rec["A"], "call": "forb"}, "NoException", "the table of forbidden patterns", outp)
                    continue
                want_b = {tuple(e["p"]): {frozenset(map(tuple, u)) for u in e["sets"]} for e in rec["bad"]}
                have_b = {tuple(p): {frozenset(map(tuple, u)) for u in us} for j in outp for p, us in outp[j].items() if us}
                same = have_b == want_b
            if same:
                st, SG = util.call(quiet, bisc, [Perm(a) for a in A], mm, nn)
                want_o = {(tuple(e["p"]), frozenset(map(tuple, e["R"]))) for e in rec["out"]}
                have_o = set() if st == "raise" or not SG else {(tuple(p), frozenset(map(tuple, R))) for n in SG for p in SG[n] for R in SG[n][p]}
                same = st == "ok" and have_o == want_o
            nsame += same
            ctx.case(("machine", tuple(A)), nontrivial=bool(rec["out"]))
            if not same:
                ctx.drift("BiSC machine and real mine / forb / bisc differ on A = %s (tables or output; mechanism level)" % rec["A"])
            if ndone == 7:
                ctx.sample({"machine": "C17_BiscMachine", "A": rec["A"], "interval": rec["interval"], "allowed": rec["allowed"][:3], "out": rec["out"][:3]})
    if ndone != nfam:
        raise tlc.MachineryFailure("C17: BiSC machine emitted %d final states for %d inputs" % (ndone, nfam))
    ctx.note("bisc_machine", {"inputs": nfam, "final_states_matching_real_mine_forb_bisc": nsame, "inputs_with_every_mining_order": nsmall})


# ---- the clean-up phase as a machine (C17_CleanUp) ------------------------------------------------------------------------
def cleanup_case(cid, SG, Bd, bm, lim, bases, d, A):
    """The input of one real run_clean_up call in the machine's terms, and what the call returned."""
    keys = sorted(SG.keys())
    pats = [(tuple(p), frozenset(map(tuple, R))) for n in SG for p in SG[n] for R in SG[n][p]]
    bad = [tuple(q) for L in range(min(keys) + 1, bm + 1) for q in Bd.get(L, [])]
    real = {frozenset((tuple(d[i][0]), frozenset(map(tuple, d[i][1]))) for i in b) for b in bases}
    return {"id": cid, "keys": keys, "pats": pats, "bad": bad, "limit": lim, "real": real, "A": [list(a) for a in A]}


def cleanup_machine_start(cases):
    import concurrent.futures
    jobs = []
    nsh = 8
    for sh in range(nsh):
        part = cases[sh::nsh]
        if not part:
            continue
        recs = []
        for c in part:
            sg = "{" + ", ".join("[p |-> %s, R |-> {%s}]" % (tlc.tla(list(p)), ", ".join(tlc.tla(list(x)) for x in sorted(R))) for p, R in c["pats"]) + "}"
            recs.append("[id |-> %d, SG |-> %s, keys |-> {%s}, bad |-> << %s >>, limit |-> %d]" % (
                c["id"], sg, ", ".join(map(str, c["keys"])), ", ".join(tlc.tla(list(q)) for q in c["bad"]), c["limit"]))
        mod = util.mc_module("MC_C17C", "C17_CleanUp", {"InputsDef": "{" + ",\n ".join(recs) + "}"})
        cfgt = util.cfg(init="Init", next_="Next", invariants=["TypeOK", "CandidatesHitEveryTestedBad", "Antichain", "WithinLimit", "EmitEnd"],
                        constants={"Inputs": ("<-", "InputsDef"), "Mode": '"as_coded"'})
        jobs.append(("MC_C17C", cfgt, {"files": {"MC_C17C.tla": mod}, "timeout": 3000}))
        if sh == 0:        # the wrong design on the same inputs: TLC must find a candidate that misses a tested bad permutation
            bad_cfg = util.cfg(init="Init", next_="Next", invariants=["CandidatesHitEveryTestedBad"], constants={"Inputs": ("<-", "InputsDef"), "Mode": '"keep_failing"'})
            jobs.append(("MC_C17C", bad_cfg, {"files": {"MC_C17C.tla": mod}, "timeout": 3000, "allow_violation": True}))
    ex = concurrent.futures.ThreadPoolExecutor(max_workers=1)
    return ex, ex.submit(tlc.run_many, jobs, 8)


def cleanup_machine_finish(ctx, started, cases):
    """TLC has run the clean-up machine on the recorded inputs (every candidate hits every tested bad permutation, at every
    step); its final families against the bases the real run_clean_up returned (mechanism level: drift)."""
    ex, fut = started
    results = fut.result()
    ex.shutdown(wait=False)
    by_id = {c["id"]: c for c in cases}
    seen = same = 0
    if len(results) > 1:
        wrong = results.pop(1)
        ctx.add_tlc(wrong, "clean-up machine, failing candidates kept (must be refuted)")
        if wrong.violated != "CandidatesHitEveryTestedBad":
            raise tlc.MachineryFailure("C17 clean-up model vacuous: keeping failing candidates was not refuted (%s)" % wrong.violated)
        ctx.note("cleanup_keep_failing_refuted_by_model", True)
    for r in results:
        ctx.add_tlc(r, "clean-up machine: candidates hit every tested bad permutation")
        for rec in r.records:
            if "bases" not in rec:
                continue
            seen += 1
            c = by_id[rec["id"]]
            model = {frozenset((tuple(e["p"]), frozenset(map(tuple, e["R"]))) for e in b) for b in rec["bases"]}
            ok = model == c["real"]
            same += ok
            ctx.case(("cleanup-machine", json.dumps(c["A"])), nontrivial=bool(model))
            if not ok:
                ctx.drift("clean-up machine and run_clean_up differ on A = %s, limit %d: %d / %d bases (mechanism level)" % (
                    c["A"], c["limit"], len(model), len(c["real"])))
            if seen == 3:
                ctx.sample({"machine": "C17_CleanUp", "A": c["A"], "limit": c["limit"], "end": rec["end"], "bases": rec["bases"][:2]})
    if seen != len(cases):
        raise tlc.MachineryFailure("C17: clean-up machine ended %d times for %d inputs" % (seen, len(cases)))
    ctx.note("cleanup_machine", {"inputs": len(cases), "final_families_equal_to_run_clean_up": same})


# ---- the automatic driver on many properties defined by mesh patterns, sixteen interpreters side by side ---------------------
AUTO_CHILD = r"""
import contextlib, io, json, sys
from permuta import Perm, MeshPatt
from permuta.bisc.bisc import auto_bisc
out = []
for patterns in json.load(sys.stdin):
    ms = [MeshPatt(Perm(p), [tuple(c) for c in R]) for p, R in patterns]
    def prop(perm, ms=ms):
        return perm.avoids(*ms)
    try:
        with contextlib.redirect_stdout(io.StringIO()):
            SG = auto_bisc(prop)
        res = None if not SG else [{"p": list(p), "R": sorted(list(c) for c in R)} for n in sorted(SG) for p in sorted(SG[n]) for R in SG[n][p]]
    except BaseException as e:
        res = "raise " + type(e).__name__ + ": " + str(e)[:80]
    out.append(res)
print(json.dumps(out))
"""


def auto_mesh_start(ctx, rnd, quick):
    """Properties 'avoids these one or two mesh patterns' (underlying patterns of length 2, the second often a variation of the
    first): what the driver learns up to length 4 may be a proper part of what is needed up to length 8 - its own final
    checks have to notice."""
    import subprocess
    import sys
    from permuta import MeshPatt
    props = []
    cells = [(x, y) for x in range(3) for y in range(3)]
    # (a) pairs chosen so that the driver is tempted: among the permutations of length <= 4 whatever contains the second
    #     pattern contains the first, yet a permutation of length 5 or 6 contains the second alone.  (The choice is made
    #     with the library's containment test; it only selects inputs.)
    short = [Perm(q) for k in range(5) for q in util.perms_of(k)]
    mid = [Perm(q) for k in (5, 6) for q in util.perms_of(k)][::3]
    want, tries = (10 if quick else 160), 0
    while len(props) < want and tries < 6000:
        tries += 1
        p = rnd.choice([(0, 1), (1, 0)])
        R1 = [c for c in cells if rnd.random() < rnd.choice([0.4, 0.55, 0.7])]
        R2 = [c for c in cells if rnd.random() < rnd.choice([0.5, 0.65, 0.8])]
        M1, M2 = MeshPatt(Perm(p), R1), MeshPatt(Perm(p), R2)
        if set(R1) <= set(R2) or not any(Q.contains(M2) for Q in short):
            continue
        if all(Q.contains(M1) for Q in short if Q.contains(M2)) and any(Q.contains(M2) and not Q.contains(M1) for Q in mid):
            props.append([[list(p), [list(c) for c in sorted(R1)]], [list(p), [list(c) for c in sorted(R2)]]])
    ctx.note("auto_bisc_tempting_pairs", {"found": len(props), "candidates_tried": tries})
    # (b) unscreened properties: one or two mesh patterns on 01 / 10
    for _ in range(12 if quick else 240):
        p = rnd.choice([(0, 1), (1, 0)])
        R1 = [c for c in cells if rnd.random() < rnd.choice([0.15, 0.3, 0.5, 0.7])]
        pats = [[list(p), [list(c) for c in sorted(R1)]]]
        if rnd.random() < 0.7:
            q = rnd.choice([(0, 1), (1, 0)])
            R2 = [c for c in cells if rnd.random() < rnd.choice([0.2, 0.4, 0.6])]
            pats.append([list(q), [list(c) for c in sorted(R2)]])
        props.append(pats)
    nproc = 16
    procs = []
    for k in range(nproc):
        pr = subprocess.Popen([sys.executable, "-c", AUTO_CHILD], stdin=subprocess.PIPE, stdout=subprocess.PIPE, stderr=subprocess.PIPE, text=True,
                              env=util.hash_env(1700 + k))
        pr.stdin.write(json.dumps(props[k::nproc]))
        pr.stdin.close()
        pr.stdin = None
        procs.append(pr)
    return props, procs


def auto_mesh_finish(ctx, rnd, started, events, quick):
    props, procs = started
    nproc = len(procs)
    small = [p for k in range(6) for p in util.perms_of(k)]
    six = util.perms_of(6)
    described = none = 0
    for k, pr in enumerate(procs):
        out, err = pr.communicate(timeout=2400)
        if pr.returncode != 0:
            raise tlc.MachineryFailure("C17: auto_bisc interpreter failed: " + err[-300:])
        for patterns, sg in zip(props[k::nproc], json.loads(out)):
            avoid = [{"p": pp, "R": RR} for pp, RR in patterns]
            if isinstance(sg, str):
                ctx.violation({"kind": "auto_bisc", "property": {"avoids": avoid}}, "NoException", "a description or None", sg)
                continue
            if not sg:
                none += 1
                continue
            described += 1
            for q in small + six[rnd.randrange(5)::5]:
                events.append({"op": "DescribesAv", "SG": sg, "q": list(q), "avoid": avoid, "meta": {"form": "property, second interpreter"}})
    ctx.note("auto_bisc_on_mesh_defined_properties", {"properties": len(props), "described": described, "no_description": none})


def auto_probes(ctx, rnd, events, quick):
    from permuta.bisc.bisc import create_bisc_input
    props = [("avoids 231", lambda p: p.avoids(Perm((1, 2, 0)))), ("avoids 132 and 321", lambda p: p.avoids(Perm((0, 2, 1)), Perm((2, 1, 0))))]
    if not quick:
        from permuta.bisc import perm_properties as pp
        props += [("smooth", pp.smooth), ("simsun", pp.simsun), ("West-2", lambda p: p.west_2_stack_sortable())]
    small = [p for k in range(7) for p in util.perms_of(k)]
    done = 0
    for pi, (name, prop) in enumerate(props):
        forms = [("property", lambda: auto_bisc(prop)), ("(good, bad) dictionaries", lambda: auto_bisc(create_bisc_input(8, prop)))]
        if not quick and pi < 2:
            forms.append(("list", lambda: auto_bisc([p for k in range(9) for p in Perm.of_length(k) if prop(p)])))
        for fi, (form, call) in enumerate(forms):
            st, sg = util.call(quiet, call)
            if st == "raise" or not sg:
                ctx.note("auto_bisc %s (%s)" % (name, form), "no description returned (%s)" % (sg if st == "raise" else "None"))
                continue
            snap = sg_json(sg)
            for q in small[fi:: (7 if quick else 1)]:
                events.append({"op": "Describes", "SG": snap, "q": list(q), "prop": bool(prop(Perm(q))), "meta": {"name": name, "form": form}})
            for k in (7, 8):              # beyond TLC's reach: the verified real containment (C03) as evaluator
                for q in itertools.islice(Perm.of_length(k), fi, None, 97 if quick else 11):
                    got = not any(q.contains(__import__("permuta").MeshPatt(Perm(e["p"]), [tuple(c) for c in e["R"]])) for e in snap)
                    if got != bool(prop(q)):
                        ctx.violation({"kind": "auto_bisc", "property": name, "form": form, "q": list(q)}, "AutoBiscDescribesProperty", bool(prop(q)), got)
            done += 1
    return done


def run(ctx):
    quick = ctx.tier == "quick"
    rnd = util.rng(ctx, 17)
    events = []
    nruns = 0
    phases, t0 = {}, [time.time()]
    auto_started = auto_mesh_start(ctx, util.rng(ctx, 1717), quick)      # sixteen interpreters work while this one goes on
    machine_started = machine_start(ctx, util.rng(ctx, 1718), quick)     # and TLC explores the algorithm itself

    def lap(what):
        phases[what] = round(time.time() - t0[0], 1)
        t0[0] = time.time()
        ctx.note("phase_seconds", phases)

    for A in subsets_small(rnd, quick):
        for m in (1, 2, 3):
            for n in range(m, 4):
                if quick and rnd.random() < 0.6:
                    continue
                run_bisc_all_forms(ctx, rnd, A, m, n, events)
                nruns += 1
    lap("subsets of S<=3, all presentations")
    big = [p for k in range(6) for p in util.perms_of(k)]
    for _ in range(60 if quick else 600):
        top = rnd.choice([4, 4, 5])
        dens = rnd.choice([0.3, 0.6, 0.9])
        A = [p for p in big if len(p) <= top and rnd.random() < dens]
        if rnd.random() < 0.3:
            drop = rnd.randint(0, top)
            A = [p for p in A if len(p) != drop]
        if rnd.random() < 0.5:
            A = [p for p in A if len(p) > 0] if rnd.random() < 0.5 else A
        m = rnd.randint(1, 3)
        n = rnd.randint(m, top)
        SG = run_bisc_all_forms(ctx, rnd, A, m, n, events, nextra=3)
        nruns += 1
        if SG:
            # the algorithm's own containment test and the two sufficiency checks, all on the same object
            snap = helper_probes(ctx, rnd, events, SG, A, top)
            events.append({"op": "SameAs", "SG1": snap, "SG2": sg_json(SG), "clause": "HelpersLeaveOutputUnchanged", "meta": {"after": "containment and sanity checks"}})
    lap("random subsets of S<=4/5, helpers")
    history_probes(ctx, rnd, events, 12 if quick else 120)
    larger_inputs(ctx, rnd, events, quick)
    mesh_defined_inputs(ctx, rnd, events, quick)
    lap("history and larger inputs")
    # clean-up phase on pattern classes (where it finds small bases)
    classes = [[(0, 2, 1), (2, 1, 0)], [(1, 2, 0)], [(0, 1, 2), (1, 0)], [(1, 3, 0, 2), (2, 0, 3, 1)], [(0, 2, 1)]]
    for basis in classes[: (3 if quick else 5)]:
        Bp = [Perm(b) for b in basis]
        top = 5
        Ad = {k: [p for p in Perm.of_length(k) if p.avoids(*Bp)] for k in range(top + 1)}
        Bd = {k: [p for p in Perm.of_length(k) if not p.avoids(*Bp)] for k in range(top + 1)}
        m = max(map(len, basis))
        SG = quiet(bisc, Ad, m, top)
        st, res = util.call(quiet, run_clean_up, SG, Bd, top, limit_monitors=len(basis))
        if st == "raise":
            ctx.violation({"kind": "cleanup", "basis": basis}, "NoException", "bases", res)
            continue
        bases, d = res
        for b in bases[:4]:
            sg = to_sg_format(b, d)
            events.append({"op": "CleanUp", "SG": sg_json(sg), "Bad": [list(p) for k in Bd for p in Bd[k]], "meta": {"basis": basis}})
        nruns += 1
    # clean-up phase on arbitrary finite sets (not only pattern classes): every returned basis must occur in every
    # bad permutation it was tested on (all bad permutations up to bm)
    small4 = [p for k in range(5) for p in util.perms_of(k)]
    ncu = nvar = 0
    cleanup_cases = []
    for it in range(20000 if quick else 100000):
        dens = rnd.choice([0.25, 0.4, 0.55, 0.7])
        A = [p for p in small4 if rnd.random() < dens]
        if rnd.random() < 0.4:
            A = [p for p in A if len(p) != 4] + [p for p in small4 if len(p) == 4 and rnd.random() < 0.35]
        ncase = rnd.randint(2, 4)
        mcase = rnd.randint(2, ncase)
        if rnd.random() < 0.6:            # the short permutations are good: patterns are learned on several lengths
            A = sorted(set(A) | {(), (0,)})
        A = [p for p in A if len(p) <= ncase]
        Ad = {k: [Perm(p) for p in A if len(p) == k] for k in range(ncase + 1)}
        Aset = set(A)
        Bd = {k: [Perm(p) for p in util.perms_of(k) if p not in Aset] for k in range(ncase + 1)}
        st, SG = util.call(quiet, bisc, Ad, mcase, ncase)
        if st == "raise" or not SG or all(not v for v in SG.values()):
            continue
        lim = rnd.choice([1, 2, 3, 4, 5, 6])
        st, res = util.call(quiet, run_clean_up, SG, Bd, ncase, limit_monitors=lim)
        if st == "raise":
            ctx.violation({"kind": "cleanup", "A": [list(a) for a in A]}, "NoException", "bases", res)
            continue
        bases, d = res
        if len(cleanup_cases) < (60 if quick else 600) and it % 7 == 0:
            cleanup_cases.append(cleanup_case(len(cleanup_cases) + 1, SG, Bd, ncase, lim, bases, d, A))
        for b in bases[:8]:
            ncu += 1
            low = min(SG.keys())        # the clean-up tests bad permutations from the shortest learned length on
            events.append({"op": "CleanUp", "SG": sg_json(to_sg_format(b, d)), "Bad": [list(p) for k in Bd if k >= low for p in Bd[k]],
                           "meta": {"A": [list(a) for a in A]}})
        if it % (40 if quick else 20) == 0:      # the same output object once more, with the arguments given differently
            nvar += cleanup_variants(ctx, rnd, events, SG, Bd, ncase, A)
    cleanup_started = cleanup_machine_start(cleanup_cases)
    ctx.note("cleanup_bases_on_random_sets", ncu)
    ctx.note("cleanup_bases_from_argument_variants", nvar)
    lap("clean-up phase")
    occurrence_probes(rnd, events, quick)
    # the automatic driver on named properties (those whose learning finishes quickly)
    nruns += auto_probes(ctx, rnd, events, quick)
    auto_mesh_finish(ctx, rnd, auto_started, events, quick)
    lap("occurrences and auto_bisc")
    if len(events) < 300:
        raise tlc.MachineryFailure("C17: only %d events recorded" % len(events))
    # validate in parallel chunks (the large inputs spread over the chunks)
    nch = 14
    order = sorted(range(len(events)), key=lambda i: -len(events[i].get("A", ())) if events[i]["op"] == "Bisc" else 0)
    chunks = [[events[i] for i in order[c::nch]] for c in range(nch)]
    import concurrent.futures
    with concurrent.futures.ThreadPoolExecutor(max_workers=nch) as ex:
        vs = list(ex.map(lambda ch: util.validate_trace(ctx, "Trace_C17", [{k: v for k, v in e.items() if k != "meta"} for e in ch],
                                                        ntraces=len(ch), timeout=3000), chunks))
    lap("trace validation")
    machine_finish(ctx, machine_started)
    cleanup_machine_finish(ctx, cleanup_started, cleanup_cases)
    lap("BiSC machine against mine / forb / bisc, clean-up machine against run_clean_up")
    ops = {}
    known = ctx.known_entry(DUP_SITE, DUP_DEV)
    ndup = 0
    for ch, v in zip(chunks, vs):
        for e in ch:
            ops[e["op"]] = ops.get(e["op"], 0) + 1
        for b in v["verdict"]:
            ev = ch[b["i"] - 1]
            if ev.get("meta", {}).get("form") == "list with repeated members":
                # the same set without the repetitions was judged by its own Bisc event: this is the repetition alone
                ndup += 1
                if known is not None:
                    ctx.known_finding(known, {"A": ev["meta"]["dup"], "m": ev["m"], "n": ev["n"], "clause": b["clause"], "SG": ev["SG"]})
                elif ndup <= 2:
                    ctx.violation({"kind": "trace-event", "event": ev}, b["clause"], "guarantee named by the clause (lib BiscSpec), for the set of "
                                  "permutations in the list", ev.get("SG"))
                continue
            ctx.violation({"kind": "trace-event", "event": ev}, b["clause"], "guarantee named by the clause (lib BiscSpec)", ev.get("SG", ev.get("res")))
    if ndup:
        ctx.note("runs_on_lists_with_repeated_members_flagged", ndup)
    forms = collections.Counter()
    for e in events:
        if e["op"] == "Bisc":
            ctx.case((tuple(map(tuple, e["A"])), e["m"], e["n"]), nontrivial=len(e["SG"]) > 0)
        else:
            ctx.case(n=1)
        f = e.get("meta", {}).get("form")
        if f:
            forms[e["op"] + ": " + f] += 1
    ctx.note("events_by_kind", ops)
    ctx.note("events_by_presentation", dict(forms))
    ctx.note("bisc_runs", nruns)
    for need in ("SameAs", "SufficeW", "CleanUp", "MaxMesh", "Describes", "SameOutput"):
        if not ops.get(need):
            raise tlc.MachineryFailure("C17: no %s event recorded" % need)
    ctx.sample({"machine": "Trace_C17", "event": [e for e in events if e["op"] == "Bisc" and e["SG"]][:1]})
    ctx.sample({"machine": "Trace_C17", "event": [e for e in events if e["op"] == "CleanUp"][:1]})
    ctx.sample({"machine": "Trace_C17", "event": [e for e in events if e["op"] == "SufficeW" and not e["res"]][:1]})
    ctx.exhaustive = not quick
    ctx.rule = ("recorded runs of bisc on subsets of S<=3 (all of them in the thorough tier) and random subsets of S<=4/5 through list "
                "(several orders, keywords, report, n=None, repeated members), dict (plain, defaultdict, extra levels) and predicate "
                "(lambda, def undefined beyond n) inputs, the same objects asked again and after the caller extended them, whole "
                "classes up to length 7/8, judged by Trace_C17: sound up to n, complete up to m, irredundant, same "
                "output for all representations; non-trivial = a run that learned at least one pattern; plus the private "
                "containment test, sufficiency checks with the permutations they hand back, clean-up bases for several argument "
                "forms, to_sg_format round trip, helpers leave the output object unchanged, maximal shadings and auto_bisc descriptions")


def replay(ctx, path):
    rec = json.load(open(path))
    case = rec["case"]
    ev = case.get("event")
    if not ev or ev["op"] != "Bisc":
        raise tlc.MachineryFailure("only Bisc events can be replayed individually")
    A = [tuple(a) for a in ev.get("meta", {}).get("dup", ev["A"])]      # (the list as it was given, repetitions included)
    SG = quiet(bisc, [Perm(a) for a in A], ev["m"], ev["n"])
    e2 = {"op": "Bisc", "A": ev["A"], "m": ev["m"], "n": ev["n"], "SG": sg_json(SG)}
    v = util.validate_trace(ctx, "Trace_C17", [e2])
    if v["verdict"]:
        print("VIOLATION property=C17 replay=%s" % path)
        print("  still failing: %s" % v["verdict"])
        return 1
    print("replay: case passes on the current tree")
    return 0
