"""C17 - BiSC output describes its input: sound up to n, complete up to m, irredundant.

A trace-validation property: the adapter runs the real bisc / auto_bisc / helper functions on every input of the
universe (every subset of S0..S3 with all 1 <= m <= n <= 3 in the thorough tier, a seeded sample in the quick tier,
plus random subsets of S<=4, S<=5 of several densities, with and without whole lengths, as list in several orders,
dict and predicate) and records what they returned; Trace_C17 (lib BiscSpec) judges every recorded run.
"""
import contextlib
import io
import itertools
import json

from permuta import Perm
from permuta.bisc import bisc as bisc_mod
from permuta.bisc.bisc import auto_bisc, bisc
from permuta.bisc.bisc_subfunctions import (maximal_mesh_pattern_of_occurrence, patterns_suffice_for_bad,
                                            patterns_suffice_for_good, perm_contains_cl_patts_many_shadings,
                                            run_clean_up, to_sg_format)

from harness import tlc, util


def quiet(f, *a, **k):
    buf = io.StringIO()
    with contextlib.redirect_stdout(buf):
        return f(*a, **k)


def sg_json(SG):
    out = []
    for n in sorted(SG):
        for p in sorted(SG[n]):
            for R in SG[n][p]:
                out.append({"p": list(p), "R": sorted(list(c) for c in R)})
    return out


def run_bisc_all_forms(ctx, rnd, A, m, n, events):
    """A: list of tuples.  Runs list (two orders), dict and predicate forms."""
    perms = [Perm(a) for a in A]
    by_len = sorted(perms, key=lambda p: (len(p), p))
    shuffled = list(perms)
    rnd.shuffle(shuffled)
    D = {k: [p for p in perms if len(p) == k] for k in range(n + 1)}
    Aset = set(perms)
    outs = []
    for form, mk in (("list", lambda: bisc(list(by_len), m, n)), ("list-shuffled", lambda: bisc(list(shuffled), m, n)),
                     ("dict", lambda: bisc(dict(D), m, n)), ("predicate", lambda: bisc(lambda p: p in Aset, m, n))):
        st, SG = util.call(quiet, mk)
        case = {"kind": "bisc", "A": [list(a) for a in A], "m": m, "n": n, "form": form}
        if st == "raise":
            ctx.violation(case, "NoException", "a dictionary of patterns", SG)
            continue
        outs.append((form, SG))
    if not outs:
        return
    form0, SG0 = outs[0]
    Ain = [list(a) for a in A if len(a) <= n]
    events.append({"op": "Bisc", "A": Ain, "m": m, "n": n, "SG": sg_json(SG0), "form": form0})
    for form, SG in outs[1:]:
        events.append({"op": "SameOutput", "SG1": sg_json(SG0), "SG2": sg_json(SG), "A": Ain, "m": m, "n": n, "form": form})
    return SG0


def subsets_small(rnd, quick):
    s = [p for k in range(4) for p in util.perms_of(k)]
    if quick:
        out = []
        for _ in range(160):
            dens = rnd.choice([0.2, 0.5, 0.8])
            out.append([p for p in s if rnd.random() < dens])
        # pattern classes and structured inputs
        out.append([p for p in s if p != (1, 2, 0)])
        out.append([p for p in s if len(p) != 2])
        out.append(s)
        out.append([])
        return out
    return [list(c) for r in range(len(s) + 1) for c in itertools.combinations(s, r)]


def run(ctx):
    quick = ctx.tier == "quick"
    rnd = util.rng(ctx, 17)
    events = []
    nruns = 0
    for A in subsets_small(rnd, quick):
        for m in (1, 2, 3):
            for n in range(m, 4):
                if quick and rnd.random() < 0.6:
                    continue
                run_bisc_all_forms(ctx, rnd, A, m, n, events)
                nruns += 1
    big = [p for k in range(6) for p in util.perms_of(k)]
    for _ in range(40 if quick else 600):
        top = rnd.choice([4, 4, 5])
        dens = rnd.choice([0.3, 0.6, 0.9])
        A = [p for p in big if len(p) <= top and rnd.random() < dens]
        if rnd.random() < 0.3:
            drop = rnd.randint(0, top)
            A = [p for p in A if len(p) != drop]
        if rnd.random() < 0.5:
            A = [p for p in A if len(p) > 0] if rnd.random() < 0.5 else A
        m = rnd.randint(1, 3)
        n = rnd.randint(m, top)
        SG = run_bisc_all_forms(ctx, rnd, A, m, n, events)
        nruns += 1
        if SG:
            # the algorithm's own containment test and the two sufficiency checks
            for _ in range(3):
                q = util.rand_perm(rnd, rnd.randint(0, 5))
                events.append({"op": "Contains", "q": list(q), "SG": sg_json(SG), "res": bool(perm_contains_cl_patts_many_shadings(Perm(q), SG))})
            L = rnd.randint(1, top)
            Ad = {k: [Perm(p) for p in A if len(p) == k] for k in range(L + 1)}
            Bd = {k: [Perm(p) for p in util.perms_of(k) if p not in set(A)] for k in range(L + 1)}
            val, _ = quiet(patterns_suffice_for_good, SG, L, Ad)
            events.append({"op": "Suffice", "kind": "good", "SG": sg_json(SG), "L": L, "S": [list(p) for p in A if len(p) <= L], "res": bool(val)})
            val, _ = quiet(patterns_suffice_for_bad, SG, L, Bd)
            events.append({"op": "Suffice", "kind": "bad", "SG": sg_json(SG), "L": L, "S": [list(p) for k in Bd for p in Bd[k]], "res": bool(val)})
    # clean-up phase on pattern classes (where it finds small bases)
    classes = [[(0, 2, 1), (2, 1, 0)], [(1, 2, 0)], [(0, 1, 2), (1, 0)], [(1, 3, 0, 2), (2, 0, 3, 1)], [(0, 2, 1)]]
    for basis in classes[: (3 if quick else 5)]:
        Bp = [Perm(b) for b in basis]
        top = 5
        Ad = {k: [p for p in Perm.of_length(k) if p.avoids(*Bp)] for k in range(top + 1)}
        Bd = {k: [p for p in Perm.of_length(k) if not p.avoids(*Bp)] for k in range(top + 1)}
        m = max(map(len, basis))
        SG = quiet(bisc, Ad, m, top)
        st, res = util.call(quiet, run_clean_up, SG, Bd, top, limit_monitors=len(basis))
        if st == "raise":
            ctx.violation({"kind": "cleanup", "basis": basis}, "NoException", "bases", res)
            continue
        bases, d = res
        for b in bases[:4]:
            sg = to_sg_format(b, d)
            events.append({"op": "CleanUp", "SG": sg_json(sg), "Bad": [list(p) for k in Bd for p in Bd[k]], "basis": basis})
        nruns += 1
    # clean-up phase on arbitrary finite sets (not only pattern classes): every returned basis must occur in every
    # bad permutation it was tested on (all bad permutations up to bm)
    small4 = [p for k in range(5) for p in util.perms_of(k)]
    ncu = 0
    for _ in range(20000 if quick else 100000):
        dens = rnd.choice([0.25, 0.4, 0.55, 0.7])
        A = [p for p in small4 if rnd.random() < dens]
        if rnd.random() < 0.4:
            A = [p for p in A if len(p) != 4] + [p for p in small4 if len(p) == 4 and rnd.random() < 0.35]
        ncase = rnd.randint(2, 4)
        mcase = rnd.randint(2, ncase)
        if rnd.random() < 0.6:            # the short permutations are good: patterns are learned on several lengths
            A = sorted(set(A) | {(), (0,)})
        A = [p for p in A if len(p) <= ncase]
        Ad = {k: [Perm(p) for p in A if len(p) == k] for k in range(ncase + 1)}
        Aset = set(A)
        Bd = {k: [Perm(p) for p in util.perms_of(k) if p not in Aset] for k in range(ncase + 1)}
        st, SG = util.call(quiet, bisc, Ad, mcase, ncase)
        if st == "raise" or not SG or all(not v for v in SG.values()):
            continue
        st, res = util.call(quiet, run_clean_up, SG, Bd, ncase, limit_monitors=rnd.choice([1, 2, 3, 4, 5, 6]))
        if st == "raise":
            ctx.violation({"kind": "cleanup", "A": [list(a) for a in A]}, "NoException", "bases", res)
            continue
        bases, d = res
        for b in bases[:8]:
            ncu += 1
            low = min(SG.keys())        # the clean-up tests bad permutations from the shortest learned length on
            events.append({"op": "CleanUp", "SG": sg_json(to_sg_format(b, d)), "Bad": [list(p) for k in Bd if k >= low for p in Bd[k]],
                           "A": [list(a) for a in A]})
    ctx.note("cleanup_bases_on_random_sets", ncu)
    for _ in range(40 if quick else 400):
        q = util.rand_perm(rnd, rnd.randint(1, 7))
        k = rnd.randint(0, min(4, len(q)))
        occ = sorted(rnd.sample(range(len(q)), k))
        res = maximal_mesh_pattern_of_occurrence(Perm(q), occ)
        events.append({"op": "MaxMesh", "q": list(q), "occ": occ, "res": sorted(list(c) for c in res)})
    # the automatic driver on named properties (those whose learning finishes quickly)
    props = [("avoids 231", lambda p: p.avoids(Perm((1, 2, 0)))), ("avoids 132 and 321", lambda p: p.avoids(Perm((0, 2, 1)), Perm((2, 1, 0))))]
    if not quick:
        from permuta.bisc import perm_properties as pp
        props += [("smooth", pp.smooth), ("simsun", pp.simsun), ("West-2", lambda p: p.west_2_stack_sortable())]
    for name, prop in props:
        st, sg = util.call(quiet, auto_bisc, prop)
        if st == "raise" or not sg:
            ctx.note("auto_bisc " + name, "no description returned (%s)" % (sg if st == "raise" else "None"))
            continue
        for q in [p for k in range(7) for p in util.perms_of(k)][:: (7 if quick else 1)]:
            events.append({"op": "Describes", "SG": sg_json(sg), "q": list(q), "prop": bool(prop(Perm(q))), "name": name})
        for k in (7, 8):              # beyond TLC's reach: the verified real containment (C03) as evaluator
            for q in itertools.islice(Perm.of_length(k), 0, None, 97 if quick else 11):
                got = not any(q.contains(__import__("permuta").MeshPatt(Perm(e["p"]), [tuple(c) for c in e["R"]])) for e in sg_json(sg))
                if got != bool(prop(q)):
                    ctx.violation({"kind": "auto_bisc", "property": name, "q": list(q)}, "AutoBiscDescribesProperty", bool(prop(q)), got)
        nruns += 1
    if len(events) < 300:
        raise tlc.MachineryFailure("C17: only %d events recorded" % len(events))
    # validate in parallel chunks
    nch = 12
    chunks = [events[i::nch] for i in range(nch)]
    import concurrent.futures
    with concurrent.futures.ThreadPoolExecutor(max_workers=nch) as ex:
        vs = list(ex.map(lambda ch: util.validate_trace(ctx, "Trace_C17", [{k: v for k, v in e.items() if k not in ("form", "basis", "name") and not (k == "A" and e["op"] == "CleanUp")} for e in ch],
                                                        ntraces=len(ch), timeout=3000), chunks))
    ops = {}
    for ch, v in zip(chunks, vs):
        for e in ch:
            ops[e["op"]] = ops.get(e["op"], 0) + 1
        for b in v["verdict"]:
            ev = ch[b["i"] - 1]
            ctx.violation({"kind": "trace-event", "event": ev}, b["clause"], "guarantee named by the clause (lib BiscSpec)", ev.get("SG", ev.get("res")))
    for e in events:
        if e["op"] == "Bisc":
            ctx.case((tuple(map(tuple, e["A"])), e["m"], e["n"]), nontrivial=len(e["SG"]) > 0)
        else:
            ctx.case(n=1)
    ctx.note("events_by_kind", ops)
    ctx.note("bisc_runs", nruns)
    ctx.sample({"machine": "Trace_C17", "event": [e for e in events if e["op"] == "Bisc" and e["SG"]][:1]})
    ctx.sample({"machine": "Trace_C17", "event": [e for e in events if e["op"] == "CleanUp"][:1]})
    ctx.exhaustive = not quick
    ctx.rule = ("recorded runs of bisc on subsets of S<=3 (all of them in the thorough tier) and random subsets of S<=4/5 through list "
                "(two orders), dict and predicate inputs, judged by Trace_C17: sound up to n, complete up to m, irredundant, same "
                "output for all representations; non-trivial = a run that learned at least one pattern; plus the private "
                "containment test, sufficiency checks, clean-up bases, maximal shadings and auto_bisc descriptions")


def replay(ctx, path):
    rec = json.load(open(path))
    case = rec["case"]
    ev = case.get("event")
    if not ev or ev["op"] != "Bisc":
        raise tlc.MachineryFailure("only Bisc events can be replayed individually")
    A = [tuple(a) for a in ev["A"]]
    SG = quiet(bisc, [Perm(a) for a in A], ev["m"], ev["n"])
    e2 = {"op": "Bisc", "A": ev["A"], "m": ev["m"], "n": ev["n"], "SG": sg_json(SG)}
    v = util.validate_trace(ctx, "Trace_C17", [e2])
    if v["verdict"]:
        print("VIOLATION property=C17 replay=%s" % path)
        print("  still failing: %s" % v["verdict"])
        return 1
    print("replay: case passes on the current tree")
    return 0
