"""C20 - persisted and shipped BiSC data and stored automata are faithful.

spec -> code : transition tours over the state graph of C20_Files (files as sequences of documents, the
               automaton database, the memo of load_dfa_for_perm), replayed with the real write_bisc_files /
               write_json_to_file / read_bisc_file / store_dfa_for_perm / load_dfa_for_perm /
               create_dfa_db_for_length / make_dfa_for_basis_from_db in a scratch directory, from an empty and
               from a pre-populated directory.  Replies are judged (VIOLATION), the projection of the directory
               and of the memo is compared with the model state (DRIFT).  After every step every data file is
               read back (the model's ReadBisc edge of the state reached), so a reader that remembers earlier
               reads is caught wherever it matters.  The memo is cleared only at the start of a path.
code -> spec : longer random histories over more names, data sets and permutations, and the shipped data
               files of permuta/resources/bisc (one event per file and length <= 6), judged by Trace_C20.
Automata are compared by language: product construction over the direction alphabet written here (no use of
automata-lib's ==), cross-checked once per run against word-by-word agreement on all words of length <= 8.
Lengths 7.. of the shipped files are compared with the library's own predicate functions (weaker,
implementation-side; C12 verifies those predicates against the definitions).

Hardening round: data set names that contain underscores, that are a prefix of one another ("a" / "a_b") and that
lie in a sub-directory; names and paths handed over relative, absolute, as pathlib.Path and by keyword; a data set
of length 0 and one of length 5 in the histories (their tables are emitted by TLC and compared like the others);
the dictionary a read returned is emptied by the caller before the next read; bases for make_dfa_for_basis_from_db
as reversed list, tuple, set and with repeated elements; cold starts (a fresh interpreter whose first calls are a
load / a union from an empty database and a read of a file written by another process).
"""
import collections
import concurrent.futures
import contextlib
import glob
import hashlib
import importlib
import io
import itertools
import json
import os
import re
import pathlib
import shutil
import subprocess
import sys
import tempfile
import time

from automata.fa.dfa import DFA
from permuta import Perm
from permuta.bisc import perm_properties
from permuta.permutils.pin_words import PinWords

from harness import tlc, tour, util
from harness.core import REPO

bisc_mod = importlib.import_module("permuta.bisc.bisc")     # (permuta.bisc.bisc the attribute is the function)

INVS = ["TypeOK", "ReadYourLastWrite", "InvalidOnlyWhenInvalid", "NeverDifferentData", "ReplyFromFsOnly",
        "LoadFaithful", "ReplyFaithful"]
PROPS = ["NoCrossTalk", "ReadsArePure"]
FS_OPS = ["WriteBisc", "ReadBisc", "Corrupt", "Delete"]
DB_OPS = ["StoreDfa", "LoadDfa", "CreateDb", "MakeFromDb", "DeleteDb"]
KNOWN_SITE = "permuta/resources/bisc/in_alternating_group_{good,bad}_len8.json at length 2"
KNOWN_DEV = "Alternating_N2Excluded"
ALPHA = "ULDR"
MAX_VIOLATIONS = 40          # enough witnesses: the replay of further paths is skipped beyond


# ---- scratch data sets: adapter-side predicates (cross-checked against the tables TLC computes) -------
def contains(q, p):
    k = len(p)
    return any(all((q[c[i]] < q[c[j]]) == (p[i] < p[j]) for i in range(k) for j in range(k))
               for c in itertools.combinations(range(len(q)), k))


def inversions(q):
    return sum(1 for i in range(len(q)) for j in range(i + 1, len(q)) if q[i] > q[j])


PREDS = {
    "stack_sortable": lambda q: not contains(q, (1, 2, 0)),
    "even": lambda q: inversions(q) % 2 == 0,
    "layered": lambda q: not contains(q, (1, 2, 0)) and not contains(q, (2, 0, 1)),
    "smooth": lambda q: not contains(q, (0, 2, 1, 3)) and not contains(q, (1, 0, 3, 2)),
}


def side_tables(n, pred):
    good = [[p for p in util.perms_of(k) if PREDS[pred](p)] for k in range(n + 1)]
    bad = [[p for p in util.perms_of(k) if not PREDS[pred](p)] for k in range(n + 1)]
    return {"good": good, "bad": bad}


def key_of(p):
    return "".join(str(v) for v in p)


# ---- language equivalence of automata, written here -------------------------------------------------------
def _delta(d, s, a):
    if s is None:
        return None
    row = d.transitions.get(s)
    return None if row is None else row.get(a)


def _accepting(ds, ss):
    return any(s is not None and s in d.final_states for d, s in zip(ds, ss))


def _alphabet(ds):
    out = set(ALPHA)
    for d in ds:
        out |= set(d.input_symbols)
    return sorted(out)


def distinguishing_word(A, B):
    """A, B: lists of DFAs read as unions.  None if the languages are equal, else a shortest word in exactly one."""
    alpha = _alphabet(A + B)
    start = (tuple(d.initial_state for d in A), tuple(d.initial_state for d in B))
    seen = {start: ""}
    dq = collections.deque([start])
    while dq:
        cur = dq.popleft()
        if _accepting(A, cur[0]) != _accepting(B, cur[1]):
            return seen[cur] or "(empty word)"
        for a in alpha:
            nxt = (tuple(_delta(d, s, a) for d, s in zip(A, cur[0])), tuple(_delta(d, s, a) for d, s in zip(B, cur[1])))
            if nxt not in seen:
                seen[nxt] = seen[cur] + a
                dq.append(nxt)
    return None


def words_disagree(A, B, maxlen):
    """Word-by-word comparison on every word over ULDR of length <= maxlen (depth-first over the word tree)."""
    count = 0
    stack = [(tuple(d.initial_state for d in A), tuple(d.initial_state for d in B), "")]
    while stack:
        sa, sb, w = stack.pop()
        count += 1
        if _accepting(A, sa) != _accepting(B, sb):
            return w or "(empty word)", count
        if len(w) < maxlen:
            for a in ALPHA:
                stack.append((tuple(_delta(d, s, a) for d, s in zip(A, sa)), tuple(_delta(d, s, a) for d, s in zip(B, sb)), w + a))
    return None, count


class Refs:
    """Fresh computations PinWords.make_dfa_for_perm(p): the reference of the property."""

    def __init__(self):
        self.by_key = {}

    def get(self, p):
        k = key_of(p)
        if k not in self.by_key:
            self.by_key[k] = PinWords.make_dfa_for_perm(Perm(p))
        return self.by_key[k]

    def tag_of(self, dfa, expected_key):
        """The key of the permutation whose fresh automaton has the language of dfa (the expected one first)."""
        if not isinstance(dfa, DFA):
            return "?"
        if expected_key in self.by_key and distinguishing_word([dfa], [self.by_key[expected_key]]) is None:
            return expected_key
        for k, ref in self.by_key.items():
            if k != expected_key and distinguishing_word([dfa], [ref]) is None:
                return k
        return "?"


def selfcheck_equivalence(ctx, refs, perms, maxlen):
    """The comparison procedure itself: product construction and word enumeration must agree, a reloaded copy of
    an automaton is equal to it, automata of different permutations are told apart by a real witness."""
    total = 0
    for p in perms:
        ref = refs.get(p)
        copy = eval(repr(ref), {"DFA": DFA})  # pylint: disable=eval-used
        w, n = words_disagree([copy], [ref], maxlen)
        total += n
        if distinguishing_word([copy], [ref]) is not None or w is not None:
            raise tlc.MachineryFailure("C20: equivalence procedure separates an automaton from its own copy")
    for p, q in itertools.combinations(perms, 2):
        a, b = refs.get(p), refs.get(q)
        w1 = distinguishing_word([a], [b])
        w2, n = words_disagree([a], [b], maxlen)
        total += n
        if (w1 is None) != (w2 is None):
            # equal up to maxlen but different beyond is possible in principle; the product witness must then be longer
            if w1 is None or len(w1) <= maxlen:
                raise tlc.MachineryFailure("C20: product construction and word enumeration disagree on %s / %s" % (p, q))
        if w1 is not None and w1 != "(empty word)":
            if a.accepts_input(w1) == b.accepts_input(w1):
                raise tlc.MachineryFailure("C20: witness %s does not separate %s and %s" % (w1, p, q))
    ctx.note("equivalence_selfcheck_words", total)


# ---- the real system -------------------------------------------------------------------------------------
PURE_MEMOS = {"pinword_to_perm_mapping", "perm_to_pinword_mapping", "perm_to_strict_pinword_mapping", "make_dfa_for_m"}


def memo_of_load():
    """The memo the property is about, if it is where the current code keeps it (else None: not observable)."""
    f = getattr(PinWords, "load_dfa_for_perm", None)
    return f if hasattr(f, "cache_clear") and hasattr(f, "cache_info") else None


def clear_memos():
    """Start of a path: a new process as far as stored automata are concerned.  Normally that is the lru_cache of
    load_dfa_for_perm; if a refactoring moved it, every memo of PinWords that is not a pure table is cleared."""
    f = memo_of_load()
    if f is not None:
        f.cache_clear()
        return
    for name, attr in vars(PinWords).items():
        fn = getattr(attr, "__func__", attr)
        if name not in PURE_MEMOS and hasattr(fn, "cache_clear"):
            fn.cache_clear()


def memo_size():
    f = memo_of_load()
    return None if f is None else f.cache_info().currsize


def memo_hits():
    f = memo_of_load()
    return None if f is None else f.cache_info().hits


def work_base(ctx):
    """Where the working directories of the replayed paths live: a private directory on tmpfs if the machine has
    one (a truncating open costs 0.3 ms on the disk of this image, 0.01 ms there), else the check's scratch cwd."""
    if getattr(ctx, "c20_base", None) is None:
        ctx.c20_base = ctx.scratch
        if os.path.isdir("/dev/shm") and os.access("/dev/shm", os.W_OK):
            for stale in glob.glob("/dev/shm/verif-c20-*"):          # left behind by a killed run
                try:
                    if time.time() - os.path.getmtime(stale) > 7200:
                        shutil.rmtree(stale, ignore_errors=True)
                except OSError:
                    pass
            try:
                ctx.c20_base = tempfile.mkdtemp(prefix="verif-c20-", dir="/dev/shm")
            except OSError:
                pass
    return ctx.c20_base


def drop_work_base(ctx):
    os.chdir(ctx.scratch)
    if getattr(ctx, "c20_base", None) not in (None, ctx.scratch):
        shutil.rmtree(ctx.c20_base, ignore_errors=True)
    ctx.c20_base = None


class NotRealisable(Exception):
    """An interference of the environment (damage / remove a file) cannot be performed because the file the model
    speaks of is not there under that name: the mechanism differs, the path cannot be followed further."""


class Real:
    """The library in a scratch directory.  cfg: {names, datasets [(n, pred)], bases [[perm..]], files [stems]}."""

    def __init__(self, ctx, cfg, refs):
        self.ctx = ctx
        self.cfg = cfg
        self.refs = refs
        self.tables = [side_tables(n, pred) for n, pred in cfg["datasets"]]
        self.files = sorted({"%s_%s_len%d" % (nm, k, n) for nm in cfg["names"] for k in ("good", "bad") for n, _ in cfg["datasets"]})
        self.serial = 0
        self.dir = None
        self.tagmemo = {}
        self.fsmemo = {}
        self.sentinels = {}
        self.last = {}
        self.step = 0
        self.nmut = 0

    # -- lifecycle
    def reset(self, init):
        """A fresh directory holding init = {"fs": {stem: ("single", d) | ("junk",)}, "db": [keys]}; memo cleared."""
        self.close()
        self.serial += 1
        self.dir = os.path.join(work_base(self.ctx), "c20-%d-%d" % (id(self) % 100000, self.serial))
        os.makedirs(self.dir)
        os.chdir(self.dir)
        for nm in self.cfg["names"]:
            if os.path.dirname(nm):
                os.makedirs(os.path.dirname(nm), exist_ok=True)
        clear_memos()
        self.last = {}
        self.step = 0
        self.nmut = 0
        self.sentinels = {}
        prepop = bool(init["fs"] or init["db"])
        for stem, what in init["fs"].items():
            with open(stem + ".json", "w") as fh:
                if what[0] == "single":
                    # written by someone else: other separators and a final newline, still one well-formed document
                    fh.write(json.dumps(self.doc(stem, what[1]), separators=(",", ":")) + "\n")
                else:
                    fh.write('{"0": [[]], "1": [[0')
        for k in init["db"]:
            os.makedirs("dfa_db/S%d" % len(k), exist_ok=True)
            with open("dfa_db/S%d/%s.txt" % (len(k), k), "w") as fh:
                fh.write(repr(self.refs.get(tuple(int(c) for c in k))))
        if prepop:
            # bystanders: must be byte-identical at the end of the path, and still read as what they are
            self.sentinels["zz_good_len3.json"] = json.dumps({str(k): v for k, v in enumerate(side_tables(3, "even")["good"])})
            self.sentinels[self.cfg["names"][0] + "_good_len30.json"] = json.dumps({"0": [[]]})
            self.sentinels["dfa_db/S4/0123.txt"] = "bystander"
            for name, text in self.sentinels.items():
                if os.path.dirname(name):
                    os.makedirs(os.path.dirname(name), exist_ok=True)
                with open(name, "w") as fh:
                    fh.write(text)

    def close(self):
        os.chdir(self.ctx.scratch)
        if self.dir:
            shutil.rmtree(self.dir, ignore_errors=True)
            self.dir = None

    # -- data sets
    def doc(self, stem, d, reverse=False):
        """The dictionary of data set d for the file `stem` (its side), as write_json_to_file takes it."""
        kind = "good" if "_good_len" in stem else "bad"
        rows = self.tables[d - 1][kind]
        return {k: [list(p) for p in (reversed(rows[k]) if reverse else rows[k])] for k in range(len(rows))}

    def identify(self, stem, obj):
        """Which data set (1-based) a parsed document / a returned dictionary is, for this file; -1 = none."""
        kind = "good" if "_good_len" in stem else "bad"
        n = int(stem.rsplit("_len", 1)[1])
        try:
            got = {int(k): [tuple(p) for p in v] for k, v in obj.items()}
        except (ValueError, TypeError, AttributeError):
            return -1
        for d, (dn, _) in enumerate(self.cfg["datasets"]):
            if dn != n:
                continue
            rows = self.tables[d][kind]
            if sorted(got) == list(range(n + 1)) and all(len(got[k]) == len(rows[k]) and set(got[k]) == set(rows[k]) for k in range(n + 1)):
                return d + 1
        return -1

    # -- projection
    def project(self):
        fs = {}
        for stem in self.files:
            path = stem + ".json"
            if not os.path.exists(path):
                continue
            with open(path) as fh:
                text = fh.read()
            if (stem, text) in self.fsmemo:
                fs[stem] = self.fsmemo[(stem, text)]
                continue
            docs, junk, pos, dec = [], False, 0, json.JSONDecoder()
            while True:
                while pos < len(text) and text[pos].isspace():
                    pos += 1
                if pos >= len(text):
                    break
                try:
                    obj, pos = dec.raw_decode(text, pos)
                except ValueError:
                    junk = True
                    break
                d = self.identify(stem, obj)
                if d < 0:
                    junk = True
                    break
                docs.append(d)
            if not docs:
                junk = True                     # nothing readable at all (also: zero bytes)
            fs[stem] = self.fsmemo[(stem, text)] = {"docs": docs, "junk": junk}
        db = {}
        for path in (glob.glob("dfa_db/S*/*.txt") if os.path.isdir("dfa_db") else ()):
            if path in self.sentinels:
                continue
            k = os.path.basename(path)[:-4]
            with open(path) as fh:
                text = fh.read()
            h = (k, hashlib.sha1(text.encode()).hexdigest())
            if h not in self.tagmemo:
                try:
                    self.tagmemo[h] = self.refs.tag_of(eval(text.split("\n")[0].strip(), {"DFA": DFA}), k)  # pylint: disable=eval-used
                except Exception:  # pylint: disable=broad-except
                    self.tagmemo[h] = "?"
            db[k] = self.tagmemo[h]
            if os.path.basename(os.path.dirname(path)) != "S%d" % len(k):
                db[k] += "@" + os.path.dirname(path)
        return {"fs": fs, "db": db, "nloaded": memo_size()}

    # -- calls
    def read(self, stem):
        """read_bisc_file -> (data set id | 0 invalid | -1 other data | -2 raised, message printed, detail)."""
        out = io.StringIO()
        self.nread = getattr(self, "nread", 0) + 1
        how = self.nread % 4          # the same file named in four ways
        try:
            with contextlib.redirect_stdout(out):
                if how == 0:
                    got = bisc_mod.read_bisc_file(stem)
                elif how == 1:
                    got = bisc_mod.read_bisc_file(path=os.path.join(os.getcwd(), stem))
                elif how == 2:
                    got = bisc_mod.read_bisc_file(pathlib.Path(stem))
                else:
                    got = bisc_mod.read_bisc_file(os.path.join(".", stem))
        except Exception as e:  # pylint: disable=broad-except
            return -2, out.getvalue(), type(e).__name__
        try:
            return self.classify(stem, got, out)
        finally:
            if isinstance(got, dict):
                got.clear()           # the caller does what it likes with its dictionary: the next read is a new one

    def classify(self, stem, got, out):
        if got == {}:
            return 0, out.getvalue(), None
        if not isinstance(got, dict) or not all(isinstance(k, int) and isinstance(v, (list, tuple)) and all(isinstance(p, tuple) for p in v)
                                                for k, v in got.items()):
            return -1, out.getvalue(), "not a dictionary of int -> list of permutations: %r" % (got,)
        d = self.identify(stem, got)
        if d > 0 and stem in self.last and self.last[stem][0] == d:
            # exactly the dictionary last written, order included
            want = {k: [tuple(p) for p in v] for k, v in self.last[stem][1].items()}
            if {k: [tuple(p) for p in v] for k, v in got.items()} != want:
                return -1, out.getvalue(), "same sets as written but lists reordered / duplicated"
        return d, out.getvalue(), (None if d > 0 else repr(got)[:200])

    def do(self, a):
        """Perform action record a; returns the observation {d | tags, hit} (empty for calls without a reply)."""
        self.step += 1
        name = a["name"]
        if name != "ReadBisc":
            self.nmut += 1
        if name == "WriteBisc":
            d = a["d"]
            n, pred = self.cfg["datasets"][d - 1]
            out = io.StringIO()
            with contextlib.redirect_stdout(out):
                if self.nmut % 2:
                    if self.nmut % 4 == 1:
                        bisc_mod.write_bisc_files(n, lambda p: PREDS[pred](tuple(p)), a["nm"])
                    else:
                        def the_property(perm):
                            return PREDS[pred](tuple(perm))
                        bisc_mod.write_bisc_files(info=os.path.join(os.getcwd(), a["nm"]), prop=the_property, n=n)
                    for kind in ("good", "bad"):
                        self.last.pop("%s_%s_len%d" % (a["nm"], kind, n), None)
                else:
                    for kind in ("good", "bad"):
                        stem = "%s_%s_len%d" % (a["nm"], kind, n)
                        doc = {k: [Perm(p) for p in v] for k, v in self.doc(stem, d, reverse=True).items()}
                        if self.nmut % 4 == 0:
                            bisc_mod.write_json_to_file(doc, stem + ".json")
                        else:
                            bisc_mod.write_json_to_file(file_name=os.path.join(os.getcwd(), stem + ".json"), json_obj=doc)
                        self.last[stem] = (d, doc)
            return {"printed": out.getvalue()}
        if name == "ReadBisc":
            d, msg, detail = self.read(a["f"])
            return {"d": d, "msg": msg, "detail": detail}
        if name in ("Corrupt", "Delete") and not os.path.exists(a["f"] + ".json"):
            raise NotRealisable(a["f"] + ".json")
        if name == "Corrupt":
            path = a["f"] + ".json"
            self.last.pop(a["f"], None)
            with open(path) as fh:
                text = fh.read()
            if a["ck"] == "dup":
                new = text.rstrip("\n") + text          # back to back on one line, as an appending writer leaves them
            else:
                new = [text[:7], "this is not a data set {", ""][self.nmut % 3]
            with open(path, "w") as fh:
                fh.write(new)
            return {}
        if name == "Delete":
            self.last.pop(a["f"], None)
            os.remove(a["f"] + ".json")
            return {}
        p = tuple(a["p"])
        if name == "StoreDfa":
            if self.nmut % 2:
                PinWords.store_dfa_for_perm(Perm(p))
            elif self.nmut % 4 == 0:
                PinWords.store_dfa_for_perm(Perm(p), self.refs.get(p))
            else:
                PinWords.store_dfa_for_perm(in_dfa=self.refs.get(p), perm=Perm(p))
            return {}
        if name == "LoadDfa":
            before = memo_hits()
            got = PinWords.load_dfa_for_perm(Perm(p))
            hit = None if before is None else memo_hits() > before
            return {"tags": [self.refs.tag_of(got, key_of(p))], "hit": hit}
        if name == "CreateDb":
            if self.nmut % 2:
                PinWords.create_dfa_db_for_length(a["n"])
            else:
                PinWords.create_dfa_db_for_length(length=a["n"])
            return {}
        if name == "MakeFromDb":
            basis = [tuple(q) for q in self.cfg["bases"][a["b"] - 1]]
            arg = [Perm(q) for q in (reversed(basis) if self.nmut % 2 else basis)]
            form = self.nmut % 5          # the same set of permutations in several containers
            if form == 1:
                arg = arg + arg[:1] + arg         # every element repeated
            elif form == 2:
                arg = tuple(arg)
            elif form == 3:
                arg = set(arg)
            got = PinWords.make_dfa_for_basis_from_db(arg) if form != 4 else PinWords.make_dfa_for_basis_from_db(basis=arg)
            w = distinguishing_word([got], [self.refs.get(q) for q in basis]) if isinstance(got, DFA) else "(not a DFA)"
            return {"tags": sorted(key_of(q) for q in basis) if w is None else ["?"], "word": w}
        if name == "DeleteDb":
            if not os.path.exists("dfa_db/S%d/%s.txt" % (len(p), key_of(p))):
                raise NotRealisable("dfa_db/S%d/%s.txt" % (len(p), key_of(p)))
            os.remove("dfa_db/S%d/%s.txt" % (len(p), key_of(p)))
            return {}
        raise tlc.MachineryFailure("C20: unknown action " + name)

    def bystanders_intact(self):
        bad = []
        for name, text in self.sentinels.items():
            try:
                with open(name) as fh:
                    if fh.read() != text:
                        bad.append(name)
            except OSError:
                bad.append(name)
        if "zz_good_len3.json" in self.sentinels:
            out = io.StringIO()
            with contextlib.redirect_stdout(out):
                got = bisc_mod.read_bisc_file("zz_good_len3")
            want = {k: [tuple(p) for p in v] for k, v in enumerate(side_tables(3, "even")["good"])}
            if not isinstance(got, dict) or {k: [tuple(p) for p in v] for k, v in got.items()} != want:
                bad.append("read_bisc_file(zz_good_len3)")
        return bad


def read_clause(expected, observed):
    if observed == expected:
        return None
    if expected == 0:
        return "NeverDifferentData"
    if observed == 0:
        return "InvalidOnlyWhenInvalid"
    return "ReadYourLastWrite"


def judge(real, a, expected, obs):
    """-> (violations [(clause, expected, observed)], drifts [text]) for one performed action."""
    viol, drift = [], []
    name = a["name"]
    if name == "ReadBisc":
        d = obs["d"]
        if d == -2 and expected["d"] == 0:
            drift.append("read_bisc_file(%s) raised %s on a missing/malformed file instead of reporting it" % (a["f"], obs["detail"]))
        else:
            c = read_clause(expected["d"], d)
            if c:
                viol.append((c, "data set %d" % expected["d"] if expected["d"] else "reported invalid ({})",
                             {0: "reported invalid ({})", -2: "raised " + str(obs["detail"])}.get(d, "data set %d" % d if d > 0 else "other data: " + str(obs["detail"]))))
            elif d == 0 and "invalid" not in obs["msg"].lower():
                drift.append("read_bisc_file(%s) returned {} without the 'File is invalid' message" % a["f"])
    elif name == "LoadDfa":
        if sorted(obs["tags"]) != sorted(expected["tags"]):
            viol.append(("LoadFaithful", "language of a fresh make_dfa_for_perm(%s)" % key_of(a["p"]),
                         "language of %s" % obs["tags"]))
        if obs["hit"] is not None and obs["hit"] != expected["hit"]:
            drift.append("load_dfa_for_perm(%s): memo hit %s, model %s" % (key_of(a["p"]), obs["hit"], expected["hit"]))
    elif name == "MakeFromDb":
        if sorted(obs["tags"]) != sorted(expected["tags"]):
            viol.append(("MakeFromDbFaithful", "union of the fresh automata of %s" % sorted(expected["tags"]),
                         "differs on the word %s" % obs["word"]))
    return viol, drift


def norm_state(s):
    return {k: ({} if v == [] else v) for k, v in s.items()}


def compare_proj(model, proj):
    out = []
    m = model
    if m["fs"] != proj["fs"]:
        out.append("files: model %s, directory %s" % (json.dumps(m["fs"], sort_keys=True)[:160], json.dumps(proj["fs"], sort_keys=True)[:160]))
    if m["db"] != proj["db"]:
        out.append("dfa_db: model %s, directory %s" % (sorted(m["db"].items()), sorted(proj["db"].items())))
    if proj["nloaded"] is not None and len(m["loaded"]) != proj["nloaded"]:
        out.append("memo of load_dfa_for_perm: model %d entries, cache_info %d" % (len(m["loaded"]), proj["nloaded"]))
    return out


# ---- configurations of the machine -----------------------------------------------------------------------
def tla_map(m):
    if not m:
        return "PsNoMap"
    ks = list(m)
    body = " ELSE ".join(["IF x = %s THEN %s" % (tlc.tla(k), m[k]) for k in ks[:-1]] + [m[ks[-1]]])
    return "[x \\in {%s} |-> %s]" % (", ".join(tlc.tla(k) for k in ks), body)


def tla_init(init):
    fsm = {k: ("PsSingle(%d)" % v[1] if v[0] == "single" else "PsJunk") for k, v in init["fs"].items()}
    dbm = {k: tlc.tla(k) for k in init["db"]}
    return "[fs |-> %s, db |-> %s]" % (tla_map(fsm), tla_map(dbm))


def tla_perms(ps):
    return "{" + ", ".join(tlc.tla(list(p)) for p in ps) + "}"


def mc_text(modname, base, cfg, write_mode="replace", cache_mode="perm", tables=False):
    consts = {
        "Names": "{" + ", ".join(tlc.tla(n) for n in cfg["names"]) + "}",
        "Datasets": "<< " + ", ".join('[n |-> %d, pred |-> "%s"]' % d for d in cfg["datasets"]) + " >>",
        "Perms": tla_perms(cfg["perms"]),
        "DbLens": "{" + ", ".join(str(n) for n in cfg["dblens"]) + "}",
        "Bases": "<< " + ", ".join(tla_perms(b) for b in cfg["bases"]) + " >>",
        "Ops": "{" + ", ".join(tlc.tla(o) for o in cfg["ops"]) + "}",
        "Inits": "<< " + ", ".join(tla_init(i) for i in cfg["inits"]) + " >>",
        "WriteMode": tlc.tla(write_mode), "CacheMode": tlc.tla(cache_mode), "MaxDocs": "3",
    }
    body = "\n".join("%sDef == %s" % kv for kv in consts.items())
    if tables:
        body += "\nASSUME EmitTables\n"
    text = "---- MODULE %s ----\nEXTENDS %s\n%s\n====\n" % (modname, base, body)
    return text, {k: ("<-", k + "Def") for k in consts}


EMPTY = {"fs": {}, "db": []}
P021, P120, P012, P01, P10 = (0, 2, 1), (1, 2, 0), (0, 1, 2), (0, 1), (1, 0)


def configs(quick):
    two = [(3, "stack_sortable"), (3, "even")]
    pre_fs = {"fs": {"a_good_len3": ("single", 1), "a_bad_len3": ("single", 1), "a_b_good_len3": ("junk",)}, "db": []}
    out = [
        # (one name is a prefix of the other and contains the separator of the file names)
        dict(label="files", names=["a", "a_b"], datasets=two + ([] if quick else [(3, "layered")]), perms=[], dblens=[], bases=[],
             ops=FS_OPS, inits=[EMPTY, pre_fs], predepth=2 if quick else 3),
        dict(label="lengths", names=["v1.0"], datasets=[(3, "stack_sortable"), (2, "even")], perms=[], dblens=[], bases=[],
             ops=FS_OPS, inits=[EMPTY, {"fs": {"v1.0_good_len2": ("single", 2), "v1.0_good_len3": ("junk",)}, "db": []}], predepth=2 if quick else 99),
        dict(label="mixed", names=["sub/my_set"], datasets=[(3, "even")], perms=[P10], dblens=[], bases=[[P10]],
             ops=FS_OPS + ["StoreDfa", "LoadDfa", "MakeFromDb", "DeleteDb"],
             inits=[EMPTY, {"fs": {"sub/my_set_bad_len3": ("single", 1)}, "db": ["10"]}], predepth=2 if quick else 99),
        # (index 3: also the universe of the wrong-cache-key run)
        dict(label="db", names=["a"], datasets=two[:1], perms=[P021, P120], dblens=[], bases=[[P021, P120]] + ([] if quick else [[P021], [P01, P120]]),
             ops=["StoreDfa", "LoadDfa", "MakeFromDb", "DeleteDb"], inits=[EMPTY, {"fs": {}, "db": ["120"]}], predepth=99),
    ]
    if quick:
        out.append(dict(label="db-create", names=["a"], datasets=two[:1], perms=[P10], dblens=[2, 3], bases=[[P10, P021]],
                        ops=DB_OPS, inits=[EMPTY, {"fs": {}, "db": ["021"]}], predepth=99))
    else:
        out.append(dict(label="db-create", names=["a"], datasets=two[:1], perms=[P10, P120, (1, 3, 0, 2)], dblens=[2, 3],
                        bases=[[P10, P021], [(1, 3, 0, 2), P10]],
                        ops=DB_OPS, inits=[EMPTY, {"fs": {}, "db": ["021", "01"]}], predepth=99))
    return out


def edge_job(cfg):
    text, consts = mc_text("MC_C20", "C20_Files", cfg, tables=True)
    c = util.cfg(init="Init", next_="Next", invariants=INVS, properties=PROPS, view="View", action_constraints=["EmitEdge"], constants=consts)
    return ("MC_C20", c, {"files": {"MC_C20.tla": text}, "timeout": 3000})


def mutant_job(cfg, write_mode, cache_mode, invariant):
    text, consts = mc_text("MC_C20", "C20_Files", cfg, write_mode=write_mode, cache_mode=cache_mode)
    c = util.cfg(init="Init", next_="Next", invariants=[invariant], view="View", constants=consts)
    return ("MC_C20", c, {"files": {"MC_C20.tla": text}, "timeout": 1500, "allow_violation": True})


# ---- replay of the tours ---------------------------------------------------------------------------------
def check_tables(cfg, res):
    recs = [r for r in res.records if "tables" in r]
    if len(recs) != 1 or len(recs[0]["tables"]) != len(cfg["datasets"]):
        raise tlc.MachineryFailure("C20 %s: data set tables not emitted" % cfg["label"])
    for t, (n, pred) in zip(recs[0]["tables"], cfg["datasets"]):
        mine = side_tables(n, pred)
        for kind in ("good", "bad"):
            if [[tuple(p) for p in row] for row in t[kind]] != mine[kind] or t["n"] != n:
                raise tlc.MachineryFailure("C20: the harness predicate %r and the definition in module Persist give different "
                                           "data sets (%s side): %s vs %s" % (pred, kind, t[kind], mine[kind]))


def init_key(init):
    return tour.key({"fs": {k: ({"docs": [v[1]], "junk": False} if v[0] == "single" else {"docs": [], "junk": True}) for k, v in init["fs"].items()},
                     "db": {k: k for k in init["db"]}, "loaded": {}})


def replay_graph(ctx, cfg, res, refs):
    label = cfg["label"]
    check_tables(cfg, res)
    edges = [r for r in res.records if "from" in r]
    if not edges:
        raise tlc.MachineryFailure("C20 %s: no edges emitted" % label)
    for e in edges:                      # normalise and key the two states once
        e["from"], e["to"] = norm_state(e["from"]), norm_state(e["to"])
        e["fk"], e["tk"] = tour.key(e["from"]), tour.key(e["to"])
    gf = lambda e: e["from"]     # noqa: E731
    gt = lambda e: e["to"]       # noqa: E731
    reads = {}
    moves = []
    for e in edges:
        if e["act"]["name"] == "ReadBisc":
            reads[(e["fk"], e["act"]["f"])] = e
        else:
            moves.append(e)
    # the memo only grows along a path: take the calls that leave it alone first (fewer restarts)
    moves.sort(key=lambda e: len(e["to"]["loaded"]) - len(e["from"]["loaded"]))
    real = Real(ctx, cfg, refs)
    probing = "ReadBisc" in cfg["ops"]
    if probing and len(reads) != len({e["fk"] for e in edges}) * len(real.files):
        raise tlc.MachineryFailure("C20 %s: not every (state, file) has a ReadBisc edge" % label)
    names = collections.Counter()
    npaths = 0
    out = collections.defaultdict(list)
    for e in moves:
        out[e["fk"]].append(e)
    for ii, init in enumerate(cfg["inits"]):
        ik = init_key(init)
        # every edge out of the states within predepth steps of this start (the empty start: the whole graph)
        limit = cfg["predepth"] if ii > 0 else 10 ** 9
        depth = {ik: 0}
        dq = collections.deque([ik])
        while dq:
            s = dq.popleft()
            if depth[s] >= limit:
                continue
            for e in out[s]:
                if e["tk"] not in depth:
                    depth[e["tk"]] = depth[s] + 1
                    dq.append(e["tk"])
        sub = [e for e in moves if e["fk"] in depth]
        if ii == 0 or cfg["predepth"] >= 99:
            for e in sub:
                e["covered"] = True
        if not out[ik]:
            raise tlc.MachineryFailure("C20 %s: initial directory %d is not a state of the graph" % (label, ii))
        paths = tour.tours(sub, ik, get_from=gf, get_to=gt, max_path=300)
        for path in paths:
            if len(ctx.violations) >= MAX_VIOLATIONS:
                ctx.note("stopped_early_" + label, "replay stopped after %d violations" % len(ctx.violations))
                for e in moves:
                    e["covered"] = True
                names.update(cfg["ops"])
                break
            npaths += 1
            real.reset(init)
            steps = []

            def failing(clause, exp, got, steps=steps, init=init):
                case = {"kind": "path", "config": {k: cfg[k] for k in ("label", "names", "datasets", "bases")}, "init": init,
                        "steps": [{"act": x["act"], "reply": x["reply"]} for x in steps]}
                ctx.violation(case, clause, exp, got)

            def probe(state_key, history_len, steps=steps, failing=failing):
                for f in real.files:
                    e = reads[(state_key, f)]
                    obs = real.do(e["act"])
                    ctx.case(("read", label, state_key, f), nontrivial=history_len > 0 and e["reply"]["d"] > 0)
                    names["ReadBisc"] += 1
                    viol, dr = judge(real, e["act"], e["reply"], obs)
                    if viol:
                        steps.append(e)
                        for clause, exp, got in viol:
                            failing(clause, exp, got)
                        steps.pop()
                    for d in dr:
                        ctx.drift("%s: %s" % (label, d))

            first = compare_proj(sub[path[0]]["from"], real.project())
            if first:
                raise tlc.MachineryFailure("C20 %s: the initial directory was not set up as the model's: %s" % (label, first))
            if probing:
                probe(ik, 0)
            ok = True
            for idx in path:
                e = sub[idx]
                a = e["act"]
                names[a["name"]] += 1
                steps.append(e)
                ctx.case(("edge", label, ii, e["fk"], a["name"], a["nm"], a["d"], a["f"], a["ck"], tuple(a["p"]), a["n"], a["b"]), nontrivial=len(steps) > 1)
                try:
                    obs = real.do(a)
                except NotRealisable as ex:
                    ctx.drift("%s: path abandoned, %s is not there to be damaged / removed (file layout differs from the model)" % (label, ex))
                    break
                except Exception as ex:  # pylint: disable=broad-except
                    failing("NoException", "the call returns", type(ex).__name__ + ": " + str(ex)[:120])
                    ok = False
                    break
                viol, dr = judge(real, a, e["reply"], obs)
                for clause, exp, got in viol:
                    failing(clause, exp, got)
                for d in dr + compare_proj(e["to"], real.project()):
                    ctx.drift("%s after %s: %s" % (label, [x["act"]["name"] for x in steps][-4:], d))
                if probing:
                    probe(e["tk"], len(steps))
            if ok:
                for name in real.bystanders_intact():
                    failing("NoCrossTalk", "files of other names untouched", "%s changed or unreadable" % name)
            ctx.traces += 1
    real.close()
    left = [e for e in moves if not e.get("covered")]
    if left:
        raise tlc.MachineryFailure("C20 %s: %d edges reachable from no start that is explored completely" % (label, len(left)))
    want = set(cfg["ops"])
    if not want <= set(names):
        raise tlc.MachineryFailure("C20 %s: actions never taken: %s" % (label, sorted(want - set(names))))
    return len(edges), npaths, names


# ---- code -> spec: random histories ------------------------------------------------------------------------
def trace_cfg(quick):
    perms = util.perms_of(3) + ([] if quick else [(1, 3, 0, 2)])
    return dict(label="trace", names=["a", "a_b", "sub/c", "Av.231", "a.b/c.d"],
                datasets=[(3, "stack_sortable"), (3, "even"), (2, "layered"), (4, "smooth"), (0, "even"), (5, "layered")],
                perms=perms, dblens=[2, 3], bases=[[P021, P120], [P01, P012, (2, 1, 0)], [P10]],
                ops=FS_OPS + DB_OPS,
                inits=[EMPTY, {"fs": {"a_good_len3": ("single", 2), "a_b_bad_len4": ("junk",), "sub/c_good_len2": ("single", 3)}, "db": ["10", "210"]}])


def driver(ctx, cfg, refs, rnd, nhist, nsteps):
    real = Real(ctx, cfg, refs)
    events = []
    for h in range(nhist):
        ii = h % len(cfg["inits"])
        real.reset(cfg["inits"][ii])
        events.append({"op": "Reset", "init": ii + 1})
        for _ in range(nsteps):
            present = [f for f in real.files if os.path.exists(f + ".json")]
            stored = [p for p in cfg["perms"] if os.path.exists("dfa_db/S%d/%s.txt" % (len(p), key_of(p)))]
            r = rnd.random()
            a = {"name": "", "nm": "", "d": 0, "f": "", "ck": "", "p": [], "n": 0, "b": 0}
            if r < 0.22:
                a.update(name="WriteBisc", nm=rnd.choice(cfg["names"]), d=rnd.randrange(len(cfg["datasets"])) + 1)
            elif r < 0.52:
                a.update(name="ReadBisc", f=rnd.choice(real.files))
            elif r < 0.60 and present:
                f = rnd.choice(present)
                now = real.project()["fs"][f]
                single = len(now["docs"]) == 1 and not now["junk"]
                junk = now == {"docs": [], "junk": True}
                ck = rnd.choice(["dup", "junk"]) if single else "junk"
                if ck == "junk" and junk:
                    a.update(name="Delete", f=f)
                else:
                    a.update(name="Corrupt", f=f, ck=ck)
            elif r < 0.66 and present:
                a.update(name="Delete", f=rnd.choice(present))
            elif r < 0.74:
                a.update(name="StoreDfa", p=list(rnd.choice(cfg["perms"])))
            elif r < 0.86:
                a.update(name="LoadDfa", p=list(rnd.choice(cfg["perms"])))
            elif r < 0.89:
                a.update(name="CreateDb", n=rnd.choice(cfg["dblens"]))
            elif r < 0.95:
                a.update(name="MakeFromDb", b=rnd.randrange(len(cfg["bases"])) + 1)
            elif stored:
                a.update(name="DeleteDb", p=list(rnd.choice(stored)))
            else:
                a.update(name="ReadBisc", f=rnd.choice(real.files))
            try:
                obs = real.do(a)
            except NotRealisable:
                break
            except Exception as ex:  # pylint: disable=broad-except
                ctx.violation({"kind": "history", "event": a, "index": len(events)}, "NoException", "the call returns", type(ex).__name__ + ": " + str(ex)[:120])
                break
            proj = real.project()
            d = obs.get("d", 0)
            if d == -2:
                ctx.drift("trace: read_bisc_file(%s) raised %s" % (a["f"], obs["detail"]))
                d = 0
            ev = {k: v for k, v in a.items() if k != "name"}
            ev.update(op=a["name"], res={"d": d, "tags": obs.get("tags", []), "hit": bool(obs.get("hit", False))},
                      proj={"fs": [[f, c["docs"], c["junk"]] for f, c in sorted(proj["fs"].items())],
                            "db": [[k, t] for k, t in sorted(proj["db"].items())],
                            "nloaded": -1 if proj["nloaded"] is None else proj["nloaded"]})
            events.append(ev)
        for name in real.bystanders_intact():
            ctx.violation({"kind": "history", "index": len(events)}, "NoCrossTalk", "files of other names untouched", "%s changed or unreadable" % name)
    real.close()
    return events


def canon_doc(obj):
    """A dictionary of lists of permutations as the rows [k, perms] in key order (Trace_C20 part 3); anything that is
    not such a dictionary becomes a row no written document has."""
    try:
        return [{"k": int(k), "perms": [[int(x) for x in p] for p in obj[k]]} for k in sorted(obj, key=int)]
    except (ValueError, TypeError, AttributeError):
        return [{"k": -1, "perms": [[-1]]}]


def doc_events(ctx, rnd, quick):
    """write_json_to_file / read_bisc_file on documents outside the data sets of the model: permutations of lengths
    10 to 16 (two-digit entries), sparse and unordered keys, empty lists, rewritten several times under 3 names."""
    work = tempfile.mkdtemp(prefix="c20-docs-", dir=ctx.scratch)
    here = os.getcwd()
    events = []

    def rand_doc():
        keys = rnd.sample([0, 1, 2, 3, 4, 9, 10, 11, 12, 13, 16], rnd.randint(1, 5))
        if rnd.random() < 0.5:
            keys.sort()
        doc = {k: [list(util.rand_perm(rnd, k)) for _ in range(rnd.randint(0, 3))] for k in keys}
        for k in keys:
            if k >= 11 and rnd.random() < 0.6:         # two permutations whose entries written one after the other read the same
                doc[k] += [list(t) for t in util.digit_twins(rnd, k)]
        return doc

    try:
        os.chdir(work)
        stems = ["x_good_len12", "x_bad_len12", "y_good_len16"]
        written = set()
        for _ in range(30 if quick else 300):
            f = rnd.choice(stems)
            if f not in written or rnd.random() < 0.45:
                doc = rand_doc()
                with contextlib.redirect_stdout(io.StringIO()):
                    st, got = util.call(bisc_mod.write_json_to_file, doc, f + ".json")
                if st != "ok":
                    ctx.violation({"kind": "documents", "call": "write_json_to_file", "doc": canon_doc(doc)}, "NoException", "the call returns", str(got)[:120])
                    break
                written.add(f)
                events.append({"op": "WriteDoc", "f": f, "doc": canon_doc(doc)})
            else:
                with contextlib.redirect_stdout(io.StringIO()):
                    st, got = util.call(bisc_mod.read_bisc_file, f)
                events.append({"op": "ReadDoc", "f": f, "res": canon_doc(got) if st == "ok" else [{"k": -2, "perms": [[-2]]}]})
    finally:
        os.chdir(here)
        shutil.rmtree(work, ignore_errors=True)
    return events


def trace_job(cfg, events, holder):
    fd, path = tempfile.mkstemp(prefix="verif-trace-", suffix=".json")
    with os.fdopen(fd, "w") as fh:
        json.dump(events, fh)
    holder.append(path)
    text, consts = mc_text("MC_T20", "Trace_C20", cfg, tables=cfg.get("label") == "trace")
    c = util.cfg(init="TInit", next_="TNext", constants=consts, invariants=INVS + ["TraceDone"])
    return ("MC_T20", c, {"files": {"MC_T20.tla": text}, "timeout": 3000, "env": {"TRACE_FILE": path}})


def trace_verdict(res, events, what):
    done = [r for r in res.records if isinstance(r, dict) and "verdict" in r]
    if len(done) != 1 or done[0]["n"] != len(events) or res.distinct != len(events) + 1:
        raise tlc.MachineryFailure("Trace_C20 (%s): trace not fully consumed (%d events, %d states, %d verdict records)\n%s" % (
            what, len(events), res.distinct, len(done), res.stdout[-1500:]))
    return done[0]


# ---- cold starts ------------------------------------------------------------------------------------------
COLD = r"""
import contextlib, io, json, sys
from permuta import Perm
from permuta.bisc import bisc as _b
import importlib
bisc_mod = importlib.import_module("permuta.bisc.bisc")
from permuta.permutils.pin_words import PinWords
plan = json.loads(sys.argv[1])
out = []
buf = io.StringIO()
with contextlib.redirect_stdout(buf):
    for step in plan:
        try:
            if step[0] == "read":
                got = bisc_mod.read_bisc_file(step[1])
                out.append({str(k): [list(p) for p in v] for k, v in got.items()})
            elif step[0] == "write":
                bisc_mod.write_bisc_files(step[1], (lambda p: p.count_inversions() % 2 == 0), step[2])
                out.append(None)
            elif step[0] == "load":
                out.append(repr(PinWords.load_dfa_for_perm(Perm(step[1]))))
            elif step[0] == "make":
                out.append(repr(PinWords.make_dfa_for_basis_from_db([Perm(p) for p in step[1]])))
            elif step[0] == "create":
                PinWords.create_dfa_db_for_length(step[1])
                out.append(None)
        except Exception as e:
            out.append("raise " + type(e).__name__)
print(json.dumps(out))
"""


def cold_starts(ctx, refs, rnd, quick):
    """A fresh interpreter in a directory prepared by this process: its first calls are a load / a union from an
    empty database / a read of a file written by another process; then it writes and this process reads."""
    even3 = side_tables(3, "even")
    ss3 = side_tables(3, "stack_sortable")
    plans = [[["make", [list(P021), list(P120)]], ["load", list(P021)], ["read", "cold_good_len3"], ["write", 3, "cold"], ["read", "cold_good_len3"],
              ["read", "cold_bad_len3"]],
             [["load", list(P120)], ["create", 2], ["make", [list(P10), list(P120)]], ["read", "nothing_good_len3"], ["read", "cold_bad_len3"]],
             [["read", "cold_bad_len3"], ["create", 3], ["load", list(P012)], ["make", [list(P012), list(P021), list(P012)]]]]
    done = 0
    for k, plan in enumerate(plans[: (1 if quick else 3)] if not quick else [plans[rnd.randrange(3)]]):
        d = tempfile.mkdtemp(prefix="cold-", dir=work_base(ctx))
        try:
            os.chdir(d)
            with contextlib.redirect_stdout(io.StringIO()):
                bisc_mod.write_bisc_files(3, lambda p: PREDS["stack_sortable"](tuple(p)), "cold")
            env = util.hash_env(20 + k, PYTHONPATH=REPO + os.pathsep + os.environ.get("PYTHONPATH", ""))
            pr = subprocess.run([sys.executable, "-c", COLD, json.dumps(plan)], capture_output=True, text=True, timeout=900, env=env, cwd=d, check=False)
            if pr.returncode != 0:
                raise tlc.MachineryFailure("C20: cold-start interpreter failed: " + pr.stderr[-400:])
            outs = json.loads(pr.stdout.strip().splitlines()[-1])
            current = ss3                      # what the files of the name "cold" hold, as the history goes
            for i, (step, o) in enumerate(zip(plan, outs)):
                case = {"kind": "cold start", "plan": plan, "step": i + 1}
                ctx.case(("cold", k, i), nontrivial=True)
                if isinstance(o, str) and o.startswith("raise "):
                    ctx.violation(case, "NoException", "the call returns", o)
                    break
                if step[0] == "write":
                    current = even3
                elif step[0] == "read":
                    kind = "good" if "_good_" in step[1] else "bad"
                    want = {} if step[1].startswith("nothing") else {str(n): [list(p) for p in row] for n, row in enumerate(current[kind])}
                    if o != want:
                        ctx.violation(case, read_clause(1 if want else 0, -1 if o else 0) or "ReadYourLastWrite", want, o)
                elif step[0] in ("load", "make"):
                    try:
                        dfa = eval(o, {"DFA": DFA})  # pylint: disable=eval-used
                    except Exception:  # pylint: disable=broad-except
                        dfa = None
                    want = [tuple(step[1])] if step[0] == "load" else sorted({tuple(q) for q in step[1]})
                    w = distinguishing_word([dfa], [refs.get(q) for q in want]) if isinstance(dfa, DFA) else "(not an automaton)"
                    if w is not None:
                        ctx.violation(case, "LoadFaithful" if step[0] == "load" else "MakeFromDbFaithful",
                                      "language of the fresh automata of %s" % [key_of(q) for q in want], "differs on the word %s" % w)
            # what the other process left behind is read here
            if ["write", 3, "cold"] in plan:
                with contextlib.redirect_stdout(io.StringIO()):
                    got = bisc_mod.read_bisc_file("cold_good_len3")
                if {str(n): [list(p) for p in v] for n, v in got.items()} != {str(n): [list(p) for p in row] for n, row in enumerate(even3["good"])}:
                    ctx.violation({"kind": "cold start", "plan": plan, "step": "read by the parent afterwards"}, "ReadYourLastWrite", "data set even", "other data")
            done += 1
        finally:
            os.chdir(ctx.scratch)
            shutil.rmtree(d, ignore_errors=True)
    ctx.note("cold_starts", done)


# ---- shipped data ----------------------------------------------------------------------------------------
SHIPPED_RE = re.compile(r"^(.*)_(good|bad)_len(\d+)\.json$")
REAL_PRED = {
    "Baxter": perm_properties.baxter, "SimSun": perm_properties.simsun, "West_2_stack_sortable": lambda p: p.west_2_stack_sortable(),
    "av_231_and_mesh": perm_properties.av_231_and_mesh, "dihedral": perm_properties.dihedral, "forest_like": perm_properties.forest_like,
    "in_alternating_group": perm_properties.in_alternating_group, "quick_sortable": lambda p: p.quick_sortable(),
    "smooth": perm_properties.smooth, "stack_sortable": lambda p: p.stack_sortable(),
    "yt_perm_avoids_22": perm_properties.yt_perm_avoids_22, "yt_perm_avoids_32": perm_properties.yt_perm_avoids_32,
}
TLC_MAXLEN = 6


def shipped_scan(ctx):
    """Reads every shipped file with the real reader and independently; returns (events by name for TLC, info,
    the files whose longer levels remain to be compared)."""
    d = os.path.join(REPO, "permuta", "resources", "bisc")
    by_name = collections.defaultdict(list)
    info = {"files": 0, "zero_byte_reported_invalid": [], "unjudged_names": [], "impl_compared": 0, "tlc_events": 0}
    later = []
    for path in sorted(glob.glob(os.path.join(d, "*.json"))):
        base = os.path.basename(path)
        m = SHIPPED_RE.match(base)
        if not m:
            info["unjudged_names"].append(base)
            continue
        name, kind, k = m.group(1), m.group(2), int(m.group(3))
        info["files"] += 1
        case = {"kind": "shipped", "file": base}
        out = io.StringIO()
        with contextlib.redirect_stdout(out):
            st, got = util.call(bisc_mod.read_bisc_file, path[:-5])
        ctx.case(("shipped-read", base), nontrivial=True)
        if os.path.getsize(path) == 0:
            # emptied in this image: must be REPORTED invalid; counted, not judged as data
            if st != "ok" or got != {}:
                ctx.violation(case, "NeverDifferentData", "reported invalid ({})", got if st == "raise" else "data with keys %s" % sorted(got)[:5])
            else:
                info["zero_byte_reported_invalid"].append(base)
            continue
        try:
            with open(path) as fh:
                raw = json.load(fh)
            indep = {int(a): [tuple(p) for p in v] for a, v in raw.items()}
        except (ValueError, TypeError, AttributeError) as ex:
            ctx.violation(case, "ShippedPartition", "a single well-formed document", "malformed: " + str(ex)[:100])
            continue
        if st != "ok" or {a: [tuple(p) for p in v] for a, v in got.items()} != indep or not all(isinstance(p, Perm) for v in got.values() for p in v):
            ctx.violation(case, "ShippedReadFaithful", "the dictionaries in the file", "raised " + str(got) if st == "raise" else "other data (keys %s)" % sorted(got)[:10])
            continue
        if sorted(indep) != list(range(k + 1)):
            ctx.violation(case, "ShippedPartition", "levels 0..%d" % k, "levels %s" % sorted(indep))
            continue
        if name not in REAL_PRED:
            info["unjudged_names"].append(base)
            continue
        for n in range(0, min(k, TLC_MAXLEN) + 1):
            by_name[name].append({"op": "Shipped", "name": name, "kind": kind, "n": n, "perms": [list(p) for p in indep[n]], "file": base})
            info["tlc_events"] += 1
        later.append((path, base, name, kind, k))
    return by_name, info, later


def shipped_impl(ctx, later, info, implmax):
    """Levels beyond TLC's reach, compared with the library's own predicate (weaker: implementation-side)."""
    rows_cache = {}
    for path, base, name, kind, k in later:
        if k <= TLC_MAXLEN:
            continue
        with open(path) as fh:
            raw = json.load(fh)
        for n in range(TLC_MAXLEN + 1, min(k, implmax) + 1):
            if (name, n) not in rows_cache:
                rows_cache[(name, n)] = {tuple(p): bool(REAL_PRED[name](p)) for p in map(Perm, itertools.permutations(range(n)))}
            truth = rows_cache[(name, n)]
            want = {p for p, v in truth.items() if v == (kind == "good")}
            lst = [tuple(p) for p in raw[str(n)]]
            ctx.case(("shipped-impl", base, n), nontrivial=True)
            info["impl_compared"] += 1
            if len(lst) != len(set(lst)) or set(lst) != want:
                wrong = sorted((set(lst) - want) | (want - set(lst)))[:4]
                ctx.violation({"kind": "shipped", "file": base, "n": n}, "ShippedPartition(implementation-side)",
                              "exactly the %d permutations of length %d with %s(p) == %s" % (len(want), n, name, kind == "good"),
                              {"listed": len(lst), "distinct": len(set(lst)), "wrong": wrong})
        for key in [x for x in rows_cache if x[0] != name]:
            del rows_cache[key]


def shipped_verdicts(ctx, name, events, v, known):
    for b in v["verdict"]:
        ev = events[b["i"] - 1]
        case = {"kind": "shipped", "file": ev["file"], "n": ev["n"]}
        if b["clause"] == "Known:" + KNOWN_DEV and known is not None:
            ctx.known_finding(known, {"file": ev["file"], "n": ev["n"], "listed": ev["perms"]})
            continue
        ctx.violation(case, "ShippedPartition", "exactly the permutations q of length %d with %s(q) == %s (module Persist)" % (
            ev["n"], name, ev["kind"] == "good"), {"listed": len(ev["perms"]), "wrong (listed xor defined)": b["w"],
                                                     "note": "equals the deviation %s" % KNOWN_DEV if b["clause"].startswith("Known:") else ""})


# ---- entry points ----------------------------------------------------------------------------------------
def run(ctx):
    try:
        _run(ctx)
    finally:
        drop_work_base(ctx)


def _run(ctx):
    quick = ctx.tier == "quick"
    rnd = util.rng(ctx, 20)
    phases, t0 = {}, [time.time()]

    def lap(what):
        phases[what] = round(time.time() - t0[0], 1)
        t0[0] = time.time()
        ctx.note("phase_seconds", phases)

    refs = Refs()
    for p in util.perms_of(2) + util.perms_of(3) + ([] if quick else [(1, 3, 0, 2)]):
        refs.get(p)
    selfcheck_equivalence(ctx, refs, [P021, P120, P012, P01], 8)
    known = ctx.known_entry(KNOWN_SITE, KNOWN_DEV)
    lap("reference automata + equivalence self-check")

    # the real code first (cheap): random histories and the scan of the shipped files
    tcfg = trace_cfg(quick)
    events = driver(ctx, tcfg, refs, rnd, 6 if quick else 40, 60 if quick else 120)
    events += doc_events(ctx, util.rng(ctx, 2011), quick)
    lap("random histories on the real code")
    cold_starts(ctx, refs, rnd, quick)
    lap("cold starts")
    by_name, info, later = shipped_scan(ctx)
    lap("shipped files: read with read_bisc_file and independently")

    # one batch of TLC runs, side by side
    cfgs = configs(quick)
    tmp = []
    jobs = [("LibSanity_Persist", util.cfg(init="Init", next_="Next"), {"timeout": 1500})]
    jobs += [edge_job(c) for c in cfgs]
    small = dict(cfgs[0], datasets=cfgs[0]["datasets"][:2], inits=[EMPTY])
    jobs.append(mutant_job(small, "append", "perm", "ReadYourLastWrite"))
    jobs.append(mutant_job(dict(cfgs[3], inits=[EMPTY]), "replace", "length", "LoadFaithful"))
    try:
        jobs.append(trace_job(tcfg, events, tmp))
        names = sorted(by_name)
        for name in names:
            jobs.append(trace_job(dict(cfgs[1], inits=[EMPTY]), by_name[name], tmp))
        with concurrent.futures.ThreadPoolExecutor(max_workers=1) as pool:
            batch = pool.submit(tlc.run_many, jobs, 16)
            # meanwhile (the JVMs run in their own processes): the longer levels of the shipped files
            shipped_impl(ctx, later, info, 8 if quick else 9)
            lap("shipped files: levels 7+ against the library's predicates (while TLC runs)")
            results = batch.result()
    finally:
        for p in tmp:
            os.unlink(p)
    lap("TLC batch (remaining wait)")
    ctx.add_tlc(results[0], "LibSanity_Persist: name table against known enumerations, file model, names")
    k = 1 + len(cfgs)
    for r, (mode, inv) in zip(results[k:k + 2], (("append", "ReadYourLastWrite"), ("length", "LoadFaithful"))):
        ctx.add_tlc(r, "wrong mechanism '%s': TLC must refute %s" % (mode, inv))
        if r.violated != inv:
            raise tlc.MachineryFailure("C20: invariant %s is not refuted in the '%s' mechanism (vacuous invariant?)" % (inv, mode))
    ctx.note("invariants_refuted_on_wrong_mechanisms", {"append": "ReadYourLastWrite", "length": "LoadFaithful"})

    # ---- spec -> code: the tours ----------------------------------------------------------------------------
    total = collections.Counter()
    for cfg, r in zip(cfgs, results[1:k]):
        ctx.add_tlc(r, "history machine, configuration '%s'" % cfg["label"])
        nedges, npaths, names_taken = replay_graph(ctx, cfg, r, refs)
        lap("tour replay '%s'" % cfg["label"])
        total.update(names_taken)
        ctx.note("graph_" + cfg["label"], {"states": r.distinct, "edges": nedges, "paths": npaths, "starts": len(cfg["inits"])})
        if cfg["label"] in ("files", "db"):
            recs = [x for x in r.records if "from" in x and x["act"]["name"] in ("WriteBisc", "LoadDfa")]
            ctx.sample({"machine": "C20_Files", "configuration": cfg["label"],
                        "edge": {kk: recs[len(recs) // 2][kk] for kk in ("from", "act", "reply", "to")}})
    ctx.note("calls_replayed", dict(total))
    # a fresh computation at the end of the run still has the language of the reference taken at the start
    for p in (P021, P120):
        if distinguishing_word([PinWords.make_dfa_for_perm(Perm(p))], [refs.get(p)]) is not None:
            ctx.violation({"kind": "fresh", "perm": p}, "LoadFaithful", "make_dfa_for_perm independent of history", "language changed during the run")
    ctx.exhaustive = True

    # ---- code -> spec: histories ---------------------------------------------------------------------------
    r = results[k + 2]
    check_tables(tcfg, r)          # the data sets of the histories (lengths 0..5), by the definitions of module Persist
    ctx.add_tlc(r, "random histories validated by Trace_C20")
    v = trace_verdict(r, events, "histories")
    ctx.traces += sum(1 for e in events if e["op"] == "Reset")
    ctx.case(n=len(events))
    for b in v["verdict"]:
        ev = events[b["i"] - 1]
        if ev["op"] in ("WriteDoc", "ReadDoc"):
            hist = [e for e in events[:b["i"]] if e["op"] in ("WriteDoc", "ReadDoc") and e["f"] == ev["f"]]
            ctx.violation({"kind": "documents", "events": hist[-6:]}, b["clause"], "the document last written to " + ev["f"], ev.get("res"))
            continue
        start = max(i for i in range(b["i"]) if events[i]["op"] == "Reset")
        hist = [{kk: vv for kk, vv in e.items() if kk != "proj"} for e in events[start:b["i"]]]
        ctx.violation({"kind": "history", "init": events[start]["init"], "events": hist[-40:]}, b["clause"], "the reply of the model (see clause)", ev.get("res"))
    for dnote in v["drift"][:5]:
        ctx.drift("trace event %d (%s): projection of %s differs from the model" % (dnote["i"], events[dnote["i"] - 1]["op"], dnote["what"]))
    ctx.sample({"machine": "Trace_C20", "events": [{kk: vv for kk, vv in e.items() if kk != "proj"} for e in events[1:4]]})

    # ---- shipped data ----------------------------------------------------------------------------------------
    for name, r in zip(names, results[k + 3:]):
        ctx.add_tlc(r, "shipped %s files, lengths <= %d, judged by the definition" % (name, TLC_MAXLEN))
        v = trace_verdict(r, by_name[name], "shipped " + name)
        for ev in by_name[name]:
            ctx.case(("shipped", ev["file"], ev["n"]), nontrivial=ev["n"] >= 3)
        shipped_verdicts(ctx, name, by_name[name], v, known)
    if info["files"] == 0 or info["tlc_events"] == 0:
        raise tlc.MachineryFailure("C20: no shipped data files found under %s" % REPO)
    ctx.note("shipped", {
        "files": info["files"], "zero_byte_files_reported_invalid (counted, not judged)": info["zero_byte_reported_invalid"],
        "judged_by_TLC (file, length<=6) events": info["tlc_events"],
        "implementation_side (file, length) comparisons": info["impl_compared"],
        "implementation_side_note": "lengths 7..%d compared with the library's own predicate functions: weaker, shares code with the "
                                    "subject; those predicates are verified against the definitions by C12" % (8 if quick else 9),
        "files_not_judged": info["unjudged_names"]})
    if by_name:
        ctx.sample({"machine": "Trace_C20", "event": {kk: vv for kk, vv in by_name[names[0]][3].items()}})
    ctx.rule = ("transition tours over every (state, call) edge of C20_Files in five configurations (files: 2 names x 2 data sets "
                "of one length; lengths: one name, data sets of lengths 3 and 2; mixed: data files and the automaton of one "
                "permutation; db: 2 permutations of length 3 stored / loaded / removed / united; db-create: "
                "create_dfa_db_for_length(2 and 3) around a tracked permutation), each from an empty and from a pre-populated "
                "directory, every data file read back after every step (non-trivial = not the first step of a path / a read that "
                "must return data after some history); random histories over 3 names, 4 data sets, 6 permutations judged by "
                "Trace_C20; every shipped file: one event per length <= 6 judged by the definition, lengths 7+ against the "
                "library's predicates")
    ctx.assumptions.append("file damage is what Corrupt produces (truncation, garbage, zero bytes, the document twice); well-formed JSON of "
                           "another shape and several documents on separate lines are outside the model")
    ctx.assumptions.append("automaton file names are injective for lengths <= 10 (LibSanity_Persist records the collision at length 11)")


def replay(ctx, path):
    with open(path) as fh:
        rec = json.load(fh)
    case = rec["case"]
    if case.get("kind") != "path":
        raise tlc.MachineryFailure("C20: %s cases are replayed by re-running the check (recomputed from the current tree)" % case.get("kind"))
    cfg = dict(case["config"])
    cfg["datasets"] = [tuple(d) for d in cfg["datasets"]]
    cfg["bases"] = [[tuple(p) for p in b] for b in cfg["bases"]]
    init = {"fs": {k: tuple(v) for k, v in case["init"]["fs"].items()}, "db": case["init"]["db"]}
    refs = Refs()
    for p in util.perms_of(2) + util.perms_of(3):
        refs.get(p)
    real = Real(ctx, cfg, refs)
    real.reset(init)
    failing = []
    try:
        for i, s in enumerate(case["steps"]):
            try:
                obs = real.do(s["act"])
            except NotRealisable:
                break
            except Exception as ex:  # pylint: disable=broad-except
                failing.append((i, "NoException", type(ex).__name__))
                break
            viol, _ = judge(real, s["act"], s["reply"], obs)
            failing += [(i, c, got) for c, _, got in viol]
    finally:
        real.close()
        drop_work_base(ctx)
    if failing:
        print("VIOLATION property=C20 replay=%s" % path)
        print("  still failing: %s" % failing[:3])
        return 1
    print("replay: case passes on the current tree")
    return 0
