"""C06 - pattern-inside-pattern containment is sound; the induced sub-pattern is the strongest.

spec -> code : every mesh pattern M2 of length <= 2 (plus sampled length 3) is a state of C06_MeshInMesh
               with, for every small pattern M1 of a fixed list, the occurrences of M1 in M2 and, for every
               point subset, the induced sub-pattern; TLC checks the meaning (pointwise soundness, strongest)
               over permutations; the real occurrences_in / contains / avoids / in / sub_mesh_pattern are compared.
code -> spec : reports of the real code on random pairs up to length 4 and the implied containment in
               permutations, judged by Trace_C06.
"""
import itertools
import json

from permuta import MeshPatt, Perm

from harness import tlc, util

INVS = ["TypeOK", "SubSound", "SubStrongest", "InMeshSound", "ClassicalAsUnshaded"]


def mkey(M):
    return (tuple(M.pattern), tuple(sorted(M.shading)))


def tla_mesh(p, R):
    return "[p |-> %s, R |-> {%s}]" % (tlc.tla(list(p)), ", ".join(tlc.tla(list(c)) for c in R))


def smalls(rnd, quick):
    out = [((), []), ((), [(0, 0)])]
    for R in itertools.chain.from_iterable(itertools.combinations([(0, 0), (0, 1), (1, 0), (1, 1)], r) for r in range(5)):
        out.append(((0,), list(R)))
    for p in ((0, 1), (1, 0)):
        out.append((p, []))
        for _ in range(5 if quick else 20):
            out.append((p, [(x, y) for x in range(3) for y in range(3) if rnd.random() < rnd.choice([0.15, 0.4])]))
    return out


def judge_state(ctx, rec, sm):
    M2 = MeshPatt(Perm(rec["p"]), [tuple(c) for c in rec["R"]])
    base = {"kind": "state", "p": rec["p"], "R": sorted(rec["R"])}
    hit = False
    for k, (p1, R1) in enumerate(sm):
        want = rec["occ"][k]
        variants = [("mesh", MeshPatt(Perm(p1), R1))]
        if not R1:
            variants.append(("classical", Perm(p1)))
        for vname, M1 in variants:
            st, got = util.call(lambda: sorted(list(t) for t in M1.occurrences_in(M2)))
            case = dict(base, small={"p": list(p1), "R": [list(c) for c in R1]}, form=vname)
            if st == "raise" or got != want:
                ctx.violation(case, "InMeshOccurrencesExact", want, got)
                continue
            n = len(want)
            obs = (M2.contains(M1), M2.avoids(M1), M1 in M2, M1.count_occurrences_in(M2), M1.contained_in(M2), M1.avoided_by(M2))
            exp = (n > 0, n == 0, n > 0, n, n > 0, n == 0)
            if obs != exp:
                ctx.violation(case, "PredicatesAgree", exp, obs)
        hit = hit or len(want) > 0
    # classical larger pattern viewed as unshaded
    if not rec["R"]:
        P2 = Perm(rec["p"])
        for k, (p1, R1) in enumerate(sm):
            st, got = util.call(lambda: sorted(list(t) for t in MeshPatt(Perm(p1), R1).occurrences_in(P2)))
            # in a permutation the mesh pattern's shading restricts by the other *points*: for P2 = pattern of M2
            # this is C03's business; here only the unshaded-in-unshaded case is compared
            if not R1 and (st == "raise" or got != rec["occ"][k]):
                ctx.violation(dict(base, small={"p": list(p1), "R": []}, form="in-classical"), "InMeshOccurrencesExact", rec["occ"][k], got)
    for s in rec["subs"]:
        want = (tuple(s["p"]), tuple(sorted(map(tuple, s["R"]))))
        for form in (list(s["S"]), list(reversed(s["S"])), iter(s["S"])):
            st, got = util.call(M2.sub_mesh_pattern, form)
            if st == "raise" or mkey(got) != want:
                ctx.violation(dict(base, S=s["S"]), "InducedSubPattern", want, mkey(got) if st == "ok" else got)
                break
    ctx.case(mkey(M2), nontrivial=hit and len(rec["R"]) > 0)


def rand_mesh(rnd, k, dens):
    return (util.rand_perm(rnd, k), [(x, y) for x in range(k + 1) for y in range(k + 1) if rnd.random() < dens])


def run(ctx):
    quick = ctx.tier == "quick"
    rnd = util.rng(ctx, 6)
    sm = smalls(rnd, quick)
    smdef = "<< " + ", ".join(tla_mesh(p, R) for p, R in sm) + " >>"
    nsh = 16
    jobs = []
    for s in range(nsh):
        k = {"Mode": '"mesh"', "MinMesh": 0, "MaxMesh": 2, "MaxPerm": 3 if quick else 4, "Shard": s, "NShards": nsh, "Sample": "{}",
             "Smalls": ("<-", "SmallsDef")}
        jobs.append(("MC_C06", util.cfg(init="Init", next_="Stutter", invariants=INVS + ["EmitState"], constants=k),
                     {"timeout": 3000, "files": {"MC_C06.tla": util.mc_module("MC_C06", "C06_MeshInMesh", {"SmallsDef": smdef})}}))
    # sampled larger patterns of length 3 (meaning checked on permutations up to 4)
    smp = [rand_mesh(rnd, 3, rnd.choice([0.2, 0.5, 0.8])) for _ in range(24 if quick else 240)]
    per = 6 if quick else 12
    for i in range(0, len(smp), per):
        sdef = "{" + ", ".join(tla_mesh(p, R) for p, R in smp[i:i + per]) + "}"
        k = {"Mode": '"sample"', "MinMesh": 0, "MaxMesh": 0, "MaxPerm": 4, "Shard": 0, "NShards": 1, "Sample": ("<-", "SampleDef"),
             "Smalls": ("<-", "SmallsDef")}
        jobs.append(("MC_C06", util.cfg(init="Init", next_="Stutter", invariants=INVS + ["EmitState"], constants=k),
                     {"timeout": 3000, "files": {"MC_C06.tla": util.mc_module("MC_C06", "C06_MeshInMesh", {"SmallsDef": smdef, "SampleDef": sdef})}}))
    results = tlc.run_many(jobs, parallel=16)
    n = 0
    for r in results:
        ctx.add_tlc(r, "universe shard")
        for rec in r.records:
            n += 1
            judge_state(ctx, rec, sm)
            if n % 307 == 0:
                ctx.sample({"machine": "C06_MeshInMesh", "p": rec["p"], "R": rec["R"], "subs": rec["subs"][:2], "occ_first": rec["occ"][:4]})
    if n != 1042 + len(smp):
        raise tlc.MachineryFailure("C06: %d states, expected %d" % (n, 1042 + len(smp)))
    ctx.exhaustive = True
    ctx.note("small_patterns", len(sm))

    # ---- code -> spec ---------------------------------------------------------------------
    events = []
    nrep = 0
    for _ in range(150 if quick else 1500):
        k2 = rnd.choice([2, 3, 3, 4])
        p2, R2 = rand_mesh(rnd, k2, rnd.choice([0.3, 0.6, 0.9]))
        k1 = rnd.randint(1, min(k2, 3))
        p1, R1 = rand_mesh(rnd, k1, rnd.choice([0.1, 0.3, 0.6]))
        M1, M2 = MeshPatt(Perm(p1), R1), MeshPatt(Perm(p2), R2)
        j1, j2 = [list(c) for c in R1], [list(c) for c in R2]
        res = sorted(list(t) for t in M1.occurrences_in(M2))
        events.append({"op": "Occ", "p1": list(p1), "R1": j1, "p2": list(p2), "R2": j2, "res": res})
        S = sorted(rnd.sample(range(k2), rnd.randint(0, k2)))
        Sb = M2.sub_mesh_pattern(S)
        events.append({"op": "Sub", "p": list(p2), "R": j2, "S": S, "resp": list(Sb.pattern), "resR": [list(c) for c in Sb.shading]})
        if res:
            nrep += 1
            for _ in range(3):
                q = util.rand_perm(rnd, rnd.randint(k2, 6))
                Q = Perm(q)
                events.append({"op": "Implies", "p1": list(p1), "R1": j1, "p2": list(p2), "R2": j2, "q": list(q),
                               "c2": Q.contains(M2), "c1": Q.contains(M1)})
    if nrep == 0:
        raise tlc.MachineryFailure("C06: no containment was ever reported by the real code in the random pairs")
    v = util.validate_trace(ctx, "Trace_C06", events, ntraces=len(events))
    ctx.case(n=len(events))
    ctx.sample({"machine": "Trace_C06", "events": events[:2]})
    for b in v["verdict"]:
        ev = events[b["i"] - 1]
        ctx.violation({"kind": "trace-event", "event": ev}, b["clause"], "value by definition / implication", ev)
    ctx.rule = ("every mesh pattern of length <= 2 (and sampled length 3) as the larger pattern, against a fixed list of "
                "small patterns and all point subsets; meaning (pointwise soundness, strongest) model-checked over "
                "permutations; non-trivial = shaded larger pattern with at least one reported occurrence; plus random "
                "pairs up to length 4 judged by Trace_C06")


def replay(ctx, path):
    rec = json.load(open(path))
    case = rec["case"]
    if case["kind"] != "state":
        raise tlc.MachineryFailure("trace events are replayed by re-running the check with the same VERIF_SEED")
    M2 = MeshPatt(Perm(case["p"]), [tuple(c) for c in case["R"]])
    events = []
    if "small" in case:
        M1 = MeshPatt(Perm(case["small"]["p"]), [tuple(c) for c in case["small"]["R"]])
        events.append({"op": "Occ", "p1": case["small"]["p"], "R1": case["small"]["R"], "p2": case["p"], "R2": case["R"],
                       "res": sorted(list(t) for t in M1.occurrences_in(M2))})
    if "S" in case:
        Sb = M2.sub_mesh_pattern(case["S"])
        events.append({"op": "Sub", "p": case["p"], "R": case["R"], "S": case["S"], "resp": list(Sb.pattern), "resR": [list(c) for c in Sb.shading]})
    v = util.validate_trace(ctx, "Trace_C06", events)
    if v["verdict"]:
        print("VIOLATION property=C06 replay=%s" % path)
        return 1
    print("replay: case passes on the current tree")
    return 0
