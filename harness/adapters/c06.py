"""C06 - pattern-inside-pattern containment is sound; the induced sub-pattern is the strongest.

spec -> code : every mesh pattern M2 of length <= 2 (plus sampled length 3) is a state of C06_MeshInMesh
               with, for every small pattern M1 of a fixed list, the occurrences of M1 in M2 and, for every
               point subset, the induced sub-pattern; TLC checks the meaning (pointwise soundness, strongest)
               over permutations; the real occurrences_in / contains / avoids / in / sub_mesh_pattern are compared.
code -> spec : reports of the real code on random pairs up to length 4 and the implied containment in
               permutations, judged by Trace_C06.
"""
import itertools
import json
import random

from permuta import MeshPatt, Perm

from harness import tlc, util

INVS = ["TypeOK", "SubSound", "SubStrongest", "InMeshSound", "ClassicalAsUnshaded", "SelfOccurs", "OccCompose"]


def mkey(M):
    return (tuple(M.pattern), tuple(sorted(M.shading)))


def tla_mesh(p, R):
    return "[p |-> %s, R |-> {%s}]" % (tlc.tla(list(p)), ", ".join(tlc.tla(list(c)) for c in R))


def smalls(rnd, quick):
    out = [((), []), ((), [(0, 0)])]
    for R in itertools.chain.from_iterable(itertools.combinations([(0, 0), (0, 1), (1, 0), (1, 1)], r) for r in range(5)):
        out.append(((0,), list(R)))
    for p in ((0, 1), (1, 0)):
        out.append((p, []))
        for _ in range(5 if quick else 20):
            out.append((p, [(x, y) for x in range(3) for y in range(3) if rnd.random() < rnd.choice([0.15, 0.4])]))
    return out


def index_forms(S, salt):
    """The same set of points handed over in different containers / orders."""
    S = list(S)
    sh = list(S)
    random.Random(salt).shuffle(sh)
    return [("list", list(S)), ("reversed list", list(reversed(S))), ("iterator", iter(S)), ("tuple", tuple(S)),
            ("set", set(S)), ("frozenset", frozenset(reversed(S))), ("generator", (i for i in sh)), ("shuffled list", sh),
            ("dict keys", dict.fromkeys(sh).keys()), ("range", range(S[0], S[-1] + 1)) if S and S == list(range(S[0], S[-1] + 1)) else ("map", map(int, sh)),
            ("reversed iterator", reversed(S))]


def judge_state(ctx, rec, sm, rnd=None):
    rnd = rnd or random.Random(len(rec["R"]))
    M2 = MeshPatt(Perm(rec["p"]), [tuple(c) for c in rec["R"]])
    base = {"kind": "state", "p": rec["p"], "R": sorted(rec["R"])}
    hit = False
    for k, (p1, R1) in enumerate(sm):
        want = rec["occ"][k]
        variants = [("mesh", MeshPatt(Perm(p1), R1))]
        if not R1:
            variants.append(("classical", Perm(p1)))
        for vname, M1 in variants:
            st, got = util.call(lambda: sorted(list(t) for t in M1.occurrences_in(M2)))
            case = dict(base, small={"p": list(p1), "R": [list(c) for c in R1]}, form=vname)
            if st == "raise" or got != want:
                ctx.violation(case, "InMeshOccurrencesExact", want, got)
                continue
            n = len(want)
            obs = (M2.contains(M1), M2.avoids(M1), M1 in M2, M1.count_occurrences_in(M2), M1.contained_in(M2), M1.avoided_by(M2))
            exp = (n > 0, n == 0, n > 0, n, n > 0, n == 0)
            if obs != exp:
                ctx.violation(case, "PredicatesAgree", exp, obs)
        hit = hit or len(want) > 0
    # classical larger pattern viewed as unshaded
    if not rec["R"]:
        P2 = Perm(rec["p"])
        for k, (p1, R1) in enumerate(sm):
            st, got = util.call(lambda: sorted(list(t) for t in MeshPatt(Perm(p1), R1).occurrences_in(P2)))
            # in a permutation the mesh pattern's shading restricts by the other *points*: for P2 = pattern of M2
            # this is C03's business; here only the unshaded-in-unshaded case is compared
            if not R1 and (st == "raise" or got != rec["occ"][k]):
                ctx.violation(dict(base, small={"p": list(p1), "R": []}, form="in-classical"), "InMeshOccurrencesExact", rec["occ"][k], got)
    # the pattern inside itself (as the same object and as an equal object)
    for form, other in (("same object", M2), ("equal object", MeshPatt(Perm(rec["p"]), [tuple(c) for c in reversed(rec["R"])]))):
        st, got = util.call(lambda: sorted(list(t) for t in other.occurrences_in(M2)))
        if st == "raise" or got != rec["self"] or not M2.contains(other) or M2.avoids(other):
            ctx.violation(dict(base, small="itself", form=form), "InMeshOccurrencesExact", rec["self"], got)
    subs = list(rec["subs"])
    for rnd_pass in range(2):                                    # the same object is asked again, in another order
        for s in subs:
            want = (tuple(s["p"]), tuple(sorted(map(tuple, s["R"]))))
            for fname, form in index_forms(s["S"], len(s["S"]) + rnd_pass):
                st, got = util.call(M2.sub_mesh_pattern, form)
                if st == "raise" or mkey(got) != want:
                    ctx.violation(dict(base, S=s["S"], form=fname, asked="again" if rnd_pass else "first"), "InducedSubPattern", want, mkey(got) if st == "ok" else got)
                    break
        rnd.shuffle(subs)
    # several patterns in one call; two searches alive at once on the same pair of objects; everything asked again
    objs = [MeshPatt(Perm(p1), R1) for p1, R1 in sm]
    for _ in range(4):
        ks = [rnd.randrange(len(sm)) for _ in range(rnd.randint(0, 3))]
        exp = (all(len(rec["occ"][k]) > 0 for k in ks), all(len(rec["occ"][k]) == 0 for k in ks))
        st, got = util.call(lambda: (M2.contains(*[objs[k] for k in ks]), M2.avoids(*[objs[k] for k in ks])))
        if st == "raise" or got != exp:
            ctx.violation(dict(base, smalls=[{"p": list(sm[k][0]), "R": [list(c) for c in sm[k][1]]} for k in ks]), "ContainsAvoidsAll", exp, got)
    ka, kb = rnd.randrange(len(sm)), rnd.randrange(len(sm))
    st, got = util.call(lambda: interleave(objs[ka].occurrences_in(M2), objs[kb].occurrences_in(M2), objs[ka].occurrences_in(M2)))
    exp = [rec["occ"][ka], rec["occ"][kb], rec["occ"][ka]]
    if st == "raise" or got != exp:
        ctx.violation(dict(base, small=[{"p": list(sm[k][0]), "R": [list(c) for c in sm[k][1]]} for k in (ka, kb)], form="three searches alive at once"),
                      "InMeshOccurrencesExact", exp, got)
    for k in (ka, kb):
        st, got = util.call(lambda: sorted(list(t) for t in objs[k].occurrences_in(M2)))
        if st == "raise" or got != rec["occ"][k]:
            ctx.violation(dict(base, small={"p": list(sm[k][0]), "R": [list(c) for c in sm[k][1]]}, form="asked again after the sub-patterns"),
                          "InMeshOccurrencesExact", rec["occ"][k], got)
    ctx.case(mkey(M2), nontrivial=hit and len(rec["R"]) > 0)


def interleave(*its):
    """Consume several lazy searches alternately; returns the sorted yields of each."""
    outs = [[] for _ in its]
    live = list(range(len(its)))
    while live:
        for i in list(live):
            try:
                outs[i].append(list(next(its[i])))
            except StopIteration:
                live.remove(i)
    return [sorted(o) for o in outs]


def rand_mesh(rnd, k, dens):
    return (util.rand_perm(rnd, k), [(x, y) for x in range(k + 1) for y in range(k + 1) if rnd.random() < dens])


def special_mesh(rnd, k):
    """Larger patterns with structure: fully shaded, unshaded, a fully shaded band (wide or tall), a sub-pattern
    that was planted (so that containment is reported), monotone / layered underlying permutations."""
    kind = rnd.randrange(6)
    p = util.rand_perm(rnd, k)
    if kind == 0:
        p = tuple(range(k)) if rnd.random() < 0.5 else tuple(reversed(range(k)))
    cells = [(x, y) for x in range(k + 1) for y in range(k + 1)]
    if kind == 1:
        return p, cells
    if kind == 2:
        return p, []
    if kind == 3:                                        # a band: columns a..b x rows c..d fully shaded, rest sparse
        a, b = sorted((rnd.randint(0, k), rnd.randint(0, k)))
        c = rnd.randint(0, k)
        d = min(k, c + rnd.choice([0, 1, 1, 2]))
        if rnd.random() < 0.5:
            band = {(x, y) for x in range(a, b + 1) for y in range(c, d + 1)}
        else:
            band = {(y, x) for x in range(a, b + 1) for y in range(c, d + 1)}
        return p, sorted(band | {cc for cc in cells if rnd.random() < 0.15})
    dens = rnd.choice([0.3, 0.6, 0.9, 0.97])
    return p, [cc for cc in cells if rnd.random() < dens]


def larger_events(ctx, rnd, quick, events):
    """code -> spec beyond the exhaustive bound: larger patterns of length 4-6 (sampled / structured shadings), smaller
    ones up to length 4, boundary point subsets in every container form, a pattern inside itself, several patterns
    in one call, the same objects asked repeatedly and with several searches alive; judged by Trace_C06."""
    nrep = 0
    for it in range(120 if quick else 1200):
        k2 = rnd.choice([4, 5, 5, 6, 6])
        p2, R2 = special_mesh(rnd, k2)
        M2 = MeshPatt(Perm(p2), R2)
        j2 = [list(c) for c in R2]
        # point subsets: boundary ones, everything, nothing, random; in a random container form
        cand = [[], list(range(k2)), [0], [k2 - 1], [0, k2 - 1], [p2.index(0)], [p2.index(k2 - 1)], list(range(1, k2)), list(range(k2 - 1))]
        cand += [sorted(rnd.sample(range(k2), rnd.randint(1, k2 - 1))) for _ in range(3)]
        subs = []
        for S in cand:
            fname, form = rnd.choice(index_forms(S, it))
            st, Sb = util.call(M2.sub_mesh_pattern, form)
            if st == "raise":
                ctx.violation({"kind": "trace-form", "p": list(p2), "R": j2, "S": S, "form": fname}, "InducedSubPattern", "a pattern", {"raised": Sb})
                continue
            events.append({"op": "Sub", "p": list(p2), "R": j2, "S": S, "form": fname, "resp": list(Sb.pattern), "resR": [list(c) for c in Sb.shading]})
            subs.append((S, Sb))
        # smaller patterns: the induced sub-patterns themselves (weakened or not), M2 itself, random ones, classical ones
        smalls = []
        for S, Sb in subs[:: 3]:
            if len(S) <= 4:
                keep = [c for c in sorted(Sb.shading) if rnd.random() < rnd.choice([1.0, 0.7])]
                smalls.append((tuple(Sb.pattern), keep))
        smalls.append((p2, R2))
        k1 = rnd.randint(1, 4)
        smalls.append(rand_mesh(rnd, k1, rnd.choice([0.0, 0.1, 0.3])))
        smalls.append((util.rand_perm(rnd, rnd.randint(1, 3)), []))
        smalls.append(((), [(0, 0)] if it % 2 else []))                      # the empty pattern, shaded or not
        objs = []
        for p1, R1 in smalls:
            M1 = MeshPatt(Perm(p1), R1) if (R1 or rnd.random() < 0.5) else Perm(p1)
            objs.append(M1)
            j1 = [list(c) for c in R1]
            st, got = util.call(lambda: interleave(M1.occurrences_in(M2), M1.occurrences_in(M2)))
            if st == "raise" or got[0] != got[1]:
                ctx.violation({"kind": "trace-form", "p1": list(p1), "R1": j1, "p2": list(p2), "R2": j2, "form": "two searches alive at once"},
                              "InMeshOccurrencesExact", "the same occurrences from both searches", got)
                continue
            res = got[0]
            events.append({"op": "Occ", "p1": list(p1), "R1": j1, "p2": list(p2), "R2": j2, "res": res})
            if res and (p1, R1) != (p2, R2):
                nrep += 1
                for _ in range(2):
                    q = util.rand_perm(rnd, rnd.randint(k2, 7))
                    if rnd.random() < 0.5:                 # a permutation that does contain the larger pattern
                        q = tuple(Perm(p2).inflate([Perm((0,))] * k2)) if R2 and len(R2) == (k2 + 1) ** 2 else q
                    Q = Perm(q)
                    events.append({"op": "Implies", "p1": list(p1), "R1": j1, "p2": list(p2), "R2": j2, "q": list(q),
                                   "c2": Q.contains(M2), "c1": Q.contains(MeshPatt(Perm(p1), R1))})
        for _ in range(2):
            ks = [rnd.randrange(len(smalls)) for _ in range(rnd.choice([0, 1, 2, 2, 3]))]
            st, got = util.call(lambda: (M2.contains(*[objs[k] for k in ks]), M2.avoids(*[objs[k] for k in ks])))
            if st == "raise":
                ctx.violation({"kind": "trace-form", "p2": list(p2), "R2": j2, "form": "contains/avoids(*patts)"}, "ContainsAvoidsAll", "two booleans", {"raised": got})
                continue
            events.append({"op": "All", "ms": [{"p": list(smalls[k][0]), "R": [list(c) for c in smalls[k][1]]} for k in ks],
                           "p2": list(p2), "R2": j2, "contains": got[0], "avoids": got[1]})
    return nrep


def sparse_large_events(ctx, rnd, quick, events):
    """Patterns of 8-12 points with very few shaded cells, among them the four cells around a point (a fully shaded block
    that is not point free): sub-patterns on index sets that leave that point out / keep it, and the pattern inside itself."""
    for it in range(30 if quick else 300):
        k = rnd.choice([8, 8, 9, 10, 12])
        p = util.rand_perm(rnd, k) if it % 3 else tuple(range(k))
        R = set()
        pts = rnd.sample(range(k), rnd.randint(1, 2))
        for i in pts:                                         # the block of cells around point i (all four, or three of them)
            block = [(i, p[i]), (i + 1, p[i]), (i, p[i] + 1), (i + 1, p[i] + 1)]
            R.update(block if rnd.random() < 0.7 else rnd.sample(block, 3))
        if rnd.random() < 0.5:
            R.add((rnd.randint(0, k), rnd.randint(0, k)))
        R = sorted(R)
        M = MeshPatt(Perm(p), R)
        j = [list(c) for c in R]
        rest = [x for x in range(k) if x not in pts]
        for S in (rest, sorted(rest + pts[:1]), rest[1:], list(range(k)), sorted(rnd.sample(range(k), k - 2))):
            fname, form = rnd.choice(index_forms(S, it))
            st, Sb = util.call(M.sub_mesh_pattern, form)
            if st == "raise":
                ctx.violation({"kind": "trace-form", "p": list(p), "R": j, "S": S, "form": fname}, "InducedSubPattern", "a pattern", {"raised": Sb})
                continue
            events.append({"op": "Sub", "p": list(p), "R": j, "S": S, "form": fname, "resp": list(Sb.pattern), "resR": [list(c) for c in Sb.shading]})


def weak_hash_events(ctx):
    """Run in the weak-hash interpreter (harness/weakhash.py): sub-patterns and pattern-in-pattern searches on patterns that
    share a few hash values, many with the same underlying permutation and the same index sets, in one process."""
    rnd = util.rng(ctx, 66)
    events = []
    for _ in range(40):
        k2 = rnd.choice([3, 3, 4])
        p2 = util.rand_perm(rnd, k2)
        Ss = [sorted(rnd.sample(range(k2), rnd.randint(1, k2))) for _ in range(3)]
        for _ in range(6):                               # several shadings of one permutation, the same index sets
            R2 = [(a, b) for a in range(k2 + 1) for b in range(k2 + 1) if rnd.random() < 0.45]
            M2 = MeshPatt(Perm(p2), R2)
            j2 = [list(c) for c in R2]
            for S in Ss:
                Sb = M2.sub_mesh_pattern(S)
                events.append({"op": "Sub", "p": list(p2), "R": j2, "S": S, "resp": list(Sb.pattern), "resR": [list(c) for c in Sb.shading]})
            p1, R1 = rand_mesh(rnd, rnd.randint(1, 2), rnd.choice([0.1, 0.3]))
            res = sorted(list(t) for t in MeshPatt(Perm(p1), R1).occurrences_in(M2))
            events.append({"op": "Occ", "p1": list(p1), "R1": [list(c) for c in R1], "p2": list(p2), "R2": j2, "res": res})
            events.append({"op": "Occ", "p1": list(p2), "R1": j2, "p2": list(p2), "R2": j2, "res": sorted(list(t) for t in M2.occurrences_in(M2))})
    larger_events(ctx, rnd, True, events)
    return events


def run(ctx):
    quick = ctx.tier == "quick"
    rnd = util.rng(ctx, 6)
    weak = util.weak_hash_start(ctx, "c06", "weak_hash_events")
    sm = smalls(rnd, quick)
    smdef = "<< " + ", ".join(tla_mesh(p, R) for p, R in sm) + " >>"
    nsh = 16
    jobs = []
    for s in range(nsh):
        k = {"Mode": '"mesh"', "MinMesh": 0, "MaxMesh": 2, "MaxPerm": 3 if quick else 4, "Shard": s, "NShards": nsh, "Sample": "{}",
             "Smalls": ("<-", "SmallsDef")}
        jobs.append(("MC_C06", util.cfg(init="Init", next_="Stutter", invariants=INVS + ["EmitState"], constants=k),
                     {"timeout": 3000, "files": {"MC_C06.tla": util.mc_module("MC_C06", "C06_MeshInMesh", {"SmallsDef": smdef})}}))
    # sampled larger patterns of length 3 (meaning checked on permutations up to 4)
    smp = [rand_mesh(rnd, 3, rnd.choice([0.2, 0.5, 0.8])) for _ in range(24 if quick else 240)]
    per = 6 if quick else 12
    for i in range(0, len(smp), per):
        sdef = "{" + ", ".join(tla_mesh(p, R) for p, R in smp[i:i + per]) + "}"
        k = {"Mode": '"sample"', "MinMesh": 0, "MaxMesh": 0, "MaxPerm": 4, "Shard": 0, "NShards": 1, "Sample": ("<-", "SampleDef"),
             "Smalls": ("<-", "SmallsDef")}
        jobs.append(("MC_C06", util.cfg(init="Init", next_="Stutter", invariants=INVS + ["EmitState"], constants=k),
                     {"timeout": 3000, "files": {"MC_C06.tla": util.mc_module("MC_C06", "C06_MeshInMesh", {"SmallsDef": smdef, "SampleDef": sdef})}}))
    results = tlc.run_many(jobs, parallel=16)
    n = 0
    for r in results:
        ctx.add_tlc(r, "universe shard")
        for rec in r.records:
            n += 1
            judge_state(ctx, rec, sm, rnd)
            if n % 307 == 0:
                ctx.sample({"machine": "C06_MeshInMesh", "p": rec["p"], "R": rec["R"], "subs": rec["subs"][:2], "occ_first": rec["occ"][:4]})
    if n != 1042 + len(smp):
        raise tlc.MachineryFailure("C06: %d states, expected %d" % (n, 1042 + len(smp)))
    ctx.exhaustive = True
    ctx.note("small_patterns", len(sm))

    # ---- code -> spec ---------------------------------------------------------------------
    events = []
    nrep = 0
    for _ in range(150 if quick else 1500):
        k2 = rnd.choice([2, 3, 3, 4])
        p2, R2 = rand_mesh(rnd, k2, rnd.choice([0.3, 0.6, 0.9]))
        k1 = rnd.randint(1, min(k2, 3))
        p1, R1 = rand_mesh(rnd, k1, rnd.choice([0.1, 0.3, 0.6]))
        M1, M2 = MeshPatt(Perm(p1), R1), MeshPatt(Perm(p2), R2)
        j1, j2 = [list(c) for c in R1], [list(c) for c in R2]
        res = sorted(list(t) for t in M1.occurrences_in(M2))
        events.append({"op": "Occ", "p1": list(p1), "R1": j1, "p2": list(p2), "R2": j2, "res": res})
        S = sorted(rnd.sample(range(k2), rnd.randint(0, k2)))
        Sb = M2.sub_mesh_pattern(S)
        events.append({"op": "Sub", "p": list(p2), "R": j2, "S": S, "resp": list(Sb.pattern), "resR": [list(c) for c in Sb.shading]})
        if res:
            nrep += 1
            for _ in range(3):
                q = util.rand_perm(rnd, rnd.randint(k2, 6))
                Q = Perm(q)
                events.append({"op": "Implies", "p1": list(p1), "R1": j1, "p2": list(p2), "R2": j2, "q": list(q),
                               "c2": Q.contains(M2), "c1": Q.contains(M1)})
    nrep += larger_events(ctx, rnd, quick, events)
    sparse_large_events(ctx, rnd, quick, events)
    events += util.weak_hash_finish(ctx, weak, "c06")
    if nrep == 0:
        raise tlc.MachineryFailure("C06: no containment was ever reported by the real code in the random pairs")
    v = util.validate_trace(ctx, "Trace_C06", events, ntraces=len(events))
    ctx.case(n=len(events))
    ctx.sample({"machine": "Trace_C06", "events": events[:2]})
    for b in v["verdict"]:
        ev = events[b["i"] - 1]
        ctx.violation({"kind": "trace-event", "event": ev}, b["clause"], "value by definition / implication", ev)
    ctx.rule = ("every mesh pattern of length <= 2 (and sampled length 3) as the larger pattern, against a fixed list of "
                "small patterns and all point subsets; meaning (pointwise soundness, strongest) model-checked over "
                "permutations; non-trivial = shaded larger pattern with at least one reported occurrence; plus random "
                "pairs up to length 4 judged by Trace_C06")


def replay(ctx, path):
    rec = json.load(open(path))
    case = rec["case"]
    if case["kind"] != "state":
        raise tlc.MachineryFailure("trace events are replayed by re-running the check with the same VERIF_SEED")
    M2 = MeshPatt(Perm(case["p"]), [tuple(c) for c in case["R"]])
    events = []
    smalls = case.get("small")
    if smalls == "itself":
        smalls = {"p": case["p"], "R": case["R"]}
    for sm1 in ([smalls] if isinstance(smalls, dict) else smalls or []):
        M1 = MeshPatt(Perm(sm1["p"]), [tuple(c) for c in sm1["R"]])
        events.append({"op": "Occ", "p1": sm1["p"], "R1": sm1["R"], "p2": case["p"], "R2": case["R"],
                       "res": sorted(list(t) for t in M1.occurrences_in(M2))})
    if "smalls" in case:
        objs = [MeshPatt(Perm(m["p"]), [tuple(c) for c in m["R"]]) for m in case["smalls"]]
        events.append({"op": "All", "ms": case["smalls"], "p2": case["p"], "R2": case["R"], "contains": M2.contains(*objs), "avoids": M2.avoids(*objs)})
    if "S" in case:
        Sb = M2.sub_mesh_pattern(case["S"])
        events.append({"op": "Sub", "p": case["p"], "R": case["R"], "S": case["S"], "resp": list(Sb.pattern), "resR": [list(c) for c in Sb.shading]})
    v = util.validate_trace(ctx, "Trace_C06", events)
    if v["verdict"]:
        print("VIOLATION property=C06 replay=%s" % path)
        return 1
    print("replay: case passes on the current tree")
    return 0
