"""C15 - the basis automaton accepts exactly the pin sequences containing a basis element.

The implementation's automata (from scratch and assembled from the on-disk database) are exported as
transition tables into a generated TLA+ module; TLC runs them in product with the pin machine over all words
of the pin-sequence language up to a bound (invariant: accept iff the encoded permutation contains a basis
element), checks language equivalence of that table with the tables of the automata obtained in other ways (database,
another database directory filled in another order, asked again, basis reordered / with repetitions, make_dfa_for_perm)
on the (finite) product graph, and decides the finiteness verdict as a graph property of the table;
has_finite_pinperms - in several argument forms, twice, with and without the database - is compared with it.
code -> spec: accepts_input of the real automata on the empty word, single letters and random longer direction words,
judged by Trace_C15.
"""
import concurrent.futures
import itertools
import json
import os
import re
import subprocess
import sys
import threading
import time

from permuta import Perm
from permuta.permutils.pin_words import PinWords

from harness import tlc, util

DIRS = "UDLR"


class TableDFA:
    """An automaton received as its exported table (built by another interpreter)."""
    def __init__(self, tab):
        self.tab = (tab[0], tab[1], list(tab[2]), tab[3])
        self.states = range(tab[0])

    def accepts_input(self, w):
        _, rows, fin, q = self.tab
        for ch in w:
            q = rows[q - 1][ch]
        return q in fin


# another interpreter, started with a different seed for the hashes of strings (pin words and automaton states live in
# sets and dictionaries keyed by strings): it builds the automaton of every basis of the list and sends the tables
CHILD = r"""
import json, sys
from permuta import Perm
from permuta.permutils.pin_words import PinWords
DIRS = "UDLR"
def export(dfa):
    states = sorted(dfa.states, key=repr)
    idx = {s: i + 1 for i, s in enumerate(states)}
    dead = None
    rows = []
    for s in states:
        row = {}
        for d in DIRS:
            t = dfa.transitions.get(s, {}).get(d)
            if t is None:
                if dead is None:
                    dead = len(states) + 1
                row[d] = dead
            else:
                row[d] = idx[t]
        rows.append(row)
    n = len(states)
    if dead is not None:
        rows.append({d: dead for d in DIRS})
        n += 1
    return n, rows, sorted(idx[s] for s in dfa.final_states), idx[dfa.initial_state]
for line in sys.stdin:
    basis = json.loads(line)
    try:
        out = {"tab": export(PinWords.make_dfa_for_basis([Perm(p) for p in basis]))}
    except Exception as e:
        out = {"raise": type(e).__name__ + ": " + str(e)[:80]}
    print(json.dumps(out), flush=True)
"""


def start_child(ctx, bl):
    env = dict(os.environ, PYTHONHASHSEED=str(1 + (ctx.seed * 7919 + 15) % 4000000007 % 4294967294))
    proc = subprocess.Popen([sys.executable, "-c", CHILD], stdin=subprocess.PIPE, stdout=subprocess.PIPE, stderr=subprocess.PIPE, text=True, env=env)

    def feed():
        try:
            for basis in bl:
                proc.stdin.write(json.dumps([list(p) for p in basis]) + "\n")
            proc.stdin.close()
        except OSError:
            pass
    threading.Thread(target=feed, daemon=True).start()
    return proc, env["PYTHONHASHSEED"]


def export(dfa):
    """DFA -> (n, delta rows, finals, init) with states renumbered 1..n and a dead state for missing moves."""
    if isinstance(dfa, TableDFA):
        return dfa.tab
    states = sorted(dfa.states, key=repr)
    idx = {s: i + 1 for i, s in enumerate(states)}
    dead = None
    rows = []
    for s in states:
        row = {}
        for d in DIRS:
            t = dfa.transitions.get(s, {}).get(d)
            if t is None:
                if dead is None:
                    dead = len(states) + 1
                row[d] = dead
            else:
                row[d] = idx[t]
        rows.append(row)
    n = len(states)
    if dead is not None:
        rows.append({d: dead for d in DIRS})
        n += 1
    return n, rows, sorted(idx[s] for s in dfa.final_states), idx[dfa.initial_state]


def tla_table(prefix, tab):
    n, rows, fin, init = tab
    delta = "<< " + ", ".join("[" + ", ".join('%s |-> %d' % (d, r[d]) for d in DIRS) + "]" for r in rows) + " >>"
    # records indexed by field name: DfaDelta[q][d] with d a string -> use a function on the strings
    delta = "<< " + ", ".join("(" + " @@ ".join('("%s" :> %d)' % (d, r[d]) for d in DIRS) + ")" for r in rows) + " >>"
    return {prefix + "NDef": str(n), prefix + "DeltaDef": delta, prefix + "FinalDef": "{" + ", ".join(map(str, fin)) + "}",
            prefix + "InitDef": str(init)}


def tla_tables(prefix, tabs):
    """A sequence of exported tables (the constants Dfa2* of C15_PinLanguage)."""
    one = [tla_table("X", t) for t in tabs]
    seq = lambda key: "<< " + ", ".join(o["X" + key] for o in one) + " >>"
    return {prefix + "NDef": seq("NDef"), prefix + "DeltaDef": seq("DeltaDef"), prefix + "FinalDef": seq("FinalDef"), prefix + "InitDef": seq("InitDef")}


def bases(rnd, quick):
    out = []
    for n in (1, 2, 3):
        for p in util.perms_of(n):
            out.append([p])
    s4 = util.perms_of(4)
    rnd.shuffle(s4)
    out += [[p] for p in (s4[:6] if quick else s4)]
    s3 = util.perms_of(3)
    pairs = list(itertools.combinations(s3, 2))
    rnd.shuffle(pairs)
    out += [list(pr) for pr in (pairs[:5] if quick else pairs)]
    out += [[(0, 1, 2), (2, 1, 0)], [(1, 3, 0, 2), (2, 0, 3, 1)], [(0, 2, 1), (2, 0, 1, 3)], [(1, 0), (0, 1, 2)]]
    # bases given in an order that is neither sorted nor grouped by length (the automaton must not depend on it)
    out += [[(1, 3, 0, 2), (0, 1, 2), (2, 1, 0, 3)], [(2, 0, 3, 1), (1, 0, 2), (0, 1, 2, 3), (2, 1, 0)]]
    for _ in range(2 if quick else 12):
        b = [util.rand_perm(rnd, 4), util.rand_perm(rnd, 3), util.rand_perm(rnd, 4)]
        if len(set(b)) == 3:
            out.append(b)
    # a basis whose first element is not a pin permutation (they exist from length 6 on), followed by a small one
    out.append(DB_LONG[0])
    out.append([(1, 2, 5, 0, 3, 4), (0, 2, 1)])
    out.append([(0, 2, 1), (1, 2, 5, 0, 3, 4)])
    if not quick:
        for _ in range(20):
            out.append([util.rand_perm(rnd, rnd.choice([3, 4, 4, 5])) for _ in range(rnd.randint(2, 3))])
    if not quick:
        # elements of length 7 (the table of all pin words of length 7 costs a minute): pin permutations that are direct or
        # skew sums with two components of more than one point, and simple ones; alone and next to a short element
        table7 = PinWords.perm_to_pinword_mapping(7)
        pins7 = sorted(p for p in table7 if table7[p])
        split = [p for p in pins7 if any(sum(len(c) > 1 for c in comp) >= 2 for comp in (p.sum_decomposition(), p.skew_decomposition()))]
        simple7 = [p for p in pins7 if p.is_simple()]
        # two components of three or more points each: few such pin permutations exist, most of them are taken
        big2 = [p for p in pins7 if any(sum(len(c) >= 3 for c in comp) >= 2 for comp in (p.sum_decomposition(), p.skew_decomposition()))]
        for pool, take in ((split, 4), (simple7, 4), (big2, 16)):
            for p in rnd.sample(pool, min(take, len(pool))):
                out.append([tuple(p)])
                out.append([tuple(p), rnd.choice(util.perms_of(3))])
    # repeated elements; an element contained in another one (listed before and after it); degenerate bases
    out += [[(0, 2, 1), (0, 2, 1)], [(1, 0, 2), (0, 1, 2), (1, 0, 2)], [(0, 1), (0, 2, 1)], [(0, 3, 2, 1), (0, 2, 1)],
            [(2, 0, 1), (1, 3, 0, 2), (2, 0, 1), (0, 1)], [], [()], [(), (0, 1)]]
    # elements of length 5
    s5 = util.perms_of(5)
    out.append([rnd.choice(s5)])
    out.append([(2, 0, 4, 1, 3), (0, 1, 2)])
    if not quick:
        out += [[p] for p in rnd.sample(s5, 24)]
        out += [[(1, 3, 0, 4, 2), (2, 0, 4, 1, 3)], [(0, 1, 2, 3, 4), (4, 3, 2, 1, 0)], [(0, 1, 2, 3, 4), (2, 1, 0), (0, 1, 2, 3, 4)]]
        for _ in range(12):
            a = rnd.choice(s5)
            out.append([a, rnd.choice(util.perms_of(4)), tuple(Perm(a).remove(rnd.randrange(5)))])   # third contained in first
    return out


# bases whose elements all have length 6 (the smallest one in the library's order is not a pin permutation), also asked through the
# database: the stored automaton of a permutation without pin words accepts nothing, the others must still count
DB_LONG = [[(1, 2, 5, 0, 3, 4), (1, 3, 0, 5, 2, 4)], [(1, 3, 0, 5, 2, 4), (1, 2, 5, 0, 3, 4)]]


def clear_load_cache():
    f = getattr(PinWords.load_dfa_for_perm, "cache_clear", None)
    if f is not None:
        f()
    return f is not None


def dir_words(rnd, n):
    w = rnd.choice(DIRS)
    while len(w) < n:
        w += rnd.choice("LR" if w[-1] in "UD" else "UD")
    return w


def run(ctx):
    quick = ctx.tier == "quick"
    rnd = util.rng(ctx, 15)
    bl = bases(rnd, quick)
    maxword = 8 if quick else 10
    meta, events, evmeta = [], [], []
    clear_load_cache()
    home = os.getcwd()
    t0 = time.time()
    # a second database directory, filled beforehand with whole lengths (longest first)
    other = os.path.join(home, "db-other")
    os.makedirs(other)
    os.chdir(other)
    try:
        for n in range(3 if quick else 4, -1, -1):
            st, err = util.call(PinWords.create_dfa_db_for_length, n)
            if st == "raise":
                ctx.violation({"kind": "database", "length": n}, "NoException", "create_dfa_db_for_length fills the database", err)
    finally:
        os.chdir(home)
    pool = concurrent.futures.ThreadPoolExecutor(max_workers=16)
    child, child_seed = start_child(ctx, bl)
    ctx.note("second_interpreter_string_hash_seed", child_seed)
    try:
        for bi, basis in enumerate(bl):
            B = [Perm(p) for p in basis]
            case = {"kind": "basis", "basis": [list(p) for p in basis]}
            line = child.stdout.readline()
            if not line:
                raise tlc.MachineryFailure("C15: the second interpreter stopped: " + child.stderr.read()[-300:])
            from_child = json.loads(line)
            st, fresh = util.call(PinWords.make_dfa_for_basis, list(B))
            if st == "raise":
                ctx.violation(dict(case, form="make_dfa_for_basis"), "NoException", "an automaton", fresh)
                continue
            use_db = all(len(p) <= (3 if quick else 4) for p in basis) or basis in DB_LONG

            def other_db(X=B):
                """The database of another directory, filled beforehand (whole lengths, longest first), the elements stored
                again from the largest down, the load cache forgotten; the basis given reversed."""
                os.chdir(other)
                try:
                    for p in sorted(X, reverse=True):
                        PinWords.store_dfa_for_perm(p)
                    clear_load_cache()
                    return PinWords.make_dfa_for_basis_from_db(list(reversed(X)))
                finally:
                    os.chdir(home)
            # the automaton of the same basis obtained in other ways: all must have the language of `fresh`
            always = [("basis reversed, from pinwords", lambda X=B: PinWords.make_dfa_for_basis_from_pinwords(list(reversed(X))))]
            extra = [("from pinwords, asked again", lambda X=B: PinWords.make_dfa_for_basis_from_pinwords(list(X))),
                     ("make_dfa_for_basis(basis, False)", lambda X=B: PinWords.make_dfa_for_basis(list(X), False))]
            if B:
                extra.append(("first element repeated at the end", lambda X=B: PinWords.make_dfa_for_basis(list(X) + [X[0]])))
                extra.append(("shuffled", lambda X=B: PinWords.make_dfa_for_basis(rnd.sample(list(X), len(X)))))
            if len(B) == 1:
                always.append(("make_dfa_for_perm", lambda X=B: PinWords.make_dfa_for_perm(X[0])))
            if use_db:
                always.append(("db", lambda X=B: PinWords.make_dfa_for_basis_from_db(list(X))))
                always.append(("db of another directory filled beforehand by create_dfa_db_for_length, load cache cleared", other_db))
                extra += [("db, asked again", lambda X=B: PinWords.make_dfa_for_basis_from_db(list(X))),
                          ("make_dfa_for_basis(use_db=True), basis reversed", lambda X=B: PinWords.make_dfa_for_basis(list(reversed(X)), use_db=True)),
                          ("db, asked again after the other directory was used", lambda X=B: PinWords.make_dfa_for_basis_from_db(list(X)))]
            if quick:
                extra = [extra[bi % len(extra)]] if extra else []
            variants = []
            if "raise" in from_child:
                ctx.violation(dict(case, form="make_dfa_for_basis in an interpreter with PYTHONHASHSEED=" + child_seed), "NoException", "an automaton", from_child["raise"])
            else:
                variants.append(("built by an interpreter with another string hash seed", TableDFA(from_child["tab"])))
            for name, mk in always + extra:
                st, d = util.call(mk)
                if st == "raise":
                    ctx.violation(dict(case, form=name), "NoException", "an automaton", d)
                else:
                    variants.append((name, d))
            defs = {"BasisDef": "{" + ", ".join(tlc.tla(list(p)) for p in set(basis)) + "}"}
            defs.update(tla_table("A", export(fresh)))
            defs.update(tla_tables("B", [export(d) for _, d in variants]))
            mod = util.mc_module("MC_C15", "C15_PinLanguage", defs)
            consts = {"Basis": ("<-", "BasisDef"), "MaxWord": maxword,
                      "DfaN": ("<-", "ANDef"), "DfaDelta": ("<-", "ADeltaDef"), "DfaFinal": ("<-", "AFinalDef"), "DfaInit": ("<-", "AInitDef"),
                      "Dfa2N": ("<-", "BNDef"), "Dfa2Delta": ("<-", "BDeltaDef"), "Dfa2Final": ("<-", "BFinalDef"), "Dfa2Init": ("<-", "BInitDef")}
            c1 = util.cfg(init="Init", next_="Next", invariants=["AcceptsIffContains", "EmitVerdict", "EmitRejected"], view="FullView",
                          constants=dict(consts, Mode='"semantic"'))
            c2 = util.cfg(init="Init", next_="Next", invariants=["DbEquivalent"], view="PairView", constants=dict(consts, Mode='"equiv"'))
            kw = {"files": {"MC_C15.tla": mod}, "timeout": 3000, "allow_violation": True}
            fsem = pool.submit(tlc.run_tlc, "MC_C15", c1, **kw)
            feq = pool.submit(tlc.run_tlc, "MC_C15", c2, **kw)
            # the finiteness answer, asked in several ways (judged below against TLC's verdict on the exported table)
            forms = [("fresh", lambda X=B: PinWords.has_finite_pinperms(list(X))),
                     ("given dfa", lambda X=B, d=fresh: PinWords.has_finite_pinperms(list(X), dfa=d))]
            more = [("fresh, asked again", lambda X=B: PinWords.has_finite_pinperms(list(X))),
                    ("basis reversed", lambda X=B: PinWords.has_finite_pinperms(list(reversed(X)))),
                    ("frozenset", lambda X=B: PinWords.has_finite_pinperms(frozenset(X))),
                    ("tuple, use_db=False", lambda X=B: PinWords.has_finite_pinperms(tuple(X), use_db=False)),
                    ("given dfa, positional", lambda X=B, d=fresh: PinWords.has_finite_pinperms(list(X), False, d))]
            if B:
                more.append(("an element repeated", lambda X=B: PinWords.has_finite_pinperms([X[-1]] + list(X))))
            if use_db:
                forms.append(("db", lambda X=B: PinWords.has_finite_pinperms(list(X), use_db=True)))
                more += [("db, asked again", lambda X=B: PinWords.has_finite_pinperms(list(X), use_db=True)),
                         ("db, positional, basis reversed", lambda X=B: PinWords.has_finite_pinperms(list(reversed(X)), True)),
                         ("fresh after db", lambda X=B: PinWords.has_finite_pinperms(list(X)))]
            if quick:
                more = [more[(bi + j) % len(more)] for j in range(2)]
            answers = [(name,) + util.call(mk) for name, mk in forms + more]
            # code -> spec: accepts_input of the real automaton objects: the empty word, single letters, longer words
            jb = [list(p) for p in basis]
            for vi, (name, d) in enumerate([("fresh", fresh)] + variants):
                words = [dir_words(rnd, rnd.randint(maxword + 1, maxword + 4)) for _ in range((6 if quick else 40) if vi == 0 else 2)]
                if vi <= 1:
                    words += ["", "U", "D", "L", "R", "UL", "RD"]
                for w in words:
                    st, got = util.call(d.accepts_input, w)
                    if st == "raise":
                        ctx.violation(dict(case, form=name, word=w), "NoException", "accepts_input answers", got)
                        continue
                    events.append({"op": "Accepts", "basis": jb, "m": list(w), "res": bool(got)})
                    evmeta.append(name)
            meta.append((basis, use_db, fresh, variants, answers, fsem, feq))
        t_build = time.time() - t0
        results = [(m, m[5].result(), m[6].result()) for m in meta]
        ctx.note("phase_seconds", {"building and asking (TLC runs side by side)": round(t_build, 1), "waiting for TLC": round(time.time() - t0 - t_build, 1)})
    finally:
        os.chdir(home)
        pool.shutdown(wait=False)
        child.kill()
    nvar = 0
    for i, ((basis, use_db, fresh, variants, answers, _, _), sem, eq) in enumerate(results):
        ctx.add_tlc(sem, "product with the pin machine")
        ctx.add_tlc(eq, "product graph of the automaton and %d automata obtained in other ways" % len(variants))
        case = {"kind": "basis", "basis": [list(p) for p in basis]}
        ctx.case(tuple(map(tuple, basis)), nontrivial=True)
        nvar += len(variants)
        if sem.violated:
            # the counterexample word is the last state's `word`
            words = re.findall(r"word = (<<.*?>>)\n", sem.stdout)
            ctx.violation(dict(case, word=words[-1] if words else "?"), sem.violated,
                          "automaton accepts the word iff its permutation contains a basis element", "disagrees (TLC counterexample)")
            continue
        if eq.violated:
            # which of the further automata disagree in the last state of the counterexample
            q1 = re.findall(r"q1 = (\d+)\n", eq.stdout)
            q2 = re.findall(r"q2 = <<(.*?)>>\n", eq.stdout)
            names = []
            if q1 and q2:
                acc = int(q1[-1]) in export(fresh)[2]
                states = [int(x) for x in q2[-1].split(",") if x.strip()]
                names = [variants[k][0] for k, q in enumerate(states) if (q in export(variants[k][1])[2]) != acc]
            ctx.violation(dict(case, second=names or [n for n, _ in variants]), "DbEquivalent", "language-equivalent automata",
                          "a word separates them (TLC counterexample)")
        verdict = [r for r in sem.records if "finite" in r]
        if len(verdict) != 1:
            raise tlc.MachineryFailure("C15: no finiteness verdict emitted for %s" % basis)
        for form, st, got in answers:
            ctx.case()
            if st == "raise" or got is not verdict[0]["finite"]:
                ctx.violation(dict(case, form=form), "FiniteIffBounded", verdict[0]["finite"], got)
        rej = {}
        for r in sem.records:
            if "rej" in r:
                rej[r["rej"]] = rej.get(r["rej"], 0) + 1
        if verdict[0]["finite"] and rej.get(maxword, 0) > 0 and basis and maxword > 2 * max(map(len, basis)) + 4:
            ctx.drift("basis %s: verdict finite but %d avoiding pin sequences of length %d" % (basis, rej[maxword], maxword))
        if i < 3:
            ctx.sample({"basis": basis, "dfa_states": len(fresh.states), "finite": verdict[0]["finite"], "rejected_words_by_length": rej})
    ctx.exhaustive = True
    ctx.note("bases", len(bl))
    ctx.note("automata_obtained_in_other_ways", nvar)
    # words beyond the exhaustive bound (and the shortest ones, through accepts_input), judged by the pin semantics
    idx = list(range(len(events)))
    chunks = [idx[i::8] for i in range(8)]
    with concurrent.futures.ThreadPoolExecutor(max_workers=8) as ex:
        vs = list(ex.map(lambda ch: util.validate_trace(ctx, "Trace_C15", [events[j] for j in ch], ntraces=len(ch), timeout=3000) if ch else {"verdict": []}, chunks))
    for ch, v in zip(chunks, vs):
        for b in v["verdict"]:
            ev = events[ch[b["i"] - 1]]
            ctx.violation({"kind": "trace-event", "event": ev, "automaton": evmeta[ch[b["i"] - 1]]}, b["clause"],
                          "accepts iff the encoded permutation contains a basis element", ev["res"])
    ctx.case(n=len(events))
    ctx.rule = ("for every basis of the list (singletons, pairs, unsorted, repeated elements, an element contained in another, non-pin "
                "elements, the empty basis, the empty permutation, length 5) the exported automaton is run in product with the pin "
                "machine over every word of the pin-sequence language up to length %d (TLC invariant); the automata obtained in other "
                "ways (database, database of another directory filled in another order with the load cache cleared, asked again, "
                "reordered / repeated basis, make_dfa_for_perm) are compared with it on the product graph (TLC); finiteness as a graph "
                "property of the table vs has_finite_pinperms in several argument forms and orders; accepts_input on the empty word, "
                "single letters and random longer words via Trace_C15" % maxword)
    ctx.assumptions.append("word-level semantics decided up to the bound; beyond it only the automaton-internal consistency (equivalence, graph verdict)")


def replay(ctx, path):
    raise tlc.MachineryFailure("C15 cases are replayed by re-running the check (automata are re-exported from the current code)")
