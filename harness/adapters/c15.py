"""C15 - the basis automaton accepts exactly the pin sequences containing a basis element.

The implementation's automata (from scratch and assembled from the on-disk database) are exported as
transition tables into a generated TLA+ module; TLC runs them in product with the pin machine over all words
of the pin-sequence language up to a bound (invariant: accept iff the encoded permutation contains a basis
element), checks language equivalence of the two tables on the (finite) pair graph, and decides the finiteness
verdict as a graph property of the table; has_finite_pinperms is compared with it.
code -> spec: accepts_input of the real automata on random longer direction words, judged by Trace_C15.
"""
import itertools
import json

from permuta import Perm
from permuta.permutils.pin_words import PinWords

from harness import tlc, util

DIRS = "UDLR"


def export(dfa):
    """DFA -> (n, delta rows, finals, init) with states renumbered 1..n and a dead state for missing moves."""
    states = sorted(dfa.states, key=repr)
    idx = {s: i + 1 for i, s in enumerate(states)}
    dead = None
    rows = []
    for s in states:
        row = {}
        for d in DIRS:
            t = dfa.transitions.get(s, {}).get(d)
            if t is None:
                if dead is None:
                    dead = len(states) + 1
                row[d] = dead
            else:
                row[d] = idx[t]
        rows.append(row)
    n = len(states)
    if dead is not None:
        rows.append({d: dead for d in DIRS})
        n += 1
    return n, rows, sorted(idx[s] for s in dfa.final_states), idx[dfa.initial_state]


def tla_table(prefix, tab):
    n, rows, fin, init = tab
    delta = "<< " + ", ".join("[" + ", ".join('%s |-> %d' % (d, r[d]) for d in DIRS) + "]" for r in rows) + " >>"
    # records indexed by field name: DfaDelta[q][d] with d a string -> use a function on the strings
    delta = "<< " + ", ".join("(" + " @@ ".join('("%s" :> %d)' % (d, r[d]) for d in DIRS) + ")" for r in rows) + " >>"
    return {prefix + "NDef": str(n), prefix + "DeltaDef": delta, prefix + "FinalDef": "{" + ", ".join(map(str, fin)) + "}",
            prefix + "InitDef": str(init)}


def bases(rnd, quick):
    out = []
    for n in (1, 2, 3):
        for p in util.perms_of(n):
            out.append([p])
    s4 = util.perms_of(4)
    rnd.shuffle(s4)
    out += [[p] for p in (s4[:6] if quick else s4)]
    s3 = util.perms_of(3)
    pairs = list(itertools.combinations(s3, 2))
    rnd.shuffle(pairs)
    out += [list(pr) for pr in (pairs[:5] if quick else pairs)]
    out += [[(0, 1, 2), (2, 1, 0)], [(1, 3, 0, 2), (2, 0, 3, 1)], [(0, 2, 1), (2, 0, 1, 3)], [(1, 0), (0, 1, 2)]]
    # bases given in an order that is neither sorted nor grouped by length (the automaton must not depend on it)
    out += [[(1, 3, 0, 2), (0, 1, 2), (2, 1, 0, 3)], [(2, 0, 3, 1), (1, 0, 2), (0, 1, 2, 3), (2, 1, 0)]]
    for _ in range(2 if quick else 12):
        b = [util.rand_perm(rnd, 4), util.rand_perm(rnd, 3), util.rand_perm(rnd, 4)]
        if len(set(b)) == 3:
            out.append(b)
    # a basis whose first element is not a pin permutation (they exist from length 6 on), followed by a small one
    out.append([(1, 2, 5, 0, 3, 4), (0, 2, 1)])
    out.append([(0, 2, 1), (1, 2, 5, 0, 3, 4)])
    if not quick:
        for _ in range(20):
            out.append([util.rand_perm(rnd, rnd.choice([3, 4, 4, 5])) for _ in range(rnd.randint(2, 3))])
    return out


def run(ctx):
    quick = ctx.tier == "quick"
    rnd = util.rng(ctx, 15)
    bl = bases(rnd, quick)
    maxword = 8 if quick else 10
    jobs, meta = [], []
    PinWords.load_dfa_for_perm.cache_clear()
    for basis in bl:
        B = [Perm(p) for p in basis]
        fresh = PinWords.make_dfa_for_basis(list(B))
        fresh2 = PinWords.make_dfa_for_basis_from_pinwords(list(reversed(B)))
        use_db = all(len(p) <= (3 if quick else 4) for p in basis)
        second = PinWords.make_dfa_for_basis_from_db(list(B)) if use_db else fresh2
        defs = {"BasisDef": "{" + ", ".join(tlc.tla(list(p)) for p in basis) + "}"}
        defs.update(tla_table("A", export(fresh)))
        defs.update(tla_table("B", export(second)))
        mod = util.mc_module("MC_C15", "C15_PinLanguage", defs)
        consts = {"Basis": ("<-", "BasisDef"), "MaxWord": maxword,
                  "DfaN": ("<-", "ANDef"), "DfaDelta": ("<-", "ADeltaDef"), "DfaFinal": ("<-", "AFinalDef"), "DfaInit": ("<-", "AInitDef"),
                  "Dfa2N": ("<-", "BNDef"), "Dfa2Delta": ("<-", "BDeltaDef"), "Dfa2Final": ("<-", "BFinalDef"), "Dfa2Init": ("<-", "BInitDef")}
        c1 = util.cfg(init="Init", next_="Next", invariants=["AcceptsIffContains", "EmitVerdict", "EmitRejected"], view="FullView",
                      constants=dict(consts, Mode='"semantic"'))
        c2 = util.cfg(init="Init", next_="Next", invariants=["DbEquivalent"], view="PairView", constants=dict(consts, Mode='"equiv"'))
        jobs.append(("MC_C15", c1, {"files": {"MC_C15.tla": mod}, "timeout": 3000, "allow_violation": True}))
        jobs.append(("MC_C15", c2, {"files": {"MC_C15.tla": mod}, "timeout": 3000, "allow_violation": True}))
        meta.append((basis, use_db, fresh))
    results = tlc.run_many(jobs, parallel=16)
    events = []
    for i, (basis, use_db, fresh) in enumerate(meta):
        sem, eq = results[2 * i], results[2 * i + 1]
        ctx.add_tlc(sem, "product with the pin machine")
        ctx.add_tlc(eq, "pair graph (%s vs fresh)" % ("db" if use_db else "reordered basis"))
        case = {"kind": "basis", "basis": [list(p) for p in basis]}
        ctx.case(tuple(map(tuple, basis)), nontrivial=True)
        if sem.violated:
            # the counterexample word is the last state's `word`
            import re
            words = re.findall(r"word = (<<.*?>>)\n", sem.stdout)
            ctx.violation(dict(case, word=words[-1] if words else "?"), sem.violated,
                          "automaton accepts the word iff its permutation contains a basis element", "disagrees (TLC counterexample)")
            continue
        if eq.violated:
            ctx.violation(dict(case, second="db" if use_db else "reordered"), "DbEquivalent", "language-equivalent automata", "a word separates them (TLC counterexample)")
        verdict = [r for r in sem.records if "finite" in r]
        if len(verdict) != 1:
            raise tlc.MachineryFailure("C15: no finiteness verdict emitted for %s" % basis)
        B = [Perm(p) for p in basis]
        for form, mk in (("fresh", lambda: PinWords.has_finite_pinperms(list(B))), ("given dfa", lambda: PinWords.has_finite_pinperms(list(B), dfa=fresh)),
                         ("db", lambda: PinWords.has_finite_pinperms(list(B), use_db=True) if use_db else verdict[0]["finite"])):
            st, got = util.call(mk)
            if st == "raise" or got != verdict[0]["finite"]:
                ctx.violation(dict(case, form=form), "FiniteIffBounded", verdict[0]["finite"], got)
        rej = {}
        for r in sem.records:
            if "rej" in r:
                rej[r["rej"]] = rej.get(r["rej"], 0) + 1
        if verdict[0]["finite"] and rej.get(maxword, 0) > 0 and maxword > 2 * max(map(len, basis)) + 4:
            ctx.drift("basis %s: verdict finite but %d avoiding pin sequences of length %d" % (basis, rej[maxword], maxword))
        if i < 3:
            ctx.sample({"basis": basis, "dfa_states": len(fresh.states), "finite": verdict[0]["finite"], "rejected_words_by_length": rej})
        # code -> spec: random longer words
        for _ in range(6 if quick else 40):
            n = rnd.randint(maxword + 1, maxword + 4)
            w = rnd.choice(DIRS)
            while len(w) < n:
                w += rnd.choice("LR" if w[-1] in "UD" else "UD")
            events.append({"op": "Accepts", "basis": [list(p) for p in basis], "m": list(w), "res": bool(fresh.accepts_input(w))})
    ctx.exhaustive = True
    # words beyond the exhaustive bound, judged by the pin semantics
    k = {"Mode": '"trace"', "Basis": "{}", "MaxWord": 0, "DfaN": 1, "DfaDelta": "<<>>", "DfaFinal": "{}", "DfaInit": 1,
         "Dfa2N": 1, "Dfa2Delta": "<<>>", "Dfa2Final": "{}", "Dfa2Init": 1}
    chunks = [events[i::8] for i in range(8)]
    import concurrent.futures
    with concurrent.futures.ThreadPoolExecutor(max_workers=8) as ex:
        vs = list(ex.map(lambda ch: util.validate_trace(ctx, "Trace_C15", ch, ntraces=len(ch), timeout=3000) if ch else {"verdict": []}, chunks))
    for ch, v in zip(chunks, vs):
        for b in v["verdict"]:
            ev = ch[b["i"] - 1]
            ctx.violation({"kind": "trace-event", "event": ev}, b["clause"], "accepts iff the encoded permutation contains a basis element", ev["res"])
    ctx.case(n=len(events))
    ctx.rule = ("for every basis of the list the exported automaton is run in product with the pin machine over every word of "
                "the pin-sequence language up to length %d (TLC invariant), db/reordered automaton equivalence on the pair graph, "
                "finiteness as a graph property of the table vs has_finite_pinperms; random longer words via Trace_C15" % maxword)
    ctx.assumptions.append("word-level semantics decided up to the bound; beyond it only the automaton-internal consistency (equivalence, graph verdict)")


def replay(ctx, path):
    raise tlc.MachineryFailure("C15 cases are replayed by re-running the check (automata are re-exported from the current code)")
