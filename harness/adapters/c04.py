"""C04 - the eight symmetries on permutations, mesh patterns, sets; equivariance of containment.

spec -> code : every edge <<object, operation, image>> of the action graph of C04_Symmetry and the
               per-state orbit / all-symmetries / lex-min expectations; equivariance pairs.
code -> spec : random larger permutations and mesh patterns, validated by Trace_C04.
"""
import argparse
import contextlib
import io
import json

from permuta import MeshPatt, Perm
from permuta import cli
from permuta.permutils import symmetry as sy

from harness import tlc, util

INVS = ["TypeOK", "Relations", "OrbitSize", "Equivariant", "LexMinInvariant"]
SET_FUN = {"reverse": "reverse_set", "complement": "complement_set", "inverse": "inverse_set",
           "flip_antidiagonal": "antidiagonal_set", "reverse_complement": "rotate_180_clockwise_set"}
ROT_SET = {1: "rotate_90_clockwise_set", 2: "rotate_180_clockwise_set", 3: "rotate_270_clockwise_set"}


# the ways a finite collection of permutations can be handed to the set helpers (expectations never depend on it)
COLLECTION_FORMS = [
    ("list", list), ("iterator", iter), ("reversed-tuple", lambda S: tuple(reversed(S))),
    ("generator", lambda S: (x for x in S)), ("set", set), ("frozenset", frozenset),
    ("map-fresh-objects", lambda S: map(Perm, [tuple(x) for x in S])),
    ("dict-keys", lambda S: dict.fromkeys(reversed(S)).keys()),
]


# operations offered by permutations and mesh patterns alike (second generation of images)
SECOND_OPS = [("reverse", lambda o: o.reverse()), ("complement", lambda o: o.complement()), ("inverse", lambda o: o.inverse()),
              ("rotate(1)", lambda o: o.rotate()), ("rotate(-6)", lambda o: o.rotate(-6)), ("rotate(7)", lambda o: o.rotate(7)),
              ("flip_horizontal", lambda o: o.flip_horizontal())]
# operations only permutations offer, and the aliases
PERM_ONLY_OPS = [("flip_antidiagonal", lambda o: o.flip_antidiagonal()), ("reverse_complement", lambda o: o.reverse_complement()),
                 ("flip_vertical", lambda o: o.flip_vertical()), ("flip_diagonal", lambda o: o.flip_diagonal()),
                 ("rotate(-5)", lambda o: o.rotate(-5)), ("rotate(10)", lambda o: o.rotate(10))]


def cli_texts(S):
    zero = ["".join(str(v) for v in x) for x in S]
    one = ["".join(str(v + 1) for v in x) for x in S]
    return ["_".join(zero), ":".join(one), ", ".join(reversed(zero)), " ".join(one), "|".join(reversed(one)),
            "\t".join(zero) + "\n", "Av(" + "; ".join(zero) + ")", "_" + "_and_".join(one) + "_"]


def apply_obj(obj, op, k):
    if op == "rotate":
        return obj.rotate(k)
    return getattr(obj, op)()


def mesh_key(M):
    return (tuple(M.pattern), tuple(sorted(M.shading)))


def replay_edge(ctx, e):
    mode, op, k = e["mode"], e["op"], e["k"]
    case = {"kind": "edge", "mode": mode, "op": op, "k": k, "p": e["p"], "R": sorted(e["R"]), "S": e["S"]}
    if mode == "perm":
        P = Perm(e["p"])
        st, got = util.call(apply_obj, P, op, k)
        ctx.case(("perm", tuple(e["p"]), op, k), nontrivial=e["p2"] != e["p"])
        if st == "raise" or list(got) != e["p2"] or not isinstance(got, Perm):
            ctx.violation(case, "ImageIsPlaneMap", e["p2"], got)
        if op == "rotate" and k == 1:
            st, got = util.call(P.rotate)
            if st == "raise" or list(got) != e["p2"]:
                ctx.violation(dict(case, default_arg=True), "ImageIsPlaneMap", e["p2"], got)
    elif mode == "mesh":
        M = MeshPatt(Perm(e["p"]), [tuple(c) for c in e["R"]])
        if op != "rotate" and not hasattr(M, op):
            return                                     # operation not offered on mesh patterns
        st, got = util.call(apply_obj, M, op, k)
        want = (tuple(e["p2"]), tuple(sorted(map(tuple, e["R2"]))))
        ctx.case(("mesh", mesh_key(M), op, k), nontrivial=want != mesh_key(M))
        if st == "raise" or mesh_key(got) != want:
            ctx.violation(case, "ImageIsPlaneMap", want, mesh_key(got) if st == "ok" else got)
    elif mode == "set":
        S = [Perm(x) for x in e["S"]]
        if op == "rotate":
            fn = ROT_SET.get(k % 4)
        else:
            fn = SET_FUN.get(op)
        if fn is None:
            return
        st, got = util.call(lambda: sorted(tuple(x) for x in getattr(sy, fn)(iter(S))))
        want = sorted(tuple(x) for x in e["S2"])
        ctx.case(("set", tuple(map(tuple, e["S"])), fn), nontrivial=want != sorted(tuple(x) for x in e["S"]))
        if st == "raise" or got != want:
            ctx.violation(dict(case, fn=fn), "ImageIsPlaneMap", want, got)


def replay_state(ctx, s):
    mode = s["mode"]
    case = {"kind": "state", "mode": mode, "p": s["p"], "R": sorted(s["R"]), "S": s["S"]}
    if mode == "perm":
        st, got = util.call(lambda: Perm(s["p"]).all_syms())
        want = sorted(tuple(x) for x in s["orbit"])
        ctx.case(("orbit", tuple(s["p"])), nontrivial=len(want) > 1)
        if st == "raise" or sorted(tuple(x) for x in got) != want:
            ctx.violation(case, "AllSymsIsOrbit", want, got)
    elif mode == "mesh":
        st, got = util.call(lambda: MeshPatt(Perm(s["p"]), [tuple(c) for c in s["R"]]).all_syms())
        want = sorted((tuple(m["p"]), tuple(sorted(map(tuple, m["R"])))) for m in s["morbit"])
        ctx.case(("morbit", tuple(s["p"]), tuple(sorted(map(tuple, s["R"])))), nontrivial=len(want) > 1)
        if st == "raise" or sorted(mesh_key(m) for m in got) != want:
            ctx.violation(case, "AllSymsIsOrbit", want, [mesh_key(m) for m in got] if st == "ok" else got)
    elif mode == "set":
        S = [Perm(x) for x in s["S"]]
        want_all = sorted(tuple(tuple(x) for x in T) for T in s["allsets"])
        want_min = tuple(tuple(x) for x in s["lexmin"])
        ctx.case(("sets", tuple(map(tuple, s["S"]))), nontrivial=len(want_all) > 1)
        for form, mk in COLLECTION_FORMS:
            mk = (lambda f: lambda: f(S))(mk)
            st, got = util.call(lambda: sy.all_symmetry_sets(mk()))
            if st == "raise" or sorted(tuple(tuple(x) for x in T) for T in got) != want_all:
                ctx.violation(dict(case, form=form), "AllSymmetrySetsIsOrbit", want_all, got)
            st, got = util.call(lambda: sy.lex_min(mk()))
            if st == "raise" or tuple(tuple(x) for x in got) != want_min:
                ctx.violation(dict(case, form=form), "LexMinIsOrbitMinimum", want_min, got)
        # the same representative for every member of the orbit
        for T in s["allsets"]:
            st, got = util.call(lambda: sy.lex_min([Perm(x) for x in T]))
            if st == "raise" or tuple(tuple(x) for x in got) != want_min:
                ctx.violation(dict(case, member=T), "LexMinSameOnOrbit", want_min, got)
        if s["antichain"] and s["S"]:
            # "the basis as a string where the permutations are separated by any token", 0-based or 1-based
            want = "_".join("".join(str(v) for v in x) for x in want_min)
            for text in cli_texts(s["S"]):
                buf = io.StringIO()
                with contextlib.redirect_stdout(buf):
                    st, _ = util.call(lambda: cli.get_parser().parse_args(["lexmin", text]).func(
                        cli.get_parser().parse_args(["lexmin", text])))
                if st == "raise" or buf.getvalue().strip() != want:
                    ctx.violation(dict(case, cli=text), "CliLexMin", want, buf.getvalue().strip())
    elif mode == "equiv":
        q = s["S"][0]
        c = s["c"]
        M = MeshPatt(Perm(s["p"]), [tuple(x) for x in s["R"]])
        Q = Perm(q)
        ctx.case(("equiv", mesh_key(M), tuple(q)), nontrivial=c)
        # the pattern object is used in a search first (its memo table is bound), then transformed:
        # images of used objects must behave like images of fresh ones
        if Q.contains(M) != c or Perm(q).contains(M.pattern) != bool(Perm(s["p"]).count_occurrences_in(Perm(q))):
            ctx.violation(dict(case, q=q, sym="id"), "ContainmentEquivariant", c, not c)
        pairs = [("id", Q, M), ("reverse", Q.reverse(), M.reverse()), ("complement", Q.complement(), M.complement()),
                 ("inverse", Q.inverse(), M.inverse()), ("rotate1", Q.rotate(1), M.rotate(1)),
                 ("rotate2", Q.rotate(2), M.rotate(2)), ("rotate3", Q.rotate(3), M.rotate(3)),
                 ("rotate-1", Q.rotate(-1), M.rotate(-1)),
                 ("antidiagonal", Q.flip_antidiagonal(), M.rotate(2).inverse())]
        for name, Q2, M2 in pairs:
            got = Q2.contains(M2)
            if got != c:
                ctx.violation(dict(case, q=q, sym=name), "ContainmentEquivariant", c, got)
            if not s["R"]:                       # classical pattern on both sides
                P2 = M2.pattern
                if Q2.contains(P2) != c:
                    ctx.violation(dict(case, q=q, sym=name, classical=True), "ContainmentEquivariant", c, Q2.contains(P2))
        # history: the original objects once more, after their images were built and searched with
        if Q.contains(M) != c:
            ctx.violation(dict(case, q=q, sym="id, asked again after the images"), "ContainmentEquivariant", c, not c)
        # an image of an image (the first image has been used in a search by now), rotating over the 8 x 7 combinations
        sel = len(s["R"]) + sum((i + 2) * v for i, v in enumerate(q)) + 3 * sum(s["p"])
        name, Q2, M2 = pairs[1 + sel % 8]
        name2, g = SECOND_OPS[(sel // 8) % len(SECOND_OPS)]
        st, got = util.call(lambda: g(Q2).contains(g(M2)))
        if st == "raise" or got != c:
            ctx.violation(dict(case, q=q, sym=name + " then " + name2), "ContainmentEquivariant", c, got)
        if not s["R"]:
            # the permutation-level operations on a pattern object whose search table is bound (it was searched above)
            P = M.pattern
            for name, g in PERM_ONLY_OPS:
                st, got = util.call(lambda: g(Q).contains(g(P)))
                if st == "raise" or got != c:
                    ctx.violation(dict(case, q=q, sym=name, classical=True, used_before=True), "ContainmentEquivariant", c, got)


def weak_hash_events(ctx):
    """Run in the weak-hash interpreter (harness/weakhash.py): the hardening events, recorded where permutations and patterns share a few hash values."""
    return hardening_events(ctx, True)


def run(ctx):
    quick = ctx.tier == "quick"
    weak = util.weak_hash_start(ctx, "c04", "weak_hash_events")
    nsh = 8
    base = {"MaxPerm": 5 if quick else 7, "MaxMesh": 2, "SetMaxLen": 3, "SetMaxSize": 2 if quick else 3,
            "EqMaxPerm": 4 if quick else 5}
    jobs = []
    for mode in ("perm", "mesh", "set", "equiv"):
        for s in range(nsh if mode in ("perm", "mesh", "equiv") else 1):
            k = dict(base, Mode='"%s"' % mode, Shard=s, NShards=nsh if mode != "set" else 1)
            if mode == "equiv":
                c = util.cfg(init="Init", next_="Stutter", invariants=INVS + ["EmitState"], constants=k)
            else:
                c = util.cfg(init="Init", next_="Next", invariants=INVS + ["EmitState"], properties=["SizePreserved"],
                             action_constraints=["EmitEdge"], view="View", constants=k)
            jobs.append(("C04_Symmetry", c, {"timeout": 3000}))
    results = tlc.run_many(jobs, parallel=16)
    nedge = nstate = 0
    ops_seen = set()
    for r in results:
        ctx.add_tlc(r, "action graph shard")
        for rec in r.records:
            if "op" in rec:
                nedge += 1
                ops_seen.add(rec["op"])
                replay_edge(ctx, rec)
                if nedge % 20011 == 0:
                    ctx.sample({"machine": "C04_Symmetry", "edge": rec})
            else:
                nstate += 1
                replay_state(ctx, rec)
                if nstate % 5003 == 0:
                    ctx.sample({"machine": "C04_Symmetry", "state": rec})
    if len(ops_seen) < 9 or nstate == 0:
        raise tlc.MachineryFailure("C04: vacuous run, operations seen %s" % sorted(ops_seen))
    # unbounded lemmas about the plane maps (TLAPS): dihedral relations for every N; LibSanity ties the proved
    # coordinate formulas to D4!DMap.  A missing tlapm is only noted.
    ok_l, detail = tlc.tlaps_prove("specs/proofs/D4_Lemmas.tla")
    if not ok_l and "not runnable" not in detail:
        raise tlc.MachineryFailure("D4_Lemmas: TLAPS did not prove the dihedral relations: " + detail)
    ctx.note("proved_lemmas", {"D4_Lemmas (r1^4 = id, rev r1 rev = r3, rev comp = r2, inv rev = r1, maps stay in the square; all N; TLAPS)": detail})
    ctx.exhaustive = True
    ctx.note("edges_replayed", nedge)
    ctx.note("states_replayed", nstate)

    # ---- code -> spec -------------------------------------------------------------
    rnd = util.rng(ctx, 4)
    events = []
    n_ev = 300 if quick else 3000
    for _ in range(n_ev):
        k = rnd.randint(-9, 9)
        name = rnd.choice(["reverse", "complement", "inverse", "flip_antidiagonal", "reverse_complement", "rotate", "rotate"])
        if rnd.random() < 0.5:
            p = util.rand_perm(rnd, rnd.randint(5, 9))
            got = apply_obj(Perm(p), name, k)
            events.append({"op": "Sym", "name": name, "k": k, "p": list(p), "R": [], "resp": list(got), "resR": []})
        else:
            n = rnd.randint(2, 4)
            p = util.rand_perm(rnd, n)
            R = [(x, y) for x in range(n + 1) for y in range(n + 1) if rnd.random() < 0.3]
            M = MeshPatt(Perm(p), R)
            if name in ("flip_antidiagonal", "reverse_complement"):
                name = "rotate"
            got = apply_obj(M, name, k)
            events.append({"op": "Sym", "name": name, "k": k, "p": list(p), "R": [list(c) for c in R],
                           "resp": list(got.pattern), "resR": [list(c) for c in got.shading]})
            q = util.rand_perm(rnd, rnd.randint(n, 6))
            Q = Perm(q)
            events.append({"op": "Equiv", "p": list(p), "R": [list(c) for c in R], "q": list(q),
                           "before": Q.contains(M), "after": apply_obj(Q, name, k).contains(got)})
    nbefore = len(events)
    events.extend(hardening_events(ctx, quick))
    events.extend(util.weak_hash_finish(ctx, weak, "c04"))
    ctx.note("hardening_events", len(events) - nbefore)
    tc = dict(base, Mode='"trace"', Shard=0, NShards=1)
    v = util.validate_trace(ctx, "Trace_C04", events, constants=tc, ntraces=n_ev)
    ctx.case(n=len(events))
    ctx.sample({"machine": "Trace_C04", "events": events[:2]})
    for b in v["verdict"]:
        ev = events[b["i"] - 1]
        ctx.violation({"kind": "trace-event", "event": ev}, b["clause"], "image under the plane map of D4", ev)
    ctx.rule = ("TLC explores the action graph of the symmetry operations on all permutations / mesh patterns / small "
                "sets of the universe (one edge per object x operation x rotation count) and per-state orbit, "
                "all-symmetry-sets and lex-min; each edge/state is replayed on the real objects; non-trivial = image "
                "differs from the object (edges) or orbit larger than one (states); equivariance pairs non-trivial when contained")


# ---- probes added in the hardening round ------------------------------------------------------------------
def _std(seq):
    order = sorted(range(len(seq)), key=lambda i: seq[i])
    out = [0] * len(seq)
    for r, i in enumerate(order):
        out[i] = r
    return tuple(out)


def _jmesh(M):
    return {"p": list(M.pattern), "R": [list(c) for c in sorted(M.shading)]}


def _small_k(k):
    """A rotation count in TLC's integer range that stands for k: rotating by a quarter turn four times is the
    identity (Relations / DGroupLaws, checked by TLC), so k and k - 4m name the same rotation."""
    return k if abs(k) < 2 ** 31 else k - 4 * (k // 4)


BIG_COUNTS = [2 ** 31 - 1, -(2 ** 31) + 1, 10 ** 9 + 7, -(10 ** 9) - 6, 4 * 10 ** 8, 10 ** 18 + 1, -(10 ** 18) - 1, 2 ** 64 + 2,
              -(2 ** 64) - 3, 2 ** 100, 123456789, -123456789, 1001, -1002, 4000003]


def special_shading(rnd, n):
    cells = [(x, y) for x in range(n + 1) for y in range(n + 1)]
    style = rnd.choice(["none", "all", "corner", "border", "column", "row", "one", "sparse", "sparse", "dense"])
    if style == "none":
        return []
    if style == "all":
        return cells
    if style == "corner":
        return [rnd.choice([(0, 0), (0, n), (n, 0), (n, n)])]
    if style == "border":
        return [c for c in cells if (c[0] in (0, n) or c[1] in (0, n)) and rnd.random() < 0.7]
    if style == "column":
        x = rnd.choice([0, n, rnd.randint(0, n)])
        return [(x, y) for y in range(n + 1)]
    if style == "row":
        y = rnd.choice([0, n, rnd.randint(0, n)])
        return [(x, y) for x in range(n + 1)]
    if style == "one":
        return [rnd.choice(cells)]
    dens = 0.15 if style == "sparse" else 0.7
    return [c for c in cells if rnd.random() < dens]


def hardening_events(ctx, quick):
    rnd = util.rng(ctx, 404)
    ev = []
    scale = 1 if quick else 8
    names_both = ["reverse", "complement", "inverse", "rotate", "rotate", "flip_horizontal", "flip_vertical", "flip_diagonal"]
    names_perm = names_both + ["flip_antidiagonal", "reverse_complement"]
    # -- (a) very large and negative rotation counts
    for _ in range(40 * scale):
        k = rnd.choice(BIG_COUNTS) + rnd.randint(-3, 3)
        if abs(k) >= 2 ** 31 > abs(k) - 4:
            k = rnd.choice(BIG_COUNTS[5:9])
        p = util.rand_perm(rnd, rnd.randint(2, 9))
        got = Perm(p).rotate(k)
        ev.append({"op": "Sym", "name": "rotate", "k": _small_k(k), "p": list(p), "R": [], "resp": list(got), "resR": [], "count": str(k)})
        n = rnd.randint(1, 4)
        M = MeshPatt(Perm(util.rand_perm(rnd, n)), special_shading(rnd, n))
        got = M.rotate(k)
        ev.append({"op": "Sym", "name": "rotate", "k": _small_k(k), "p": list(M.pattern), "R": _jmesh(M)["R"],
                   "resp": list(got.pattern), "resR": _jmesh(got)["R"], "count": str(k)})
    # -- (b) all_syms of longer permutations and of mesh patterns of length 3-4 with special shadings; asked twice,
    #        and again after the object was transformed and searched with
    for _ in range(50 * scale):
        if rnd.random() < 0.4:
            P = Perm(special_perm(rnd, rnd.randint(5, 9)))
            obj, jm = P, {"p": list(P), "R": []}
            as_j = lambda o: {"p": list(o), "R": []}
        else:
            n = rnd.choice([3, 3, 4])
            obj = MeshPatt(Perm(util.rand_perm(rnd, n)), special_shading(rnd, n))
            jm = _jmesh(obj)
            as_j = _jmesh
            # every operation on the structurally special shadings (single corner, full border row / column, ...)
            for name, kk in (("reverse", 0), ("complement", 0), ("inverse", 0), ("flip_horizontal", 0), ("flip_vertical", 0),
                             ("flip_diagonal", 0), ("rotate", 1), ("rotate", 2), ("rotate", 3), ("rotate", -1)):
                got = apply_obj(obj, name, kk)
                ev.append(dict(jm, op="Sym", name=name, k=kk, resp=list(got.pattern), resR=_jmesh(got)["R"]))
        ev.append(dict(jm, op="Orbit", res=[as_j(o) for o in obj.all_syms()]))
        obj.rotate(3).inverse()
        Perm(util.rand_perm(rnd, 6)).contains(obj)
        ev.append(dict(jm, op="Orbit", res=[as_j(o) for o in obj.all_syms()], again=True))
    # -- (c) the set helpers on larger sets, in every container form; duplicates; the empty collection
    helpers = [("reverse", 0, sy.reverse_set), ("complement", 0, sy.complement_set), ("inverse", 0, sy.inverse_set),
               ("flip_antidiagonal", 0, sy.antidiagonal_set), ("rotate", 1, sy.rotate_90_clockwise_set),
               ("rotate", 2, sy.rotate_180_clockwise_set), ("rotate", 3, sy.rotate_270_clockwise_set)]
    for i in range(60 * scale):
        size = rnd.choice([0, 1, 2, 2, 3, 4])
        S = []
        while len(S) < size:
            x = util.rand_perm(rnd, rnd.choice([1, 2, 3, 4, 4, 5, 5, 6]))
            if x not in S:
                S.append(x)
        PS = [Perm(x) for x in S]
        jS = [list(x) for x in S]
        fname, form = COLLECTION_FORMS[i % len(COLLECTION_FORMS)]
        ev.append({"op": "SetOrbit", "S": jS, "strict": True, "form": fname,
                   "res": [[list(x) for x in T] for T in sy.all_symmetry_sets(form(PS))]})
        fname, form = rnd.choice(COLLECTION_FORMS)
        ev.append({"op": "LexMin", "S": jS, "form": fname, "res": [list(x) for x in sy.lex_min(form(PS))]})
        name, k, fn = rnd.choice(helpers)
        fname, form = rnd.choice(COLLECTION_FORMS)
        ev.append({"op": "SetImage", "name": name, "k": k, "S": jS, "form": fname, "res": [list(x) for x in fn(form(PS))]})
        if PS:
            dup = PS + [Perm(tuple(PS[0])), PS[-1]]
            rnd.shuffle(dup)
            ev.append({"op": "SetOrbit", "S": [list(x) for x in dup], "strict": False, "form": "list with repeated elements",
                       "res": [[list(x) for x in T] for T in sy.all_symmetry_sets(iter(dup))]})
            ev.append({"op": "SetImage", "name": name, "k": k, "S": [list(x) for x in dup], "form": "repeated", "res": [list(x) for x in fn(iter(dup))]})
            # the same representative from every member of the orbit, handed over as a one-shot iterable
            T = rnd.choice(sorted(sy.all_symmetry_sets(PS)))
            ev.append({"op": "LexMin", "S": [list(x) for x in T], "form": "member of the orbit", "res": [list(x) for x in sy.lex_min(x for x in T)]})
    # -- (c') the helpers return lazy objects: several alive at once over the same collection, consumed alternately
    for _ in range(25 * scale):
        PS = [Perm(util.rand_perm(rnd, rnd.randint(2, 6))) for _ in range(rnd.randint(2, 4))]
        jS = [list(x) for x in PS]
        chosen = rnd.sample(helpers, 3)
        gens = [(name, k, iter(fn(PS)), []) for name, k, fn in chosen]
        live = list(gens)
        while live:
            g = rnd.choice(live)
            try:
                g[3].append(list(next(g[2])))
            except StopIteration:
                live.remove(g)
            if rnd.random() < 0.3:                       # other calls in between
                sy.lex_min(PS)
                PS[0].all_syms()
        for name, k, _, got in gens:
            ev.append({"op": "SetImage", "name": name, "k": k, "S": jS, "form": "interleaved lazy consumption", "res": got})
    # -- (d) equivariance on longer permutations, with history: objects are searched with before they are
    #        transformed, images are transformed again, and the originals are asked again afterwards
    for it_ in range(70 * scale):
        q = special_perm(rnd, rnd.randint(6, 9))
        classical = rnd.random() < 0.5
        k = rnd.choice([3, 4, 4, 5]) if classical else rnd.choice([2, 3, 3, 4])
        pos = sorted(rnd.sample(range(len(q)), k))
        p = _std([q[i] for i in pos]) if rnd.random() < 0.75 else util.rand_perm(rnd, k)
        R = [] if classical else [c for c in special_shading(rnd, k)][:rnd.randint(0, 4)]
        Q = Perm(q)
        M = Perm(p) if classical else MeshPatt(Perm(p), R)
        base = {"op": "Equiv", "p": list(p), "R": [list(c) for c in R], "q": list(q)}
        c0 = Q.contains(M)                               # the pattern object has bound its search table
        names = names_perm if classical else names_both
        curQ, curM, trail = Q, M, []
        for _ in range(rnd.randint(2, 3)):
            name, kk = rnd.choice(names), rnd.randint(-9, 9)
            curQ, curM = apply_obj(curQ, name, kk), apply_obj(curM, name, kk)
            trail.append("%s(%d)" % (name, kk) if name == "rotate" else name)
            ev.append(dict(base, before=c0, after=curQ.contains(curM), trail=list(trail)))
            ev.append(dict(base, before=Q.contains(M), after=curQ.contains(curM), trail=list(trail) + ["asked again"]))
        if not classical and it_ % 2 == 0:
            # the same question with the pattern written as a bivincular / vincular / covincular object (adjacent positions X,
            # adjacent values Y); its images are plain mesh patterns
            from permuta.patterns.bivincularpatt import BivincularPatt, CovincularPatt, VincularPatt
            X = sorted(rnd.sample(range(k + 1), rnd.randint(0, 2)))
            Y = sorted(rnd.sample(range(k + 1), rnd.randint(0, 2)))
            kind = rnd.randrange(3)
            if kind == 1:
                Y = []
            elif kind == 2:
                X = []
            B = (BivincularPatt(Perm(p), X, Y), VincularPatt(Perm(p), X), CovincularPatt(Perm(p), Y))[kind]
            RB = sorted(B.shading)
            baseB = {"op": "Equiv", "p": list(p), "R": [list(c) for c in RB], "q": list(q)}
            for name in rnd.sample(names_both, 3):
                kk = rnd.randint(-3, 5)
                ev.append(dict(baseB, before=Q.contains(B), after=apply_obj(Q, name, kk).contains(apply_obj(B, name, kk)),
                               trail=["%s as %s" % (name, type(B).__name__)]))
        if classical:                                    # the images of a used object, as patterns of its own images
            for img in M.all_syms():
                ev.append({"op": "Equiv", "p": list(img), "R": [], "q": list(img), "before": img.contains(img), "after": img in img})
    return ev


def special_perm(rnd, n):
    kind = rnd.choice(["id", "dec", "layered", "skew", "random", "random", "random"])
    if kind == "id":
        return tuple(range(n))
    if kind == "dec":
        return tuple(range(n - 1, -1, -1))
    if kind in ("layered", "skew"):
        out, start = [], 0
        while start < n:
            size = rnd.randint(1, min(4, n - start))
            out.extend(range(start + size - 1, start - 1, -1))
            start += size
        return tuple(out) if kind == "layered" else tuple(n - 1 - v for v in out)
    return util.rand_perm(rnd, n)


def reexecute(ev):
    """The recorded call of a trace event made again on the current code (container forms are not reproduced:
    collections are handed over as one-shot iterators)."""
    ev = dict(ev)
    op = ev["op"]
    obj = (lambda: MeshPatt(Perm(ev["p"]), [tuple(c) for c in ev["R"]]) if ev["R"] else Perm(ev["p"]))
    as_j = lambda o: _jmesh(o) if isinstance(o, MeshPatt) else {"p": list(o), "R": []}
    if op == "Sym":
        k = int(ev["count"]) if "count" in ev else ev["k"]
        o = obj() if ev["R"] or ev["name"] not in ("flip_antidiagonal", "reverse_complement") else Perm(ev["p"])
        got = as_j(apply_obj(o, ev["name"], k))
        ev["resp"], ev["resR"] = got["p"], got["R"]
    elif op == "Orbit":
        ev["res"] = [as_j(o) for o in obj().all_syms()]
    elif op in ("SetOrbit", "LexMin", "SetImage"):
        S = iter([Perm(x) for x in ev["S"]])
        if op == "SetOrbit":
            ev["res"] = [[list(x) for x in T] for T in sy.all_symmetry_sets(S)]
        elif op == "LexMin":
            ev["res"] = [list(x) for x in sy.lex_min(S)]
        else:
            fn = getattr(sy, ROT_SET[ev["k"] % 4] if ev["name"] == "rotate" else SET_FUN[ev["name"]])
            ev["res"] = [list(x) for x in fn(S)]
    elif op == "Equiv":
        Q, M = Perm(ev["q"]), obj()
        ev["before"] = Q.contains(M)
        for step in [t for t in ev.get("trail", []) if t != "asked again"]:
            name, _, arg = step.partition("(")
            k = int(arg[:-1]) if arg else 0
            Q, M = apply_obj(Q, name, k), apply_obj(M, name, k)
        ev["after"] = Q.contains(M)
    return ev


def replay(ctx, path):
    rec = json.load(open(path))
    case = rec["case"]
    events = []
    if case["kind"] == "edge" and case["mode"] in ("perm", "mesh"):
        if case["mode"] == "perm":
            got = apply_obj(Perm(case["p"]), case["op"], case["k"])
            events.append({"op": "Sym", "name": case["op"], "k": case["k"], "p": case["p"], "R": [], "resp": list(got), "resR": []})
        else:
            got = apply_obj(MeshPatt(Perm(case["p"]), [tuple(c) for c in case["R"]]), case["op"], case["k"])
            events.append({"op": "Sym", "name": case["op"], "k": case["k"], "p": case["p"], "R": case["R"],
                           "resp": list(got.pattern), "resR": [list(c) for c in got.shading]})
        tc = {"MaxPerm": 1, "MaxMesh": 1, "SetMaxLen": 1, "SetMaxSize": 1, "EqMaxPerm": 1, "Mode": '"trace"', "Shard": 0, "NShards": 1}
        v = util.validate_trace(ctx, "Trace_C04", events, constants=tc)
        if v["verdict"]:
            print("VIOLATION property=C04 replay=%s" % path)
            return 1
        print("replay: case passes on the current tree")
        return 0
    if case["kind"] == "trace-event":
        events = [reexecute(case["event"])]
        tc = {"MaxPerm": 1, "MaxMesh": 1, "SetMaxLen": 1, "SetMaxSize": 1, "EqMaxPerm": 1, "Mode": '"trace"', "Shard": 0, "NShards": 1}
        v = util.validate_trace(ctx, "Trace_C04", events, constants=tc)
        if v["verdict"]:
            print("VIOLATION property=C04 replay=%s" % path)
            print("  still failing: %s on %s" % (v["verdict"], events[0]))
            return 1
        print("replay: case passes on the current tree")
        return 0
    # states and set edges: re-run the emitting TLC job is not needed, the expectation is stored
    before = len(ctx.violations)
    if case["kind"] == "edge":
        raise tlc.MachineryFailure("set edges are replayed by re-running the check")
    raise tlc.MachineryFailure("state cases are replayed by re-running the check (expectations come from TLC)")
