"""C04 - the eight symmetries on permutations, mesh patterns, sets; equivariance of containment.

spec -> code : every edge <<object, operation, image>> of the action graph of C04_Symmetry and the
               per-state orbit / all-symmetries / lex-min expectations; equivariance pairs.
code -> spec : random larger permutations and mesh patterns, validated by Trace_C04.
"""
import argparse
import contextlib
import io
import json

from permuta import MeshPatt, Perm
from permuta import cli
from permuta.permutils import symmetry as sy

from harness import tlc, util

INVS = ["TypeOK", "Relations", "OrbitSize", "Equivariant", "LexMinInvariant"]
SET_FUN = {"reverse": "reverse_set", "complement": "complement_set", "inverse": "inverse_set",
           "flip_antidiagonal": "antidiagonal_set", "reverse_complement": "rotate_180_clockwise_set"}
ROT_SET = {1: "rotate_90_clockwise_set", 2: "rotate_180_clockwise_set", 3: "rotate_270_clockwise_set"}


def apply_obj(obj, op, k):
    if op == "rotate":
        return obj.rotate(k)
    return getattr(obj, op)()


def mesh_key(M):
    return (tuple(M.pattern), tuple(sorted(M.shading)))


def replay_edge(ctx, e):
    mode, op, k = e["mode"], e["op"], e["k"]
    case = {"kind": "edge", "mode": mode, "op": op, "k": k, "p": e["p"], "R": sorted(e["R"]), "S": e["S"]}
    if mode == "perm":
        P = Perm(e["p"])
        st, got = util.call(apply_obj, P, op, k)
        ctx.case(("perm", tuple(e["p"]), op, k), nontrivial=e["p2"] != e["p"])
        if st == "raise" or list(got) != e["p2"] or not isinstance(got, Perm):
            ctx.violation(case, "ImageIsPlaneMap", e["p2"], got)
        if op == "rotate" and k == 1:
            st, got = util.call(P.rotate)
            if st == "raise" or list(got) != e["p2"]:
                ctx.violation(dict(case, default_arg=True), "ImageIsPlaneMap", e["p2"], got)
    elif mode == "mesh":
        M = MeshPatt(Perm(e["p"]), [tuple(c) for c in e["R"]])
        if op != "rotate" and not hasattr(M, op):
            return                                     # operation not offered on mesh patterns
        st, got = util.call(apply_obj, M, op, k)
        want = (tuple(e["p2"]), tuple(sorted(map(tuple, e["R2"]))))
        ctx.case(("mesh", mesh_key(M), op, k), nontrivial=want != mesh_key(M))
        if st == "raise" or mesh_key(got) != want:
            ctx.violation(case, "ImageIsPlaneMap", want, mesh_key(got) if st == "ok" else got)
    elif mode == "set":
        S = [Perm(x) for x in e["S"]]
        if op == "rotate":
            fn = ROT_SET.get(k % 4)
        else:
            fn = SET_FUN.get(op)
        if fn is None:
            return
        st, got = util.call(lambda: sorted(tuple(x) for x in getattr(sy, fn)(iter(S))))
        want = sorted(tuple(x) for x in e["S2"])
        ctx.case(("set", tuple(map(tuple, e["S"])), fn), nontrivial=want != sorted(tuple(x) for x in e["S"]))
        if st == "raise" or got != want:
            ctx.violation(dict(case, fn=fn), "ImageIsPlaneMap", want, got)


def replay_state(ctx, s):
    mode = s["mode"]
    case = {"kind": "state", "mode": mode, "p": s["p"], "R": sorted(s["R"]), "S": s["S"]}
    if mode == "perm":
        st, got = util.call(lambda: Perm(s["p"]).all_syms())
        want = sorted(tuple(x) for x in s["orbit"])
        ctx.case(("orbit", tuple(s["p"])), nontrivial=len(want) > 1)
        if st == "raise" or sorted(tuple(x) for x in got) != want:
            ctx.violation(case, "AllSymsIsOrbit", want, got)
    elif mode == "mesh":
        st, got = util.call(lambda: MeshPatt(Perm(s["p"]), [tuple(c) for c in s["R"]]).all_syms())
        want = sorted((tuple(m["p"]), tuple(sorted(map(tuple, m["R"])))) for m in s["morbit"])
        ctx.case(("morbit", tuple(s["p"]), tuple(sorted(map(tuple, s["R"])))), nontrivial=len(want) > 1)
        if st == "raise" or sorted(mesh_key(m) for m in got) != want:
            ctx.violation(case, "AllSymsIsOrbit", want, [mesh_key(m) for m in got] if st == "ok" else got)
    elif mode == "set":
        S = [Perm(x) for x in s["S"]]
        want_all = sorted(tuple(tuple(x) for x in T) for T in s["allsets"])
        want_min = tuple(tuple(x) for x in s["lexmin"])
        ctx.case(("sets", tuple(map(tuple, s["S"]))), nontrivial=len(want_all) > 1)
        for form, mk in (("list", lambda: list(S)), ("iterator", lambda: iter(S)), ("reversed-tuple", lambda: tuple(reversed(S)))):
            st, got = util.call(lambda: sy.all_symmetry_sets(mk()))
            if st == "raise" or sorted(tuple(tuple(x) for x in T) for T in got) != want_all:
                ctx.violation(dict(case, form=form), "AllSymmetrySetsIsOrbit", want_all, got)
            st, got = util.call(lambda: sy.lex_min(mk()))
            if st == "raise" or tuple(tuple(x) for x in got) != want_min:
                ctx.violation(dict(case, form=form), "LexMinIsOrbitMinimum", want_min, got)
        # the same representative for every member of the orbit
        for T in s["allsets"]:
            st, got = util.call(lambda: sy.lex_min([Perm(x) for x in T]))
            if st == "raise" or tuple(tuple(x) for x in got) != want_min:
                ctx.violation(dict(case, member=T), "LexMinSameOnOrbit", want_min, got)
        if s["antichain"]:
            text = "_".join("".join(str(v) for v in x) for x in s["S"])
            buf = io.StringIO()
            with contextlib.redirect_stdout(buf):
                st, _ = util.call(lambda: cli.get_parser().parse_args(["lexmin", text]).func(
                    cli.get_parser().parse_args(["lexmin", text])))
            want = "_".join("".join(str(v) for v in x) for x in want_min)
            if st == "raise" or buf.getvalue().strip() != want:
                ctx.violation(dict(case, cli=text), "CliLexMin", want, buf.getvalue().strip())
    elif mode == "equiv":
        q = s["S"][0]
        c = s["c"]
        M = MeshPatt(Perm(s["p"]), [tuple(x) for x in s["R"]])
        Q = Perm(q)
        ctx.case(("equiv", mesh_key(M), tuple(q)), nontrivial=c)
        # the pattern object is used in a search first (its memo table is bound), then transformed:
        # images of used objects must behave like images of fresh ones
        if Q.contains(M) != c or Perm(q).contains(M.pattern) != bool(Perm(s["p"]).count_occurrences_in(Perm(q))):
            ctx.violation(dict(case, q=q, sym="id"), "ContainmentEquivariant", c, not c)
        pairs = [("id", Q, M), ("reverse", Q.reverse(), M.reverse()), ("complement", Q.complement(), M.complement()),
                 ("inverse", Q.inverse(), M.inverse()), ("rotate1", Q.rotate(1), M.rotate(1)),
                 ("rotate2", Q.rotate(2), M.rotate(2)), ("rotate3", Q.rotate(3), M.rotate(3)),
                 ("rotate-1", Q.rotate(-1), M.rotate(-1)),
                 ("antidiagonal", Q.flip_antidiagonal(), M.rotate(2).inverse())]
        for name, Q2, M2 in pairs:
            got = Q2.contains(M2)
            if got != c:
                ctx.violation(dict(case, q=q, sym=name), "ContainmentEquivariant", c, got)
            if not s["R"]:                       # classical pattern on both sides
                P2 = M2.pattern
                if Q2.contains(P2) != c:
                    ctx.violation(dict(case, q=q, sym=name, classical=True), "ContainmentEquivariant", c, Q2.contains(P2))


def run(ctx):
    quick = ctx.tier == "quick"
    nsh = 8
    base = {"MaxPerm": 5 if quick else 7, "MaxMesh": 2, "SetMaxLen": 3, "SetMaxSize": 2 if quick else 3,
            "EqMaxPerm": 4 if quick else 5}
    jobs = []
    for mode in ("perm", "mesh", "set", "equiv"):
        for s in range(nsh if mode in ("perm", "mesh", "equiv") else 1):
            k = dict(base, Mode='"%s"' % mode, Shard=s, NShards=nsh if mode != "set" else 1)
            if mode == "equiv":
                c = util.cfg(init="Init", next_="Stutter", invariants=INVS + ["EmitState"], constants=k)
            else:
                c = util.cfg(init="Init", next_="Next", invariants=INVS + ["EmitState"], properties=["SizePreserved"],
                             action_constraints=["EmitEdge"], view="View", constants=k)
            jobs.append(("C04_Symmetry", c, {"timeout": 3000}))
    results = tlc.run_many(jobs, parallel=16)
    nedge = nstate = 0
    ops_seen = set()
    for r in results:
        ctx.add_tlc(r, "action graph shard")
        for rec in r.records:
            if "op" in rec:
                nedge += 1
                ops_seen.add(rec["op"])
                replay_edge(ctx, rec)
                if nedge % 20011 == 0:
                    ctx.sample({"machine": "C04_Symmetry", "edge": rec})
            else:
                nstate += 1
                replay_state(ctx, rec)
                if nstate % 5003 == 0:
                    ctx.sample({"machine": "C04_Symmetry", "state": rec})
    if len(ops_seen) < 9 or nstate == 0:
        raise tlc.MachineryFailure("C04: vacuous run, operations seen %s" % sorted(ops_seen))
    ctx.exhaustive = True
    ctx.note("edges_replayed", nedge)
    ctx.note("states_replayed", nstate)

    # ---- code -> spec -------------------------------------------------------------
    rnd = util.rng(ctx, 4)
    events = []
    n_ev = 300 if quick else 3000
    for _ in range(n_ev):
        k = rnd.randint(-9, 9)
        name = rnd.choice(["reverse", "complement", "inverse", "flip_antidiagonal", "reverse_complement", "rotate", "rotate"])
        if rnd.random() < 0.5:
            p = util.rand_perm(rnd, rnd.randint(5, 9))
            got = apply_obj(Perm(p), name, k)
            events.append({"op": "Sym", "name": name, "k": k, "p": list(p), "R": [], "resp": list(got), "resR": []})
        else:
            n = rnd.randint(2, 4)
            p = util.rand_perm(rnd, n)
            R = [(x, y) for x in range(n + 1) for y in range(n + 1) if rnd.random() < 0.3]
            M = MeshPatt(Perm(p), R)
            if name in ("flip_antidiagonal", "reverse_complement"):
                name = "rotate"
            got = apply_obj(M, name, k)
            events.append({"op": "Sym", "name": name, "k": k, "p": list(p), "R": [list(c) for c in R],
                           "resp": list(got.pattern), "resR": [list(c) for c in got.shading]})
            q = util.rand_perm(rnd, rnd.randint(n, 6))
            Q = Perm(q)
            events.append({"op": "Equiv", "p": list(p), "R": [list(c) for c in R], "q": list(q),
                           "before": Q.contains(M), "after": apply_obj(Q, name, k).contains(got)})
    tc = dict(base, Mode='"trace"', Shard=0, NShards=1)
    v = util.validate_trace(ctx, "Trace_C04", events, constants=tc, ntraces=n_ev)
    ctx.case(n=len(events))
    ctx.sample({"machine": "Trace_C04", "events": events[:2]})
    for b in v["verdict"]:
        ev = events[b["i"] - 1]
        ctx.violation({"kind": "trace-event", "event": ev}, b["clause"], "image under the plane map of D4", ev)
    ctx.rule = ("TLC explores the action graph of the symmetry operations on all permutations / mesh patterns / small "
                "sets of the universe (one edge per object x operation x rotation count) and per-state orbit, "
                "all-symmetry-sets and lex-min; each edge/state is replayed on the real objects; non-trivial = image "
                "differs from the object (edges) or orbit larger than one (states); equivariance pairs non-trivial when contained")


def replay(ctx, path):
    rec = json.load(open(path))
    case = rec["case"]
    events = []
    if case["kind"] == "edge" and case["mode"] in ("perm", "mesh"):
        if case["mode"] == "perm":
            got = apply_obj(Perm(case["p"]), case["op"], case["k"])
            events.append({"op": "Sym", "name": case["op"], "k": case["k"], "p": case["p"], "R": [], "resp": list(got), "resR": []})
        else:
            got = apply_obj(MeshPatt(Perm(case["p"]), [tuple(c) for c in case["R"]]), case["op"], case["k"])
            events.append({"op": "Sym", "name": case["op"], "k": case["k"], "p": case["p"], "R": case["R"],
                           "resp": list(got.pattern), "resR": [list(c) for c in got.shading]})
        tc = {"MaxPerm": 1, "MaxMesh": 1, "SetMaxLen": 1, "SetMaxSize": 1, "EqMaxPerm": 1, "Mode": '"trace"', "Shard": 0, "NShards": 1}
        v = util.validate_trace(ctx, "Trace_C04", events, constants=tc)
        if v["verdict"]:
            print("VIOLATION property=C04 replay=%s" % path)
            return 1
        print("replay: case passes on the current tree")
        return 0
    # states and set edges: re-run the emitting TLC job is not needed, the expectation is stored
    before = len(ctx.violations)
    if case["kind"] == "edge":
        raise tlc.MachineryFailure("set edges are replayed by re-running the check")
    raise tlc.MachineryFailure("state cases are replayed by re-running the check (expectations come from TLC)")
