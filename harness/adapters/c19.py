"""C19 - reported enumeration strategies follow their stated conditions and symmetries.

spec -> code : for every basis of the universe TLC decides, per core strategy, whether its hypothesis holds for the
               basis or one of its symmetric images (lib Strategies: required patterns excluded from the class,
               every other element of the prescribed 'one plus indecomposable' shape) and checks symmetry
               invariance on the definitions; find_strategies and every Strategy(basis).applies() are compared, in
               several orders, with a repetition, with redundant (non-minimal) elements before and after the
               minimal presentation (memoisation across presentations), and under all eight symmetries; the
               insertion-encoding and finitely-many-simples strategies are compared with the class tests; the
               quick search must be the slow search minus the slow strategies.

Hardening round: redundant (non-minimal) presentations are states of the machine themselves, so their report is
decided exactly by TLC (not only "a subset of the minimal presentation's"); bases with 4-5 elements and elements of
length 6; every question about one class (its minimal and its redundant presentations, their symmetric images, as
list / tuple / set / frozenset / dict keys / Basis, reordered, with repetitions, by keyword) is asked in one process
in a shuffled order, so that an answer remembered for a related question shows; all strategy objects of one basis
alive at once and asked in every order, several times; the same list object searched twice; the whole reported set
(insertion encoding included) compared between symmetric images; a few cold starts (a fresh interpreter whose very
first question is a redundant presentation or a symmetric image).
"""
import itertools
import json
import os
import subprocess
import sys
import time

from permuta import Av, Basis, Perm
from permuta.enumeration_strategies import (all_enumeration_strategies, fast_enumeration_strategies, find_strategies,
                                            long_enumeration_strategies)
from permuta.enumeration_strategies.core_strategies import core_strategies
from permuta.enumeration_strategies.finitely_many_simples import FinitelyManySimplesStrategy
from permuta.enumeration_strategies.insertion_encodable import InsertionEncodingStrategy
from permuta.permutils import is_insertion_encodable
from permuta.permutils.pin_words import PinWords

from harness import tlc, util
from harness.core import REPO

NAME = {"RuCuCoreStrategy": "RuCu", "RdCdCoreStrategy": "RdCd", "RuCuRdCdCoreStrategy": "RuCuRdCd",
        "RuCuCdCoreStrategy": "RuCuCd", "RdCdCuCoreStrategy": "RdCdCu", "RdCuCoreStrategy": "RdCu",
        "Rd2134CoreStrategy": "Rd2134", "Ru2143CoreStrategy": "Ru2143"}
SITE = "find_strategies / CoreStrategy.applies on a basis with an element that is empty after stripping"
DEV = "EmptyAfterStrip_Asserts"
RU, CU, RD, CD = (1, 2, 0, 3), (2, 0, 1, 3), (1, 3, 0, 2), (2, 0, 3, 1)
SLOW_NAMES = {c.__name__ for c in long_enumeration_strategies}


def contains(q, p):
    k = len(p)
    return any(all((q[c[i]] < q[c[j]]) == (p[i] < p[j]) for i in range(k) for j in range(k))
               for c in itertools.combinations(range(len(q)), k))


def minimal(b):
    return sorted({p for p in b if not any(q != p and contains(p, q) for q in b)})


NEEDS = ([RU, CU], [RD, CD], [RD, CU], [RU, CU, CD], [RD, CD, CU], [RD, (1, 0, 2, 3)], [RU, (1, 0, 3, 2)])


def universe(rnd, quick):
    """-> (minimal bases, redundant presentations); a redundant presentation is a minimal basis of the first list
    plus one or two elements that contain one of its elements."""
    s = {n: util.perms_of(n) for n in range(1, 6)}
    out = [[RU, CU], [RD, CD], [RU, CU, RD, CD], [RU, CU, CD], [RD, CD, CU], [RD, CU], [RD, (1, 0, 2, 3)], [RU, (1, 0, 3, 2)],
           [RU, CU, (0, 2, 1, 3, 4)], [RU, CU, (0, 3, 2, 1)], [RD, CD, (0, 2, 3, 1)], [RD, CD, (0, 1, 3, 2)],
           [(0, 1, 2)], [(0, 2, 1)], [(1, 2, 0), (2, 0, 1)], [(0, 1)], [(0,)], [(0,), (1, 0)]]
    for need in NEEDS:
        for _ in range(3 if quick else 12):
            ext = rnd.choice(s[4] + s[5])
            if not any(contains(ext, x) for x in need):
                out.append(list(need) + [ext])
    for _ in range(8 if quick else 80):
        k = rnd.randint(1, 3)
        out.append([rnd.choice(s[rnd.choice([2, 3, 3, 4])]) for _ in range(k)])
    # larger and structurally special: elements of length 5-6 of the form 1 (+) r where whether r decomposes hinges on
    # its first or last entry (r = s (-) 1, s (+) 1, 1 (-) s, 1 (+) s), elements ending with their maximum, 4-5 elements
    def special(k):
        sg = util.rand_perm(rnd, k - 2)
        up = tuple(v + 1 for v in sg)
        form = rnd.randrange(7)
        if form == 0:
            tail = up + (0,)                      # s (-) 1
        elif form == 1:
            tail = sg + (k - 2,)                  # s (+) 1
        elif form == 2:
            tail = (k - 2,) + sg                  # 1 (-) s
        elif form == 3:
            tail = (0,) + up                      # 1 (+) s
        elif form == 4:
            return (0,) + up + (k - 1,)           # (1 (+) s) (+) 1
        elif form == 5:
            return util.rand_perm(rnd, k)
        else:
            tail = util.rand_perm(rnd, k - 1)
        return (0,) + tuple(v + 1 for v in tail)
    for need in NEEDS:
        for _ in range(2 if quick else 6):
            exts = []
            for _ in range(rnd.choice([1, 2, 2])):
                ext = special(rnd.choice([5, 6, 6]))
                if not any(contains(ext, x) for x in need):
                    exts.append(ext)
            if exts:
                out.append(list(need) + exts)
    # a long element together with its inverse (the two need not be of the same form): all such pairs of length 5 in the
    # thorough tier, a few in the quick tier
    def inverse(x):
        inv = [0] * len(x)
        for i, v in enumerate(x):
            inv[v] = i
        return tuple(inv)
    for need in NEEDS:
        pairs = [(x, inverse(x)) for x in s[5] if x < inverse(x) and not any(contains(x, y) or contains(inverse(x), y) for y in need)]
        for x, xi in (rnd.sample(pairs, min(2, len(pairs))) if quick else pairs):
            out.append(list(need) + [x, xi])
    res = []
    for b in out:
        m = minimal(b)
        if m and m not in res:
            res.append(m)
    # redundant presentations
    raw = []
    cand = [b for b in res if max(map(len, b)) <= 5 and (1,) != tuple(map(len, b))]
    picks = cand[:12] + rnd.sample(cand[12:], min(len(cand) - 12, 4 if quick else 30)) if len(cand) > 12 else cand
    for b in picks:
        for _ in range(2 if quick else 4):
            extras = set()
            for _ in range(rnd.choice([1, 1, 2])):
                base = rnd.choice(b)
                r = rnd.random()
                if r < 0.5:          # 1 (+) base: starts with its minimum
                    e = (0,) + tuple(v + 1 for v in base)
                elif r < 0.7:        # base (+) 1
                    e = tuple(base) + (len(base),)
                else:                # a point inserted anywhere
                    i, v = rnd.randint(0, len(base)), rnd.randint(0, len(base))
                    e = tuple(x + (x >= v) for x in base[:i]) + (v,) + tuple(x + (x >= v) for x in base[i:])
                if e not in b:
                    extras.add(e)
            r = sorted(set(b) | extras)
            if extras and minimal(r) == sorted(b) and r not in raw and r not in res:
                raw.append(r)
    return res, raw


def report_of(strats):
    return sorted(type(x).__name__ for x in strats)


def containers(rnd, perms, is_minimal):
    """The same finite set handed over in different containers / orders (name, thunk making the argument)."""
    B = [Perm(p) for p in perms]
    sh = list(B)
    rnd.shuffle(sh)
    out = [("list as given", lambda: list(B)), ("list reversed", lambda: list(reversed(B))), ("list shuffled", lambda: list(sh)),
           ("list with a repetition", lambda: list(B) + B[:1]), ("list with everything twice", lambda: sh + list(B)),
           ("tuple", lambda: tuple(sh)), ("set", lambda: set(B)), ("frozenset", lambda: frozenset(B)), ("dict keys", lambda: dict.fromkeys(sh))]
    if is_minimal:
        out.append(("Basis", lambda: Basis(*sh)))
        out.append(("basis of Av", lambda: Av(Basis(*B)).basis))
    return out


COLD = r"""
import json, sys
from permuta import Perm
from permuta.enumeration_strategies import find_strategies
from permuta.enumeration_strategies.core_strategies import core_strategies
qs = json.loads(sys.argv[1])
out = []
for q in qs:
    B = [Perm(p) for p in q["perms"]]
    try:
        if q["how"] == "find":
            out.append(sorted(type(x).__name__ for x in find_strategies(B, False)))
        else:
            out.append(sorted(c.__name__ for c in reversed(core_strategies) if c(B).applies()))
    except Exception as e:
        out.append("raise " + type(e).__name__)
print(json.dumps(out))
"""


def cold_start(queries):
    env = util.hash_env(19, PYTHONPATH=REPO + os.pathsep + os.environ.get("PYTHONPATH", ""))
    p = subprocess.run([sys.executable, "-c", COLD, json.dumps(queries)], capture_output=True, text=True, timeout=600, env=env, check=False)
    if p.returncode != 0:
        raise tlc.MachineryFailure("C19: cold-start interpreter failed: " + p.stderr[-400:])
    return json.loads(p.stdout.strip().splitlines()[-1])


def weak_hash_events(ctx):
    """Run in the weak-hash interpreter (harness/weakhash.py): the quick search on every basis of the universe and on its
    reversal, in one process in which permutations and bases share a few hash values."""
    rnd = util.rng(ctx, 19)
    uni, raw = universe(rnd, True)
    out = []
    for b in list(uni) + list(raw):
        for arg, how in ((lambda: [Perm(p) for p in b], "list"), (lambda: [Perm(p) for p in reversed(b)], "list reversed")):
            st, got = util.call(find_strategies, arg(), False)
            out.append({"basis": [list(p) for p in b], "how": how, "ok": st == "ok", "report": report_of(got) if st == "ok" else str(got)})
    return out


def run(ctx):
    quick = ctx.tier == "quick"
    rnd = util.rng(ctx, 19)
    weak = util.weak_hash_start(ctx, "c19", "weak_hash_events") if quick else None
    t0 = time.time()
    phases = {}
    uni, raw = universe(rnd, quick)
    entries = [(b, True) for b in uni] + [(r, False) for r in raw]
    jobs = [("LibSanity_Simples", util.cfg(init="Init", next_="Next"), {"workers": 2, "timeout": 1800})]
    per = 4
    for i in range(0, len(entries), per):
        inp = "{" + ", ".join("{" + ", ".join(tlc.tla(list(p)) for p in b) + "}" for b, _ in entries[i:i + per]) + "}"
        mod = util.mc_module("MC_C19", "C19_Strategies", {"InputsDef": inp})
        c = util.cfg(init="Init", next_="Stutter", invariants=["SymmetryInvariant", "AddingNeededKeeps", "RedundantNeverGrows", "ImagesOfImages", "EmitState"],
                     constants={"Inputs": ("<-", "InputsDef")})
        jobs.append(("MC_C19", c, {"files": {"MC_C19.tla": mod}, "timeout": 3000}))
    results = tlc.run_many(jobs, parallel=16)
    ctx.add_tlc(results[0], "LibSanity_Simples")
    recs = {}
    for r in results[1:]:
        ctx.add_tlc(r, "strategy hypotheses")
        for rec in r.records:
            recs[tuple(sorted(map(tuple, rec["basis"])))] = rec
    if len(recs) != len(entries):
        raise tlc.MachineryFailure("C19: %d records for %d bases" % (len(recs), len(entries)))
    for b, is_min in entries:
        rec = recs[tuple(sorted(b))]
        if sorted(map(tuple, rec["minimal"])) != minimal(b) or (is_min != (minimal(b) == sorted(b))):
            raise tlc.MachineryFailure("C19: minimal part of %s: model %s, harness %s" % (b, rec["minimal"], minimal(b)))
    phases["TLC"] = round(time.time() - t0, 1)
    t0 = time.time()

    # ---- the quick search as answered by an interpreter whose hashes collide (the universe is the same: same seed) ----
    known = ctx.known_entry(SITE, DEV)
    for doc in (util.weak_hash_finish(ctx, weak, "c19") if weak is not None else []):
        rec = recs.get(tuple(sorted(map(tuple, doc["basis"]))))
        if rec is None:
            continue
        case = {"kind": "basis", "basis": doc["basis"], "presentation": doc["how"] + ", interpreter with colliding hashes"}
        ctx.case(("weak", json.dumps(doc["basis"]), doc["how"]), nontrivial=bool(rec["report"]))
        if not doc["ok"]:
            if set(rec["undefined"]) and "AssertionError" in doc["report"] and known is not None:
                ctx.known_finding(known, {"basis": doc["basis"], "presentation": case["presentation"]})
            else:
                ctx.violation(case, "NoException", sorted(rec["report"]), doc["report"])
            continue
        core_got = {NAME[n] for n in doc["report"] if n in NAME}
        if core_got != set(rec["report"]):
            ctx.violation(case, "CoreStrategyHypothesis", sorted(rec["report"]), sorted(core_got))
    # ---- the questions, grouped by class, shuffled inside a group -----------------------------------------------
    groups = {}
    for b, is_min in entries:
        groups.setdefault(tuple(minimal(b)), []).append((b, is_min))
    applied = set()
    nq = 0
    shrunk = 0
    for mkey, members in groups.items():
        questions = []
        for b, is_min in members:
            rec = recs[tuple(sorted(b))]
            want = set(rec["report"])
            applied |= want
            if not is_min and want != set(recs[mkey]["report"]):
                shrunk += 1
            ctx.case(tuple(sorted(b)), nontrivial=bool(want))
            if len(ctx.samples) < 3 and want:
                ctx.sample({"basis": b, "core_strategies_by_model": sorted(want), "minimal": is_min})
            forms = containers(rnd, b, is_min)
            keep = forms[:2] + rnd.sample(forms[2:], 3 if quick else len(forms) - 2)
            for fname, mk in keep:
                questions.append((b, is_min, rec, fname, mk, False))
            syms = [s for s in rec["syms"] if sorted(map(tuple, s)) != sorted(b)]
            rnd.shuffle(syms)
            for sym in syms[: (3 if quick else 8)]:
                sp = [Perm(p) for p in sym]
                rnd.shuffle(sp)
                questions.append((b, is_min, rec, "symmetric image", (lambda sp=sp: list(sp)), True))
        rnd.shuffle(questions)
        small = sum(len(p) for p in mkey) <= 14 and max(map(len, mkey)) <= 5
        fast_sets, simples, nslow = {}, {}, {}
        for qi, (b, is_min, rec, fname, mk, is_sym) in enumerate(questions):
            nq += 1
            want = set(rec["report"])
            undefined = set(rec["undefined"])
            case = {"kind": "basis", "basis": [list(p) for p in b], "presentation": fname, "asked_as_number": qi + 1,
                    "of_the_class": [list(p) for p in mkey]}
            key = tuple(sorted(b))
            slow = small and fname in ("list as given", "list reversed", "tuple") and sum(len(p) for p in b) <= 14 and nslow.get(key, 0) < (2 if is_min else (0 if quick else 1))
            nslow[key] = nslow.get(key, 0) + slow
            arg = mk()
            if is_sym:
                case["image"] = [list(p) for p in arg]
            if qi % 3 == 0:
                st, got = util.call(find_strategies, basis=arg, long_runnning=slow)
            elif slow:
                st, got = util.call(find_strategies, arg) if qi % 3 == 1 else util.call(find_strategies, arg, True)
            else:
                st, got = util.call(find_strategies, arg, False)
            if st == "raise":
                if undefined and "AssertionError" in str(got) and known is not None:
                    ctx.known_finding(known, {"basis": [list(p) for p in b], "presentation": fname})
                    continue
                ctx.violation(case, "NoException", sorted(want), got)
                continue
            names = report_of(got)
            core_got = {NAME[n] for n in names if n in NAME}
            if core_got != want:
                ctx.violation(case, "CoreStrategyHypothesis", sorted(want), sorted(core_got))
            # the whole quickly found set is the same for every presentation and every symmetric image of this basis
            fast = sorted(set(names) - SLOW_NAMES)
            if key not in fast_sets:
                fast_sets[key] = (fast, fname)
            elif fast_sets[key][0] != fast:
                ctx.violation(case, "ReportInvariantUnderPresentationAndSymmetry", "%s (asked as %s)" % fast_sets[key], fast)
            if slow:
                st2, quick_found = util.call(find_strategies, mk(), False)
                if st2 == "ok" and set(report_of(quick_found)) != set(names) - SLOW_NAMES:
                    ctx.violation(case, "QuickIsSlowMinusSlowStrategies", sorted(set(names) - SLOW_NAMES), report_of(quick_found))
                if key not in simples:
                    simples[key] = PinWords.has_finite_simples([Perm(p) for p in b])
                fs = simples[key]
                if ("FinitelyManySimplesStrategy" in names) != fs:
                    ctx.violation(dict(case, strategy="FinitelyManySimplesStrategy"), "SimplesStrategyIffClassTest", fs, not fs)
            if fname == "list as given":
                ie = any(is_insertion_encodable([Perm(p) for p in sym]) for sym in rec["syms"])
                if ("InsertionEncodingStrategy" in names) != ie:
                    ctx.violation(dict(case, strategy="InsertionEncodingStrategy"), "InsertionEncodingStrategyIffClassTest", ie, not ie)
            for obj in got:                           # the objects find_strategies returned still say "applies"
                if type(obj).__name__ in SLOW_NAMES:
                    continue
                st3, ap = util.call(obj.applies)
                if st3 == "ok" and ap is not True:
                    ctx.violation(dict(case, strategy=type(obj).__name__, asked="reported object asked again"), "CoreStrategyHypothesis", True, ap)
                st4, ref = util.call(type(obj).reference)
                if st4 != "ok" or not isinstance(ref, str) or not ref:
                    ctx.drift("%s.reference() gives %r" % (type(obj).__name__, ref))
            if fname in ("list as given", "symmetric image", "set") and not undefined:
                strategy_objects(ctx, rnd, case, arg, want, full=(fname == "list as given"))
            if fname == "list shuffled":              # the same list object searched twice; the list is the caller's
                before = list(arg)
                a1 = util.call(find_strategies, arg, False)
                a2 = util.call(find_strategies, arg, False)
                if a1[0] == "ok" and a2[0] == "ok" and not (report_of(a1[1]) == report_of(a2[1]) == fast):
                    ctx.violation(dict(case, asked="the same list object, twice more"), "ReportInvariantUnderPresentationAndSymmetry", fast,
                                  [report_of(a1[1]), report_of(a2[1])])
                if list(arg) != before:
                    ctx.drift("find_strategies changed the caller's list %s into %s" % (before, list(arg)))
    phases["questions"] = round(time.time() - t0, 1)
    t0 = time.time()

    # ---- cold starts: the first question of a fresh interpreter ------------------------------------------------
    pool = [(b, recs[tuple(sorted(b))]) for b, is_min in entries if not set(recs[tuple(sorted(b))]["undefined"])]
    interesting = [x for x in pool if x[1]["report"]] or pool
    firsts = [x for x in interesting if minimal(x[0]) != sorted(x[0])] or interesting
    ncold = 0
    for k in range(2 if quick else 10):
        b, rec = rnd.choice(firsts if k % 2 == 0 else interesting)
        sym = rnd.choice(rec["syms"])
        mrec = recs[tuple(minimal(b))]
        qs = [{"perms": [list(p) for p in (sym if k % 2 else b)], "how": "find" if k % 4 < 2 else "classes", "want": rec["report"]},
              {"perms": [list(p) for p in mrec["basis"]], "how": "find", "want": mrec["report"]},
              {"perms": [list(p) for p in b], "how": "classes", "want": rec["report"]}]
        outs = cold_start([{"perms": q["perms"], "how": q["how"]} for q in qs])
        for i, (q, o) in enumerate(zip(qs, outs)):
            ncold += 1
            ctx.case(("cold", k, i), nontrivial=bool(q["want"]))
            case = {"kind": "cold start", "question_number": i + 1, "perms": q["perms"], "how": q["how"]}
            if isinstance(o, str):
                ctx.violation(case, "NoException", sorted(q["want"]), o)
            elif {NAME[n] for n in o if n in NAME} != set(q["want"]):
                ctx.violation(case, "CoreStrategyHypothesis", sorted(q["want"]), sorted(NAME[n] for n in o if n in NAME))
    phases["cold starts"] = round(time.time() - t0, 1)
    if len(applied) < 6:
        raise tlc.MachineryFailure("C19: only %s ever apply in the universe" % sorted(applied))
    if raw and not shrunk:
        raise tlc.MachineryFailure("C19: no redundant presentation loses a strategy of its minimal presentation (universe too tame)")
    ctx.exhaustive = True
    ctx.traces += len(entries)
    ctx.note("strategies_exercised", sorted(applied))
    ctx.note("phase_seconds", phases)
    ctx.note("universe", {"minimal bases": len(uni), "redundant presentations": len(raw), "redundant ones that lose a strategy": shrunk,
                          "questions asked": nq, "cold-start questions": ncold, "longest element": max(len(p) for b, _ in entries for p in b),
                          "most elements": max(len(b) for b, _ in entries)})
    ctx.rule = ("per basis (minimal or redundant presentation) the model decides every core strategy's hypothesis over the eight "
                "symmetric images; find_strategies is compared exactly for every presentation (orders, repetitions, containers, "
                "keywords) and symmetric image, all questions about one class asked in one process in shuffled order; every strategy "
                "class asked with all objects alive at once, in every order; non-trivial = at least one core strategy applies")
    ctx.assumptions.append("Rd2134 / Ru2143 extension conditions are transcriptions of the documented condition (oracle: transcribed)")


def strategy_objects(ctx, rnd, case, arg, want, full):
    """All strategy objects of one basis alive at once, asked in shuffled orders, each several times."""
    classes = list(core_strategies)
    rnd.shuffle(classes)
    objs = []
    for cls in classes:
        st, obj = util.call(cls, arg)
        if st == "ok":
            objs.append(obj)
    for rnd_no in range(3 if full else 2):
        order = list(objs)
        rnd.shuffle(order)
        for obj in order:
            nm = type(obj).__name__
            st, ap = util.call(obj.applies)
            if st == "ok" and bool(ap) != (NAME[nm] in want):
                ctx.violation(dict(case, strategy=nm, asked="all objects alive, round %d" % (rnd_no + 1)), "CoreStrategyHypothesis", NAME[nm] in want, ap)
                return
    if full:
        # a second object of the same class for the same basis, asked while the first is alive
        for obj in objs[:3]:
            st, ap = util.call(type(obj)(list(arg)).applies)
            if st == "ok" and bool(ap) != (NAME[type(obj).__name__] in want):
                ctx.violation(dict(case, strategy=type(obj).__name__, asked="second object of the class"), "CoreStrategyHypothesis",
                              NAME[type(obj).__name__] in want, ap)


def replay(ctx, path):
    raise tlc.MachineryFailure("C19 cases are replayed by re-running the check")
