"""C19 - reported enumeration strategies follow their stated conditions and symmetries.

spec -> code : for every basis of the universe TLC decides, per core strategy, whether its hypothesis holds for the
               basis or one of its symmetric images (lib Strategies: required patterns excluded from the class,
               every other element of the prescribed 'one plus indecomposable' shape) and checks symmetry
               invariance on the definitions; find_strategies and every Strategy(basis).applies() are compared, in
               several orders, with a repetition, with redundant (non-minimal) elements before and after the
               minimal presentation (memoisation across presentations), and under all eight symmetries; the
               insertion-encoding and finitely-many-simples strategies are compared with the class tests; the
               quick search must be the slow search minus the slow strategies.
"""
import itertools
import json

from permuta import Av, Perm
from permuta.enumeration_strategies import all_enumeration_strategies, find_strategies
from permuta.enumeration_strategies.core_strategies import core_strategies
from permuta.enumeration_strategies.finitely_many_simples import FinitelyManySimplesStrategy
from permuta.enumeration_strategies.insertion_encodable import InsertionEncodingStrategy
from permuta.permutils import is_insertion_encodable
from permuta.permutils.pin_words import PinWords

from harness import tlc, util

NAME = {"RuCuCoreStrategy": "RuCu", "RdCdCoreStrategy": "RdCd", "RuCuRdCdCoreStrategy": "RuCuRdCd",
        "RuCuCdCoreStrategy": "RuCuCd", "RdCdCuCoreStrategy": "RdCdCu", "RdCuCoreStrategy": "RdCu",
        "Rd2134CoreStrategy": "Rd2134", "Ru2143CoreStrategy": "Ru2143"}
SITE = "find_strategies / CoreStrategy.applies on a basis with an element that is empty after stripping"
DEV = "EmptyAfterStrip_Asserts"
RU, CU, RD, CD = (1, 2, 0, 3), (2, 0, 1, 3), (1, 3, 0, 2), (2, 0, 3, 1)


def contains(q, p):
    k = len(p)
    return any(all((q[c[i]] < q[c[j]]) == (p[i] < p[j]) for i in range(k) for j in range(k))
               for c in itertools.combinations(range(len(q)), k))


def universe(rnd, quick):
    s = {n: util.perms_of(n) for n in range(1, 6)}
    out = [[RU, CU], [RD, CD], [RU, CU, RD, CD], [RU, CU, CD], [RD, CD, CU], [RD, CU], [RD, (1, 0, 2, 3)], [RU, (1, 0, 3, 2)],
           [RU, CU, (0, 2, 1, 3, 4)], [RU, CU, (0, 3, 2, 1)], [RD, CD, (0, 2, 3, 1)], [RD, CD, (0, 1, 3, 2)],
           [(0, 1, 2)], [(0, 2, 1)], [(1, 2, 0), (2, 0, 1)], [(0, 1)], [(0,)], [(0,), (1, 0)]]
    for need in ([RU, CU], [RD, CD], [RD, CU], [RU, CU, CD], [RD, CD, CU], [RD, (1, 0, 2, 3)], [RU, (1, 0, 3, 2)]):
        for _ in range(3 if quick else 12):
            ext = rnd.choice(s[4] + s[5])
            if not any(contains(ext, x) for x in need):
                out.append(list(need) + [ext])
    for _ in range(8 if quick else 80):
        k = rnd.randint(1, 3)
        out.append([rnd.choice(s[rnd.choice([2, 3, 3, 4])]) for _ in range(k)])
    res = []
    for b in out:
        m = sorted({p for p in b if not any(q != p and contains(p, q) for q in b)})
        if m and m not in res:
            res.append(m)
    return res


def report_of(strats):
    return sorted(type(x).__name__ for x in strats)


def run(ctx):
    quick = ctx.tier == "quick"
    rnd = util.rng(ctx, 19)
    uni = universe(rnd, quick)
    jobs = [("LibSanity_Simples", util.cfg(init="Init", next_="Next"), {"workers": 2, "timeout": 1800})]
    per = 3
    for i in range(0, len(uni), per):
        inp = "{" + ", ".join("{" + ", ".join(tlc.tla(list(p)) for p in b) + "}" for b in uni[i:i + per]) + "}"
        mod = util.mc_module("MC_C19", "C19_Strategies", {"InputsDef": inp})
        c = util.cfg(init="Init", next_="Stutter", invariants=["SymmetryInvariant", "AddingNeededKeeps", "EmitState"], constants={"Inputs": ("<-", "InputsDef")})
        jobs.append(("MC_C19", c, {"files": {"MC_C19.tla": mod}, "timeout": 3000}))
    results = tlc.run_many(jobs, parallel=16)
    ctx.add_tlc(results[0], "LibSanity_Simples")
    recs = {}
    for r in results[1:]:
        ctx.add_tlc(r, "strategy hypotheses")
        for rec in r.records:
            recs[tuple(sorted(map(tuple, rec["basis"])))] = rec
    if len(recs) != len(uni):
        raise tlc.MachineryFailure("C19: %d records for %d bases" % (len(recs), len(uni)))
    applied = set()
    for b in uni:
        rec = recs[tuple(sorted(b))]
        want_core = set(rec["report"])
        undefined = set(rec["undefined"])
        applied |= want_core
        base = {"kind": "basis", "basis": [list(p) for p in b]}
        ctx.case(tuple(sorted(b)), nontrivial=bool(want_core))
        B = [Perm(p) for p in b]
        # a redundant element: contains some basis element, so the class is the same
        extra = None
        for cand in util.perms_of(max(map(len, b)) + 1):
            if contains(cand, b[0]):
                extra = cand
        presentations = [("as given", list(B)), ("reversed", list(reversed(B))), ("with a repetition", list(B) + B[:1])]
        if extra is not None:
            presentations.insert(0, ("redundant element first", [Perm(extra)] + list(B)))   # queried before the minimal one
            presentations.append(("redundant element last", list(B) + [Perm(extra)]))
        for sym in rec["syms"][: (3 if quick else 8)]:
            presentations.append(("symmetric image", [Perm(p) for p in sym]))
        for pname, pres in presentations:
            case = dict(base, presentation=pname)
            slow = pname in ("as given", "reversed") or (pname == "symmetric image" and pres is presentations[-1][1])
            st, got = util.call(find_strategies, pres, slow)
            if st == "raise":
                e = ctx.known_entry(SITE, DEV)
                if undefined and "AssertionError" in str(got) and e is not None:
                    ctx.known_finding(e, {"basis": [list(p) for p in b], "presentation": pname})
                    continue
                ctx.violation(case, "NoException", sorted(want_core), got)
                continue
            names = report_of(got)
            core_got = {NAME[n] for n in names if n in NAME}
            # a redundant element must itself have the prescribed shape, so the report may legitimately
            # shrink for presentations with extra elements; it can never grow beyond the minimal basis's report
            if "redundant" in pname:
                if not core_got <= want_core:
                    ctx.violation(case, "CoreStrategyHypothesis", "subset of %s" % sorted(want_core), sorted(core_got))
            elif core_got != want_core:
                ctx.violation(case, "CoreStrategyHypothesis", sorted(want_core), sorted(core_got))
            if slow:
                st2, fast = util.call(find_strategies, pres, False)
                if st2 == "ok" and set(report_of(fast)) != set(names) - {"FinitelyManySimplesStrategy"}:
                    ctx.violation(case, "QuickIsSlowMinusSlowStrategies", sorted(set(names) - {"FinitelyManySimplesStrategy"}), report_of(fast))
            if pname == "as given":
                for cls in core_strategies:
                    obj = cls(B)
                    for ask in (1, 2, 3):                 # the same strategy object asked repeatedly
                        st3, ap = util.call(obj.applies)
                        if st3 == "ok" and ap != (NAME[cls.__name__] in want_core):
                            ctx.violation(dict(case, strategy=cls.__name__, asked=ask), "CoreStrategyHypothesis", NAME[cls.__name__] in want_core, ap)
                            break
                for obj in got:                           # the objects find_strategies returned still say "applies"
                    st3, ap = util.call(obj.applies)
                    if st3 == "ok" and ap is not True:
                        ctx.violation(dict(case, strategy=type(obj).__name__, asked="reported object asked again"), "CoreStrategyHypothesis", True, ap)
                ie = any(is_insertion_encodable([Perm(p) for p in sym]) for sym in rec["syms"])
                if ("InsertionEncodingStrategy" in names) != ie:
                    ctx.violation(dict(case, strategy="InsertionEncodingStrategy"), "InsertionEncodingStrategyIffClassTest", ie, not ie)
                fs = PinWords.has_finite_simples(list(B))
                if ("FinitelyManySimplesStrategy" in names) != fs:
                    ctx.violation(dict(case, strategy="FinitelyManySimplesStrategy"), "SimplesStrategyIffClassTest", fs, not fs)
        if len(ctx.samples) < 3 and want_core:
            ctx.sample({"basis": b, "core_strategies_by_model": sorted(want_core)})
    if len(applied) < 6:
        raise tlc.MachineryFailure("C19: only %s ever apply in the universe" % sorted(applied))
    ctx.exhaustive = True
    ctx.traces += len(uni)
    ctx.note("strategies_exercised", sorted(applied))
    ctx.rule = ("per basis the model decides every core strategy's hypothesis over the eight symmetric images; find_strategies "
                "is compared for the basis as given, reversed, repeated, with a redundant element (asked before "
                "and after the minimal presentation) and for symmetric images; non-trivial = at least one core strategy applies")
    ctx.assumptions.append("Rd2134 / Ru2143 extension conditions are transcriptions of the documented condition (oracle: transcribed)")


def replay(ctx, path):
    raise tlc.MachineryFailure("C19 cases are replayed by re-running the check")
