"""C09 - generation, ranking and notations are bijective and mutually consistent.

model      : C09_LexGen  - the generator of all permutations as a state machine (cur, step); rank = number of
                           smaller permutations, unrank = index in the sorted enumeration, successor = least
                           greater permutation; the behaviour is cut into overlapping segments (one JVM each);
             C09_StdMemo - standardisation by definition over every order pattern, and the memo as a hash
                           table of shared results (history machine, transition tour; the deviation "look up by
                           hash only" must be refuted by TLC on the same universe);
             C09_Notation - every notation of every permutation, the domain of the validated constructor;
             C09_MeshRank - the enumerator of all mesh patterns of a length as a state machine.
spec->code : every emitted state / edge is replayed on Perm / MeshPatt through every entry point the property
             names (first, of_length, up_to_length, unrank with and without length, rank, <, to_standard on
             every carrier type and in several histories, from_string, one_based, from_integer, repr/eval,
             from_iterable_validated, Perm(), MeshPatt.rank/unrank/of_length).
code->spec : calls of the real code on larger random arguments (lengths up to 8, sequences up to length 9,
             notations up to length 10, mesh patterns of length 3-4), one event each, judged by Trace_C09.
Hardening probes (same judge, Trace_C09): fresh interpreters whose very first call is unrank(r, 9..11), rank of a
             length-10 permutation, first(50003), of_length(9) near its end, to_standard of a long sequence, a mesh rank
             at the end of the range (process-wide tables as a new user finds them); lengths 9-11 visited in jumps in one
             process, ranked without enumeration (LRankBySplit, cross-checked in LibSanity_LexRank); aliases and keyword
             forms of every entry point; several lazy listings (Perm and MeshPatt) alive at once and advanced in turn;
             every single-cell / boundary rank of MeshPatt.unrank at length 3-4.
The definitions are cross-checked once per run by LibSanity_LexRank.
"""
import collections
import concurrent.futures
import inspect
import itertools
import json
import math
import os
import subprocess
import sys
import tempfile
from fractions import Fraction

from permuta import MeshPatt, Perm

from harness import tlc, tour, util

GEN_INVS = ["TypeOK", "TableSound", "RankIsStep", "IndexIsStep", "SuccessorsAgree", "UnrankNIsCur", "UnrankIsCur",
            "BoundaryRanks", "ExactlyOnce", "ShorterFirst", "EmitState"]
GEN_PROPS = ["Increasing", "NothingBetween", "LengthNeverDrops"]
STD_INVS = ["ReplyIsStd", "ReplyIsOrderIso", "ReplyUnique", "FixedPoints"]
MESH_INVS = ["TypeOK", "RankIsRank", "PosIsIndex", "RankIsCount", "Extremes", "SampleSound", "EmitState"]
NONINT = 99
MERSENNE = 2 ** 61 - 1          # hash(k * MERSENNE) == 0 for every integer k
TARGET = (1, 3, 0, 2, 4)


def shorter(n):
    """number of permutations of length < n (harness arithmetic, only used to cut the behaviour into
    segments; TLC re-derives every start step by counting)"""
    return sum(math.factorial(i) for i in range(n))


# =========================================================================================
# part 1: the generator machine
# =========================================================================================
def gen_job(minlen, maxlen, start, sstep, stop, track, every):
    mod = util.mc_module("MC_C09G", "C09_LexGen", {"StartDef": tlc.tla(list(start))})
    k = {"MinLen": minlen, "MaxLen": maxlen, "StartPerm": ("<-", "StartDef"), "StartStep": sstep, "StopStep": stop,
         "Track": track, "DefEvery": every}
    c = util.cfg(init="Init", next_="Next", constants=k, invariants=GEN_INVS, properties=GEN_PROPS)
    return ("MC_C09G", c, {"files": {"MC_C09G.tla": mod}, "timeout": 3000})


def gen_plan(quick):
    """[(start perm, start step, DefEvery, Track)] in behaviour order, and the last step."""
    starts = []
    if quick:
        top, tracked, depth, every = 7, 5, {6: 1, 7: 1}, {6: 1, 7: 12}
    else:
        top, tracked, depth, every = 8, 6, {7: 1, 8: 2}, {7: 3, 8: 150}
    starts.append(((), 0, 1, True))
    for n in range(tracked + 1, top + 1):
        d = depth[n]
        block = math.factorial(n - d)
        for idx, pre in enumerate(itertools.permutations(range(n), d)):
            rest = tuple(v for v in range(n) if v not in pre)
            starts.append((tuple(pre) + rest, shorter(n) + idx * block, every[n], False))
    return starts, shorter(top + 1) - 1, top


def gen_jobs(quick):
    starts, last, top = gen_plan(quick)
    jobs = []
    for i, (start, sstep, every, track) in enumerate(starts):
        if i + 1 < len(starts):
            stop, endlen = starts[i + 1][1], len(starts[i + 1][0])
        else:
            stop, endlen = last, top
        jobs.append(gen_job(len(start), endlen, start, sstep, stop, track, every))
    return jobs, last, top


def judge_generator(ctx, results, last, top, quick, rnd):
    by_step = {}
    bydef = 0
    for r in results:
        if not r.records:
            raise tlc.MachineryFailure("C09 generator segment emitted nothing")
        for rec in r.records:
            old = by_step.get(rec["step"])
            if old is not None and old["cur"] != rec["cur"]:
                raise tlc.MachineryFailure("C09: segments disagree at step %d: %s / %s" % (rec["step"], old["cur"], rec["cur"]))
            if old is None or rec["bydef"]:
                by_step[rec["step"]] = rec
    if sorted(by_step) != list(range(last + 1)):
        raise tlc.MachineryFailure("C09: generator behaviour has gaps (%d steps for 0..%d)" % (len(by_step), last))
    recs = [by_step[s] for s in range(last + 1)]
    bydef = sum(1 for r in recs if r["bydef"])
    E = [tuple(r["cur"]) for r in recs]
    ctx.note("generator", {"steps": last + 1, "lengths": "0..%d" % top, "states_with_counting_definitions": bydef})
    ctx.sample({"machine": "C09_LexGen", "state": recs[min(len(recs) - 1, 1234)]})

    def bad(case, clause, exp, got):
        ctx.violation(dict(case, kind="gen"), clause, exp, got)

    # ---- unrank / unrank with length / rank, every step ------------------------------------
    for r in recs:
        s, n, rin, cur = r["step"], r["n"], r["rin"], tuple(r["cur"])
        ctx.case(("gen", s), nontrivial=n >= 3, n=3)
        st, got = util.call(Perm.unrank, s)
        if st != "ok" or tuple(got) != cur or not isinstance(got, Perm):
            bad({"call": "unrank", "r": s}, "UnrankIsCur", list(cur), got if st != "ok" else list(got))
        st, got = util.call(Perm.unrank, rin, n)
        if st != "ok" or tuple(got) != cur or not isinstance(got, Perm):
            bad({"call": "unrankN", "r": rin, "n": n}, "UnrankNIsCur", list(cur), got if st != "ok" else list(got))
        st, got = util.call(Perm(cur).rank)
        if st != "ok" or got != s:
            bad({"call": "rank", "p": list(cur)}, "RankIsStep", s, got)
        if r["last"] or rin == 0:
            # boundary ranks of this length: the spec says -1 and count are ranks of no permutation of length n
            for rr in (-1, r["count"], r["count"] + 1):
                ctx.case(("gen-reject", n, rr), nontrivial=True)
                st, got = util.call(Perm.unrank, rr, n)
                if st == "ok":
                    bad({"call": "unrankN", "r": rr, "n": n}, "BoundaryRanks", "rejected (no permutation of length %d has rank %d)" % (n, rr), list(got))
    st, got = util.call(Perm.unrank, -1)
    ctx.case(("gen-reject", "none", -1), nontrivial=True)
    if st == "ok":
        bad({"call": "unrank", "r": -1}, "BoundaryRanks", "rejected (ranks start at 0)", list(got))

    # ---- of_length / up_to_length -------------------------------------------------------
    for n in range(top + 1):
        block = [tuple(r["cur"]) for r in recs if r["n"] == n]
        st, got = util.call(lambda n=n: list(Perm.of_length(n)))
        ctx.case(("of_length", n), nontrivial=n >= 2, n=len(block))
        if st != "ok" or [tuple(p) for p in got] != block or not all(isinstance(p, Perm) for p in got):
            bad({"call": "of_length", "n": n}, "OfLengthIsTheBlock", first_diff(block, got, st), "see expected")
        st, got = util.call(lambda n=n: list(Perm.up_to_length(n)))
        want = E[:shorter_from(recs, n + 1)]
        ctx.case(("up_to_length", n), nontrivial=n >= 2, n=len(want))
        if st != "ok" or [tuple(p) for p in got] != want or not all(isinstance(p, Perm) for p in got):
            bad({"call": "up_to_length", "n": n}, "UpToLengthIsThePrefix", first_diff(want, got, st), "see expected")

    # ---- first(k): the prefix property, every small k, every boundary, sampled large k ------
    ks = set(range(0, min(last + 2, 401 if quick else 1501)))
    for n in range(top + 2):
        b = shorter_from(recs, n)
        ks.update(k for k in (b - 1, b, b + 1) if 0 <= k <= last + 1)
    ks.update(rnd.randrange(last + 2) for _ in range(40 if quick else 120))
    ks.add(last + 1)
    for k in sorted(ks):
        st, got = util.call(lambda k=k: list(Perm.first(k)))
        ctx.case(("first", k), nontrivial=k >= 5)
        if st != "ok" or len(got) != k or [tuple(p) for p in got] != E[:k] or not all(isinstance(p, Perm) for p in got):
            bad({"call": "first", "k": k}, "FirstIsThePrefix", first_diff(E[:k], got, st), "see expected")
    ctx.note("first_k_checked", len(ks))

    # ---- the < operator follows the behaviour ------------------------------------------------
    P = [Perm(e) for e in E]
    small = min(len(P), 34)
    pairs = [(i, j) for i in range(small) for j in range(small)]
    pairs += [(i, i + 1) for i in range(len(P) - 1)] + [(i + 1, i) for i in range(len(P) - 1)]
    pairs += [(rnd.randrange(len(P)), rnd.randrange(len(P))) for _ in range(3000 if quick else 20000)]
    for i, j in pairs:
        st, got = util.call(lambda i=i, j=j: (P[i] < P[j], P[i] > P[j], P[i] <= P[j], P[i] >= P[j]))
        want = (i < j, i > j, i <= j, i >= j)
        if st != "ok" or tuple(map(bool, got)) != want:
            bad({"call": "less", "a": list(E[i]), "b": list(E[j])}, "OrderIsTheBehaviour", list(want), got if st != "ok" else list(got))
    ctx.case(n=len(pairs))


def shorter_from(recs, n):
    """number of permutations shorter than n as TLC counted them (step of the first record of length n)"""
    for r in recs:
        if r["n"] >= n:
            return r["step"]
    return len(recs)


def first_diff(want, got, st):
    if st != "ok":
        return {"raised": got}
    g = [tuple(p) for p in got]
    for i, (a, b) in enumerate(zip(want, g)):
        if a != b:
            return {"index": i, "expected": list(a), "observed": list(b)}
    return {"expected_len": len(want), "observed_len": len(g)}


# =========================================================================================
# part 2: standardisation
# =========================================================================================
CARRIERS = {
    "int": lambda v, i: v,
    "floateq": lambda v, i: float(v),                     # equal to the ints: shares their memo entries
    "float": lambda v, i: v * 0.25 + 0.125,
    "str": lambda v, i: "abcdefghij"[v],
    "tuple": lambda v, i: (v // 2, v % 2),
    "frac": lambda v, i: Fraction(2 * v + 1, 7),
    "list": lambda v, i: [v // 2, v % 2],                 # unhashable, comparable
    "collide": lambda v, i: v * MERSENNE,                 # all hashes are 0
    "negcollide": lambda v, i: -v * MERSENNE,             # order reversed below
    "neg": lambda v, i: v - 2,                            # only for patterns over 0..1: hash(-1) == hash(-2)
    "bool": lambda v, i: bool(v),                         # only for patterns over 0..1
    "mixed": lambda v, i: (v, float(v), Fraction(v))[i % 3],
    "halves": lambda v, i: v,                             # (see carry) ints at the two ends, k - 1/2 in between
}


def carry(pat, car):
    if car == "halves":
        m = max(pat) if pat else 0
        return tuple(v if v in (0, m) else v - 0.5 for v in pat)
    if car == "negcollide":
        m = max(pat) if pat else 0
        return tuple(CARRIERS[car](m - v, i) for i, v in enumerate(pat))
    return tuple(CARRIERS[car](v, i) for i, v in enumerate(pat))


def carriers_for(pat):
    out = ["int", "floateq", "float", "str", "tuple", "frac", "list", "collide", "negcollide", "mixed", "halves"]
    if not pat or max(pat) <= 1:
        out += ["neg", "bool"]
    return out


NFORMS = 8


def container(vals, car, variant):
    """The same sequence of values in the container / iterable kind number `variant`: tuple, list (or str), iterator,
    generator, map object, reversed object, deque, dict view (distinct hashable values only, else a chain)."""
    v = variant % NFORMS
    if car == "str" and v == 1:
        return "".join(vals)
    if v == 0:
        return vals
    if v == 1:
        return list(vals)
    if v == 2:
        return iter(vals)
    if v == 3:
        return (x for x in vals)
    if v == 4:
        return map(lambda x: x, vals)
    if v == 5:
        return reversed(vals[::-1])
    if v == 6:
        return collections.deque(vals)
    if car != "list" and len(set(vals)) == len(vals):
        return dict.fromkeys(vals).keys()
    return itertools.chain(vals[:1], vals[1:])


def cache_fn():
    f = getattr(Perm, "_to_standard", None)
    return f if f is not None and hasattr(f, "cache_clear") and hasattr(f, "cache_info") else None


def std_call(ctx, pat, car, variant, want, case):
    vals = carry(pat, car)
    st, got = util.call(Perm.to_standard, container(vals, car, variant))
    if st != "ok" or tuple(got) != tuple(want) or not isinstance(got, Perm) or not all(type(x) is int for x in got):
        ctx.violation(dict(case, kind="std", pat=list(pat), carrier=car, variant=variant), "ReplyIsStd", list(want),
                      {"raised": got} if st != "ok" else list(got))
        return None
    return got


def judge_std_inputs(ctx, results, rnd, quick):
    recs = []
    for r in results:
        recs.extend(r.records)
    want = sum(4 ** k for k in range((5 if quick else 6) + 1))
    if len(recs) != want or len({tuple(r["pat"]) for r in recs}) != want:
        raise tlc.MachineryFailure("C09 standardisation universe incomplete: %d of %d order patterns" % (len(recs), want))
    cf = cache_fn()
    ctx.sample({"machine": "C09_StdMemo", "state": recs[len(recs) // 3]})
    target = Perm(TARGET)
    # history 1: cold memo, emitted order, every carrier, the same input twice in a row
    if cf:
        cf.cache_clear()
    held = []
    for rec in recs:
        pat = tuple(rec["pat"])
        ctx.case(("std", pat), nontrivial=len(set(pat)) < len(pat))
        for car in carriers_for(pat):
            a = std_call(ctx, pat, car, 0, rec["std"], {"history": "cold"})
            b = std_call(ctx, pat, car, 1, rec["std"], {"history": "immediately again"})
            ctx.case(n=2)
            if a is not None and len(held) < 4000 and car in ("int", "collide", "str"):
                held.append((pat, car, a, rec["std"]))
            if b is not None and len(pat) >= 2 and car != "list":
                # use the returned (possibly shared) object as a pattern: fills its pattern-details cache
                list(b.occurrences_in(target))
    # history 2: warm memo, shuffled order, other carriers first, results held earlier must be unchanged
    order = list(range(len(recs)))
    rnd.shuffle(order)
    for idx in order:
        rec = recs[idx]
        pat = tuple(rec["pat"])
        cars = carriers_for(pat)
        rnd.shuffle(cars)
        for car in cars:
            std_call(ctx, pat, car, 2 + rnd.randrange(NFORMS - 2), rec["std"], {"history": "warm, shuffled, after containment queries on shared results"})
            ctx.case()
    for pat, car, obj, want in held:
        if tuple(obj) != tuple(want):
            ctx.violation({"kind": "std", "pat": list(pat), "carrier": car, "history": "object returned earlier, inspected later"},
                          "ReplyIsStd", list(want), list(obj))
        fresh = Perm(tuple(want))
        if list(obj.occurrences_in(target)) != list(fresh.occurrences_in(target)):
            ctx.drift("memoised result for %s/%s answers a containment query differently from a fresh equal Perm" % (list(pat), car))
    # history 3: cleared memo, reverse order, colliding carriers only (every entry of a length shares one hash)
    if cf:
        cf.cache_clear()
    for rec in reversed(recs):
        pat = tuple(rec["pat"])
        for car in ("negcollide", "collide", "int"):
            std_call(ctx, pat, car, 0, rec["std"], {"history": "reverse order, colliding hashes"})
            ctx.case()
    if cf:
        info = cf.cache_info()
        ctx.note("lru_cache_after_universe", {"hits": info.hits, "misses": info.misses, "currsize": info.currsize})
    else:
        ctx.note("lru_cache_after_universe", "memo not observable (no cache_info on Perm._to_standard)")


HISTORY_INPUTS = [((1, 0), "collide"), ((0, 1), "collide"), ((0, 0), "collide"), ((1, 0), "int"), ((1, 0), "floateq"),
                  ((1, 0), "str"), ((1, 0), "list"), ((1, 0, 1), "neg"), ((0, 1, 0), "neg"), ((1, 1, 0), "neg")]


def history_model():
    """Inputs of the history machine with their key / hash classes taken from Python's == and hash()."""
    vals = [carry(p, c) for p, c in HISTORY_INPUTS]
    keys, hashes, rows = [], [], []
    for (pat, car), v in zip(HISTORY_INPUTS, vals):
        try:
            h = hash(v)
            hashable = True
        except TypeError:
            h, hashable = None, False
        ki = next((j for j, w in enumerate(keys) if hashable and w == v), None)
        if ki is None:
            keys.append(v if hashable else object())
            ki = len(keys) - 1
        if hashable:
            if h not in hashes:
                hashes.append(h)
            hi = "h%d" % hashes.index(h)
        else:
            hi = "u%d" % len(rows)
        rows.append({"pat": pat, "key": "k%d" % ki, "hash": hi, "hashable": hashable})
    text = "<< " + ", ".join('[pat |-> %s, key |-> "%s", hash |-> "%s", hashable |-> %s]' % (
        tlc.tla(list(r["pat"])), r["key"], r["hash"], "TRUE" if r["hashable"] else "FALSE") for r in rows) + " >>"
    return rows, text


def std_jobs(quick):
    rows, text = history_model()
    mod = util.mc_module("MC_C09S", "C09_StdMemo", {"InputsDef": text, "TargetDef": tlc.tla(list(TARGET))})
    files = {"MC_C09S.tla": mod}
    base = {"MaxVal": 3, "MaxSeqLen": 5 if quick else 6, "Inputs": ("<-", "InputsDef"), "MaxMemo": 3 if quick else 4,
            "Target": ("<-", "TargetDef")}
    nsh = 2 if quick else 6
    inputs = []
    for s in range(nsh):
        k = dict(base, Mode='"inputs"', Shard=s, NShards=nsh, Lookup='"key"')
        inputs.append(("MC_C09S", util.cfg(init="Init", next_="Next", constants=k, invariants=STD_INVS + ["EmitState"]),
                       {"files": files, "timeout": 3000}))
    hinv = ["ReplyIsStd", "ReplyIsOrderIso", "FixedPoints", "MemoSound", "CollisionsPresent"]
    k = dict(base, Mode='"history"', Shard=0, NShards=1, Lookup='"key"')
    hist = ("MC_C09S", util.cfg(init="Init", next_="Next", constants=k, invariants=hinv, properties=["ReplyNeverDependsOnMemo"],
                                view="View", action_constraints=["EmitEdge"], constraints=["MemoBound"]),
            {"files": files, "timeout": 3000})
    k = dict(base, Mode='"history"', Shard=0, NShards=1, Lookup='"hashonly"')
    dev = ("MC_C09S", util.cfg(init="Init", next_="Next", constants=k, invariants=hinv, properties=["ReplyNeverDependsOnMemo"],
                               view="View", constraints=["MemoBound"]),
           {"files": files, "timeout": 3000, "allow_violation": True})
    return rows, inputs, hist, dev


def judge_std_history(ctx, rows, res):
    edges = res.records
    if not edges:
        raise tlc.MachineryFailure("C09 memo history machine emitted no edges")
    paths = tour.tours(edges, tour.key({"memo": [], "used": []}), max_path=300)
    cf = cache_fn()
    target = Perm(TARGET)
    seen = {"Standardise": 0, "Use": 0, "hit": 0, "collision_hit_risk": 0}
    for path in paths:
        if cf:
            cf.cache_clear()
        objs, hist = {}, []
        for idx in path:
            e = edges[idx]
            a = e["act"]
            row = rows[a["i"] - 1]
            pat, car = HISTORY_INPUTS[a["i"] - 1]
            hist.append({"name": a["name"], "i": a["i"], "reply": e["reply"]})
            seen[a["name"]] += 1
            ctx.case(("hist", idx), nontrivial=len(hist) > 1)
            case = {"kind": "std-path", "inputs": [[list(p), c] for p, c in HISTORY_INPUTS], "path": list(hist)}
            if a["name"] == "Standardise":
                before = cf.cache_info().hits if cf else None
                st, got = util.call(Perm.to_standard, container(carry(pat, car), car, len(hist)))
                if st != "ok" or tuple(got) != tuple(e["reply"]) or not isinstance(got, Perm) or not all(type(x) is int for x in got):
                    ctx.violation(case, "ReplyNeverDependsOnMemo", e["reply"], {"raised": got} if st != "ok" else list(got))
                    break
                if cf and (cf.cache_info().hits > before) != a["hit"]:
                    ctx.drift("memo hit/miss differs from the model at %s (model hit=%s)" % (hist[-1], a["hit"]))
                if a["hit"]:
                    seen["hit"] += 1
                if row["hashable"]:
                    objs[row["key"]] = got
                    if any(rows[h["i"] - 1]["hash"] == row["hash"] and rows[h["i"] - 1]["key"] != row["key"] for h in hist[:-1]):
                        seen["collision_hit_risk"] += 1
            else:
                obj = objs.get(row["key"])
                if obj is None:
                    raise tlc.MachineryFailure("C09 tour: Use of an input never standardised on this path")
                st, got = util.call(lambda o=obj: [list(t) for t in o.occurrences_in(target)])
                if st != "ok" or got != e["occ"]:
                    ctx.drift("containment query on a memoised result differs from the definition: %s" % (hist[-1],))
        ctx.traces += 1
    if not (seen["Standardise"] and seen["Use"] and seen["hit"] and seen["collision_hit_risk"]):
        raise tlc.MachineryFailure("C09 memo tour vacuous: %s" % seen)
    ctx.note("memo_history", {"edges": len(edges), "paths": len(paths), **seen})
    ctx.sample({"machine": "C09_StdMemo", "edge": edges[len(edges) // 2]})
    if cf:
        cf.cache_clear()


# =========================================================================================
# part 3: notations
# =========================================================================================
def notation_jobs(quick):
    jobs = []
    # a cfg file cannot hold negative numbers in a set: the value universe comes from a wrapper module
    files = {"MC_C09N.tla": util.mc_module("MC_C09N", "C09_Notation", {"ValsDef": "{-1, 0, 1, 2, 3, 4, %d}" % NONINT})}
    base = {"Vals": ("<-", "ValsDef"), "NonInt": NONINT}
    maxlen, nsh = (7, 4) if quick else (8, 12)
    for s in range(nsh):
        k = dict(base, Mode='"perm"', MinLen=0, MaxLen=maxlen, MaxSeqLen=0, Shard=s, NShards=nsh)
        jobs.append(("MC_C09N", util.cfg(init="Init", next_="Next", constants=k,
                                         invariants=["NotationsDenote", "IntInjectiveLocally", "EmitState"]), {"timeout": 3000, "files": files}))
    seqlen, nsh = (4, 2) if quick else (5, 8)
    for s in range(nsh):
        k = dict(base, Mode='"valid"', MinLen=0, MaxLen=0, MaxSeqLen=seqlen, Shard=s, NShards=nsh)
        jobs.append(("MC_C09N", util.cfg(init="Init", next_="Next", constants=k,
                                         invariants=["AcceptIsPerm", "EmitState"]), {"timeout": 3000, "files": files}))
    return jobs


def judge_perm_notation(ctx, rec):
    p = tuple(rec["p"])
    n = len(p)
    P = Perm(p)
    ctx.case(("notation", p), nontrivial=n >= 2)

    def expect(call, clause, f, detail=None):
        st, got = util.call(f)
        ctx.case()
        if st != "ok" or tuple(got) != p or not isinstance(got, Perm):
            ctx.violation({"kind": "notation", "call": call, "p": list(p), "input": detail}, clause, list(p),
                          {"raised": got} if st != "ok" else list(got))

    s = "".join(rec["chars"])
    if n >= 1:
        if int("".join(str(v) for v in rec["one"])) != rec["int1"]:
            raise tlc.MachineryFailure("C09: numeral %s / integer %s differ (translation of the emitted record)" % (rec["one"], rec["int1"]))
        expect("from_string", "FromStringReadsDigits", lambda: Perm.from_string(s), s)
        expect("from_iterable_validated(str)", "ValidatedAcceptsExactlyBijections", lambda: Perm.from_iterable_validated(s), s)
        expect("from_integer(one-based)", "FromIntegerOneBased", lambda: Perm.from_integer(rec["int1"]), rec["int1"])
        if rec["int0ok"]:
            expect("from_integer(zero-based)", "FromIntegerZeroBased", lambda: Perm.from_integer(rec["int0"]), rec["int0"])
        st, got = util.call(str, P)
        if st == "ok" and got != s:
            ctx.drift("str(Perm(%s)) = %r is not the digit string %r (round trip judged separately)" % (list(p), got, s))
    expect("from_string(str(p))", "RoundTrip", lambda: Perm.from_string(str(P)))
    expect("one_based", "OneBasedSubtractsOne", lambda: Perm.one_based(rec["one"]), rec["one"])
    expect("one_based(iterator)", "OneBasedSubtractsOne", lambda: Perm.one_based(iter(rec["one"])), rec["one"])
    expect("eval(repr(p))", "RoundTrip", lambda: eval(repr(P), {"Perm": Perm}))  # pylint: disable=eval-used
    expect("from_iterable_validated(tuple)", "ValidatedAcceptsExactlyBijections", lambda: Perm.from_iterable_validated(p))
    expect("from_iterable_validated(list)", "ValidatedAcceptsExactlyBijections", lambda: Perm.from_iterable_validated(list(p)))
    expect("from_iterable_validated(iterator)", "ValidatedAcceptsExactlyBijections", lambda: Perm.from_iterable_validated(iter(p)))
    expect("Perm(list)", "ConstructorKeepsEntries", lambda: Perm(list(p)))
    expect("Perm(iterator)", "ConstructorKeepsEntries", lambda: Perm(iter(p)))
    expect("Perm(Perm)", "ConstructorKeepsEntries", lambda: Perm(P))
    if n == 0:
        expect("Perm()", "ConstructorKeepsEntries", Perm)

def nonint_item(variant, i):
    return (None, 0.5, "x", 2.5)[(variant + i) % 4]


def valid_call(seq, variant):
    vals = tuple(nonint_item(variant, i) if v == NONINT else v for i, v in enumerate(seq))
    arg = (vals, list(vals), iter(vals), (x for x in vals), map(lambda x: x, vals), collections.deque(vals))[variant % 6]
    st, got = util.call(Perm.from_iterable_validated, arg)
    if st == "ok":
        return True, "", got
    return False, got, None


def judge_valid(ctx, rec):
    seq = tuple(rec["s"])
    ctx.case(("valid", seq), nontrivial=len(seq) >= 2)
    variants = (0, 1) if rec["nonint"] else (0, 3 + len(seq) % 3)
    if all(0 <= v <= 9 for v in seq) and seq:
        variants = variants + ("str",)
    for variant in variants:
        if variant == "str":
            st, got = util.call(Perm.from_iterable_validated, "".join(map(str, seq)))
            accepted, exc, obj = (True, "", got) if st == "ok" else (False, got, None)
        else:
            accepted, exc, obj = valid_call(seq, variant)
        ctx.case()
        case = {"kind": "valid", "s": list(seq), "variant": variant}
        if accepted != rec["accept"]:
            ctx.violation(case, "ValidatedAcceptsExactlyBijections", "accepted" if rec["accept"] else "rejected with " + "/".join(rec["classes"]),
                          "accepted" if accepted else "rejected with " + exc)
        elif accepted and (tuple(obj) != seq or not isinstance(obj, Perm)):
            ctx.violation(case, "ValidatedAcceptsExactlyBijections", list(seq), list(obj))
        elif not accepted and exc not in rec["classes"]:
            ctx.violation(case, "ValidatedExceptionClass", rec["classes"], exc)


# =========================================================================================
# part 4: mesh pattern ranks
# =========================================================================================
def tla_mesh(p, R):
    return "[p |-> %s, R |-> {%s}]" % (tlc.tla(list(p)), ", ".join(tlc.tla(list(c)) for c in sorted(R)))


def mesh_jobs(rnd, quick):
    def job(mode, lens, every, sample, spatt, ranks):
        mod = util.mc_module("MC_C09M", "C09_MeshRank", {
            "SampleDef": "{" + ", ".join(tla_mesh(p, R) for p, R in sample) + "}", "SPattDef": tlc.tla(list(spatt)),
            "LensDef": "{" + ", ".join(map(str, lens)) + "}", "RanksDef": "{" + ", ".join(map(str, ranks)) + "}"})
        k = {"Mode": '"%s"' % mode, "Lens": ("<-", "LensDef"), "CountEvery": every, "Sample": ("<-", "SampleDef"),
             "SamplePatt": ("<-", "SPattDef"), "UnrankSample": ("<-", "RanksDef")}
        c = util.cfg(init="Init", next_="Next", constants=k, invariants=MESH_INVS, properties=["StrictlyIncreasing"])
        return ("MC_C09M", c, {"files": {"MC_C09M.tla": mod}, "timeout": 3000})
    jobs = [job("gen", [0, 1, 2], 1, [], (), [])]
    nsample = 2 if quick else 6
    for j in range(nsample):
        sample = []
        for _ in range(30 if quick else 120):
            k = rnd.choice([3, 3, 3, 4])
            p = util.rand_perm(rnd, k)
            dens = rnd.choice([0.05, 0.3, 0.5, 0.9])
            sample.append((p, [(x, y) for x in range(k + 1) for y in range(k + 1) if rnd.random() < dens]))
        sample.append((util.rand_perm(rnd, 3), [(x, y) for x in range(4) for y in range(4)]))
        sample.append((util.rand_perm(rnd, 3), []))
        sample.append((util.rand_perm(rnd, 3), [(3, 3)]))
        sample.append((util.rand_perm(rnd, 3), [(0, 0)]))
        spatt = util.perms_of(3)[(j + rnd.randrange(6)) % 6]
        ranks = {-1, 0, 1, 2, 65534, 65535, 65536, 65537, 32768, 32767, 386} | {rnd.randrange(65536) for _ in range(25 if quick else 80)}
        jobs.append(job("sample", [0], 1, sample, spatt, sorted(ranks)))
    return jobs


def judge_mesh(ctx, results):
    gen, samples = [], []
    for r in results:
        for rec in r.records:
            (gen if rec["mode"] == "gen" else samples).append(rec)
    if not gen or not samples:
        raise tlc.MachineryFailure("C09 mesh machine emitted no %s records" % ("gen" if not gen else "sample"))
    if len(gen) != 2 + 16 + 2 * 512:
        raise tlc.MachineryFailure("C09 mesh enumerator incomplete: %d states" % len(gen))
    ctx.sample({"machine": "C09_MeshRank", "state": gen[len(gen) // 2]})
    listed = {}

    def mask(R, k):
        """a shading stored compactly (an injective code, used only to store and compare shadings)"""
        m = 0
        for x, y in R:
            m |= 1 << (x * (k + 1) + y)
        return m

    def listing(k):
        if k not in listed:
            st, got = util.call(lambda: [(tuple(m.pattern), mask(m.shading, k)) for m in MeshPatt.of_length(k)])
            listed[k] = got if st == "ok" else None
        return listed[k]

    def one(rec, check_pos):
        p, R, rank, k = tuple(rec["p"]), frozenset(tuple(c) for c in rec["R"]), rec["rank"], rec["k"]
        case = {"kind": "mesh", "p": list(p), "R": sorted(map(list, R)), "rank": rank}
        ctx.case(("mesh", p, rank), nontrivial=len(R) > 0, n=3)
        P = Perm(p)
        st, got = util.call(lambda: MeshPatt(P, R).rank())
        if st != "ok" or got != rank:
            ctx.violation(dict(case, call="rank"), "MeshRankIsBinaryNumber", rank, got)
        st, got = util.call(lambda: MeshPatt.unrank(P, rank))
        if st != "ok" or tuple(got.pattern) != p or frozenset(got.shading) != R or not isinstance(got, MeshPatt):
            ctx.violation(dict(case, call="unrank"), "MeshUnrankIsInverseOfRank", sorted(map(list, R)),
                          {"raised": got} if st != "ok" else sorted(map(list, got.shading)))
        if check_pos:
            L = listing(k)
            pos = rec["pidx"] * rec["nshade"] + rank
            if rec["mode"] == "gen" and pos != rec["pos"]:
                raise tlc.MachineryFailure("C09 mesh: emitted position inconsistent")
            if L is None or pos >= len(L) or L[pos] != (p, mask(R, k)):
                ctx.violation(dict(case, call="of_length", pos=pos), "MeshOfLengthInRankOrder", [list(p), sorted(map(list, R))],
                              "raised" if L is None else (None if pos >= len(L) else [list(L[pos][0]), "shading code %d" % L[pos][1]]))
            if rec["mode"] == "gen" or rank % 7 == 0:
                st, got = util.call(lambda: next(itertools.islice(MeshPatt.of_length(k, P), rank, None)))
                if st != "ok" or tuple(got.pattern) != p or frozenset(got.shading) != R:
                    ctx.violation(dict(case, call="of_length(patt)"), "MeshOfLengthInRankOrder", sorted(map(list, R)),
                                  {"raised": got} if st != "ok" else sorted(map(list, got.shading)))
        if rank in (0, rec["nshade"] - 1):
            for rr in (-1, rec["nshade"], rec["nshade"] + 1):
                st, got = util.call(lambda rr=rr: MeshPatt.unrank(P, rr))
                ctx.case(("mesh-reject", p, rr), nontrivial=True)
                if st == "ok":
                    ctx.violation(dict(case, call="unrank", r=rr), "MeshUnrankRejectsOutOfRange", "rejected", sorted(map(list, got.shading)))

    for rec in gen:
        one(rec, True)
    per_len = {}
    for rec in gen:
        per_len[rec["k"]] = per_len.get(rec["k"], 0) + 1
    for k, cnt in per_len.items():
        L = listing(k)
        ctx.case(("mesh-of_length", k), nontrivial=True)
        if L is None or len(L) != cnt or len(set(L)) != len(L):
            ctx.violation({"kind": "mesh", "call": "of_length", "k": k}, "MeshOfLengthExactlyOnce", cnt,
                          None if L is None else {"len": len(L), "distinct": len(set(L))})
    n3 = None
    for rec in samples:
        if rec["dir"] == "rank":
            one(rec, rec["k"] == 3)
            n3 = rec["nshade"] * 6 if rec["k"] == 3 else n3
        else:
            p, r = tuple(rec["p"]), rec["rank"]
            ctx.case(("mesh-unrank", p, r), nontrivial=True)
            st, got = util.call(lambda: MeshPatt.unrank(Perm(p), r))
            case = {"kind": "mesh", "call": "unrank", "p": list(p), "r": r}
            if not rec["valid"]:
                if st == "ok":
                    ctx.violation(case, "MeshUnrankRejectsOutOfRange", "rejected", sorted(map(list, got.shading)))
            else:
                R = frozenset(tuple(c) for c in rec["R"])
                if st != "ok" or frozenset(got.shading) != R or tuple(got.pattern) != p or got.rank() != r:
                    ctx.violation(case, "MeshUnrankIsInverseOfRank", sorted(map(list, R)), {"raised": got} if st != "ok" else sorted(map(list, got.shading)))
    L3 = listing(3)
    if n3 is not None and (L3 is None or len(L3) != n3 or len(set(L3)) != n3):
        ctx.violation({"kind": "mesh", "call": "of_length", "k": 3}, "MeshOfLengthExactlyOnce", n3,
                      None if L3 is None else {"len": len(L3), "distinct": len(set(L3))})
    ctx.note("mesh", {"enumerated": len(gen), "sampled": len(samples)})


# =========================================================================================
# code -> spec: random larger arguments, judged by Trace_C09
# =========================================================================================
class FormUnavailable(Exception):
    """An alias or keyword form of a public entry point does not exist on this tree: reported as drift, never judged."""


def entry(owner, name, **kwargs):
    """The public entry point owner.name, checked to accept the keyword arguments about to be used."""
    f = getattr(owner, name, None)
    if f is None:
        raise FormUnavailable("%s.%s does not exist" % (getattr(owner, "__name__", owner), name))
    if kwargs:
        try:
            inspect.signature(f).bind_partial(**kwargs)
        except TypeError as e:
            raise FormUnavailable("%s.%s: %s" % (getattr(owner, "__name__", owner), name, e)) from e
    return f


GENERATORS = {"of_length": "length", "up_to_length": "length", "first": "count"}


def open_generator(ev):
    """The lazy object a GenSlice / lazy-session descriptor stands for (positional, keyword or alias-free form)."""
    if ev["gen"] == "mesh":
        patt = Perm(ev["patt"]) if ev.get("haspatt") else None
        if ev.get("form") == "kw":
            kw = {"length": ev["arg"]}
            if patt is not None:
                kw["patt"] = patt
            return entry(MeshPatt, "of_length", **kw)(**kw)
        return MeshPatt.of_length(ev["arg"], patt) if patt is not None else MeshPatt.of_length(ev["arg"])
    if ev.get("form") == "kw":
        kw = {GENERATORS[ev["gen"]]: ev["arg"]}
        return entry(Perm, ev["gen"], **kw)(**kw)
    return getattr(Perm, ev["gen"])(ev["arg"])


def observe(ev):
    """Perform the call an event stands for on the real code and fill in the observed fields.
    ev["form"]: "" positional (default), "kw" keyword arguments, "alias" the documented alias of the entry point."""
    op = ev["op"]
    form = ev.get("form", "")
    if op == "Unrank":
        if form == "kw":
            f = entry(Perm, "unrank", number=ev["r"])
            st, got = util.call(lambda: f(number=ev["r"]))
        elif form == "alias":
            st, got = util.call(entry(Perm, "ind2perm"), ev["r"])
        else:
            st, got = util.call(Perm.unrank, ev["r"])
        ev.update(raised=st != "ok", res=list(got) if st == "ok" else [])
    elif op == "UnrankN":
        if form == "kw":
            f = entry(Perm, "unrank", number=ev["r"], length=ev["n"])
            st, got = util.call(lambda: f(number=ev["r"], length=ev["n"]))
        elif form == "kwlen":
            f = entry(Perm, "unrank", length=ev["n"])
            st, got = util.call(lambda: f(ev["r"], length=ev["n"]))
        elif form == "alias":
            st, got = util.call(entry(Perm, "ind2perm"), ev["r"], ev["n"])
        else:
            st, got = util.call(Perm.unrank, ev["r"], ev["n"])
        ev.update(raised=st != "ok", res=list(got) if st == "ok" else [])
    elif op == "Rank":
        ev["res"] = entry(Perm, "perm2ind")(Perm(ev["p"])) if form == "alias" else Perm(ev["p"]).rank()
    elif op == "BigRank":
        got = entry(Perm, "perm2ind")(Perm(ev["p"])) if form == "alias" else Perm(ev["p"]).rank()
        ev["res"] = numeral(got)
    elif op in ("BigUnrank", "BigUnrankN"):
        r = ev.pop("value")
        args = (r,) if op == "BigUnrank" else (r, ev["n"])
        st, got = util.call(entry(Perm, "ind2perm") if form == "alias" else Perm.unrank, *args)
        ev.update(r=numeral(r), raised=st != "ok", res=list(got) if st == "ok" else [])
    elif op == "BigMeshRank":
        ev["res"] = numeral(MeshPatt(Perm(ev["p"]), [tuple(c) for c in ev["R"]]).rank())
    elif op == "BigMeshUnrank":
        r = ev.pop("value")
        st, got = util.call(MeshPatt.unrank, Perm(ev["p"]), r)
        ev.update(r=numeral(r), raised=st != "ok", R=sorted(list(c) for c in got.shading) if st == "ok" else [])
    elif op == "Less":
        ev["lt"] = bool(Perm(ev["a"]) < Perm(ev["b"]))
    elif op == "Std":
        f = entry(Perm, ev["fn"]) if ev.get("fn") else Perm.to_standard
        arg = container(carry(tuple(ev["pat"]), ev["carrier"]), ev["carrier"], ev.get("variant", 0))
        if form == "kw":
            entry(Perm, ev.get("fn") or "to_standard", iterable=())
            got = f(iterable=arg)
        else:
            got = f(arg)
        # the entries of a permutation are integers (a float equal to one is not: str() and inverse() would differ)
        ev["res"] = [x if type(x) is int else -1 for x in got]
    elif op == "Valid":
        accepted, exc, _ = valid_call(tuple(ev["s"]), ev.get("variant", 0))
        ev.update(accepted=accepted, exc=exc)
    elif op == "Read":
        d = ev["data"]
        if ev["kind"] == "string":
            ev["res"] = list(Perm.from_string("".join(d)))
        elif ev["kind"] == "one":
            f = entry(Perm, ev["fn"]) if ev.get("fn") else Perm.one_based
            ev["res"] = list(f((d, list(d), iter(d), (x for x in d), map(int, d))[ev.get("variant", 0) % 5]))
        else:
            ev["res"] = list(Perm.from_integer(int("".join(map(str, d)))))
    elif op == "RoundTrip":
        P = Perm(ev["p"])
        if ev["kind"] == "str":
            ev["res"] = list(Perm.from_string(str(P)))
        elif ev["kind"] == "repr":
            ev["res"] = list(eval(repr(P), {"Perm": Perm}))  # pylint: disable=eval-used
        elif ev["kind"] == "rank":
            ev["res"] = list(Perm.unrank(P.rank()))
        else:
            ev["res"] = list(Perm.from_iterable_validated(iter(P)))
    elif op == "MeshRank":
        ev["rank"] = MeshPatt(Perm(ev["p"]), [tuple(c) for c in ev["R"]]).rank()
    elif op == "MeshUnrank":
        if form == "kw":
            f = entry(MeshPatt, "unrank", pattern=Perm(ev["p"]), number=ev["r"])
            st, got = util.call(lambda: f(pattern=Perm(ev["p"]), number=ev["r"]))
        else:
            st, got = util.call(MeshPatt.unrank, Perm(ev["p"]), ev["r"])
        ev.update(raised=st != "ok", R=sorted(list(c) for c in got.shading) if st == "ok" else [])
    elif op == "GenSlice":
        # a slice of a lazy listing; expanded into anchor / NextOf / GenCount (or MeshListed) events by expand_slice
        it = itertools.islice(open_generator(ev), ev["start"], ev["stop"])
        if ev["gen"] == "mesh":
            ev["items"] = [[list(m.pattern), sorted(list(c) for c in m.shading)] for m in it]
        else:
            ev["items"] = [list(x) for x in it]
    return ev


def numeral(x):
    """A natural number as its base-10000 digits, least significant first (LexRank: LBig...); a result that is not a
    natural number (a float, a negative) is sent as a one-digit numeral no rank can equal."""
    if isinstance(x, bool) or not isinstance(x, int) or x < 0:
        return [-1]
    out = []
    while x:
        out.append(x % 10000)
        x //= 10000
    return out


def expand_slice(ev):
    """Trace events for the items a lazy listing produced from position ev["start"] on: the first item is the one of
    that rank, neighbours are successors, and when the listing ran to its end the number of items is the whole of it."""
    items, start = ev["items"], ev["start"]
    out = []
    if ev["gen"] == "mesh":
        for j, (p, R) in enumerate(items):
            out.append({"op": "MeshListed", "k": ev["arg"], "idx": start + j, "haspatt": bool(ev.get("haspatt")),
                        "patt": ev.get("patt", []), "p": p, "R": R, "src": ev.get("src", "")})
        return out
    if items:
        if ev["gen"] == "of_length":
            out.append({"op": "UnrankN", "r": start, "n": ev["arg"], "raised": False, "res": items[0], "src": ev.get("src", "")})
        else:
            out.append({"op": "Unrank", "r": start, "raised": False, "res": items[0], "src": ev.get("src", "")})
    out += [{"op": "NextOf", "p": a, "q": b, "src": ev.get("src", "")} for a, b in zip(items, items[1:])]
    if ev["stop"] is None:
        out.append({"op": "GenCount", "gen": ev["gen"], "arg": ev["arg"], "count": start + len(items), "src": ev.get("src", "")})
    return out


def record_events(ctx, rnd, quick):
    events = []

    def add(ev):
        try:
            events.append(observe(ev))
        except Exception as e:  # pylint: disable=broad-except
            ctx.violation({"kind": "event", "event": {k: v for k, v in ev.items()}}, "NoException", "a result", type(e).__name__ + ": " + str(e)[:100])

    big = 8
    total = shorter(big + 1)
    heavy = 20 if quick else 80           # events whose judgement counts over all 8! permutations
    for _ in range(heavy):
        add({"op": "Unrank", "r": rnd.randrange(shorter(big), total)})
        add({"op": "Rank", "p": list(util.rand_perm(rnd, big))})
        add({"op": "UnrankN", "r": rnd.randrange(math.factorial(big)), "n": big})
    for _ in range(30 if quick else 150):
        add({"op": "Unrank", "r": rnd.randrange(shorter(big))})
        n = rnd.randint(4, 7)
        add({"op": "Rank", "p": list(util.rand_perm(rnd, n))})
        add({"op": "UnrankN", "r": rnd.randrange(math.factorial(n)), "n": n})
    for n in range(0, big + 1):
        f = math.factorial(n)
        for r in (0, f - 1, f, f + 1, -1, -f):
            add({"op": "UnrankN", "r": r, "n": n})
        for r in (shorter(n), shorter(n + 1) - 1):
            add({"op": "Unrank", "r": r})
    for r in (-1, -2, -24):
        add({"op": "Unrank", "r": r})
    # consecutive outputs of the three generators at random offsets
    def pair(src, f):
        st, got = util.call(lambda: [list(x) for x in f()])
        if st != "ok" or len(got) != 2:
            ctx.violation({"kind": "generator-slice", "src": src}, "NoException", "two consecutive permutations", got)
        else:
            events.append({"op": "NextOf", "p": got[0], "q": got[1], "src": src})

    for _ in range(8 if quick else 40):
        n = rnd.choice([6, 7, 7, 8])
        off = rnd.randrange(math.factorial(n) - 1)
        pair("of_length(%d)[%d:]" % (n, off), lambda: itertools.islice(Perm.of_length(n), off, off + 2))
        off = rnd.randrange(shorter(8) - 1)
        pair("up_to_length(7)[%d:]" % off, lambda: itertools.islice(Perm.up_to_length(7), off, off + 2))
        k = rnd.randrange(2, shorter(8))
        pair("first(%d)[-2:]" % k, lambda: list(Perm.first(k))[-2:])
    for n in (5, 6, 7):      # the roll-over from one length to the next
        pair("up_to_length(%d) roll-over" % (n + 1), lambda: itertools.islice(Perm.up_to_length(n + 1), shorter(n + 1) - 1, shorter(n + 1) + 1))
    for _ in range(150 if quick else 1500):
        a = util.rand_perm(rnd, rnd.randint(0, 8))
        b = util.rand_perm(rnd, rnd.choice([len(a), len(a), rnd.randint(0, 8)]))
        if rnd.random() < 0.3 and len(a) == len(b) and len(a) > 2:
            j = rnd.randrange(1, len(a))
            b = a[:j] + tuple(sorted(a[j:], reverse=rnd.random() < 0.5))
        add({"op": "Less", "a": list(a), "b": list(b)})
    # standardisation of longer sequences over mixed carriers, repeated inputs (memo hits)
    pats = []
    for _ in range(120 if quick else 1200):
        ln = rnd.randint(0, 9)
        hi = rnd.randint(0, 8)
        pats.append(tuple(rnd.randint(0, hi) for _ in range(ln)))
    for pat in pats + pats[::3]:
        cars = [c for c in carriers_for(pat)]
        add({"op": "Std", "pat": list(pat), "carrier": rnd.choice(cars), "variant": rnd.randrange(NFORMS)})
    # validated constructor on near-bijections of length 5..9
    for _ in range(80 if quick else 600):
        n = rnd.randint(5, 9)
        s = list(util.rand_perm(rnd, n))
        m = rnd.random()
        if m < 0.25:
            s[rnd.randrange(n)] = rnd.choice([-1, n, n + 1, s[0]])
        elif m < 0.4:
            s[rnd.randrange(n)] = NONINT
        elif m < 0.5:
            s[rnd.randrange(n)] = NONINT
            s[rnd.randrange(n)] = rnd.choice([-1, n])
        elif m < 0.6:
            s = s[:-1]
        add({"op": "Valid", "s": s, "variant": rnd.randrange(6)})
    # notations up to length 10
    for _ in range(60 if quick else 500):
        n = rnd.randint(7, 10)
        p = list(util.rand_perm(rnd, n))
        add({"op": "Read", "kind": "string", "data": [str(v) for v in p]})
        add({"op": "Read", "kind": "one", "data": [v + 1 for v in p]})
        if n <= 9:
            add({"op": "Read", "kind": "int", "data": [v + 1 for v in p]})
        if p[0] != 0:
            add({"op": "Read", "kind": "int", "data": p})
        for kind in ("str", "repr", "validated") + (("rank",) if n <= 7 else ()):
            add({"op": "RoundTrip", "kind": kind, "p": p})
    # mesh patterns of length 3 and 4
    for _ in range(60 if quick else 600):
        k = rnd.choice([3, 4, 4])
        p = list(util.rand_perm(rnd, k))
        dens = rnd.choice([0.1, 0.5, 0.9])
        R = [[x, y] for x in range(k + 1) for y in range(k + 1) if rnd.random() < dens]
        add({"op": "MeshRank", "p": p, "R": R})
        top = 2 ** ((k + 1) ** 2)
        add({"op": "MeshUnrank", "p": p, "r": rnd.choice([rnd.randrange(top), rnd.randrange(top), 0, top - 1, top, -1])})
    return events


# =========================================================================================
# hardening probes (lenses: argument forms, history in one process and cold starts, longer arguments, lazy objects)
# every expectation is Trace_C09's: these functions only choose arguments and record what the real code did
# =========================================================================================
LONG_SAMPLES = [
    (8, 0, 7, 1, 6, 2, 5, 3, 4), (0, 8, 7, 6, 5, 4, 3, 2, 1), (8, 7, 6, 5, 4, 3, 2, 0, 1),
    (0, 1, 2, 3, 4, 5, 6, 7, 9, 8), (9, 8, 7, 6, 5, 4, 3, 2, 1, 0), (3, 1, 4, 0, 5, 9, 2, 6, 8, 7),
    (1, 0, 3, 2, 5, 4, 7, 6, 9, 8), (10, 0, 9, 1, 8, 2, 7, 3, 6, 4, 5), (0, 1, 2, 3, 4, 5, 6, 7, 8, 10, 9),
]


def forgiving(ctx, events, ev):
    """observe(ev) into events; a missing alias / keyword form is drift, an exception of the real code a violation."""
    try:
        got = observe(dict(ev))
    except FormUnavailable as e:
        ctx.drift("entry point form not available, not judged: %s" % e)
        return
    except Exception as e:  # pylint: disable=broad-except
        ctx.violation({"kind": "event", "event": dict(ev)}, "NoException", "a result", type(e).__name__ + ": " + str(e)[:100])
        return
    if got["op"] == "GenSlice":
        events.extend(expand_slice(got))
    else:
        events.append(got)


def long_rank_events(ctx, rnd, quick):
    """Lengths 9-11 in ONE process, the lengths visited in jumps (3, 9, 5, 11, ...): unrank with and without a length,
    rank, boundary ranks of every length, round trips; each judged through the enumeration-free rank of LexRank."""
    events = []
    for n in (3, 9, 5, 11, 8, 10, 0, 9):
        f = math.factorial(n)
        for r in sorted({0, 1, f - 1, f // 2, rnd.randrange(f), rnd.randrange(f)}):
            forgiving(ctx, events, {"op": "UnrankN", "r": r, "n": n, "form": rnd.choice(["", "", "kw", "kwlen", "alias"])})
        for r in (f, f + 1, -1):
            forgiving(ctx, events, {"op": "UnrankN", "r": r, "n": n})
        for r in (shorter(n), shorter(n + 1) - 1, rnd.randrange(shorter(n), shorter(n + 1))):
            forgiving(ctx, events, {"op": "Unrank", "r": r, "form": rnd.choice(["", "kw", "alias"])})
    for p in LONG_SAMPLES + [util.rand_perm(rnd, rnd.choice([9, 9, 10, 10, 11])) for _ in range(12 if quick else 120)]:
        forgiving(ctx, events, {"op": "Rank", "p": list(p), "form": rnd.choice(["", "", "alias"])})
        st, r = util.call(lambda p=p: Perm(p).rank())
        if st == "ok" and isinstance(r, int) and 0 <= r < 2 ** 30:
            forgiving(ctx, events, {"op": "Unrank", "r": r})          # judged on its own: the permutation of that rank
    # consecutive outputs of the generators among the long permutations (positional and keyword forms)
    for _ in range(3 if quick else 20):
        off = rnd.randrange(math.factorial(9) - 2)
        forgiving(ctx, events, {"op": "GenSlice", "gen": "of_length", "arg": 9, "start": off, "stop": off + 3,
                                "form": rnd.choice(["", "kw"]), "src": "of_length(9)[%d:%d]" % (off, off + 3)})
    forgiving(ctx, events, {"op": "GenSlice", "gen": "up_to_length", "arg": 9, "start": shorter(9) - 2, "stop": shorter(9) + 2,
                            "form": "kw", "src": "up_to_length(9) roll-over 8 -> 9"})
    forgiving(ctx, events, {"op": "GenSlice", "gen": "first", "arg": shorter(9) + 3, "start": shorter(9) - 2, "stop": None,
                            "form": "kw", "src": "first(#shorter(9) + 3) tail"})
    return events


def big_rank_events(ctx, rnd, quick):
    """Lengths 13-40, where ranks exceed 32 and then 64 bits and the mantissa of a float: rank, unrank with and without
    a length, the two ends of every length; judged through the base-10000 numerals of LexRank (LBigOverallRank)."""
    events = []
    lens = [13, 16, 18, 19, 20, 21, 22, 23, 24, 25, 26, 28, 30, 33, 36, 40]
    for n in (lens if quick else lens * 6):
        for p in (util.rand_perm(rnd, n), tuple(range(n)), tuple(range(n - 1, -1, -1)),
                  tuple(range(n - 2, -1, -1)) + (n - 1,), (n - 1,) + tuple(range(n - 1))):
            forgiving(ctx, events, {"op": "BigRank", "p": list(p), "form": rnd.choice(["", "", "alias"])})
        f = math.factorial(n)
        for r in (0, f - 1, rnd.randrange(f), f // 2 + 1):
            forgiving(ctx, events, {"op": "BigUnrankN", "value": r, "n": n, "form": rnd.choice(["", "alias"])})
        for r in (shorter(n), shorter(n + 1) - 1, rnd.randrange(shorter(n), shorter(n + 1))):
            forgiving(ctx, events, {"op": "BigUnrank", "value": r})
    for n in (11, 12, 13, 13):                           # pairs whose entries written one after the other read the same
        for t in util.digit_twins(rnd, n):
            forgiving(ctx, events, {"op": "BigRank", "p": list(t)})
            forgiving(ctx, events, {"op": "Std", "pat": list(t), "carrier": "int", "variant": 0})
    # shadings of grids with 36 to 100 cells
    for k in ((5, 6, 7, 7, 8, 9) if quick else (5, 6, 7, 8, 9) * 8):
        p = list(util.rand_perm(rnd, k))
        cells = [[x, y] for x in range(k + 1) for y in range(k + 1)]
        bits = (k + 1) ** 2
        for R in ([c for c in cells if rnd.random() < 0.4], cells, cells[-1:], cells[-2:-1] + cells[:1], [c for c in cells if c[0] == k]):
            forgiving(ctx, events, {"op": "BigMeshRank", "p": p, "R": R})
        for r in (2 ** bits - 1, 2 ** (bits - 1), 2 ** (bits - 1) + 1, rnd.randrange(2 ** bits), 2 ** 53 + 1, 2 ** 32, 2 ** 31 - 1):
            if r < 2 ** bits:
                forgiving(ctx, events, {"op": "BigMeshUnrank", "p": p, "value": r})
    return events


def form_events(ctx, rnd, quick):
    """Aliases and keyword forms of the entry points on arguments inside the table range of Trace_C09."""
    events = []
    for _ in range(20 if quick else 200):
        n = rnd.randint(0, 7)
        p = list(util.rand_perm(rnd, n))
        forgiving(ctx, events, {"op": "Rank", "p": p, "form": "alias"})
        forgiving(ctx, events, {"op": "UnrankN", "r": rnd.randrange(math.factorial(n)), "n": n, "form": rnd.choice(["kw", "kwlen", "alias"])})
        forgiving(ctx, events, {"op": "Unrank", "r": rnd.randrange(shorter(8)), "form": rnd.choice(["kw", "alias"])})
        pat = tuple(rnd.randint(0, 4) for _ in range(rnd.randint(0, 8)))
        forgiving(ctx, events, {"op": "Std", "pat": list(pat), "carrier": rnd.choice(carriers_for(pat)), "variant": rnd.randrange(NFORMS),
                                "fn": rnd.choice(["standardize", "from_iterable", ""]), "form": rnd.choice(["", "kw"])})
        forgiving(ctx, events, {"op": "Read", "kind": "one", "data": [v + 1 for v in p], "fn": rnd.choice(["one", "proper", "scientific", ""]),
                                "variant": rnd.randrange(5)})
    # boundary numerals of from_integer / from_string
    for d in ([0], [1], [1, 0], [1, 2], [2, 1], [9, 8, 7, 6, 5, 4, 3, 2, 1, 0], [1, 0, 2, 3, 4, 5, 6, 7, 8, 9],
              [1, 2, 3, 4, 5, 6, 7, 8, 9], [9, 8, 7, 6, 5, 4, 3, 2, 1], [1, 2, 3, 4, 5, 6, 7, 8, 9, 0]):
        forgiving(ctx, events, {"op": "Read", "kind": "int", "data": d})
    for d in ([0], [0, 1, 2, 3, 4, 5, 6, 7, 8, 9], [9, 8, 7, 6, 5, 4, 3, 2, 1, 0], [5, 0, 9, 1, 8, 2, 7, 3, 6, 4]):
        forgiving(ctx, events, {"op": "Read", "kind": "string", "data": [str(v) for v in d]})
    return events


def mesh_boundary_events(ctx, rnd, quick):
    """MeshPatt.unrank / rank at the ends of the rank range and on every single-cell shading, lengths 3 and 4."""
    events = []
    for k in (3, 4):
        bits = (k + 1) ** 2
        top = 2 ** bits
        pats = [list(util.rand_perm(rnd, k)) for _ in range(2 if quick else 8)]
        ranks = [-2, -1, 0, 1, 2, 3, top - 2, top - 1, top, top + 1, top // 2, top // 2 - 1, top // 2 + 1] + [2 ** j for j in range(bits)]
        ranks += [top - 1 - 2 ** j for j in range(0, bits, 3)]
        for i, r in enumerate(ranks):
            forgiving(ctx, events, {"op": "MeshUnrank", "p": pats[i % len(pats)], "r": r, "form": "kw" if i % 5 == 4 else ""})
        cells = [[x, y] for x in range(k + 1) for y in range(k + 1)]
        for p in pats:
            for R in ([], cells, cells[:1], cells[-1:], cells[:-1], cells[1:], [c for c in cells if c[0] == k], [c for c in cells if c[1] == 0]):
                forgiving(ctx, events, {"op": "MeshRank", "p": p, "R": R})
    return events


def lazy_events(ctx, rnd, quick):
    """Several lazy listings alive at once, advanced in random order with other calls in between; what each one
    produced, in its own order, is judged as if it had been consumed alone."""
    events = []
    specs = [{"gen": "of_length", "arg": 5}, {"gen": "of_length", "arg": 5, "form": "kw"}, {"gen": "up_to_length", "arg": 4},
             {"gen": "first", "arg": 100}, {"gen": "first", "arg": 7, "form": "kw"}, {"gen": "of_length", "arg": 0},
             {"gen": "first", "arg": 0}, {"gen": "up_to_length", "arg": 0}, {"gen": "of_length", "arg": 1},
             {"gen": "mesh", "arg": 1}, {"gen": "mesh", "arg": 1, "form": "kw"},
             {"gen": "mesh", "arg": 2, "haspatt": True, "patt": [1, 0], "limit": 40},
             {"gen": "mesh", "arg": 2, "limit": 530}, {"gen": "mesh", "arg": 0}]
    if not quick:
        specs += [{"gen": "of_length", "arg": 6}, {"gen": "up_to_length", "arg": 5}, {"gen": "first", "arg": 1000},
                  {"gen": "mesh", "arg": 2, "haspatt": True, "patt": [0, 1], "form": "kw", "limit": 512}]
    live = []
    for sp in specs:
        d = dict(sp, op="GenSlice", start=0, stop=None, items=[], src="interleaved " + json.dumps(sp, sort_keys=True))
        try:
            live.append((d, open_generator(d)))
        except FormUnavailable as e:
            ctx.drift("entry point form not available, not judged: %s" % e)
        except Exception as e:  # pylint: disable=broad-except
            ctx.violation({"kind": "lazy", "listing": sp}, "NoException", "a lazy listing", type(e).__name__)
    done = []
    steps = 0
    while live:
        j = rnd.randrange(len(live))
        d, it = live[j]
        for _ in range(rnd.choice([1, 1, 2, 5])):
            try:
                x = next(it)
            except StopIteration:
                x = None
            except Exception as e:  # pylint: disable=broad-except
                ctx.violation({"kind": "lazy", "listing": d["src"], "after": len(d["items"])}, "NoException", "the next item", type(e).__name__)
                x = None
                d["broken"] = True
            if x is None or ("limit" in d and len(d["items"]) >= d["limit"]):
                if x is not None:
                    d["stop"] = len(d["items"])           # abandoned half-way: no count is judged
                done.append(live.pop(j)[0])
                break
            d["items"].append([list(x.pattern), sorted(list(c) for c in x.shading)] if d["gen"] == "mesh" else list(x))
        steps += 1
        if steps % 3 == 0:          # other calls while the listings are half consumed
            forgiving(ctx, events, {"op": "UnrankN", "r": rnd.randrange(120), "n": 5})
            forgiving(ctx, events, {"op": "Std", "pat": [rnd.randint(0, 3) for _ in range(5)], "carrier": "int", "variant": rnd.randrange(NFORMS)})
        if steps % 7 == 0:
            forgiving(ctx, events, {"op": "GenSlice", "gen": "of_length", "arg": 5, "start": rnd.randrange(100), "stop": rnd.randrange(100, 121),
                                    "src": "of_length(5) slice while others are alive"})
    for d in done:
        if d.get("broken"):
            continue
        if d["gen"] == "mesh" and len(d["items"]) > 80:      # long mesh listings: the ends, the pattern boundary, a sample
            keep = set(range(6)) | set(range(505, min(len(d["items"]), 530))) | {rnd.randrange(len(d["items"])) for _ in range(30)}
            ex = [e for e in expand_slice(d) if e["idx"] in keep]
        else:
            ex = expand_slice(d)
        events.extend(ex)
        if d["gen"] == "mesh" and d["stop"] is None:          # a mesh listing run to its end: as many items as the Perm listing times shadings
            events.append({"op": "MeshListedEnd", "k": d["arg"], "haspatt": bool(d.get("haspatt")), "count": len(d["items"])})
    return events


CHILD = ("import json, sys\n"
         "from harness.adapters import c09\n"
         "out = []\n"
         "for e in json.load(sys.stdin):\n"
         "    try:\n"
         "        out.append(c09.observe(e))\n"
         "    except c09.FormUnavailable as x:\n"
         "        out.append({'unavailable': str(x)})\n"
         "    except Exception as x:\n"
         "        out.append({'failed': type(x).__name__ + ': ' + str(x)[:100], 'event': e})\n"
         "print('RESULT' + json.dumps(out))\n")


def cold_scenarios(rnd, quick):
    """Each scenario is the complete life of a fresh interpreter: its first descriptor is the very first call made."""
    f8, f9, f10, f11 = (math.factorial(k) for k in (8, 9, 10, 11))
    sc = [
        [{"op": "UnrankN", "r": rnd.randrange(f9 // 2, f9), "n": 9}, {"op": "UnrankN", "r": rnd.randrange(f8), "n": 8},
         {"op": "UnrankN", "r": f10 - 1, "n": 10}, {"op": "UnrankN", "r": rnd.randrange(f9), "n": 9}],
        [{"op": "UnrankN", "r": rnd.randrange(f8 // 2, f8), "n": 8, "form": "kw"}, {"op": "UnrankN", "r": f8 - 1, "n": 8},
         {"op": "UnrankN", "r": rnd.randrange(720), "n": 6}, {"op": "UnrankN", "r": rnd.randrange(f9), "n": 9, "form": "alias"}],
        [{"op": "UnrankN", "r": rnd.randrange(f10 // 2, f10), "n": 10}, {"op": "UnrankN", "r": rnd.randrange(f11), "n": 11},
         {"op": "UnrankN", "r": 1, "n": 9}, {"op": "UnrankN", "r": rnd.randrange(f8), "n": 8}],
        [{"op": "UnrankN", "r": 0, "n": 11}, {"op": "UnrankN", "r": f11 - 1, "n": 11}, {"op": "UnrankN", "r": f11, "n": 11},
         {"op": "UnrankN", "r": rnd.randrange(f10), "n": 10}],
        [{"op": "Unrank", "r": rnd.randrange(shorter(10), shorter(11))}, {"op": "Unrank", "r": shorter(10) - 1},
         {"op": "Unrank", "r": shorter(10)}, {"op": "UnrankN", "r": rnd.randrange(f9), "n": 9}],
        [{"op": "Rank", "p": list(util.rand_perm(rnd, 10))}, {"op": "Rank", "p": list(range(9, -1, -1))},
         {"op": "Rank", "p": list(util.rand_perm(rnd, 9)), "form": "alias"}, {"op": "Rank", "p": list(range(11))}],
        [{"op": "GenSlice", "gen": "first", "arg": 50003, "start": 50000, "stop": None, "src": "cold first(50003) tail"},
         {"op": "GenSlice", "gen": "first", "arg": 11, "start": 0, "stop": None, "src": "first(11) after a large first"}],
        [{"op": "GenSlice", "gen": "of_length", "arg": 9, "start": f9 - 3, "stop": None, "src": "cold of_length(9) tail"},
         {"op": "UnrankN", "r": f9 - 2, "n": 9}],
        [{"op": "GenSlice", "gen": "up_to_length", "arg": 8, "start": shorter(8) - 2, "stop": shorter(8) + 2, "src": "cold up_to_length(8) roll-over"},
         {"op": "UnrankN", "r": rnd.randrange(f8), "n": 8}],
        [{"op": "Std", "pat": [rnd.randint(0, 6) for _ in range(12)], "carrier": "int", "variant": 2},
         {"op": "Std", "pat": [rnd.randint(0, 6) for _ in range(12)], "carrier": "collide", "variant": 0},
         {"op": "Std", "pat": [3, 3, 3, 0, 0, 9, 9, 1], "carrier": "int", "variant": 3, "fn": "from_iterable"}],
        [{"op": "Std", "pat": [1, 0, 1, 0, 1, 0, 1, 0, 1, 0, 1], "carrier": "neg", "variant": 0},
         {"op": "Std", "pat": [0, 1, 0, 1, 0, 1, 0, 1, 0, 1, 0], "carrier": "neg", "variant": 0},
         {"op": "Std", "pat": [1, 0, 1, 0, 1, 0, 1, 0, 1, 0, 1], "carrier": "neg", "variant": 1}],
        [{"op": "MeshUnrank", "p": list(util.rand_perm(rnd, 4)), "r": 2 ** 25 - 1}, {"op": "MeshUnrank", "p": [0, 1, 2, 3], "r": 2 ** 25},
         {"op": "MeshRank", "p": [2, 0, 1], "R": [[3, 3], [0, 0]]},
         {"op": "GenSlice", "gen": "mesh", "arg": 3, "start": 65534, "stop": 65539, "src": "cold MeshPatt.of_length(3) across the first pattern boundary"}],
        [{"op": "Read", "kind": "int", "data": [9, 8, 7, 6, 5, 4, 3, 2, 1, 0]}, {"op": "Read", "kind": "string", "data": list("9876543210")},
         {"op": "RoundTrip", "kind": "str", "p": list(util.rand_perm(rnd, 10))}, {"op": "RoundTrip", "kind": "repr", "p": list(util.rand_perm(rnd, 10))}],
    ]
    return sc if not quick else sc


def run_child(scenario):
    r = subprocess.run([sys.executable, "-c", CHILD], input=json.dumps(scenario), capture_output=True, text=True,
                       timeout=600, env=dict(os.environ), check=False)
    lines = [ln for ln in r.stdout.splitlines() if ln.startswith("RESULT")]
    if r.returncode != 0 or len(lines) != 1:
        raise tlc.MachineryFailure("C09 cold-start interpreter failed (exit %s)\n%s" % (r.returncode, (r.stderr or r.stdout)[-1500:]))
    return json.loads(lines[0][len("RESULT"):])


def cold_start_events(ctx, rnd, quick):
    """Fresh interpreters (one per scenario, side by side): process-wide state (memo tables, shared tables that grow
    with the largest argument seen) is as a new user finds it and the first call already has a large argument."""
    scenarios = cold_scenarios(rnd, quick)
    with concurrent.futures.ThreadPoolExecutor(max_workers=8) as ex:
        outs = list(ex.map(run_child, scenarios))
    events = []
    for sc, out in zip(scenarios, outs):
        if len(out) != len(sc):
            raise tlc.MachineryFailure("C09 cold-start interpreter answered %d of %d calls" % (len(out), len(sc)))
        for j, got in enumerate(out):
            if "unavailable" in got:
                ctx.drift("entry point form not available, not judged: %s" % got["unavailable"])
            elif "failed" in got:
                ctx.violation({"kind": "cold-start", "scenario": sc, "call": j}, "NoException", "a result", got["failed"])
            else:
                got["src"] = "fresh interpreter, call %d of %s" % (j, json.dumps([{k: v for k, v in e.items() if k != "src"} for e in sc])[:300])
                events.extend(expand_slice(got) if got["op"] == "GenSlice" else [got])
    ctx.note("cold_start_interpreters", len(scenarios))
    return events


def trace_job(events):
    fd, path = tempfile.mkstemp(prefix="verif-trace-", suffix=".json")
    with os.fdopen(fd, "w") as fh:
        json.dump(events, fh)
    c = util.cfg(init="TInit", next_="TNext", constants={"TMaxLen": 8, "TNonInt": NONINT}, invariants=["TraceDone"])
    return path, ("Trace_C09", c, {"timeout": 3000, "env": {"TRACE_FILE": path}, "full_jit": True})


def judge_trace(ctx, res, events):
    done = [r for r in res.records if isinstance(r, dict) and "verdict" in r]
    if len(done) != 1 or done[0]["n"] != len(events) or res.distinct != len(events) + 1:
        raise tlc.MachineryFailure("Trace_C09: trace not fully consumed (%d events, %d states)\n%s" % (len(events), res.distinct, res.stdout[-1500:]))
    ctx.traces += len(events)
    ctx.case(n=len(events))
    for i, ev in enumerate(events):
        ctx.nontrivial.add(("event", i))
    for b in done[0]["verdict"]:
        ev = events[b["i"] - 1]
        ctx.violation({"kind": "event", "event": ev}, b["clause"], "the value of the definition named by the clause (Trace_C09)", ev)
    return done[0]["verdict"]


# =========================================================================================
def run(ctx):
    quick = ctx.tier == "quick"
    rnd = util.rng(ctx, 9)
    cold = cold_start_events(ctx, util.rng(ctx, 909), quick)      # before this process has called anything
    events = record_events(ctx, rnd, quick)
    rnd_h = util.rng(ctx, 99)
    hard = long_rank_events(ctx, rnd_h, quick) + big_rank_events(ctx, util.rng(ctx, 913), quick) + form_events(ctx, rnd_h, quick) + mesh_boundary_events(ctx, rnd_h, quick) \
        + lazy_events(ctx, rnd_h, quick)
    ctx.note("hardening_events", {"cold_start": len(cold), "in_process": len(hard)})
    events = events + hard + cold
    path, tjob = trace_job(events)
    try:
        g_jobs, last, top = gen_jobs(quick)
        rows, s_inputs, s_hist, s_dev = std_jobs(quick)
        n_jobs = notation_jobs(quick)
        m_jobs = mesh_jobs(rnd, quick)
        jobs = [("LibSanity_LexRank", util.cfg(init="Init", next_="Next"), {"timeout": 3000}), tjob, s_hist, s_dev]
        # long jobs first so that the pool of 16 JVMs stays busy
        jobs += m_jobs + g_jobs[::-1] + s_inputs + n_jobs
        results = tlc.run_many(jobs, parallel=16)
    finally:
        os.unlink(path)
    if os.environ.get("VERIF_C09_TIMING"):
        for (m, _, _), r in zip(jobs, results):
            print("timing %-18s %6.1fs %7d states" % (m, r.wall_s, r.distinct))
    it = iter(results)
    r = next(it)
    ctx.add_tlc(r, "LibSanity_LexRank: theorems and second characterisations of the C09 definitions")
    r_trace = next(it)
    ctx.add_tlc(r_trace, "Trace_C09: recorded calls of the real code")
    r_hist = next(it)
    ctx.add_tlc(r_hist, "memo history machine (edges)")
    r_dev = next(it)
    ctx.add_tlc(r_dev, "memo history machine with lookup by hash only (must be refuted)")
    if r_dev.violated != "ReplyNeverDependsOnMemo":
        raise tlc.MachineryFailure("C09 model vacuous: lookup by hash only was not refuted (%s)" % r_dev.violated)
    ctx.note("hash_only_lookup_refuted_by_model", True)
    r_mesh = [next(it) for _ in m_jobs]
    r_gen = [next(it) for _ in g_jobs][::-1]
    r_std = [next(it) for _ in s_inputs]
    r_not = [next(it) for _ in n_jobs]
    for r in r_mesh:
        ctx.add_tlc(r, "mesh rank enumerator / samples")
    for r in r_gen:
        ctx.add_tlc(r, "generator segment")
    for r in r_std:
        ctx.add_tlc(r, "standardisation universe shard")
    for r in r_not:
        ctx.add_tlc(r, "notation universe shard")

    judge_generator(ctx, r_gen, last, top, quick, rnd)
    judge_std_inputs(ctx, r_std, rnd, quick)
    judge_std_history(ctx, rows, r_hist)
    nperm = nvalid = 0
    for r in r_not:
        for rec in r.records:
            if rec["mode"] == "perm":
                nperm += 1
                judge_perm_notation(ctx, rec)
                if nperm == 500:
                    ctx.sample({"machine": "C09_Notation", "state": rec})
            else:
                nvalid += 1
                judge_valid(ctx, rec)
    if not nperm or not nvalid or sum(1 for r in r_not for rec in r.records if rec["mode"] == "valid" and rec["accept"]) == 0:
        raise tlc.MachineryFailure("C09 notation universe vacuous (%d perms, %d sequences)" % (nperm, nvalid))
    want_perm, want_valid = shorter((7 if quick else 8) + 1), sum(7 ** k for k in range((4 if quick else 5) + 1))
    if (nperm, nvalid) != (want_perm, want_valid):
        raise tlc.MachineryFailure("C09 notation universe incomplete: %d/%d permutations, %d/%d sequences" % (nperm, want_perm, nvalid, want_valid))
    ctx.note("notation", {"permutations": nperm, "sequences_for_validated_constructor": nvalid})
    judge_mesh(ctx, r_mesh)
    judge_trace(ctx, r_trace, events)
    ctx.sample({"machine": "Trace_C09", "events": [events[0], events[len(events) // 2]]})
    ctx.exhaustive = True
    ctx.rule = ("generator: every step of the behaviour through lengths 0..%d (unrank, unrank with length, rank at every step; "
                "of_length / up_to_length for every length; first(k) for every small k, every block boundary and sampled k; < on all "
                "small pairs, all neighbours, random pairs), non-trivial = length >= 3; standardisation: every order pattern of "
                "length <= %d over 0..3 on every carrier type in three histories plus a transition tour of the memo machine, "
                "non-trivial = pattern with a repeated value; notations: every permutation of length <= %d and every sequence of "
                "length <= %d over {-1..4, non-integer}; mesh: every mesh pattern of length <= 2 and sampled ranks of length 3-4; "
                "plus recorded calls on larger arguments judged by Trace_C09" % (top, 5 if quick else 6, 7 if quick else 8, 4 if quick else 5))
    ctx.assumptions.append("counting definitions (rank = number of smaller permutations, successor = least greater) are evaluated in every "
                           "state up to length 6 and in sampled states of length 7-8; elsewhere the sorted-table definitions are used, "
                           "whose table is checked to be strictly increasing and complete")
    ctx.assumptions.append("from_string(str(p)) is judged for lengths <= 10 only (str switches to a parenthesised form from length 11 on)")


def replay(ctx, path):
    rec = json.load(open(path))
    case = rec["case"]
    kind = case.get("kind")
    events = []
    if kind == "event":
        ev = dict(case["event"])
        if ev.get("op") in ("NextOf", "GenCount", "MeshListed", "MeshListedEnd") or str(ev.get("src", "")).startswith("fresh interpreter"):
            raise tlc.MachineryFailure("this C09 case (an item of a lazy listing / a call in a fresh interpreter) is replayed by "
                                       "re-running the check with the same VERIF_SEED")
        events = [observe(ev)]
    elif kind == "gen":
        call = case["call"]
        if call == "unrank":
            events = [observe({"op": "Unrank", "r": case["r"]})]
        elif call == "unrankN":
            events = [observe({"op": "UnrankN", "r": case["r"], "n": case["n"]})]
        elif call == "rank":
            events = [observe({"op": "Rank", "p": case["p"]})]
        elif call == "less":
            events = [observe({"op": "Less", "a": case["a"], "b": case["b"]}), observe({"op": "Less", "a": case["b"], "b": case["a"]})]
        else:
            gen = {"first": lambda: Perm.first(case["k"]), "of_length": lambda: Perm.of_length(case["n"]),
                   "up_to_length": lambda: Perm.up_to_length(case["n"])}[call]
            out = [list(p) for p in gen()]
            if len(out) > 9000:
                raise tlc.MachineryFailure("replay of a listing this long: re-run the check")
            # the listing judged as data: its first and last element have the ranks of the ends of the range,
            # neighbours are successors
            if call == "of_length":
                want = math.factorial(case["n"])
                ends = [{"op": "UnrankN", "r": 0, "n": case["n"], "raised": False, "res": out[0] if out else []},
                        {"op": "UnrankN", "r": want - 1, "n": case["n"], "raised": False, "res": out[-1] if out else []}]
            else:
                want = case["k"] if call == "first" else shorter(case["n"] + 1)
                ends = [{"op": "Unrank", "r": 0, "raised": False, "res": out[0] if out else [0]},
                        {"op": "Unrank", "r": want - 1, "raised": False, "res": out[-1] if out else [0]}] if want else []
            if len(out) != want:
                print("VIOLATION property=C09 replay=%s\n  %s yields %d permutations, expected %d" % (path, call, len(out), want))
                return 1
            events += ends + [{"op": "NextOf", "p": a, "q": b} for a, b in zip(out, out[1:])]
    elif kind == "std":
        # the reply may depend on what the memo saw before: first every pattern of the same length on the colliding
        # carriers and on the carrier of the case, then the case itself, twice
        cf = cache_fn()
        if cf:
            cf.cache_clear()
        ln = len(case["pat"])
        if ln <= 6:
            for pat in itertools.product(range(4), repeat=ln):
                for car in dict.fromkeys(["int", "collide", "negcollide", case["carrier"]]):
                    if car in carriers_for(pat):
                        events.append(observe({"op": "Std", "pat": list(pat), "carrier": car, "variant": 0}))
        variant = case.get("variant", 0) if isinstance(case.get("variant", 0), int) else 0
        events += [observe({"op": "Std", "pat": case["pat"], "carrier": case["carrier"], "variant": variant}) for _ in range(2)]
    elif kind == "valid":
        if case["variant"] == "str":
            raise tlc.MachineryFailure("string variants of the validated constructor are replayed by re-running the check")
        events = [observe({"op": "Valid", "s": case["s"], "variant": case["variant"]})]
    elif kind == "mesh" and case.get("call") == "of_length" and "R" not in case:
        L = [(tuple(m.pattern), frozenset(m.shading)) for m in MeshPatt.of_length(case["k"])] if case["k"] <= 2 else \
            [(tuple(m.pattern), m.rank()) for m in MeshPatt.of_length(case["k"])]
        if len(L) != rec["expected"] or len(set(L)) != len(L):
            print("VIOLATION property=C09 replay=%s\n  of_length(%d): %d patterns, %d distinct, expected %s" % (path, case["k"], len(L), len(set(L)), rec["expected"]))
            return 1
        print("replay: case passes on the current tree")
        return 0
    elif kind == "mesh" and case.get("call") in ("rank", "unrank") and "R" in case:
        events = [observe({"op": "MeshRank", "p": case["p"], "R": case["R"]}), observe({"op": "MeshUnrank", "p": case["p"], "r": case.get("r", case["rank"])})]
    elif kind == "std-path":
        cf = cache_fn()
        if cf:
            cf.cache_clear()
        for j, step in enumerate(case["path"]):
            pat, car = case["inputs"][step["i"] - 1]
            if step["name"] == "Standardise":
                events.append(observe({"op": "Std", "pat": pat, "carrier": car, "variant": j + 1}))
            else:
                list(Perm.to_standard(carry(tuple(pat), car)).occurrences_in(Perm(TARGET)))
    else:
        raise tlc.MachineryFailure("this C09 case is replayed by re-running the check with the same VERIF_SEED")
    if not events:
        print("replay: nothing to judge")
        return 0
    p2, tjob = trace_job(events)
    try:
        res = tlc.run_tlc(tjob[0], tjob[1], **tjob[2])
    finally:
        os.unlink(p2)
    ctx.add_tlc(res, "Trace_C09 (replay)")
    done = [r for r in res.records if isinstance(r, dict) and "verdict" in r]
    if len(done) != 1 or done[0]["n"] != len(events):
        raise tlc.MachineryFailure("Trace_C09: replay trace not consumed")
    if done[0]["verdict"]:
        print("VIOLATION property=C09 replay=%s" % path)
        print("  still failing: %s" % done[0]["verdict"][:5])
        return 1
    print("replay: case passes on the current tree")
    return 0
