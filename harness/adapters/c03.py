"""C03 - mesh / bivincular / vincular / covincular occurrences in permutations.

spec -> code : every state of C03_MeshOcc (all shadings of patterns <= 2, all bivincular requirement
               pairs of length 3, sampled shadings of length 3-4) replayed through MeshPatt and, where
               the shading is of that form, through the Bivincular/Vincular/Covincular constructors.
code -> spec : random larger patterns/permutations, mixed contains/avoids lists, interleaved lazy
               iterators, validated by Trace_C03.
"""
import json

from permuta import BivincularPatt, CovincularPatt, MeshPatt, Perm, VincularPatt

from harness import tlc, util

INVS = ["TypeOK", "Underlying", "Extremes", "BivMeaning"]


# the ways a collection of adjacency requirements / shaded cells can be handed to a constructor
ARG_FORMS = [
    ("sorted-list", lambda xs: sorted(xs)),
    ("reversed-tuple", lambda xs: tuple(sorted(xs, reverse=True))),
    ("iterator", lambda xs: iter(sorted(xs))),
    ("generator", lambda xs: (x for x in sorted(xs, reverse=True))),
    ("set", lambda xs: set(xs)),
    ("frozenset", lambda xs: frozenset(xs)),
    ("repeated", lambda xs: sorted(xs) + sorted(xs, reverse=True)[:2]),
    ("rotated-repeated-iterator", lambda xs: iter((sorted(xs)[1:] + sorted(xs)[:1]) * 2)),
    ("dict-keys", lambda xs: dict.fromkeys(sorted(xs, reverse=True)).keys()),
]


def builders(rec):
    """All the ways the pattern of this state can be written down in Permuta.  The requirement lists of the
    bivincular family are given in a container form that rotates with the state (every pattern meets every form,
    since each pattern is a state with many permutations)."""
    p = Perm(rec["p"])
    R = [tuple(c) for c in rec["R"]]
    sel = sum((i + 1) * v for i, v in enumerate(rec["q"])) + len(rec["q"])
    cells = _Lazy(ARG_FORMS[(sel + len(R)) % len(ARG_FORMS)][1], R)
    out = [("MeshPatt", lambda: MeshPatt(p, cells()))]
    if rec["biv"]:
        fx = ARG_FORMS[sel % len(ARG_FORMS)][1]
        fy = ARG_FORMS[(sel // len(ARG_FORMS) + sel) % len(ARG_FORMS)][1]
        X, Y = _Lazy(fx, rec["X"]), _Lazy(fy, rec["Y"])
        out.append(("BivincularPatt", lambda: BivincularPatt(p, X(), Y())))
        k = len(rec["p"])
        # a full grid has every column and row full; (X, {}) describes the shading only if rows add nothing
        if set(R) == {(x, y) for x in X for y in range(k + 1)}:
            out.append(("VincularPatt", lambda: VincularPatt(p, X())))
        if set(R) == {(x, y) for y in Y for x in range(k + 1)}:
            out.append(("CovincularPatt", lambda: CovincularPatt(p, Y())))
    return out


class _Lazy:
    """A requirement collection that is presented afresh (possibly as a one-shot object) at every construction,
    and as a plain sorted list when iterated by the harness itself."""

    def __init__(self, form, xs):
        self.form, self.xs = form, sorted(xs)

    def __call__(self):
        return self.form(self.xs)

    def __iter__(self):
        return iter(self.xs)


def observe(M, Q):
    occ = [list(t) for t in M.occurrences_in(Q)]
    return {"occ": sorted(occ), "dups": len(occ) != len({tuple(t) for t in occ}),
            "contains": Q.contains(M), "avoids": Q.avoids(M), "in": M in Q,
            "count_in": M.count_occurrences_in(Q), "count_of": Q.count_occurrences_of(M),
            "contained_in": M.contained_in(Q), "avoided_by": M.avoided_by(Q)}


def judge(ctx, rec):
    occ = rec["occ"]
    n = len(occ)
    exp = {"occ": occ, "dups": False, "contains": n > 0, "avoids": n == 0, "in": n > 0, "count_in": n,
           "count_of": n, "contained_in": n > 0, "avoided_by": n == 0}
    Q = Perm(rec["q"])
    key = (tuple(rec["p"]), tuple(sorted(map(tuple, rec["R"]))), tuple(rec["q"]))
    classical = [list(t) for t in Perm(rec["p"]).occurrences_in(Q)]
    ctx.case(key, nontrivial=len(rec["R"]) > 0 and 0 < len(classical) and n < len(classical) or (n > 0 and len(rec["R"]) > 0))
    for name, mk in builders(rec):
        case = {"kind": "state", "ctor": name, "p": rec["p"], "R": sorted(rec["R"]), "X": rec["X"], "Y": rec["Y"], "q": rec["q"]}
        st, obs = util.call(lambda: observe(mk(), Q))
        if st == "raise":
            ctx.violation(case, "NoException", exp, {"raised": obs})
            continue
        for k in exp:
            if obs[k] != exp[k]:
                ctx.violation(dict(case, entry=k), "MeshOccurrencesExact" if k in ("occ", "dups") else "PredicatesAgree", exp[k], obs[k])
                break
        if name == "MeshPatt":
            # one long-lived object per pattern, asked about every permutation of the universe in turn
            L = _LONG.get(key[:2])
            if L is None:
                L = _LONG[key[:2]] = mk()
            st, obs = util.call(lambda: (sorted(list(t) for t in L.occurrences_in(Q)), Q.contains(L), L.count_occurrences_in(Q)))
            if st == "raise" or obs != (occ, n > 0, n):
                ctx.violation(dict(case, entry="long-lived object"), "MeshOccurrencesExact", (occ, n > 0, n), obs)
        if name == "BivincularPatt":
            st, req = util.call(lambda: mk().get_adjacent_requirements())
            want = (sorted(rec["X"]), sorted(rec["Y"]))
            # full-column/full-row sets of the shading (the spec's MFullCols/MFullRows for this shading)
            k = len(rec["p"])
            Rs = {tuple(c) for c in rec["R"]}
            want = (sorted(x for x in range(k + 1) if all((x, y) in Rs for y in range(k + 1))),
                    sorted(y for y in range(k + 1) if all((x, y) in Rs for x in range(k + 1))))
            if st == "raise" or (list(req[0]), list(req[1])) != (want[0], want[1]):
                ctx.violation(dict(case, entry="get_adjacent_requirements"), "AdjacencyRoundTrip", want, req)


_LONG = {}


def sample_meshes(rnd, count, lengths=(3, 4)):
    out = []
    for _ in range(count):
        k = rnd.choice(lengths)
        p = util.rand_perm(rnd, k)
        dens = rnd.choice([0.1, 0.2, 0.5, 0.8])
        R = [(x, y) for x in range(k + 1) for y in range(k + 1) if rnd.random() < dens]
        out.append((p, R))
    return out


def weak_hash_events(ctx):
    """Run in the weak-hash interpreter (harness/weakhash.py): the hardening events, recorded where patterns share a few hash values."""
    return hardening_events(ctx, True, 1000000)


def run(ctx):
    quick = ctx.tier == "quick"
    weak = util.weak_hash_start(ctx, "c03", "weak_hash_events")
    nsh = 8 if quick else 16
    rnd = util.rng(ctx, 3)
    base = {"MinMesh": 0, "MaxMesh": 2, "BivLen": 3, "MinPerm": 0, "Sample": "{}"}
    jobs = []
    inv = INVS + ["EmitState"]
    for s in range(nsh):
        k = dict(base, Mode='"mesh"', MaxPerm=4 if quick else 5, Shard=s, NShards=nsh)
        jobs.append(("C03_MeshOcc", util.cfg(init="Init", next_="Stutter", invariants=inv, constants=k), {"timeout": 3000}))
        k = dict(base, Mode='"biv"', MaxPerm=4 if quick else 5, Shard=s, NShards=nsh)
        jobs.append(("C03_MeshOcc", util.cfg(init="Init", next_="Stutter", invariants=inv, constants=k), {"timeout": 3000}))
    # the larger permutations for the smaller pattern universes (length <= 1 patterns, length 5/6 perms)
    k = dict(base, Mode='"mesh"', MaxMesh=1, MinPerm=5 if quick else 6, MaxPerm=5 if quick else 6, Shard=0, NShards=1)
    jobs.append(("C03_MeshOcc", util.cfg(init="Init", next_="Stutter", invariants=inv, constants=k), {"timeout": 3000}))
    # sampled shadings of length 3 and 4 (chosen here, reproducibly; evaluated by TLC)
    smp = sample_meshes(rnd, 40 if quick else 400)
    per = 10 if quick else 25
    for i in range(0, len(smp), per):
        chunk = smp[i:i + per]
        sset = "{" + ", ".join("[p |-> %s, R |-> {%s}]" % (tlc.tla(list(p)), ", ".join(tlc.tla(list(c)) for c in R)) for p, R in chunk) + "}"
        k = dict(base, Mode='"sample"', MaxPerm=5 if quick else 6, Shard=0, NShards=1, Sample=("<-", "SampleDef"))
        jobs.append(("MC_C03", util.cfg(init="Init", next_="Stutter", invariants=inv, constants=k),
                     {"timeout": 3000, "files": {"MC_C03.tla": util.mc_module("MC_C03", "C03_MeshOcc", {"SampleDef": sset})}}))
    results = tlc.run_many(jobs, parallel=16)
    nrec = 0
    for r in results:
        ctx.add_tlc(r, "input universe shard")
        for rec in r.records:
            nrec += 1
            judge(ctx, rec)
            if nrec % 9973 == 0:
                ctx.sample({"machine": "C03_MeshOcc", "state": rec})
    if nrec != ctx.states:
        raise tlc.MachineryFailure("C03: %d records for %d states" % (nrec, ctx.states))
    ctx.exhaustive = True
    ctx.note("tlc_range", "all 1042 mesh patterns of length <= 2 and all 1536 bivincular requirement pairs of length 3 x "
             "permutations <= %d; patterns <= 1 x permutations of length %d; %d sampled shadings of length 3-4" % (
                 4 if quick else 5, 5 if quick else 6, len(smp)))

    # ---- code -> spec -----------------------------------------------------------------
    events = []
    nmix = 120 if quick else 1200
    for _ in range(nmix):
        q = util.rand_perm(rnd, rnd.randint(0, 6 if quick else 7))
        Q = Perm(q)
        ms = sample_meshes(rnd, rnd.randint(0, 2), lengths=(1, 2, 2, 3, 3))
        cl = [util.rand_perm(rnd, rnd.choice([1, 2, 3, 3, 4])) for _ in range(rnd.randint(0, 2))]
        if not ms and not cl:
            continue
        objs = [Perm(c) for c in cl] + [MeshPatt(Perm(p), R) for p, R in ms]
        rnd.shuffle(objs)
        jm = [{"p": list(p), "R": [list(c) for c in R]} for p, R in ms]
        events.append({"op": "Mixed", "kind": "contains", "q": list(q), "cl": [list(c) for c in cl], "ms": jm, "bs": [], "res": Q.contains(*objs)})
        events.append({"op": "Mixed", "kind": "avoids", "q": list(q), "cl": [list(c) for c in cl], "ms": jm, "bs": [], "res": Q.avoids(*objs)})
        for p, R in ms[:1]:
            events.append({"op": "Occ", "p": list(p), "R": [list(c) for c in R], "q": list(q),
                           "res": sorted(list(t) for t in MeshPatt(Perm(p), R).occurrences_in(Q))})
    # lists in which several patterns share their underlying permutation (a weaker one first, a stricter one later,
    # and the other way round): every element of the list must be judged on its own
    for _ in range(100 if quick else 1000):
        k = rnd.choice([1, 2, 2, 3])
        p = util.rand_perm(rnd, k)
        cells = [(x, y) for x in range(k + 1) for y in range(k + 1)]
        R1 = [c for c in cells if rnd.random() < 0.25]
        R2 = sorted(set(R1) | {c for c in cells if rnd.random() < 0.3})
        q = util.rand_perm(rnd, rnd.randint(k, 6))
        Q = Perm(q)
        fam = [("cl", Perm(p)), ("m1", MeshPatt(Perm(p), R1)), ("m2", MeshPatt(Perm(p), R2))]
        rnd.shuffle(fam)
        objs = [o for _, o in fam]
        jm = [{"p": list(p), "R": [list(c) for c in R]} for R in (R1, R2)]
        events.append({"op": "Mixed", "kind": "contains", "q": list(q), "cl": [list(p)], "ms": jm, "bs": [], "res": Q.contains(*objs)})
        events.append({"op": "Mixed", "kind": "avoids", "q": list(q), "cl": [list(p)], "ms": jm, "bs": [], "res": Q.avoids(*objs)})
        events.append({"op": "Mixed", "kind": "avoids", "q": list(q), "cl": [list(p)], "ms": jm, "bs": [], "res": Q.avoids_set(iter(objs))})
    # interleaved lazy iterators, some sharing one pattern object
    nit = 40 if quick else 300
    idc = 0
    for _ in range(nit):
        shared = MeshPatt(Perm(util.rand_perm(rnd, rnd.choice([1, 2, 2, 3]))), [])
        k = len(shared)
        shared = MeshPatt(shared.pattern, [(x, y) for x in range(k + 1) for y in range(k + 1) if rnd.random() < 0.2])
        live = []
        for _ in range(rnd.randint(2, 3)):
            if rnd.random() < 0.7:
                M = shared
            else:
                (p, R), = sample_meshes(rnd, 1, lengths=(1, 2, 3))
                M = MeshPatt(Perm(p), R)
            q = util.rand_perm(rnd, rnd.randint(2, 6))
            idc += 1
            events.append({"op": "Open", "id": idc, "p": list(M.pattern), "R": [list(c) for c in M.shading], "q": list(q)})
            live.append((idc, M.occurrences_in(Perm(q))))
        while live:
            j = rnd.randrange(len(live))
            i, it = live[j]
            try:
                t = next(it)
                events.append({"op": "Step", "id": i, "stop": False, "res": list(t)})
            except StopIteration:
                events.append({"op": "Step", "id": i, "stop": True, "res": []})
                live.pop(j)
            except Exception as e:  # pylint: disable=broad-except
                ctx.violation({"kind": "iterator", "id": i}, "NoException", "a tuple or StopIteration", type(e).__name__)
                live.pop(j)
    nbefore = len(events)
    events.extend(hardening_events(ctx, quick, idc))
    events.extend(util.weak_hash_finish(ctx, weak, "c03"))
    ctx.note("hardening_events", len(events) - nbefore)
    v = util.validate_trace(ctx, "Trace_C03", events, ntraces=nmix + nit)
    ctx.case(n=len(events))
    ctx.sample({"machine": "Trace_C03", "events": events[:3]})
    for b in v["verdict"]:
        ev = events[b["i"] - 1]
        if b["clause"].startswith("SPEC-"):
            raise tlc.MachineryFailure("C03: the two statements of the bivincular meaning disagree on %s" % ev)
        ctx.violation({"kind": "trace-event", "index": b["i"], "event": ev, "context": events[max(0, b["i"] - 6):b["i"] - 1] if ev["op"] == "Step" else []},
                      b["clause"], "value of the definition (see clause)", ev.get("res"))
    repo_tests_traces(ctx)
    ctx.rule = ("TLC enumerates every (mesh pattern, permutation) state of the bounded universes with the occurrence set "
                "by definition; each is replayed through every constructor that can express the shading and every "
                "containment entry point; non-trivial = shaded pattern whose shading matters or that has an occurrence; "
                "plus recorded mixed-list predicates and interleaved lazy iterators validated by Trace_C03")


# ---- probes added in the hardening round ------------------------------------------------------------------
def _std(seq):
    order = sorted(range(len(seq)), key=lambda i: seq[i])
    out = [0] * len(seq)
    for r, i in enumerate(order):
        out[i] = r
    return tuple(out)


def _jm(p, R):
    return {"p": list(p), "R": [list(c) for c in sorted(R)]}


def biv_with_occurrence(rnd, q, k):
    """A bivincular pattern of length k read off a random choice of k positions of q: the requirements are mostly
    chosen among those that this choice satisfies (so the pattern tends to occur, anchored or not), sometimes one
    more.  Only the *input* is constructed here; what occurs is decided by the specification."""
    n = len(q)
    if k > n:
        return util.rand_perm(rnd, k), [x for x in range(k + 1) if rnd.random() < 0.3], [y for y in range(k + 1) if rnd.random() < 0.3]
    # positions: runs of adjacent positions, biased to touch the first / last position
    start = rnd.choice([0, 0, n - k, rnd.randint(0, n - k)])
    pos = sorted(rnd.sample(range(n), k)) if rnd.random() < 0.5 else list(range(start, start + k))
    if rnd.random() < 0.3 and k:
        pos[0] = 0
    if rnd.random() < 0.3 and k:
        pos[-1] = n - 1
    pos = sorted(set(pos))
    k = len(pos)
    vals = sorted(q[i] for i in pos)
    p = _std([q[i] for i in pos])
    okx = [x for x in range(k + 1) if (pos[x - 1] if x else -1) + 1 == (pos[x] if x < k else n)]
    oky = [y for y in range(k + 1) if (vals[y - 1] if y else -1) + 1 == (vals[y] if y < k else n)]
    X = [x for x in okx if rnd.random() < 0.6]
    Y = [y for y in oky if rnd.random() < 0.5]
    if rnd.random() < 0.15:
        X = sorted(set(X) | {rnd.randint(0, k)})
    if rnd.random() < 0.15:
        Y = sorted(set(Y) | {rnd.randint(0, k)})
    return p, X, Y


def build_biv(rnd, p, X, Y):
    """One of the constructors that can express (X, Y), the requirements in a random container form."""
    fx, fy = rnd.choice(ARG_FORMS)[1], rnd.choice(ARG_FORMS)[1]
    P = Perm(p)
    if not Y and rnd.random() < 0.6:
        return VincularPatt(P, fx(X))
    if not X and rnd.random() < 0.6:
        return CovincularPatt(P, fy(Y))
    return BivincularPatt(P, fx(X), fy(Y))


def mesh_few_cells(rnd, q, k):
    """A mesh pattern of length k on a subsequence of q with few shaded cells, biased to the border of the grid."""
    n = len(q)
    pos = sorted(rnd.sample(range(n), k)) if k <= n else []
    p = _std([q[i] for i in pos]) if k <= n else util.rand_perm(rnd, k)
    border = [(x, y) for x in range(k + 1) for y in range(k + 1) if x in (0, k) or y in (0, k)]
    inner = [(x, y) for x in range(k + 1) for y in range(k + 1)]
    style = rnd.random()
    if style < 0.08:
        R = []
    elif style < 0.16:
        R = inner
    else:
        R = {rnd.choice(border if rnd.random() < 0.6 else inner) for _ in range(rnd.randint(1, 4))}
    return p, sorted(R)


def hardening_events(ctx, quick, idc):
    rnd = util.rng(ctx, 303)
    ev = []
    scale = 1 if quick else 8
    # -- (a) the bivincular family on longer permutations, anchored at 0 / k, requirements in every container form
    for _ in range(140 * scale):
        q = util.rand_perm(rnd, rnd.choice([5, 6, 7, 7, 8, 8]))
        p, X, Y = biv_with_occurrence(rnd, q, rnd.choice([1, 2, 2, 3, 3, 4]))
        Q = Perm(q)
        B = build_biv(rnd, p, X, Y)
        ev.append({"op": "Biv", "p": list(p), "X": X, "Y": Y, "q": list(q), "res": sorted(list(t) for t in B.occurrences_in(Q)),
                   "ctor": type(B).__name__})
        jb = [{"p": list(p), "X": X, "Y": Y}]
        ev.append({"op": "Mixed", "kind": "contains", "q": list(q), "cl": [], "ms": [], "bs": jb, "res": Q.contains(B)})
        B2 = build_biv(rnd, p, X, Y)                    # an equal pattern written another way, with the classical one
        objs = [B2, Perm(p), B]
        rnd.shuffle(objs)
        ev.append({"op": "Mixed", "kind": "contains", "q": list(q), "cl": [list(p)], "ms": [], "bs": jb + jb, "res": Q.contains(*objs)})
        ev.append({"op": "Mixed", "kind": "avoids", "q": list(q), "cl": [], "ms": [], "bs": jb, "res": Q.avoids_set(x for x in (B, B2))})
        ev.append({"op": "Biv", "p": list(p), "X": X, "Y": Y, "q": list(q), "res": sorted(list(t) for t in B.occurrences_in(Q)),
                   "ctor": type(B).__name__ + " (second listing)"})
    # -- (b) mesh patterns of length 4-5 with few shaded cells on permutations of length 7-8; shading in every form
    for _ in range(110 * scale):
        q = util.rand_perm(rnd, rnd.choice([7, 8]))
        p, R = mesh_few_cells(rnd, q, rnd.choice([4, 4, 5]))
        Q = Perm(q)
        M = MeshPatt(Perm(p), rnd.choice(ARG_FORMS)[1](R))
        ev.append(dict(_jm(p, R), op="Occ", q=list(q), res=sorted(list(t) for t in M.occurrences_in(Q))))
        ev.append({"op": "Mixed", "kind": "contains", "q": list(q), "cl": [], "ms": [_jm(p, R)], "bs": [], "res": M in Q})
        # the same object again after its symmetric images were taken and used (they share the underlying pattern's data)
        imgs = [M.reverse(), M.complement(), M.inverse(), M.rotate()]
        for I in imgs[:2]:
            I.count_occurrences_in(Q)
        q2 = util.rand_perm(rnd, rnd.choice([6, 7, 8]))
        ev.append(dict(_jm(p, R), op="Occ", q=list(q2), res=sorted(list(t) for t in M.occurrences_in(Perm(q2)))))
        ev.append(dict(_jm(p, R), op="Occ", q=list(q), res=sorted(list(t) for t in M.occurrences_in(Q))))
    # -- (c) the empty pattern, with and without its single cell shaded, alone and inside lists
    for _ in range(20 * scale):
        q = util.rand_perm(rnd, rnd.choice([0, 0, 1, 2, 5, 8]))
        Q = Perm(q)
        for R in ([], [(0, 0)]):
            M = MeshPatt(Perm(()), rnd.choice(ARG_FORMS)[1](R))
            ev.append(dict(_jm((), R), op="Occ", q=list(q), res=sorted(list(t) for t in M.occurrences_in(Q))))
            other, = sample_meshes(rnd, 1, lengths=(1, 2))
            objs = [M, MeshPatt(Perm(other[0]), other[1]), Perm(())]
            rnd.shuffle(objs)
            for kind, fn in (("contains", lambda: Q.contains(*objs)), ("avoids", lambda: Q.avoids(*objs)),
                             ("avoids", lambda: Q.avoids_set(iter(objs))), ("avoids", lambda: Q.avoids_set(set(objs)))):
                ev.append({"op": "Mixed", "kind": kind, "q": list(q), "cl": [[]], "ms": [_jm((), R), _jm(*other)], "bs": [], "res": fn()})
        for X, Y in (([0], []), ([], [0]), ([0], [0])):
            B = build_biv(rnd, (), X, Y)
            ev.append({"op": "Biv", "p": [], "X": X, "Y": Y, "q": list(q), "res": sorted(list(t) for t in B.occurrences_in(Q)), "ctor": type(B).__name__})
    # -- (d) mixed lists in every container form, with repeated objects, on one long-lived permutation object
    for _ in range(40 * scale):
        q = util.rand_perm(rnd, rnd.randint(4, 8))
        Q = Perm(q)
        for _ in range(3):
            ms = [mesh_few_cells(rnd, q, rnd.choice([1, 2, 3])) for _ in range(rnd.randint(0, 2))]
            bs = [biv_with_occurrence(rnd, q, rnd.choice([1, 2, 3])) for _ in range(rnd.randint(0, 2))]
            cl = [util.rand_perm(rnd, rnd.choice([1, 2, 3, 4])) for _ in range(rnd.randint(0, 1))]
            objs = [MeshPatt(Perm(p), R) for p, R in ms] + [build_biv(rnd, *b) for b in bs] + [Perm(c) for c in cl]
            if not objs:
                continue
            objs = objs + [rnd.choice(objs)]
            rnd.shuffle(objs)
            jms, jbs = [_jm(p, R) for p, R in ms], [{"p": list(p), "X": X, "Y": Y} for p, X, Y in bs]
            base = {"op": "Mixed", "q": list(q), "cl": [list(c) for c in cl], "ms": jms, "bs": jbs}
            ev.append(dict(base, kind="contains", res=Q.contains(*objs)))
            ev.append(dict(base, kind="avoids", res=Q.avoids(*objs)))
            for form in (lambda o: (x for x in o), set, tuple, lambda o: map(lambda x: x, o)):
                ev.append(dict(base, kind="avoids", res=Q.avoids_set(form(objs))))
            ev.append(dict(base, kind="contains", res=all(o in Q for o in objs)))
            ev.append(dict(base, kind="contains", res=all(o.contained_in(Q) for o in objs)))
            ev.append(dict(base, kind="avoids", res=all(o.avoided_by(Q) for o in objs)))
    # -- (e) other questions to the same pattern object while lazy searches on it are suspended half way
    for _ in range(40 * scale):
        q0 = util.rand_perm(rnd, rnd.randint(5, 8))
        if rnd.random() < 0.5:
            p, R = mesh_few_cells(rnd, q0, rnd.choice([1, 2, 3]))
            M = MeshPatt(Perm(p), R)
        else:
            p, X, Y = biv_with_occurrence(rnd, q0, rnd.choice([1, 2, 3]))
            M = build_biv(rnd, p, X, Y)
            R = sorted(M.shading)          # the cells are those of the object (the conversion itself is judged by Biv events)
        live = []
        for q in (q0, util.rand_perm(rnd, rnd.randint(len(p), 7))):
            idc += 1
            ev.append(dict(_jm(p, R), op="Open", id=idc, q=list(q)))
            live.append((idc, M.occurrences_in(Perm(q))))
        while live:
            if rnd.random() < 0.6:
                j = rnd.randrange(len(live))
                i, it = live[j]
                try:
                    ev.append({"op": "Step", "id": i, "stop": False, "res": list(next(it))})
                except StopIteration:
                    ev.append({"op": "Step", "id": i, "stop": True, "res": []})
                    live.pop(j)
                except Exception as e:  # pylint: disable=broad-except
                    ctx.violation({"kind": "iterator", "id": i}, "NoException", "a tuple or StopIteration", type(e).__name__)
                    live.pop(j)
                continue
            q = util.rand_perm(rnd, rnd.randint(3, 7))
            Q = Perm(q)
            if rnd.random() < 0.5:
                ev.append(dict(_jm(p, R), op="Occ", q=list(q), res=sorted(list(t) for t in M.occurrences_in(Q))))
            else:
                ev.append({"op": "Mixed", "kind": "contains", "q": list(q), "cl": [list(p)], "ms": [_jm(p, R)], "bs": [], "res": Q.contains(M, Perm(p), M)})
    ev.extend(derivation_events(ctx, quick, rnd))
    ev.extend(long_perm_events(ctx, quick, rnd))
    return ev


def long_perm_events(ctx, quick, rnd):
    """Permutations of 17-40 entries (extreme entries at the ends, in the middle, next to each other; random ones) against
    mesh patterns of one or two points whose shading touches the border rows and columns - the cells an implementation
    is tempted to treat specially once gaps get wide."""
    ev = []
    for it in range(60 if quick else 500):
        n = rnd.choice([17, 18, 20, 24, 31, 32, 33, 40])
        base = list(range(n))
        kind = it % 6
        if kind == 0:
            q = [n - 1] + base[1:n - 1] + [0]                       # maximum first, minimum last, increasing in between
        elif kind == 1:
            q = base[1:n // 2] + [n - 1] + base[n // 2:n - 1] + [0]  # maximum in the middle, minimum last
        elif kind == 2:
            q = [0] + base[2:] + [1]
        elif kind == 3:
            q = base[::-1]
            i = rnd.randrange(n - 1)
            q[i], q[i + 1] = q[i + 1], q[i]
        else:
            q = list(util.rand_perm(rnd, n))
        k = rnd.choice([1, 1, 2])
        p = util.rand_perm(rnd, k)
        border = [(a, b) for a in range(k + 1) for b in range(k + 1) if a in (0, k) or b in (0, k)]
        R = sorted(set(rnd.sample(border, rnd.randint(1, min(3, len(border)))) + ([(rnd.randint(0, k), rnd.randint(0, k))] if rnd.random() < 0.3 else [])))
        M = MeshPatt(Perm(p), R)
        Q = Perm(q)
        st, got = util.call(lambda: sorted(list(t) for t in M.occurrences_in(Q)))
        if st == "raise":
            ctx.violation({"kind": "long permutation", "pattern": _jm(p, R), "q": q}, "NoException", "a listing", got)
            continue
        ev.append(dict(_jm(p, R), op="Occ", q=q, res=got))
        ev.append({"op": "Mixed", "kind": "contains", "q": q, "cl": [], "ms": [_jm(p, R)], "bs": [], "res": Q.contains(M)})
    return ev


def derive(rnd, x):
    """(how, y): a pattern object obtained from the object x by one of its own methods; None when the method does not apply."""
    k = len(x)
    free = [(a, b) for a in range(k + 1) for b in range(k + 1) if (a, b) not in x.shading]
    kind = rnd.choice(["shade", "shade", "shade-same-column", "shade2", "reverse", "complement", "inverse", "rotate", "sub", "add_point"])
    if kind.startswith("shade"):
        if not free:
            return None
        if kind == "shade-same-column":
            cols = {a for a, _ in x.shading}
            same = [c for c in free if c[0] in cols]
            return ("shade, a cell in a column that has a shaded cell", x.shade(rnd.choice(same))) if same else None
        if kind == "shade2":
            return "shade, two cells", x.shade(*rnd.sample(free, min(2, len(free))))
        return "shade", x.shade(rnd.choice(free))
    if kind in ("reverse", "complement", "inverse"):
        return kind, getattr(x, kind)()
    if kind == "rotate":
        t = rnd.randint(-3, 5)
        return "rotate(%d)" % t, x.rotate(t)
    if kind == "sub":
        if k == 0:
            return None
        idx = sorted(rnd.sample(range(k), rnd.randint(1, k)))
        return "sub_mesh_pattern(%s)" % idx, x.sub_mesh_pattern(idx)
    if not free or k >= 4:
        return None
    return "add_point", x.add_point(rnd.choice(free))


def derivation_events(ctx, quick, rnd):
    """A pattern object is used (searched, compared, hashed), then other pattern objects are obtained from it by its own
    methods (shade, symmetries, sub-pattern, added point), then all of them - and the original - are searched: each must
    behave as the pattern its own .pattern / .shading say it is.  Events carry the data read from the object itself."""
    ev = []
    for _ in range(160 if quick else 1600):
        k = rnd.choice([1, 2, 2, 3, 3])
        p = util.rand_perm(rnd, k)
        R = [(a, b) for a in range(k + 1) for b in range(k + 1) if rnd.random() < rnd.choice([0.1, 0.3, 0.5])]
        x = MeshPatt(Perm(p), R)
        family = [("the original", x)]
        if rnd.random() < 0.85:                       # used before anything is derived from it
            Q = Perm(util.rand_perm(rnd, rnd.randint(k, k + 3)))
            ev.append(dict(_jm(tuple(x.pattern), sorted(x.shading)), op="Occ", q=list(Q), res=sorted(list(t) for t in x.occurrences_in(Q))))
            sorted([x, MeshPatt(Perm(p), []), x])
            hash(x)
        for _ in range(rnd.randint(1, 4)):
            src_how, src = rnd.choice(family)
            st, got = util.call(derive, rnd, src)
            if st == "raise":
                ctx.violation({"kind": "derived object", "from": _jm(tuple(src.pattern), sorted(src.shading))}, "NoException", "a pattern", got)
                continue
            if got is None:
                continue
            family.append(("%s of (%s)" % (got[0], src_how), got[1]))
        order = list(family)
        rnd.shuffle(order)
        for how, y in order:
            Q = Perm(util.rand_perm(rnd, rnd.randint(len(y), min(7, len(y) + 3))))
            st, got = util.call(lambda: sorted(list(t) for t in y.occurrences_in(Q)))
            jm = _jm(tuple(y.pattern), sorted(y.shading))
            if st == "raise":
                ctx.violation({"kind": "derived object", "how": how, "pattern": jm, "q": list(Q)}, "NoException", "a listing", got)
            else:
                ev.append(dict(jm, op="Occ", q=list(Q), res=got, how=how))
    return ev


def repo_tests_traces(ctx):
    """The repository's own tests run under a recorder (harness/recorder.py); every top-level contains / avoids /
    Av.count / membership call they make (within TLC's size reach) is validated by Trace_RepoTests."""
    import os
    import subprocess
    import sys
    import tempfile
    from harness.core import REPO, VERIF
    fd, rec = tempfile.mkstemp(prefix="verif-rec-", suffix=".ndjson")
    os.close(fd)
    tests = ["tests/perm_sets", "tests/patterns/test_meshpatt.py", "tests/patterns/test_bivincular.py",
             "tests/bisc/test_perm_properties.py", "tests/permutils/test_stats.py"]
    env = dict(os.environ, VERIF_RECORD_FILE=rec, PYTHONDONTWRITEBYTECODE="1", PYTHONPATH=REPO + ":" + VERIF)
    try:
        p = subprocess.run([sys.executable, "-m", "pytest", "-q", "-p", "no:cacheprovider", "-p", "harness.recorder", "-c", os.devnull,
                            "--rootdir", REPO] + [os.path.join(REPO, t) for t in tests],
                           cwd=ctx.scratch, env=env, stdout=subprocess.PIPE, stderr=subprocess.STDOUT, text=True, timeout=1200)
        with open(rec) as fh:
            events = [json.loads(line) for line in fh if line.strip()]
    finally:
        os.unlink(rec)
    if len(events) < 200:
        raise tlc.MachineryFailure("recorder: only %d events from the repository tests\n%s" % (len(events), p.stdout[-800:]))
    chunks = [events[i::6] for i in range(6)]
    import concurrent.futures
    with concurrent.futures.ThreadPoolExecutor(max_workers=6) as ex:
        vs = list(ex.map(lambda ch: util.validate_trace(ctx, "Trace_RepoTests", ch, ntraces=1, timeout=3000), chunks))
    for ch, v in zip(chunks, vs):
        for b in v["verdict"]:
            ev = ch[b["i"] - 1]
            ctx.violation({"kind": "repo-test-call", "event": ev}, b["clause"], "value by definition", ev["res"])
    ctx.case(n=len(events))
    ctx.note("repo_test_calls_validated", len(events))
    ctx.note("repo_tests_outcome", p.stdout.strip().splitlines()[-1][:120] if p.stdout.strip() else "")


def replay(ctx, path):
    rec = json.load(open(path))
    case = rec["case"]
    if case["kind"] == "state":
        M = {"MeshPatt": lambda: MeshPatt(Perm(case["p"]), [tuple(c) for c in case["R"]]),
             "BivincularPatt": lambda: BivincularPatt(Perm(case["p"]), case["X"], case["Y"]),
             "VincularPatt": lambda: VincularPatt(Perm(case["p"]), case["X"]),
             "CovincularPatt": lambda: CovincularPatt(Perm(case["p"]), case["Y"])}[case["ctor"]]()
        Q = Perm(case["q"])
        ms = [{"p": case["p"], "R": case["R"]}]
        events = [{"op": "Occ", "p": case["p"], "R": case["R"], "q": case["q"], "res": sorted(list(t) for t in M.occurrences_in(Q))},
                  {"op": "Mixed", "kind": "contains", "q": case["q"], "cl": [], "ms": ms, "bs": [], "res": Q.contains(M)},
                  {"op": "Mixed", "kind": "avoids", "q": case["q"], "cl": [], "ms": ms, "bs": [], "res": Q.avoids(M)}]
    elif case["kind"] == "trace-event" and case["event"]["op"] in ("Occ", "Biv", "Mixed"):
        ev = dict(case["event"])                        # the recorded call made again (container forms not reproduced)
        Q = Perm(ev["q"])
        if ev["op"] == "Occ":
            ev["res"] = sorted(list(t) for t in MeshPatt(Perm(ev["p"]), [tuple(c) for c in ev["R"]]).occurrences_in(Q))
        elif ev["op"] == "Biv":
            ev["res"] = sorted(list(t) for t in BivincularPatt(Perm(ev["p"]), iter(ev["X"]), iter(ev["Y"])).occurrences_in(Q))
        else:
            objs = ([Perm(c) for c in ev["cl"]] + [MeshPatt(Perm(m["p"]), [tuple(c) for c in m["R"]]) for m in ev["ms"]]
                    + [BivincularPatt(Perm(b["p"]), b["X"], b["Y"]) for b in ev["bs"]])
            ev["res"] = Q.contains(*objs) if ev["kind"] == "contains" else Q.avoids_set(iter(objs))
        events = [ev]
    else:
        raise tlc.MachineryFailure("iterator events are replayed by re-running the check with the same VERIF_SEED")
    v = util.validate_trace(ctx, "Trace_C03", events)
    if v["verdict"]:
        print("VIOLATION property=C03 replay=%s" % path)
        print("  still failing: %s" % v["verdict"])
        return 1
    print("replay: case passes on the current tree")
    return 0
