"""C07 - concurrent queries on a shared class are correct under every interleaving.

model    : C07_AvThreads (one action per shared access) checked by TLC for the coded lock discipline
           (all invariants + termination) and for two faulty disciplines, which TLC must refute.
spec->code: the expected result of every call comes from the model (what the call returns alone);
           real threads are driven by the deterministic scheduler through systematic preemption
           (thread A preempted after its j-th step, the others run, A resumes) and random schedule
           words; results and exceptions of every thread are judged.
code->spec: the abstract event trace of every controlled run is validated by Trace_C07 (drift only).
"""
import json

from permuta import Av, Basis, MeshBasis, MeshPatt, Perm

from harness import sched, tlc, util
from harness.adapters import c02

INVS = ["MutualExclusion", "NoException", "NoTornLevel", "ResultsAsAlone", "LockDiscipline"]


def call_tla(c):
    return '[op |-> "%s", n |-> %d, q |-> %s]' % (c[0], c[1] if c[0] != "member" else 0, tlc.tla(list(c[1])) if c[0] == "member" else "<<>>")


def expand(prog):
    """The model knows count / list / member; up_to_length(n) is the sequence of of_length(0..n) fetched lazily."""
    out = []
    for th in prog:
        row = []
        for c in th:
            if c[0] == "upto":
                row += [("list", k) for k in range(c[1] + 1)]
            else:
                row.append(c)
        out.append(row)
    return out


def prog_tla(prog):
    prog = expand(prog)
    return "<< " + ", ".join("<< " + ", ".join(call_tla(c) for c in th) + " >>" for th in prog) + " >>"


def model_jobs(basis, prog):
    jobs = []
    for mode in ("as_coded", "none", "readlen_outside"):
        mod = util.mc_module("MC_C07", "C07_AvThreads", {"BasisDef": c02.tla_basis(basis), "ProgDef": prog_tla(prog)})
        k = {"Basis": ("<-", "BasisDef"), "Prog": ("<-", "ProgDef"), "LockMode": '"%s"' % mode}
        c = util.cfg(spec="Spec", invariants=INVS + ["EmitExpected"], properties=["Termination"] if mode == "as_coded" else [], constants=k)
        jobs.append(("MC_C07", c, {"files": {"MC_C07.tla": mod}, "timeout": 1800, "allow_violation": True, "workers": 2, "full_jit": False}))
    return jobs


def real_call(av, c):
    if c[0] == "count":
        return av.count(c[1])
    if c[0] == "list":
        return [tuple(p) for p in av.of_length(c[1])]
    if c[0] == "upto":
        return [tuple(p) for p in av.up_to_length(c[1])]
    return Perm(c[1]) in av


def judge(ctx, case, prog, expected, out):
    ok = True
    for t, th in enumerate(prog):
        st, val = out["results"].get(t + 1, ("raise", "thread did not finish"))
        if st == "raise":
            ctx.violation(dict(case, thread=t + 1), "NoException", "results as when run alone", val)
            ok = False
            continue
        ek = 0
        for k, c in enumerate(th):
            e = expected[t][ek]
            got = val[k]
            if c[0] == "upto":
                exp = sorted(tuple(x) for j in range(c[1] + 1) for x in expected[t][ek + j]["set"])
                ek += c[1] + 1
                good = sorted(got) == exp and len(got) == len(exp) and [len(x) for x in got] == sorted(len(x) for x in got)
                if not good:
                    ctx.violation(dict(case, thread=t + 1, call=k), "ResultsAsAlone", exp, got)
                    ok = False
                continue
            ek += 1
            if c[0] == "count":
                good = got == e["n"]
                exp = e["n"]
            elif c[0] == "list":
                exp = sorted(tuple(x) for x in e["set"])
                good = sorted(got) == exp and len(got) == len(exp)
            else:
                good, exp = got == e["flag"], e["flag"]
            if not good:
                ctx.violation(dict(case, thread=t + 1, call=k), "ResultsAsAlone", exp, got)
                ok = False
    if out["stuck"]:
        ctx.violation(case, "NoDeadlock", "all threads finish", "scheduler found no runnable thread / a thread never yielded")
        ok = False
    return ok


def fresh(basis):
    """A class object as a fresh process would see it: the class cache is cleared through the public API and every
    other process-wide dict kept on Av (per-class locks, memo tables a refactoring may add) is emptied."""
    Av.clear_cache()
    for name, val in list(vars(Av).items()):
        if isinstance(val, dict) and name != "__dict__":
            val.clear()
    return c02.make_av(basis, 0)


def scenarios(quick):
    A = c02.classical((0, 2, 1))
    B = c02.classical((0, 1, 2), (2, 1, 0))
    M = c02.mesh(((0, 1), [(1, 0), (1, 1), (1, 2)]))
    C = c02.classical((1, 0, 2, 3), (2, 0, 1))
    out = [
        (A, [[("count", 3)], [("count", 3)]]),
        (A, [[("count", 4)], [("count", 2), ("list", 3)]]),
        (A, [[("list", 3), ("count", 1)], [("member", (1, 0, 2)), ("count", 4)]]),
        (B, [[("count", 4)], [("list", 3), ("member", (1, 0))]]),
        (M, [[("count", 3)], [("list", 2), ("count", 3)]]),
        (C, [[("count", 2), ("count", 4)], [("count", 3), ("member", (0, 1, 2, 3))]]),
        (A, [[("upto", 3)], [("count", 4), ("member", (0, 2, 1))]]),          # a generator fetching levels lazily while another thread extends the class
    ]
    if not quick:
        out += [
            (A, [[("count", 5)], [("list", 4), ("count", 2)]]),
            (C, [[("list", 4)], [("count", 4)], [("member", (2, 0, 1))]]),
            (A, [[("count", 3)], [("count", 2)], [("list", 3)]]),
            (M, [[("list", 3)], [("member", (0, 1)), ("count", 4)], [("count", 2)]]),
        ]
    return out


def run(ctx):
    quick = ctx.tier == "quick"
    rnd = util.rng(ctx, 7)
    scen = scenarios(quick)
    jobs = []
    for basis, prog in scen:
        jobs += model_jobs(basis, prog)
    results = tlc.run_many(jobs, parallel=8)
    expected = []
    for si, (basis, prog) in enumerate(scen):
        ok_run, none_run, outside_run = results[3 * si: 3 * si + 3]
        for r, mode in ((ok_run, "as_coded"), (none_run, "none"), (outside_run, "readlen_outside")):
            ctx.add_tlc(r, "scenario %d mode %s" % (si, mode))
        if ok_run.violated:
            raise tlc.MachineryFailure("C07 model: as_coded violates %s in scenario %d\n%s" % (ok_run.violated, si, ok_run.stdout[-1500:]))
        if not none_run.violated or not outside_run.violated:
            raise tlc.MachineryFailure("C07 model vacuous: a faulty lock discipline passed in scenario %d" % si)
        exp = [r for r in ok_run.records if "expected" in r]
        if not exp:
            raise tlc.MachineryFailure("C07 model: no terminal state emitted in scenario %d" % si)
        expected.append(exp[0]["expected"])
    # unbounded-time lemma about the lock discipline (Apalache, inductive invariant); a failure here means the
    # abstract discipline itself is unsound, a missing tool is only noted
    ok_l, detail = tlc.apalache_inductive("C07_LockInd")
    if not ok_l and "not runnable" not in detail:
        raise tlc.MachineryFailure("C07_LockInd: inductive invariant not discharged: " + detail)
    ctx.note("proved_lemmas", {"C07_LockInd (mutual exclusion, 4 threads, unbounded time; Apalache inductive invariant)": detail})
    ctx.note("faulty_designs_refuted", {"none": "yes", "readlen_outside": "yes", "scenarios": len(scen)})

    # ---- real threads ---------------------------------------------------------------------
    sch = sched.Scheduler()
    events = []
    bases_list = []
    nruns = 0
    blocked_runs = 0
    behaviours_followed = behaviours_total = 0
    budget = 260 if quick else 4000
    per_scen = budget // len(scen)
    for si, (basis, prog) in enumerate(scen):
        if basis not in bases_list:
            bases_list.append(basis)
        bi = bases_list.index(basis) + 1
        order = list(range(1, len(prog) + 1))

        def fns_for(av):
            return {t + 1: (lambda th=th: [real_call(av, c) for c in th]) for t, th in enumerate(prog)}
        # how many steps does each thread take when it runs first and alone?
        lens = {}
        for first in order:
            av = fresh(basis)
            out = sch.run(av, fns_for(av), sched.preempt_policy(order, first, 10 ** 9))
            lens[first] = out["steps"][first]
            judge(ctx, {"kind": "schedule", "scenario": si, "first": first, "j": "inf"}, prog, expected[si], out)
            nruns += 1
        per_first = max(4, per_scen // len(order))
        for first in order:
            n = lens[first]
            if n <= per_first:
                js = list(range(0, n + 1))
            else:
                js = sorted(set([0, 1, 2, n - 1, n] + [int(x * n / per_first) for x in range(per_first)] +
                                [rnd.randrange(n) for _ in range(per_first // 4)]))
            for j in js:
                av = fresh(basis)
                out = sch.run(av, fns_for(av), sched.preempt_policy(order, first, j))
                nruns += 1
                blocked_runs += 1 if out["saw_block"] else 0
                case = {"kind": "schedule", "basis": basis, "prog": prog, "scenario": si, "first": first, "j": j}
                ctx.case(("sched", si, first, j), nontrivial=0 < j < n)
                good = judge(ctx, case, prog, expected[si], out)
                events.append({"ev": "Run", "b": bi, "t": 0})
                events += [dict({"k": 0, "size": 0}, **e) for e in out["events"]]
                if not good and len(ctx.violations) > 40:
                    break
        # preemption bound 2: the first thread is stopped early (all of its first steps), a second thread is
        # stopped somewhere inside its own call, then the first resumes - the window of check-then-act races
        # at the start of a call (lazily created locks, class-cache get-or-create)
        if si < (3 if quick else len(scen)):
            early = range(0, 12 if quick else 30)
            for first in order:
                for second in order:
                    if second == first:
                        continue
                    n2 = lens[second]
                    j2s = sorted({min(n2, x) for x in ((4, 9, 16, 35, 80) if quick else (2, 4, 6, 9, 12, 16, 25, 35, 50, 80, 120, 200, 400))})
                    for j1 in early:
                        for j2 in j2s:
                            av = fresh(basis)
                            out = sch.run(av, fns_for(av), sched.two_preempt_policy(order, first, j1, second, j2))
                            nruns += 1
                            blocked_runs += 1 if out["saw_block"] else 0
                            ctx.case(("sched2", si, first, j1, second, j2), nontrivial=True)
                            judge(ctx, {"kind": "schedule2", "basis": basis, "prog": prog, "scenario": si, "first": first, "j": j1,
                                        "second": second, "j2": j2}, prog, expected[si], out)
                            events.append({"ev": "Run", "b": bi, "t": 0})
                            events += [dict({"k": 0, "size": 0}, **e) for e in out["events"]]
        # behaviours of the model (TLC -simulate on C07_Behaviours) followed event by event on the real threads
        if si < (4 if quick else len(scen)) and not any(c[0] == "upto" for th in prog for c in th):
            mod = util.mc_module("MC_C07B", "C07_Behaviours", {"BasisDef": c02.tla_basis(basis), "ProgDef": prog_tla(prog)})
            kb = {"Basis": ("<-", "BasisDef"), "Prog": ("<-", "ProgDef"), "LockMode": '"as_coded"'}
            rb = tlc.run_tlc("MC_C07B", util.cfg(init="HInit", next_="HNext", invariants=INVS + ["EmitHist"], constants=kb),
                             workers=1, files={"MC_C07B.tla": mod}, simulate="num=%d" % (25 if quick else 300), depth=400,
                             seed=ctx.seed % 100000 + si, timeout=600)
            ctx.add_tlc(rb, "simulated behaviours of the coded discipline")
            words = []
            for x in rb.records:
                if "word" in x and x["word"] not in words:
                    words.append(x["word"])
            followed = 0
            for word in words:
                av = fresh(basis)
                sch.completed = {t: 0 for t in order}

                def counting(th, t):
                    def run_calls():
                        out_ = []
                        for c in th:
                            out_.append(real_call(av, c))
                            sch.completed[t] += 1
                        return out_
                    return run_calls
                pol = sched.EventWordPolicy(word)
                out = sch.run(av, {t + 1: counting(th, t + 1) for t, th in enumerate(prog)}, pol)
                sch.completed = {}
                nruns += 1
                ctx.case(("behaviour", si, json.dumps(word)[:200]), nontrivial=True)
                judge(ctx, {"kind": "behaviour", "basis": basis, "prog": prog, "scenario": si, "word": word}, prog, expected[si], out)
                if pol.mismatch is not None:
                    ctx.drift("scenario %d: model behaviour not followed by the real threads at event %s" % (si, pol.mismatch))
                else:
                    followed += 1
            behaviours_followed += followed
            behaviours_total += len(words)
        # random schedule words (also for three threads)
        for _ in range(6 if quick else 200):
            word = [rnd.choice(order) for _ in range(rnd.randint(20, 400))]
            av = fresh(basis)
            out = sch.run(av, fns_for(av), sched.word_policy(word))
            nruns += 1
            blocked_runs += 1 if out["saw_block"] else 0
            ctx.case(("word", si, tuple(word[:30])), nontrivial=True)
            judge(ctx, {"kind": "word", "basis": basis, "prog": prog, "scenario": si, "word": word}, prog, expected[si], out)
            events.append({"ev": "Run", "b": bi, "t": 0})
            events += [dict({"k": 0, "size": 0}, **e) for e in out["events"]]
    # waits on the class lock that are bounded (a timeout, a non-blocking attempt): the same one-preemption exploration with
    # every such wait expiring while another thread holds the lock - a schedule in which the holder is slow
    if sch.saw_bounded:
        sch.expire_bounded = True
        nexp = 0
        for si, (basis, prog) in enumerate(scen):
            order = list(range(1, len(prog) + 1))

            def fns_exp(av):
                return {t + 1: (lambda th=th: [real_call(av, c) for c in th]) for t, th in enumerate(prog)}
            for first in order:
                av = fresh(basis)
                n = sch.run(av, fns_exp(av), sched.preempt_policy(order, first, 10 ** 9))["steps"][first]
                for j in sorted({int(x * n / 40) for x in range(40)} | {0, 1, 2, n - 1}):
                    av = fresh(basis)
                    out = sch.run(av, fns_exp(av), sched.preempt_policy(order, first, j))
                    nruns += 1
                    nexp += 1
                    ctx.case(("sched-expiring", si, first, j), nontrivial=True)
                    judge(ctx, {"kind": "schedule", "basis": basis, "prog": prog, "scenario": si, "first": first, "j": j,
                                "bounded_waits_expire": True}, prog, expected[si], out)
        sch.expire_bounded = False
        ctx.note("runs_with_expiring_bounded_waits", nexp)
    # thorough tier: opcode granularity (f_trace_opcodes) for the first scenarios, strided preemption points
    if not quick:
        sch_op = sched.Scheduler(opcodes=True)
        for si, (basis, prog) in enumerate(scen[:3]):
            order = list(range(1, len(prog) + 1))

            def fns_op(av):
                return {t + 1: (lambda th=th: [real_call(av, c) for c in th]) for t, th in enumerate(prog)}
            for first in order:
                av = fresh(basis)
                out = sch_op.run(av, fns_op(av), sched.preempt_policy(order, first, 10 ** 9))
                n_op = out["steps"][first]
                for j in sorted({int(x * n_op / 150) for x in range(150)} | {0, 1, 2, 3, n_op - 1}):
                    av = fresh(basis)
                    out = sch_op.run(av, fns_op(av), sched.preempt_policy(order, first, j))
                    nruns += 1
                    blocked_runs += 1 if out["saw_block"] else 0
                    ctx.case(("sched-opcode", si, first, j), nontrivial=0 < j < n_op)
                    judge(ctx, {"kind": "schedule", "basis": basis, "prog": prog, "scenario": si, "first": first, "j": j, "opcodes": True},
                          prog, expected[si], out)
        ctx.note("opcode_granularity", "first three scenarios, 150 preemption points per thread")
    if blocked_runs == 0:
        raise tlc.MachineryFailure("C07: no controlled run ever had a thread blocked on the lock (preemption never hit the critical section)")
    if behaviours_total and behaviours_followed == 0:
        ctx.drift("none of the %d simulated model behaviours could be followed event by event" % behaviours_total)
    ctx.note("model_behaviours_followed_event_by_event", "%d of %d" % (behaviours_followed, behaviours_total))
    ctx.note("controlled_runs", nruns)
    ctx.note("runs_with_a_blocked_thread", blocked_runs)
    ctx.sample({"scenario": scen[1][1], "expected": expected[1], "events_of_one_run": events[1:12]})

    # ---- code -> spec: event traces (drift only) -------------------------------------------
    mod = util.mc_module("MC_T07", "Trace_C07", {"BasesDef": "<< " + ", ".join(c02.tla_basis(b) for b in bases_list) + " >>"})
    import os
    import tempfile
    fd, path = tempfile.mkstemp(prefix="verif-trace-", suffix=".json")
    try:
        with os.fdopen(fd, "w") as fh:
            json.dump(events, fh)
        c = util.cfg(init="TInit", next_="TNext", constants={"BasesT": ("<-", "BasesDef")}, invariants=["TraceDone"])
        res = tlc.run_tlc("MC_T07", c, workers=1, timeout=1800, env={"TRACE_FILE": path}, files={"MC_T07.tla": mod})
    finally:
        os.unlink(path)
    ctx.add_tlc(res, "event trace validation")
    done = [r for r in res.records if "verdict" in r]
    if len(done) != 1 or done[0]["n"] != len(events):
        raise tlc.MachineryFailure("Trace_C07: trace not fully consumed\n" + res.stdout[-1500:])
    ctx.traces += nruns
    for b in done[0]["verdict"][:5]:
        ctx.drift("event %s breaks %s of the coded lock discipline" % (events[b["i"] - 1], b["clause"]))
    ctx.note("abstract_events", len(events))
    ctx.rule = ("TLC checks the thread model for the coded lock discipline and refutes two faulty ones; real threads run "
                "under a deterministic scheduler: for every scenario and every thread, preemption after its j-th line "
                "step (all j, or a stride plus random points), then the other threads; plus random schedule words; "
                "non-trivial = a preemption strictly inside the first thread's run")
    ctx.assumptions.append("interleavings at line granularity inside permset.py; C-level atomicity of list.append / dict operations under the GIL is assumed")


def replay(ctx, path):
    rec = json.load(open(path))
    case = rec["case"]
    basis = case["basis"]
    basis["elems"] = [tuple(e) if not basis["mesh"] else (tuple(e[0]), tuple(map(tuple, e[1]))) for e in basis["elems"]]
    prog = [[(c[0], tuple(c[1]) if c[0] == "member" else c[1]) for c in th] for th in case["prog"]]
    jobs = model_jobs(basis, prog)[:1]
    r = tlc.run_many(jobs, parallel=1)[0]
    ctx.add_tlc(r, "replay model")
    expected = [x for x in r.records if "expected" in x][0]["expected"]
    sch = sched.Scheduler(opcodes=bool(case.get("opcodes")))
    sch.expire_bounded = bool(case.get("bounded_waits_expire"))
    av = fresh(basis)
    order = list(range(1, len(prog) + 1))
    fns = {t + 1: (lambda th=th: [real_call(av, c) for c in th]) for t, th in enumerate(prog)}
    if case["kind"] == "behaviour":
        pol = sched.EventWordPolicy(case["word"])
    elif case["kind"] == "word":
        pol = sched.word_policy(case["word"])
    elif case["kind"] == "schedule2":
        pol = sched.two_preempt_policy(order, case["first"], case["j"], case["second"], case["j2"])
    else:
        pol = sched.preempt_policy(order, case["first"], case["j"])
    out = sch.run(av, fns, pol)
    before = len(ctx.violations)
    judge(ctx, case, prog, expected, out)
    if len(ctx.violations) > before:
        return 1
    print("replay: schedule passes on the current tree")
    return 0
