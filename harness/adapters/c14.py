"""C14 - pin words decode to their pin permutations and reflect pattern containment.

spec -> code : the pin machine C14_PinMachine reaches every pin word up to MaxLen with its configuration on
               relative order; per word: permutation, quadrant of every pin, strictness, factors, the direction
               words of a strict word, and (short words) containment of every sigma plus the occurrence sets of
               short u by the ideal factor search and by the deviation FactorsMayTouch.  The real PinWords
               functions are compared; the enumeration and the mapping tables are compared as sets.
code -> spec : longer random words and (word, sigma) pairs judged by Trace_C14.
"""
import json

from permuta import Perm
from permuta.permutils.pin_words import PinWords

from harness import tlc, util

INVS = ["Decodes", "ConfigIsRun", "NumeralsInQuadrant", "Separates", "Theorem", "DeviationOverReports"]
SITE = "PinWords.pinword_occurrences / pinword_contains (factor search)"
DEV = "FactorsMayTouch"


def judge_word(ctx, rec, table_words):
    w = "".join(rec["w"])
    base = {"kind": "word", "w": w}
    n = len(w)
    table_words.setdefault(n, {})[w] = tuple(rec["perm"])
    ctx.case(w, nontrivial=n >= 2 and any(c in "ULDR" for c in w))
    st, got = util.call(PinWords.pinword_to_perm, w)
    if st == "raise" or tuple(got) != tuple(rec["perm"]):
        ctx.violation(base, "DecodesToPinPermutation", rec["perm"], got)
    for i, q in enumerate(rec["quad"]):
        st, got = util.call(PinWords.quadrant, w, i)
        if st == "raise" or got != q:
            ctx.violation(dict(base, index=i), "QuadrantOfPin", q, got)
    if PinWords.is_strict_pinword(w) != rec["strict"]:
        ctx.violation(base, "StrictPinWord", rec["strict"], not rec["strict"])
    want_f = ["".join(f) for f in rec["factors"]]
    if n and w[0] in "1234" and PinWords.factor_pinword(w) != want_f:
        ctx.violation(base, "Factors", want_f, PinWords.factor_pinword(w))
    if rec["strict"] and n >= 1:
        want = sorted("".join(m) for m in rec["sptom"])
        st, got = util.call(PinWords.sp_to_m, w)
        if st == "raise" or sorted(got) != want:
            ctx.violation(base, "TranslationsInverse", want, got)
        for m in want:
            st, back = util.call(PinWords.m_to_sp, m)
            if st == "raise" or back != w:
                ctx.violation(dict(base, m=m), "TranslationsInverse", w, back)
    for c in rec["contains"]:
        s = Perm(c["s"])
        us = PinWords.perm_to_pinword_mapping(len(s))[s]
        st, got = util.call(lambda: any(PinWords.pinword_contains(w, u) for u in us))
        case = dict(base, sigma=c["s"])
        if st == "raise":
            ctx.violation(case, "NoException", c["truth"], got)
        elif got != c["truth"]:
            e = ctx.known_entry(SITE, DEV)
            if got == c["dev"] and e is not None:
                ctx.known_finding(e, {"w": w, "sigma": c["s"], "answered": got, "truth": c["truth"]})
            else:
                ctx.violation(case, "ContainmentReflected", c["truth"], got)
    for o in rec["occ"]:
        u = "".join(o["u"])
        ideal = sorted(tuple(t) for t in o["ideal"])
        dev = sorted(tuple(t) for t in o["dev"])
        st, got = util.call(lambda: sorted(PinWords.pinword_occurrences(w, u)))
        case = dict(base, u=u)
        if st == "raise":
            ctx.violation(case, "NoException", ideal, got)
            continue
        if got != ideal:
            e = ctx.known_entry(SITE, DEV)
            if got == dev and e is not None:
                ctx.known_finding(e, {"w": w, "u": u, "listed": got, "ideal": ideal})
            else:
                ctx.violation(case, "FactorOccurrences", ideal, got)
        if PinWords.pinword_contains(w, u) != bool(got):
            ctx.violation(case, "ContainsAgreesWithOccurrences", bool(got), not bool(got))
        if PinWords.is_strict_pinword(u) and u:
            sp = sorted(PinWords.pinword_occurrences_sp(w, u))
            if [(i,) for i in sp] != ideal or PinWords.pinword_contains_sp(w, u) != bool(ideal):
                ctx.violation(case, "StrictFactorOccurrences", ideal, sp)


def run(ctx):
    quick = ctx.tier == "quick"
    maxlen, thm = (4, 3) if quick else (5, 4)
    nsh = 16
    san = ("LibSanity_Pin", util.cfg(init="Init", next_="Next"), {"workers": 2, "timeout": 1800})
    jobs = [san]
    for s in range(nsh):
        k = {"MaxLen": maxlen, "ThmLen": thm, "PattLen": 3, "OccLen": 2, "Shard": s, "NShards": nsh}
        jobs.append(("C14_PinMachine", util.cfg(init="Init", next_="Next", invariants=INVS + ["EmitState"], constants=k), {"timeout": 3000}))
    results = tlc.run_many(jobs, parallel=16)
    ctx.add_tlc(results[0], "LibSanity_Pin")
    table = {}
    nrec = 0
    for r in results[1:]:
        ctx.add_tlc(r, "pin machine shard")
        for rec in r.records:
            nrec += 1
            judge_word(ctx, rec, table)
            if nrec % 499 == 0:
                ctx.sample({"machine": "C14_PinMachine", "w": rec["w"], "perm": rec["perm"], "quad": rec["quad"], "contains": rec["contains"][:3]})
    # the enumeration and the three mapping tables, as sets
    for n in range(0, maxlen + 1):
        words = table.get(n, {})
        st, got = util.call(lambda: sorted(PinWords.pinwords_of_length(n)))
        if st == "raise" or got != sorted(words) or len(got) != len(set(got)):
            ctx.violation({"kind": "enumeration", "n": n}, "EnumerationIsPinWords", len(words), len(got) if st == "ok" else got)
            continue
        m = PinWords.pinword_to_perm_mapping(n)
        if {k: tuple(v) for k, v in m.items()} != words:
            ctx.violation({"kind": "table", "n": n}, "WordToPermTable", "the decoded permutation of every word", "differs")
        inv = {}
        for wd, p in words.items():
            inv.setdefault(p, set()).add(wd)
        pm = PinWords.perm_to_pinword_mapping(n)
        if {tuple(k): set(v) for k, v in pm.items() if v} != inv:
            ctx.violation({"kind": "table", "n": n}, "TablesInverse", "inverse of the word table", "differs")
        spm = PinWords.perm_to_strict_pinword_mapping(n)
        want = {p: {x for x in ws if PinWords.is_strict_pinword(x)} for p, ws in inv.items()}
        if {tuple(k): set(v) for k, v in spm.items()} != want:
            ctx.violation({"kind": "table", "n": n}, "StrictTable", "strict words of each permutation", "differs")
    exp_words = sum(len(table.get(n, {})) for n in range(maxlen + 1))
    if nrec != exp_words or exp_words < 1800:
        raise tlc.MachineryFailure("C14: %d words emitted" % nrec)
    ctx.exhaustive = True
    ctx.note("words", nrec)

    # ---- code -> spec: longer words ---------------------------------------------------------------
    rnd = util.rng(ctx, 14)
    events = []

    def rand_word(n):
        w = ""
        while len(w) < n:
            opts = list("1234")
            if w and w[-1] not in "UD":
                opts += ["U", "D"] * 2
            if w and w[-1] not in "LR":
                opts += ["L", "R"] * 2
            w += rnd.choice(opts)
        return w
    for _ in range(120 if quick else 1200):
        w = rand_word(rnd.randint(5, 8))
        events.append({"op": "Perm", "w": list(w), "res": list(PinWords.pinword_to_perm(w))})
        i = rnd.randrange(len(w))
        events.append({"op": "Quad", "w": list(w), "i": i, "res": PinWords.quadrant(w, i)})
    for _ in range(150 if quick else 1500):
        w = rand_word(rnd.randint(4, 6))
        s = util.rand_perm(rnd, rnd.choice([2, 3, 3]))
        us = PinWords.perm_to_pinword_mapping(len(s))[Perm(s)]
        events.append({"op": "Contains", "w": list(w), "s": list(s), "res": any(PinWords.pinword_contains(w, u) for u in us)})
    chunks = [events[i::6] for i in range(6)]
    import concurrent.futures
    with concurrent.futures.ThreadPoolExecutor(max_workers=6) as ex:
        vs = list(ex.map(lambda ch: util.validate_trace(ctx, "Trace_C14", ch, constants={"TPattLen": 3}, ntraces=len(ch), timeout=3000), chunks))
    for ch, v in zip(chunks, vs):
        for b in v["verdict"]:
            ev = ch[b["i"] - 1]
            if b["clause"].startswith("dev:"):
                e = ctx.known_entry(SITE, DEV)
                if e is not None:
                    ctx.known_finding(e, {"w": "".join(ev["w"]), "sigma": ev["s"], "answered": ev["res"]})
                    continue
            ctx.violation({"kind": "trace-event", "event": ev}, b["clause"].replace("dev:", "ContainmentReflected/"), "value by definition", ev["res"])
    ctx.case(n=len(events))
    ctx.sample({"machine": "Trace_C14", "events": events[:2]})
    ctx.rule = ("TLC explores the pin machine: every pin word up to the bound is a reachable state (non-trivial = length >= 2 "
                "with a direction letter); decoding, quadrants, factors, translations, containment of every sigma <= 3 and "
                "occurrence sets of every u <= 2 are compared with the real code; the containment theorem is an invariant of "
                "the model; longer random words and pairs via Trace_C14")


def replay(ctx, path):
    rec = json.load(open(path))
    case = rec["case"]
    if case["kind"] != "word":
        raise tlc.MachineryFailure("only word cases can be replayed individually")
    w = case["w"]
    events = [{"op": "Perm", "w": list(w), "res": list(PinWords.pinword_to_perm(w))}]
    if "sigma" in case:
        s = Perm(case["sigma"])
        us = PinWords.perm_to_pinword_mapping(len(s))[s]
        events.append({"op": "Contains", "w": list(w), "s": case["sigma"], "res": any(PinWords.pinword_contains(w, u) for u in us)})
    if "index" in case:
        events.append({"op": "Quad", "w": list(w), "i": case["index"], "res": PinWords.quadrant(w, case["index"])})
    v = util.validate_trace(ctx, "Trace_C14", events, constants={"TPattLen": 3})
    real = [b for b in v["verdict"] if not b["clause"].startswith("dev:")]
    if real:
        print("VIOLATION property=C14 replay=%s" % path)
        return 1
    print("replay: case passes on the current tree (or is the listed known finding)")
    return 0
