"""C14 - pin words decode to their pin permutations and reflect pattern containment.

spec -> code : the pin machine C14_PinMachine reaches every pin word up to MaxLen with its configuration on
               relative order; per word: permutation, quadrant of every pin, strictness, factors, the direction
               words of a strict word, and (short words) containment of every sigma plus the occurrence sets of
               short u by the ideal factor search and by the deviation FactorsMayTouch.  The real PinWords
               functions are compared; the enumeration and the mapping tables are compared as sets.
code -> spec : longer random words and (word, sigma) pairs judged by Trace_C14.
Beyond the machine's bound (all judged by TLC through single-purpose Trace_C14 events): quadrant at every index,
factors, both translations, occurrence lists and containment of word pairs of lengths up to 9 (u longer than w, u = w,
empty words, the same question twice, two occurrence iterators alive at once); the three lru-cached tables compared
again after all other calls and after being rebuilt in the opposite order; a cold process whose first call is the
length-6 table: every permutation the table maps to no word must be unreachable for the pin machine (TLC invariant
TargetsNotPin), every other one is witnessed by a word that TLC decodes to it.
"""
import concurrent.futures
import json
import subprocess
import sys

from permuta import Perm
from permuta.permutils.pin_words import PinWords

from harness import tlc, util

INVS = ["Decodes", "ConfigIsRun", "NumeralsInQuadrant", "Separates", "Theorem", "DeviationOverReports"]
SITE = "PinWords.pinword_occurrences / pinword_contains (factor search)"
DEV = "FactorsMayTouch"


def judge_word(ctx, rec, table_words):
    w = "".join(rec["w"])
    base = {"kind": "word", "w": w}
    n = len(w)
    table_words.setdefault(n, {})[w] = tuple(rec["perm"])
    ctx.case(w, nontrivial=n >= 2 and any(c in "ULDR" for c in w))
    st, got = util.call(PinWords.pinword_to_perm, w)
    if st == "raise" or tuple(got) != tuple(rec["perm"]):
        ctx.violation(base, "DecodesToPinPermutation", rec["perm"], got)
    for i, q in enumerate(rec["quad"]):
        st, got = util.call(PinWords.quadrant, w, i)
        if st == "raise" or got != q:
            ctx.violation(dict(base, index=i), "QuadrantOfPin", q, got)
    if PinWords.is_strict_pinword(w) != rec["strict"]:
        ctx.violation(base, "StrictPinWord", rec["strict"], not rec["strict"])
    want_f = ["".join(f) for f in rec["factors"]]
    if n and w[0] in "1234" and PinWords.factor_pinword(w) != want_f:
        ctx.violation(base, "Factors", want_f, PinWords.factor_pinword(w))
    if rec["strict"] and n >= 1:
        want = sorted("".join(m) for m in rec["sptom"])
        st, got = util.call(PinWords.sp_to_m, w)
        if st == "raise" or sorted(got) != want:
            ctx.violation(base, "TranslationsInverse", want, got)
        for m in want:
            st, back = util.call(PinWords.m_to_sp, m)
            if st == "raise" or back != w:
                ctx.violation(dict(base, m=m), "TranslationsInverse", w, back)
    for c in rec["contains"]:
        s = Perm(c["s"])
        us = PinWords.perm_to_pinword_mapping(len(s))[s]
        st, got = util.call(lambda: any(PinWords.pinword_contains(w, u) for u in us))
        case = dict(base, sigma=c["s"])
        if st == "raise":
            ctx.violation(case, "NoException", c["truth"], got)
        elif got != c["truth"]:
            e = ctx.known_entry(SITE, DEV)
            if got == c["dev"] and e is not None:
                ctx.known_finding(e, {"w": w, "sigma": c["s"], "answered": got, "truth": c["truth"]})
            else:
                ctx.violation(case, "ContainmentReflected", c["truth"], got)
    for o in rec["occ"]:
        u = "".join(o["u"])
        ideal = sorted(tuple(t) for t in o["ideal"])
        dev = sorted(tuple(t) for t in o["dev"])
        st, got = util.call(lambda: sorted(PinWords.pinword_occurrences(w, u)))
        case = dict(base, u=u)
        if st == "raise":
            ctx.violation(case, "NoException", ideal, got)
            continue
        if got != ideal:
            e = ctx.known_entry(SITE, DEV)
            if got == dev and e is not None:
                ctx.known_finding(e, {"w": w, "u": u, "listed": got, "ideal": ideal})
            else:
                ctx.violation(case, "FactorOccurrences", ideal, got)
        if PinWords.pinword_contains(w, u) != bool(got):
            ctx.violation(case, "ContainsAgreesWithOccurrences", bool(got), not bool(got))
        if PinWords.is_strict_pinword(u) and u:
            sp = sorted(PinWords.pinword_occurrences_sp(w, u))
            if [(i,) for i in sp] != ideal or PinWords.pinword_contains_sp(w, u) != bool(ideal):
                ctx.violation(case, "StrictFactorOccurrences", ideal, sp)


# ---- the lru-cached tables ------------------------------------------------------------------------------
TABLES = {"w2p": "pinword_to_perm_mapping", "p2w": "perm_to_pinword_mapping", "strict": "perm_to_strict_pinword_mapping"}


def compare_tables(ctx, table, maxlen, stage, order, enumerate_too=True):
    """The enumeration and the three tables against the machine's words (as sets).  The tables are fetched in the
    given order and compared only after all three have been fetched: building one must not disturb another."""
    for n in range(0, maxlen + 1):
        words = table.get(n, {})
        case = {"kind": "table", "n": n, "stage": stage, "fetched in order": list(order)}
        if enumerate_too:
            # two enumerations alive at once, consumed alternately
            g1, g2 = PinWords.pinwords_of_length(n), PinWords.pinwords_of_length(n)
            st, got = util.call(lambda: [x for pair in zip(g1, g2) for x in pair])
            ctx.case()
            if st == "raise" or sorted(got[0::2]) != sorted(words) or sorted(got[1::2]) != sorted(words):
                ctx.violation(dict(case, kind="enumeration"), "EnumerationIsPinWords", len(words), len(got) // 2 if st == "ok" else got)
                continue
        got = {}
        for which in order:
            st, m = util.call(getattr(PinWords, TABLES[which]), n)
            if st == "raise":
                ctx.violation(dict(case, table=TABLES[which]), "NoException", "a table", m)
            else:
                got[which] = m
        ctx.case(n=3)
        inv = {}
        for wd, p in words.items():
            inv.setdefault(p, set()).add(wd)
        if "w2p" in got and {k: tuple(v) for k, v in got["w2p"].items()} != words:
            ctx.violation(dict(case, table=TABLES["w2p"]), "WordToPermTable", "the decoded permutation of every word", "differs")
        if "p2w" in got and {tuple(k): set(v) for k, v in got["p2w"].items() if v} != inv:
            ctx.violation(dict(case, table=TABLES["p2w"]), "TablesInverse", "inverse of the word table", "differs")
        want = {p: {x for x in ws if PinWords.is_strict_pinword(x)} for p, ws in inv.items()}
        if "strict" in got and {tuple(k): set(v) for k, v in got["strict"].items() if tuple(k) in want or v} != want:
            ctx.violation(dict(case, table=TABLES["strict"]), "StrictTable", "strict words of each permutation", "differs")


def clear_tables():
    """Forget the cached tables, where the implementation caches them with functools.lru_cache."""
    done = 0
    for name in TABLES.values():
        f = getattr(getattr(PinWords, name), "cache_clear", None)
        if f is not None:
            f()
            done += 1
    return done


# ---- a cold process: the first call is the table of a length beyond the machine's bound -----------------------
COLD = r"""
import json, sys
from permuta import Perm
from permuta.permutils.pin_words import PinWords
n = int(sys.argv[1])
m = PinWords.perm_to_pinword_mapping(n)
out = []
for p in Perm.of_length(n):
    try:
        ws = sorted(m[p])
    except KeyError:
        ws = []
    out.append({"p": list(p), "n": len(ws), "words": sorted(set(ws[:1] + ws[-1:] + ws[len(ws) // 2:len(ws) // 2 + 1]))})
sm = PinWords.perm_to_strict_pinword_mapping(n)
for rec in out:
    rec["strict"] = sorted(sm.get(Perm(rec["p"]), ()))
    try:
        rec["again"] = len(m[Perm(rec["p"])])
    except KeyError:
        rec["again"] = 0
print(json.dumps(out))
"""


def cold_table_start(n):
    return subprocess.Popen([sys.executable, "-c", COLD, str(n)], stdout=subprocess.PIPE, stderr=subprocess.PIPE, text=True, env=util.hash_env(14))


def cold_table_finish(ctx, proc, n, events):
    """Judge the length-n table of the cold process: TLC must find no word decoding to a permutation the table maps
    to no word (invariant TargetsNotPin over all words of length <= n); the listed words of every other permutation
    become Perm events (TLC decodes them)."""
    try:
        out, err = proc.communicate(timeout=1500)
    except subprocess.TimeoutExpired as ex:
        proc.kill()
        raise tlc.MachineryFailure("C14: cold table process timed out") from ex
    case = {"kind": "table", "n": n, "stage": "cold process, first call"}
    if proc.returncode != 0:
        ctx.violation(case, "NoException", "the tables of length %d" % n, err.strip().splitlines()[-1:] or "failed")
        return
    recs = json.loads(out)
    targets = [r["p"] for r in recs if r["n"] == 0]
    nev = 0
    for r in recs:
        ctx.case(("cold", tuple(r["p"])), nontrivial=True)
        if r["again"] != r["n"]:
            ctx.violation(dict(case, p=r["p"]), "TablesInverse", {"words": r["n"]}, {"words when asked again": r["again"]})
        for w in sorted(set(r["words"] + r["strict"])):
            events.append({"op": "Perm", "w": list(w), "res": r["p"]})
            nev += 1
        if any(not PinWords.is_strict_pinword(w) for w in r["strict"]) or (r["n"] == 0 and r["strict"]):
            ctx.violation(dict(case, p=r["p"]), "StrictTable", "strict words of the permutation", r["strict"])
    ctx.note("cold_table", {"n": n, "permutations": len(recs), "mapped_to_no_word": len(targets), "witness_word_events": nev})
    if not targets:
        return
    defs = {"TargetsDef": "{" + ", ".join(tlc.tla(list(p)) for p in targets) + "}"}
    k = {"MaxLen": n, "ThmLen": 0, "PattLen": 0, "OccLen": 0, "Shard": 0, "NShards": 1, "Targets": ("<-", "TargetsDef")}
    c = util.cfg(init="Init", next_="Next", invariants=["Decodes", "TargetsNotPin"], constants=k)
    r = tlc.run_tlc("MC_C14", c, workers=4, timeout=3000, files={"MC_C14.tla": util.mc_module("MC_C14", "C14_PinMachine", defs)},
                    allow_violation=True)
    ctx.add_tlc(r, "pin machine to length %d: permutations the table maps to no word are unreachable" % n)
    if r.violated == "TargetsNotPin":
        import re
        words = re.findall(r"word = (<<.*?>>)\n", r.stdout)
        ctx.violation(dict(case, word=words[-1] if words else "?"), "TablesInverse",
                      "every pin permutation is mapped to its words", "a permutation mapped to no word is the permutation of this word (TLC counterexample)")
    elif r.violated:
        raise tlc.MachineryFailure("C14: %s violated in the length-%d run" % (r.violated, n))


# ---- the interpreter's optimised mode (python -O strips assert statements): the decoded permutation, the quadrants
# and the strict-word test must not depend on it; the observations become ordinary Trace_C14 events
OPT = r"""
import json, sys
from permuta.permutils.pin_words import PinWords
assert False, "this process must run with -O"
out = []
for w in json.loads(sys.argv[1]):
    try:
        out.append({"w": w, "perm": list(PinWords.pinword_to_perm(w)), "quad": [PinWords.quadrant(w, i) for i in range(len(w))]})
    except Exception as e:
        out.append({"w": w, "raise": type(e).__name__ + ": " + str(e)[:80]})
print(json.dumps(out))
"""


def optimised_start(words):
    return subprocess.Popen([sys.executable, "-O", "-c", OPT, json.dumps(words)], stdout=subprocess.PIPE, stderr=subprocess.PIPE, text=True, env=util.hash_env(141))


def optimised_finish(ctx, proc, events):
    try:
        out, err = proc.communicate(timeout=600)
    except subprocess.TimeoutExpired as ex:
        proc.kill()
        raise tlc.MachineryFailure("C14: python -O process timed out") from ex
    if proc.returncode != 0:
        raise tlc.MachineryFailure("C14: python -O process failed: " + err[-300:])
    recs = json.loads(out)
    for r in recs:
        case = {"kind": "trace-event", "interpreter": "python -O", "w": r["w"]}
        ctx.case(("opt", r["w"]), nontrivial=len(r["w"]) >= 2)
        if "raise" in r:
            ctx.violation(case, "NoException", "the permutation of the pin word", r["raise"])
            continue
        events.append({"op": "Perm", "w": list(r["w"]), "res": r["perm"]})
        for i, q in enumerate(r["quad"]):
            if i % 3 == 0:
                events.append({"op": "Quad", "w": list(r["w"]), "i": i, "res": q})
    ctx.note("python_O_words", len(recs))


# ---- code -> spec beyond the machine's bound: single-purpose events ---------------------------------------------------
def rand_strict(rnd, n):
    w = rnd.choice("1234")
    while len(w) < n:
        w += rnd.choice("UDLR" if len(w) == 1 else ("LR" if w[-1] in "UD" else "UD"))
    return w


def occ_event(ctx, w, u, res=None):
    if res is None:
        st, res = util.call(lambda: list(PinWords.pinword_occurrences(w, u)))
        if st == "raise":
            ctx.violation({"kind": "word", "w": w, "u": u}, "NoException", "the occurrences of u in w", res)
            return []
    st, c = util.call(PinWords.pinword_contains, w, u)
    if st == "raise":
        ctx.violation({"kind": "word", "w": w, "u": u}, "NoException", "pinword_contains", c)
        return []
    return [{"op": "Occ", "w": list(w), "u": list(u), "res": [list(t) for t in res], "c": bool(c)}]


def long_events(ctx, rnd, quick, rand_word):
    ev = []
    few = lambda w, k=4: sum(c in "1234" for c in w) <= k      # the model enumerates |w| ^ (number of factors of u) tuples
    scale = 1 if quick else 8
    # quadrant of every pin (first and last index included), factors, of words of length 6..9
    for i in range(24 * scale):
        w = rand_word(rnd.randint(6, 9)) if i % 3 else rand_strict(rnd, rnd.randint(6, 9))
        for idx in range(len(w)):
            st, got = util.call(PinWords.quadrant, w, idx)
            ev.append({"op": "Quad", "w": list(w), "i": idx, "res": got if st == "ok" else "raised " + str(got)})
        ev.append({"op": "Factors", "w": list(w), "res": [list(f) for f in PinWords.factor_pinword(w)]})
    for w in ["", "1", "2", "3", "4"]:
        ev.append({"op": "Factors", "w": list(w), "res": [list(f) for f in PinWords.factor_pinword(w)]})
    # the two translations on long strict words / direction words, there and back
    for i in range(30 * scale):
        w = rand_strict(rnd, rnd.choice([1, 2, 6, 7, 8, 9]))
        st, ms = util.call(PinWords.sp_to_m, w)
        if st == "raise":
            ctx.violation({"kind": "word", "w": w}, "NoException", "sp_to_m", ms)
            continue
        ev.append({"op": "SpToM", "w": list(w), "res": [list(m) for m in ms]})
        for m in ms:
            st, back = util.call(PinWords.m_to_sp, m)
            ev.append({"op": "MToSp", "m": list(m), "res": list(back) if st == "ok" else ["raised"]})
    for i in range(20 * scale):
        m = rnd.choice("UDLR")
        while len(m) < rnd.choice([2, 3, 7, 8, 9, 10]):
            m += rnd.choice("LR" if m[-1] in "UD" else "UD")
        st, sp = util.call(PinWords.m_to_sp, m)
        ev.append({"op": "MToSp", "m": list(m), "res": list(sp) if st == "ok" else ["raised"]})
        if st == "ok":
            st, ms = util.call(PinWords.sp_to_m, sp)
            ev.append({"op": "SpToM", "w": list(sp), "res": [list(x) for x in ms] if st == "ok" else [["raised"]]})
    # occurrence lists and containment of word pairs
    pairs = [("", ""), ("", "1"), ("", "3R"), ("1", ""), ("1", "1"), ("1", "3"), ("4", "4R"), ("2U", "2U"), ("2U", "2UL")]
    for i in range(36 * scale):
        w = rand_word(rnd.randint(5, 9))
        kind = i % 6
        if kind in (0, 1):
            u = rand_word(rnd.randint(1, 4))
        elif kind == 2:                                   # u = w
            while not few(w):
                w = rand_word(rnd.randint(5, 9))
            u = w
        elif kind == 3:                                   # u longer than w
            u = w + rand_word(rnd.randint(1, 3)) if rnd.random() < 0.5 else rand_word(len(w) + rnd.randint(1, 2))
            while not few(u):
                w = rand_word(rnd.randint(5, 8))
                u = w + rnd.choice("1234")
        elif kind == 4:                                   # a numeral-led piece of w
            starts = [j for j, c in enumerate(w) if c in "1234"]
            a = rnd.choice(starts)
            u = w[a:a + rnd.randint(1, 5)]
            u = u if few(u) else u[:2]
        else:                                             # the empty word and single letters
            u = rnd.choice(["", "1", "2", "3", "4"])
        pairs.append((w, u))
    pairs += [pairs[j] for j in range(9, len(pairs), 5)]  # the same question again, after the others
    for w, u in pairs:
        ev += occ_event(ctx, w, u)
    # two occurrence iterators alive at once, consumed alternately
    for i in range(8 * scale):
        w = rand_word(rnd.randint(6, 9))
        u1, u2 = rand_word(rnd.randint(1, 3)), rnd.choice(["1", "2", "3", "4", rand_word(2)])
        try:
            it1, it2 = PinWords.pinword_occurrences(w, u1), PinWords.pinword_occurrences(w, u2)
            r1, r2 = [], []
            live = [(it1, r1), (it2, r2)]
            while live:
                for pair in list(live):
                    x = next(pair[0], None)
                    if x is None:
                        live.remove(pair)
                    else:
                        pair[1].append(x)
        except Exception as e:  # pylint: disable=broad-except
            ctx.violation({"kind": "word", "w": w, "u": [u1, u2]}, "NoException", "two live occurrence iterators", type(e).__name__)
            continue
        ev += occ_event(ctx, w, u1, r1) + occ_event(ctx, w, u2, r2)
    # strict factors
    for i in range(30 * scale):
        w = rand_word(rnd.randint(5, 9)) if i % 4 else rand_strict(rnd, rnd.randint(5, 8))
        kind = i % 5
        u = rand_strict(rnd, rnd.randint(1, 4))
        if kind == 3:
            starts = [j for j in range(len(w)) if all(c in "UDLR" for c in w[j + 1:j + 3])]
            if starts:
                a = rnd.choice(starts)
                st, q = util.call(PinWords.quadrant, w, a)
                u = (q if st == "ok" and q in "1234" else "1") + w[a + 1:a + 3]
        if kind == 4 and PinWords.is_strict_pinword(w):
            u = w if i % 2 else w + rnd.choice("UD" if w[-1] in "LR" else "LR")
        st, res = util.call(lambda: list(PinWords.pinword_occurrences_sp(w, u)))
        st2, c = util.call(PinWords.pinword_contains_sp, w, u)
        if st == "raise" or st2 == "raise":
            ctx.violation({"kind": "word", "w": w, "u": u}, "NoException", "strict occurrences", [res, c])
            continue
        ev.append({"op": "OccSP", "w": list(w), "u": list(u), "res": list(res), "c": bool(c)})
    return ev


def run(ctx):
    quick = ctx.tier == "quick"
    maxlen, thm = (4, 3) if quick else (5, 4)
    nsh = 16
    san = ("LibSanity_Pin", util.cfg(init="Init", next_="Next"), {"workers": 2, "timeout": 1800})
    jobs = [san]
    for s in range(nsh):
        k = {"MaxLen": maxlen, "ThmLen": thm, "PattLen": 3, "OccLen": 2, "Shard": s, "NShards": nsh, "Targets": "{}"}
        jobs.append(("C14_PinMachine", util.cfg(init="Init", next_="Next", invariants=INVS + ["EmitState"], constants=k), {"timeout": 3000}))
    cold_n = 6
    cold = cold_table_start(cold_n)
    results = tlc.run_many(jobs, parallel=16)
    ctx.add_tlc(results[0], "LibSanity_Pin")
    table = {}
    nrec = 0
    for r in results[1:]:
        ctx.add_tlc(r, "pin machine shard")
        for rec in r.records:
            nrec += 1
            judge_word(ctx, rec, table)
            if nrec % 499 == 0:
                ctx.sample({"machine": "C14_PinMachine", "w": rec["w"], "perm": rec["perm"], "quad": rec["quad"], "contains": rec["contains"][:3]})
    # the enumeration and the three mapping tables, as sets
    compare_tables(ctx, table, maxlen, "first use", ("w2p", "p2w", "strict"))
    exp_words = sum(len(table.get(n, {})) for n in range(maxlen + 1))
    if nrec != exp_words or exp_words < 1800:
        raise tlc.MachineryFailure("C14: %d words emitted" % nrec)
    ctx.exhaustive = True
    ctx.note("words", nrec)

    # ---- code -> spec: longer words ---------------------------------------------------------------
    rnd = util.rng(ctx, 14)
    events = []

    def rand_word(n):
        w = ""
        while len(w) < n:
            opts = list("1234")
            if w and w[-1] not in "UD":
                opts += ["U", "D"] * 2
            if w and w[-1] not in "LR":
                opts += ["L", "R"] * 2
            w += rnd.choice(opts)
        return w
    for _ in range(120 if quick else 1200):
        w = rand_word(rnd.randint(5, 8))
        events.append({"op": "Perm", "w": list(w), "res": list(PinWords.pinword_to_perm(w))})
        i = rnd.randrange(len(w))
        events.append({"op": "Quad", "w": list(w), "i": i, "res": PinWords.quadrant(w, i)})
    for _ in range(150 if quick else 1500):
        w = rand_word(rnd.randint(4, 6))
        s = util.rand_perm(rnd, rnd.choice([2, 3, 3]))
        us = PinWords.perm_to_pinword_mapping(len(s))[Perm(s)]
        events.append({"op": "Contains", "w": list(w), "s": list(s), "res": any(PinWords.pinword_contains(w, u) for u in us)})
    opt = optimised_start([rand_word(n) for n in (1, 1, 2, 2, 3, 3, 4, 5, 6, 7, 8, 9)] + [rand_word(rnd.randint(2, 7)) for _ in range(20 if quick else 200)])
    # patterns of length 4-5 made of points of the pin permutation of a word of length 7-9 (contained by construction):
    # staircase words after two equal numerals, and random ones
    for it in range(300 if quick else 3000):
        if it % 2 == 0:
            num = rnd.choice("1234")
            a, b = rnd.choice([("U", "L"), ("U", "R"), ("L", "U"), ("R", "U"), ("D", "L"), ("D", "R"), ("L", "D"), ("R", "D")])
            w = num * 2 + "".join((a, b)[i % 2] for i in range(rnd.randint(5, 7)))
        else:
            w = rand_word(rnd.randint(7, 9))
        st, P = util.call(PinWords.pinword_to_perm, w)
        if st == "raise":
            continue
        for _ in range(3):
            k = rnd.choice([4, 5, 5])
            idx = sorted(rnd.sample(range(len(P)), k))
            s = Perm.to_standard([P[i] for i in idx])
            st, us = util.call(lambda: PinWords.perm_to_pinword_mapping(len(s))[s])
            if st == "raise":
                ctx.violation({"kind": "trace-event", "w": w, "sigma": list(s)}, "TablesInverse", "the pin words of a sub-permutation of a pin permutation", us)
                continue
            events.append({"op": "Found", "w": list(w), "s": list(s), "res": any(PinWords.pinword_contains(w, u) for u in us)})
    nold = len(events)
    events += long_events(ctx, rnd, quick, rand_word)
    ctx.note("single_purpose_events", {op: sum(1 for e in events[nold:] if e["op"] == op) for op in ("Quad", "Factors", "SpToM", "MToSp", "Occ", "OccSP")})
    # the tables again: after all the other calls, then rebuilt with the strict table first
    compare_tables(ctx, table, maxlen, "after all other calls", ("w2p", "p2w", "strict"), enumerate_too=False)
    if clear_tables() == len(TABLES):
        compare_tables(ctx, table, maxlen, "rebuilt after cache_clear", ("strict", "p2w", "w2p"), enumerate_too=False)
        compare_tables(ctx, table, maxlen, "asked again", ("p2w", "strict", "w2p"), enumerate_too=False)
    else:
        ctx.note("tables_not_lru_cached", True)
    cold_table_finish(ctx, cold, cold_n, events)
    optimised_finish(ctx, opt, events)
    nch = 8
    chunks = [events[i::nch] for i in range(nch)]
    with concurrent.futures.ThreadPoolExecutor(max_workers=nch) as ex:
        vs = list(ex.map(lambda ch: util.validate_trace(ctx, "Trace_C14", ch, constants={"TPattLen": 3}, ntraces=len(ch), timeout=3000), chunks))
    for ch, v in zip(chunks, vs):
        for b in v["verdict"]:
            ev = ch[b["i"] - 1]
            if b["clause"].startswith("dev:"):
                e = ctx.known_entry(SITE, DEV)
                if e is not None:
                    ctx.known_finding(e, {"w": "".join(ev["w"]), "sigma": ev["s"], "answered": ev["res"]} if "s" in ev else
                                      {"w": "".join(ev["w"]), "u": "".join(ev["u"]), "listed": ev["res"]})
                    continue
            ctx.violation({"kind": "trace-event", "event": ev}, b["clause"].replace("dev:", "ContainmentReflected/"), "value by definition", ev["res"])
    ctx.case(n=len(events))
    ctx.sample({"machine": "Trace_C14", "events": events[:2]})
    ctx.rule = ("TLC explores the pin machine: every pin word up to the bound is a reachable state (non-trivial = length >= 2 "
                "with a direction letter); decoding, quadrants, factors, translations, containment of every sigma <= 3 and "
                "occurrence sets of every u <= 2 are compared with the real code; the containment theorem is an invariant of "
                "the model; longer random words and pairs via Trace_C14; beyond the bound, single-purpose Trace_C14 events: "
                "quadrant at every index, factors, translations there and back, occurrence lists of word pairs up to length 9 "
                "(u longer than / equal to w, empty words, repeated questions, two live iterators); tables re-compared after all "
                "other calls and after a rebuild in the opposite order; length-6 table of a cold process against TargetsNotPin")


def replay(ctx, path):
    rec = json.load(open(path))
    case = rec["case"]
    if case["kind"] != "word":
        raise tlc.MachineryFailure("only word cases can be replayed individually")
    w = case["w"]
    events = [{"op": "Perm", "w": list(w), "res": list(PinWords.pinword_to_perm(w))}]
    if "sigma" in case:
        s = Perm(case["sigma"])
        us = PinWords.perm_to_pinword_mapping(len(s))[s]
        events.append({"op": "Contains", "w": list(w), "s": case["sigma"], "res": any(PinWords.pinword_contains(w, u) for u in us)})
    if "index" in case:
        events.append({"op": "Quad", "w": list(w), "i": case["index"], "res": PinWords.quadrant(w, case["index"])})
    v = util.validate_trace(ctx, "Trace_C14", events, constants={"TPattLen": 3})
    real = [b for b in v["verdict"] if not b["clause"].startswith("dev:")]
    if real:
        print("VIOLATION property=C14 replay=%s" % path)
        return 1
    print("replay: case passes on the current tree (or is the listed known finding)")
    return 0
