"""X01 (extension) - permuta.misc.UnionFind against the machine X01_UnionFind: transition tour over every
(forest state, call) edge for N = 4 (quick) / 5, replies judged, parent array compared (drift)."""
from permuta.misc import UnionFind

from harness import tlc, tour, util


def run(ctx):
    n = 4 if ctx.tier == "quick" else 5
    c = util.cfg(init="Init", next_="Next", invariants=["IsPartition", "ForestRepresents", "RootsHoldSizes", "ReplyCorrect", "Shallow"],
                 view="View", action_constraints=["EmitEdge"], constants={"N": n})
    r = tlc.run_tlc("X01_UnionFind", c, workers=1, timeout=1800)
    ctx.add_tlc(r, "union-find machine")
    edges = r.records
    paths = tour.tours(edges, tour.key({"parent": [-1] * n}), max_path=200)
    for path in paths:
        uf = UnionFind(n)
        hist = []
        for idx in path:
            e = edges[idx]
            a = e["act"]
            hist.append(a)
            case = {"kind": "path", "n": n, "path": list(hist)}
            ctx.case(("edge", idx), nontrivial=len(hist) > 1)
            if a["name"] == "Find":
                got = uf.find(a["a"])
                blocks = [set(b) for b in e["blocks"]]
                blk = [b for b in blocks if a["a"] in b][0]
                if got not in blk or got != e["reply"]["n"]:
                    (ctx.violation if got not in blk else (lambda *x: ctx.drift("find returns another representative than the model")))(case, "ReplyCorrect", e["reply"]["n"], got)
            elif a["name"] == "Size":
                got = uf.size(a["a"])
                if got != e["reply"]["n"]:
                    ctx.violation(case, "ReplyCorrect", e["reply"]["n"], got)
            else:
                got = uf.unite(a["a"], a["b"])
                if got != e["reply"]["flag"]:
                    ctx.violation(case, "ReplyCorrect", e["reply"]["flag"], got)
            if list(uf._parent) != e["to"]["parent"]:
                ctx.drift("parent array %s differs from the model %s after %s" % (uf._parent, e["to"]["parent"], hist[-3:]))
        ctx.traces += 1
    ctx.exhaustive = True
    ctx.sample({"machine": "X01_UnionFind", "edge": edges[len(edges) // 2]})
    ctx.rule = "transition tour over every (forest state, call) edge of the union-find machine; non-trivial = not the first call of a path"


def replay(ctx, path):
    raise tlc.MachineryFailure("X01 cases are replayed by re-running the check")
